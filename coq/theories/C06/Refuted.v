(* PV.C06.Refuted — counter-models: one per guard conjunct / rejected shape that exists because the CODE
   fails (= known findings), with computed witnesses. *)
From Coq Require Import QArith List Bool PArith Arith NArith Lia.
From PV Require Import Base.PyData C06.Model C06.Wf C06.ProofsWf.
Import ListNotations.
Local Open Scope nat_scope.

(* a concrete heap: a frame is the list of the write sites that touched it *)
Definition cframe := list N.
Definition cmutate (k : N) (f : cframe) : cframe := k :: f.
Definition h0 : state cframe := mkstate (fun _ => []) (fun _ => []) 1.

(* the shape modeling.add_admid / add_cmt / nonmem.update._add_cmt had before /repo 27ca82d (kept as the
   counter-model of the checker and as regression: the repaired shape is Examples.copy_then_write_accepted):
     dataset = model.dataset ; dataset[col] = value ; model.replace(dataset=dataset) *)
Definition inplace_prog : list eop := [Alias 1%N; Move 2%N [1%N]; Write 1 2%N 7%N].

(* the checker rejects it, and it really changes the input frame *)
Theorem inplace_write_refuted :
  exists (p : list eop) (h : state cframe),
    (forall v, st h v = []) /\ 0 < nx h /\ no_write_to_alias p = false /\
    hp (run cframe cmutate [] p h) 0 <> hp h 0.
Proof.
  exists inplace_prog, h0. repeat split; try (vm_compute; reflexivity); try (cbn; lia).
  vm_compute. discriminate.
Qed.

(* REPAIRED in /repo caae827 (regression example): Parameter.create('x', 1.0, lower=nan) used to be accepted with
   init outside the bounds; NaN bounds are refused now *)
Example param_nan_bound_fixed :
  g_bounds_not_nan (Some XNaN) None = false /\
  param_create 1%positive (XFin 1) (Some XNaN) None false = None /\
  param_create 1%positive (XFin 1) None (Some XNaN) false = None /\
  param_replace (mkparam 1%positive (XFin 1) (XFin 0) (XFin 2) false) None None None (Some XNaN) None = None.
Proof. repeat split; vm_compute; reflexivity. Qed.

(* REPAIRED in /repo 1b723c6 (regression examples): create(single distribution) and rvs + dist run the uniqueness
   loop now *)
Example rvs_single_fixed :
  rvs_create_single [1%positive; 1%positive] = None /\ rvs_create_single [1%positive; 2%positive] = Some [[1%positive; 2%positive]].
Proof. split; vm_compute; reflexivity. Qed.
Example rvs_add_fixed :
  rvs_wf [[1%positive]] = true /\ g_fresh_names [[1%positive]] [1%positive] = false /\
  rvs_add [[1%positive]] [1%positive] = None /\ rvs_add [[1%positive]] [2%positive] = Some [[1%positive]; [2%positive]].
Proof. repeat split; vm_compute; reflexivity. Qed.

(* Model.replace(datainfo=...) does not look at the statements again: drop_columns(model, ['WGT']) returns a model
   whose statements still use WGT.  Symbols: 1 THETA, 3 WGT, 4 t, 5 NaN, 10 CL *)
Theorem replace_datainfo_refuted :
  exists base new_base t nan l,
    canon base t nan l = None /\ g_symbols_kept new_base t nan l = false /\
    canon new_base t nan (replace_columns l new_base) = Some NotDefined.
Proof.
  exists [1%positive; 3%positive], [1%positive], 4%positive, 5%positive,
         [mkc false 10%positive None [1%positive; 3%positive]].
  repeat split; vm_compute; reflexivity.
Qed.

(* a cache carried over to an object with other content (frozenmapping.replace keeping `_hash`): after the source
   has been hashed once, the new object's hash is the OLD content's hash *)
Theorem cache_carry_refuted :
  exists (H : nat -> nat) (src : cobj nat) (newc : nat),
    cache_ok nat H src = true /\
    cache_ok nat H (cstep nat H KCarry (cstep nat H KLazy src newc) newc) = false /\
    chash nat H (cstep nat H KCarry (cstep nat H KLazy src newc) newc) <> H newc.
Proof.
  exists (fun x => x), (mkcobj nat 1 None), 2. repeat split; try (vm_compute; reflexivity). vm_compute. discriminate.
Qed.

(* frozenmapping — REPAIRED in /repo e8b6237 (regression examples): == is Mapping.__eq__ (the items as an unordered
   dict); __hash__ used to hash the tuple of the items in insertion order (term (1, 3)), now the frozenset of the
   items (term (1, 2)). *)
Definition frozenmapping_class_before_fix : eqclass := mkclass [(1%positive, 2)] [(1%positive, 3)].
Definition frozenmapping_class : eqclass := mkclass [(1%positive, 2)] [(1%positive, 2)].
Example frozenmapping_hash_order_fixed :
  cls_consistent frozenmapping_class = true /\ hashed_not_compared frozenmapping_class_before_fix = [(1%positive, 3)].
Proof. split; vm_compute; reflexivity. Qed.
Example frozenmapping_eq_hash_consistent :
  forall a b : obj, cls_eq frozenmapping_class a b = true -> cls_hkey frozenmapping_class a = cls_hkey frozenmapping_class b.
Proof. intros a b. apply cls_eq_hash. vm_compute. reflexivity. Qed.

(* a field store after construction (Statements.direct_dependencies: `stats = Statements(); stats._statements = [...]`)
   changes an existing instance — and there the new field value is a list, so the returned object is unhashable *)
Theorem post_construction_store_refuted :
  exists (l : list (skind * nat * nat)) (o : inst) (g : nat),
    forallb (fun s => skind_allowed (fst (fst s))) l = false /\ i_fields (run_stores l o) g <> i_fields o g.
Proof.
  exists [(SOther, 1, 7)], (mkinst (fun _ => 0) None), 1. split; [vm_compute; reflexivity | vm_compute; discriminate].
Qed.

(* ruvsearch stores a model (IIV_on_RUV_n) whose Y statement uses ETA_BASE while the random variable is called eta_base:
   the statement list is not acceptable to _canonicalize_statements over the model's own symbols.
   Symbols: 1 theta, 2 eta_base (the rv), 3 ETA_RV1, 4 EPS_1, 5 t, 6 NaN, 7 ETA_BASE (used, undefined), 10 Y *)
Theorem renamed_symbol_refuted :
  exists base t nan l,
    canon base t nan l = Some NotDefined /\
    canon (7%positive :: base) t nan l = None.
Proof.
  exists [1%positive; 2%positive; 3%positive; 4%positive], 5%positive, 6%positive,
         [mkc false 10%positive None [4%positive; 3%positive; 7%positive; 1%positive]].
  split; vm_compute; reflexivity.
Qed.

(* ---- eq / hash: the term tables of the classes whose __hash__ hashes (or hashed) a term __eq__ does not compare.
   Field numbers are arbitrary labels; how = 0 raw attribute, 1 attribute seen through a function. *)
(* CompartmentalSystem — REPAIRED in /repo 698ece8 (regression examples).  == compares _t,
   nx.to_dict_of_dicts(_g), dosing_compartments.  Before the fix hash((_t, _g)) hashed the networkx graph object
   itself, i.e. by identity (term (_g, raw), not compared); now __hash__ hashes _t and the node / edge-rate
   content of _g (term (_g, through a function)), which == compares. *)
Definition cs_class_before_fix : eqclass :=
  mkclass [(1%positive, 0); (2%positive, 1); (3%positive, 0)] [(1%positive, 0); (2%positive, 0)].
Definition cs_class : eqclass :=
  mkclass [(1%positive, 0); (2%positive, 1); (3%positive, 0)] [(1%positive, 0); (2%positive, 1)].
Example cs_hash_fixed :
  cls_consistent cs_class = true /\ hashed_not_compared cs_class = [] /\
  hashed_not_compared cs_class_before_fix = [(2%positive, 0)].
Proof. repeat split; vm_compute; reflexivity. Qed.
(* the law for the repaired class: equal systems have equal hash keys *)
Example cs_eq_hash_consistent :
  forall a b : obj, cls_eq cs_class a b = true -> cls_hkey cs_class a = cls_hkey cs_class b.
Proof. intros a b. apply cls_eq_hash. vm_compute. reflexivity. Qed.

(* ColumnInfo — REPAIRED in /repo d301152 (regression examples): == used to ignore _descriptor (term 9) which
   __hash__ includes; == compares it now *)
Definition colinfo_class_before_fix : eqclass :=
  mkclass [(1%positive,0); (2%positive,0); (3%positive,0); (4%positive,0); (5%positive,0); (6%positive,0); (7%positive,0); (8%positive,0)]
          [(1%positive,0); (2%positive,0); (3%positive,0); (4%positive,0); (5%positive,0); (7%positive,0); (8%positive,0); (9%positive,0)].
Definition colinfo_class : eqclass :=
  mkclass [(1%positive,0); (2%positive,0); (3%positive,0); (4%positive,0); (5%positive,0); (6%positive,0); (7%positive,0); (8%positive,0); (9%positive,0)]
          [(1%positive,0); (2%positive,0); (3%positive,0); (4%positive,0); (5%positive,0); (7%positive,0); (8%positive,0); (9%positive,0)].
Example colinfo_hash_fixed :
  cls_consistent colinfo_class = true /\ hashed_not_compared colinfo_class_before_fix = [(9%positive, 0)].
Proof. split; vm_compute; reflexivity. Qed.
Example colinfo_eq_hash_consistent :
  forall a b : obj, cls_eq colinfo_class a b = true -> cls_hkey colinfo_class a = cls_hkey colinfo_class b.
Proof. intros a b. apply cls_eq_hash. vm_compute. reflexivity. Qed.

(* Model — REPAIRED in /repo 15b36e3 (regression examples): == does not look at the dataset and compares the initial
   individual estimates through .equals (term (7, 1)); __hash__ used to include hash_df_runtime(_dataset) (term (10, 1))
   and the raw estimates frame (term (7, 0), unhashable: hash() raised); now it hashes only attributes == compares *)
Definition model_class_before_fix : eqclass :=
  mkclass [(1%positive,0); (2%positive,0); (3%positive,0); (4%positive,0); (5%positive,0); (6%positive,0); (7%positive,1); (8%positive,0); (9%positive,0)]
          [(1%positive,0); (2%positive,0); (3%positive,0); (4%positive,0); (5%positive,0); (6%positive,0); (7%positive,0); (8%positive,0); (10%positive,1); (9%positive,0)].
Definition model_class : eqclass :=
  mkclass [(1%positive,0); (2%positive,0); (3%positive,0); (4%positive,0); (5%positive,0); (6%positive,0); (7%positive,1); (8%positive,0); (9%positive,0)]
          [(1%positive,0); (2%positive,0); (3%positive,0); (4%positive,0); (5%positive,0); (6%positive,0); (8%positive,0); (9%positive,0)].
Example model_hash_fixed :
  cls_consistent model_class = true /\
  hashed_not_compared model_class_before_fix = [(7%positive, 0); (10%positive, 1)].
Proof. split; vm_compute; reflexivity. Qed.
Example model_eq_hash_consistent :
  forall a b : obj, cls_eq model_class a b = true -> cls_hkey model_class a = cls_hkey model_class b.
Proof. intros a b. apply cls_eq_hash. vm_compute. reflexivity. Qed.
