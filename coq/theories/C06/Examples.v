(* PV.C06.Examples — non-vacuity: concrete, non-trivial instances of the hypotheses / guards. *)
From Coq Require Import QArith List Bool PArith Arith NArith Lia.
From PV Require Import Base.PyData C06.Model C06.Wf C06.Refuted.
Import ListNotations.
Local Open Scope nat_scope.

(* the repaired shape: dataset = model.dataset.copy(); dataset[col] = v — accepted, and the write lands in the copy *)
Definition copy_prog : list eop := [Alias 1%N; Copy 2%N [1%N]; Write 1 2%N 7%N].
Example copy_then_write_accepted :
  no_write_to_alias copy_prog = true /\
  hp (run cframe cmutate [] copy_prog h0) 0 = hp h0 0 /\
  hp (run cframe cmutate [] copy_prog h0) 1 = [7%N].
Proof. repeat split; vm_compute; reflexivity. Qed.

(* a small table: f0(model) copies the dataset and hands the copy to f1, which writes into its parameter;
   f2(model) hands the dataset itself to f1; f3(df) returns its argument, f4 writes through f3's result *)
Definition ex_fdefs : list fdef := [
  mkfdef 1 (seqs [Op (Alias 2%N); Op (Copy 3%N [2%N]); Op (Call 4%N 9%N 1%N [[3%N]]); Op (Move 0%N [3%N])]);
  mkfdef 1 (Op (Write 1 1%N 11%N));
  mkfdef 1 (seqs [Op (Alias 2%N); Op (Call 3%N 9%N 1%N [[2%N]])]);
  mkfdef 1 (Op (Move 0%N [1%N]));
  mkfdef 1 (seqs [Op (Alias 2%N); Op (Call 3%N 9%N 3%N [[2%N]]);
                  Star (Part (Alt (Op (Write 1 3%N 12%N)) (Op (Copy 3%N [3%N]))))])
].
Definition ex_summ : list summary := solve 4 ex_fdefs 10 (bottom ex_fdefs).
Example table_example :
  consistent 4 ex_fdefs ex_summ = true /\
  map input_clean ex_summ = [true; true; false; true; false] /\
  map (param_clean 0) ex_summ = [true; false; true; true; true] /\
  offending (nth 2 ex_summ dsum) = [(1, 0, 11%N)] /\ offending (nth 4 ex_summ dsum) = [(1, 0, 12%N)].
Proof. repeat split; vm_compute; reflexivity. Qed.

(* an execution of f0 with a real call (depth 1) from a heap where the dataset is location 0 *)
Example exec_example :
  exists s', exec cframe cmutate [] (fun g => nth (N.to_nat g) ex_fdefs dfdef) 1
                  (body (nth 0 ex_fdefs dfdef)) h0 true s' /\ hp s' 0 = [] /\ hp s' 1 = [11%N].
Proof.
  eexists. split.
  - cbn [nth body ex_fdefs seqs fold_right].
    eapply E_seq_t; [apply E_alias|]. eapply E_seq_t; [apply E_copy|].
    eapply E_seq_t.
    + eapply E_call_ret. cbn [nth N.to_nat body arity]. apply (E_write_hit _ _ _ _ _ 1 1%N 11%N 1). cbn. left. reflexivity.
    + eapply E_seq_t; [apply E_move | apply E_skip].
  - split; vm_compute; reflexivity.
Qed.

(* Parameter.create / replace *)
Example param_examples :
  param_create 1%positive (XFin 1) (Some (XFin 0)) (Some (XFin 2)) false = Some (mkparam 1%positive (XFin 1) (XFin 0) (XFin 2) false) /\
  param_create 1%positive (XFin 3) (Some (XFin 0)) (Some (XFin 2)) false = None /\
  param_create 1%positive XNaN None None false = None /\
  param_replace (mkparam 1%positive (XFin 1) (XFin 0) (XFin 2) false) None (Some (XFin (1#2))) None None (Some true)
    = Some (mkparam 1%positive (XFin (1#2)) (XFin 0) (XFin 2) true) /\
  param_replace (mkparam 1%positive (XFin 1) (XFin 0) (XFin 2) false) None (Some (XFin 5)) None None None = None.
Proof. repeat split; vm_compute; reflexivity. Qed.

Example set_inits_example :
  set_inits [mkparam 1%positive (XFin 1) (XFin 0) (XFin 2) false; mkparam 2%positive (XFin 1) XNegInf XPosInf true]
            [(2%positive, XFin 7); (1%positive, XFin (1#2))]
  = Some [mkparam 1%positive (XFin (1#2)) (XFin 0) (XFin 2) false; mkparam 2%positive (XFin 7) XNegInf XPosInf true] /\
  set_inits [mkparam 1%positive (XFin 1) (XFin 0) (XFin 2) false] [(1%positive, XFin 3)] = None.
Proof. split; vm_compute; reflexivity. Qed.

(* set_fix: flags change, nothing else; an unchecked parameter (init 5 outside [0, 2]) makes it raise *)
Example set_fix_example :
  set_fix [mkparam 1%positive (XFin 1) (XFin 0) (XFin 2) false; mkparam 2%positive (XFin 1) XNegInf XPosInf true]
          [(2%positive, false); (1%positive, true)]
  = Some [mkparam 1%positive (XFin 1) (XFin 0) (XFin 2) true; mkparam 2%positive (XFin 1) XNegInf XPosInf false] /\
  forallb param_wf [mkparam 1%positive (XFin 1) (XFin 0) (XFin 2) false; mkparam 2%positive (XFin 1) XNegInf XPosInf true] = true /\
  set_fix [mkparam 1%positive (XFin 5) (XFin 0) (XFin 2) false] [(1%positive, true)] = None /\
  set_fix [mkparam 1%positive (XFin 5) (XFin 0) (XFin 2) false] [(3%positive, true)]
  = Some [mkparam 1%positive (XFin 5) (XFin 0) (XFin 2) false].
Proof. repeat split; vm_compute; reflexivity. Qed.

Example names_examples :
  params_create [mkparam 1%positive (XFin 1) XNegInf XPosInf false; mkparam 2%positive (XFin 1) XNegInf XPosInf false] <> None /\
  params_create [mkparam 1%positive (XFin 1) XNegInf XPosInf false; mkparam 1%positive (XFin 2) XNegInf XPosInf false] = None /\
  rvs_create_seq [[1%positive; 2%positive]; [3%positive]] = Some [[1%positive; 2%positive]; [3%positive]] /\
  rvs_create_seq [[1%positive; 2%positive]; [2%positive]] = None /\
  rvs_wf [[1%positive]] = true /\ g_fresh_names [[1%positive]] [2%positive; 3%positive] = true /\
  rvs_add [[1%positive]] [2%positive; 3%positive] = Some [[1%positive]; [2%positive; 3%positive]].
Proof. repeat split; try (vm_compute; reflexivity). vm_compute. discriminate. Qed.

(* _canonicalize_statements.  Symbols: 1 THETA, 2 ETA, 3 WGT (column), 4 t, 5 NaN, 10 CL, 11 V, 12 Y, 13 A_C, 14 S *)
Definition ex_stmts : list cstmt := [
  mkc false 10%positive None [1%positive; 3%positive];
  mkc false 11%positive None [10%positive; 2%positive];
  mkc true 1%positive None [];
  mkc false 12%positive None [11%positive; 4%positive; 5%positive]
].
Example canon_examples :
  canon [1%positive; 2%positive; 3%positive] 4%positive 5%positive ex_stmts = None /\
  g_no_fun_lhs ex_stmts = true /\
  g_no_nan 5%positive ex_stmts = false /\
  (* a symbol used before its definition / never defined *)
  canon [1%positive] 4%positive 5%positive [mkc false 11%positive None [10%positive]; mkc false 10%positive None [1%positive]] = Some DefinedAfter /\
  canon [1%positive] 4%positive 5%positive [mkc false 11%positive None [10%positive]] = Some NotDefined /\
  (* the function-symbol exemption: A_C(t) = S*t makes A_C and t known from there on *)
  canon [1%positive] 4%positive 5%positive [mkc false 14%positive None [1%positive];
                                            mkc false 13%positive (Some (13%positive, [4%positive])) [14%positive; 4%positive];
                                            mkc false 12%positive None [13%positive; 4%positive]] = None /\
  g_no_nan 5%positive (firstn 3 ex_stmts) = true /\
  defined_before_use (base_of [1%positive; 2%positive; 3%positive] 4%positive (firstn 3 ex_stmts)) (firstn 3 ex_stmts) = true.
Proof. repeat split; vm_compute; reflexivity. Qed.

(* cached hashes: hashing, then sharing through the copy-constructor keeps the invariant and the hash *)
Example cache_example :
  let H := fun x : nat => x * 7 in
  let o := mkcobj nat 3 None in
  let o1 := cstep nat H KLazy o 0 in
  let o2 := cstep nat H KInitShare o1 0 in
  let o3 := cstep nat H KInitNone o2 5 in
  cache_ok nat H o2 = true /\ chash nat H o2 = 21 /\ cache_ok nat H o3 = true /\ chash nat H o3 = 35 /\
  forallb ckind_allowed [KWrapper; KLazy; KInitNone; KInitShare] = true.
Proof. repeat split; vm_compute; reflexivity. Qed.

(* eq / hash: the Parameter class compares and hashes the same five terms *)
Definition parameter_class : eqclass :=
  mkclass [(1%positive,0); (2%positive,0); (3%positive,0); (4%positive,0); (5%positive,0)]
          [(1%positive,0); (2%positive,0); (3%positive,0); (4%positive,0); (5%positive,0)].
Example eqhash_examples :
  cls_consistent parameter_class = true /\ cls_consistent cs_class = true /\ cls_consistent cs_class_before_fix = false /\
  hashed_not_compared colinfo_class_before_fix = [(9%positive, 0)] /\ hashed_not_compared model_class_before_fix = [(7%positive, 0); (10%positive, 1)] /\ cls_consistent model_class = true /\
  cls_eq parameter_class (fun t => Pos.to_nat (fst t)) (fun t => Pos.to_nat (fst t)) = true /\
  cls_eq parameter_class (fun t => Pos.to_nat (fst t)) (fun _ => 0) = false.
Proof. repeat split; vm_compute; reflexivity. Qed.

(* the dataset channel: f(model) has the IR parameters 1 (model) and 2 (what model.dataset denotes); ret2 = 3.
   accepted: df = model.dataset.copy(); temp = model.replace(dataset=df); d = temp.dataset; d[...] = v
   rejected: d = model.dataset; d[...] = v          (write site 22 into origin 2 = dataset of argument 0) *)
Definition ds_fdefs : list fdef := [
  mkfdef 2 (seqs [Op (Move 4%N [2%N]); Op (Copy 6%N [4%N]); Op (Copy 8%N [1%N]); Op (Move 9%N [6%N]);
                  Op (Move 10%N [9%N]); Op (Write 1 10%N 21%N)]);
  mkfdef 2 (seqs [Op (Move 4%N [2%N]); Op (Write 1 4%N 22%N)])
].
Definition ds_summ : list summary := solve 4 ds_fdefs 10 (bottom ds_fdefs).
Example dataset_channel_example :
  consistent 4 ds_fdefs ds_summ = true /\
  map ds_clean ds_summ = [true; false] /\ map input_clean ds_summ = [true; true] /\
  offending (nth 1 ds_summ dsum) = [(1, 2, 22%N)] /\
  ret2 2 = 3%N.
Proof. repeat split; vm_compute; reflexivity. Qed.

(* immutability: a cache store and a singleton store leave the fields alone; construction stores are allowed kinds *)
Example immutable_example :
  i_fields (run_stores [(SCache, 0, 99); (SSingleton, 3, 4)] (mkinst (fun g => g + 1) None)) 5 = 6 /\
  forallb skind_allowed [SInit; SCache; SSingleton] = true /\ skind_allowed SOther = false.
Proof. repeat split; vm_compute; reflexivity. Qed.

(* the callee-first Gauss-Seidel search finds a post-fixpoint of the same table as the round-based search *)
Example solve_gs_example :
  consistent 4 ex_fdefs (solve_gs 4 ex_fdefs [1; 3; 0; 2; 4] 10 (bottom ex_fdefs)) = true /\
  map input_clean (solve_gs 4 ex_fdefs [1; 3; 0; 2; 4] 10 (bottom ex_fdefs)) = map input_clean ex_summ /\
  consistent 4 ds_fdefs (solve_gs 4 ds_fdefs [0; 1] 10 (bottom ds_fdefs)) = true.
Proof. repeat split; vm_compute; reflexivity. Qed.
