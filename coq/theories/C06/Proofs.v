(* PV.C06.Proofs — soundness of the dataset-effect analysis of PV.C06.Model:
   whatever a function's body does (any trace of its regular expression, any call depth, any
   abandonment point), a pre-existing location changes only if the analysis recorded a write to an
   origin that reaches it. *)
From Coq Require Import List Bool Arith NArith Lia.
From PV Require Import C06.Model.
Import ListNotations.
Local Open Scope nat_scope.

(* ---------------------------------------------------------------- small list facts *)
Lemma mem_In x l : mem x l = true <-> In x l.
Proof.
  unfold mem. rewrite existsb_exists. split.
  - intros [y [Hy E]]. apply Nat.eqb_eq in E. subst. exact Hy.
  - intros H. exists x. split; [exact H | apply Nat.eqb_refl].
Qed.

Lemma In_dedup x l : In x (dedup l) <-> In x l.
Proof.
  induction l as [|y tl IH]; cbn [dedup]; [tauto|].
  destruct (mem y tl) eqn:E.
  - rewrite IH. cbn [In]. split; [auto|]. intros [H|H]; [subst; apply mem_In; exact E | exact H].
  - cbn [In]. rewrite IH. tauto.
Qed.

Lemma lookup_remove_eq A v : lookup (remove A v) v = [].
Proof.
  induction A as [|[w os] tl IH]; cbn [remove filter lookup fst]; [reflexivity|].
  destruct (N.eqb w v) eqn:E; cbn [negb].
  - exact IH.
  - cbn [lookup]. rewrite E. exact IH.
Qed.

Lemma lookup_remove_neq A v w : w <> v -> lookup (remove A v) w = lookup A w.
Proof.
  intros NE. induction A as [|[u os] tl IH]; cbn [remove filter lookup fst]; [reflexivity|].
  destruct (N.eqb u v) eqn:E; cbn [negb].
  - apply N.eqb_eq in E. subst u. destruct (N.eqb v w) eqn:E2.
    + apply N.eqb_eq in E2. congruence.
    + exact IH.
  - cbn [lookup]. destruct (N.eqb u w); [reflexivity | exact IH].
Qed.

Lemma lookup_set_eq A v os : lookup (set A v os) v = os.
Proof.
  unfold set. destruct os as [|o tl].
  - apply lookup_remove_eq.
  - cbn [lookup]. rewrite N.eqb_refl. reflexivity.
Qed.

Lemma lookup_set_neq A v os w : w <> v -> lookup (set A v os) w = lookup A w.
Proof.
  intros NE. unfold set. destruct os as [|o tl].
  - apply lookup_remove_neq. exact NE.
  - cbn [lookup]. destruct (N.eqb v w) eqn:E.
    + apply N.eqb_eq in E. congruence.
    + apply lookup_remove_neq. exact NE.
Qed.

Definition in_kills (v : var) (o : origin) (K : astate) : Prop := exists os, In (v, os) K /\ In o os.

Lemma join_r A B v o : In o (lookup B v) -> In o (lookup (join A B) v).
Proof.
  induction A as [|[w os] tl IH]; cbn [join]; [auto|].
  intros H. destruct (N.eq_dec v w) as [E|NE].
  - subst w. rewrite lookup_set_eq. apply In_dedup. apply in_or_app. right. apply IH. exact H.
  - rewrite lookup_set_neq by exact NE. apply IH. exact H.
Qed.

Lemma join_kills A B v o : in_kills v o A -> In o (lookup (join A B) v).
Proof.
  induction A as [|[w os] tl IH]; intros [os' [HI HO]]; [destruct HI|].
  cbn [join]. destruct HI as [E|HI].
  - inversion E; subst. rewrite lookup_set_eq. apply In_dedup. apply in_or_app. left. exact HO.
  - destruct (N.eq_dec v w) as [E|NE].
    + subst w. rewrite lookup_set_eq. apply In_dedup. apply in_or_app. right. apply IH. exists os'. auto.
    + rewrite lookup_set_neq by exact NE. apply IH. exists os'. auto.
Qed.

Lemma lookup_in_kills A v o : In o (lookup A v) -> in_kills v o A.
Proof.
  induction A as [|[w os] tl IH]; cbn [lookup]; [intros []|].
  destruct (N.eqb w v) eqn:E.
  - apply N.eqb_eq in E. subst. intros H. exists os. split; [left; reflexivity | exact H].
  - intros H. destruct (IH H) as [os' [H1 H2]]. exists os'. split; [right; exact H1 | exact H2].
Qed.

Lemma join_l A B v o : In o (lookup A v) -> In o (lookup (join A B) v).
Proof. intros H. apply join_kills. apply lookup_in_kills. exact H. Qed.

Definition le_state (A B : astate) : Prop := forall v o, In o (lookup A v) -> In o (lookup B v).

Lemma sub_state_spec A B : sub_state A B = true -> le_state A B.
Proof.
  unfold sub_state, le_state. intros H v o HI.
  destruct (lookup_in_kills _ _ _ HI) as [os [HK _]].
  rewrite forallb_forall in H. specialize (H _ HK). cbn [fst] in H.
  rewrite forallb_forall in H. apply mem_In. apply H. exact HI.
Qed.

Lemma iter_fix_ext f n : forall X, le_state X (iter_fix f n X).
Proof.
  induction n as [|n IH]; intros X v o H; cbn [iter_fix]; [exact H|].
  destruct (sub_state (join (f X) X) X); [exact H|].
  apply IH. apply join_r. exact H.
Qed.

(* ---------------------------------------------------------------- write records *)
Lemma written_cons o r l : written o (r :: l) <-> snd (fst r) = o \/ written o l.
Proof.
  unfold written. split.
  - intros [c [k [H|H]]]; [left; subst; reflexivity | right; eauto].
  - intros [H|[c [k H]]].
    + destruct r as [[c o'] k]. cbn in H. subst. exists c, k. left. reflexivity.
    + exists c, k. right. exact H.
Qed.

Lemma wr_has_written r l : wr_has r l = true -> written (snd (fst r)) l.
Proof.
  destruct r as [[c o] k]. unfold wr_has. rewrite existsb_exists. intros [[[c' o'] k'] [HI HE]].
  cbn [fst snd] in HE. apply andb_true_iff in HE. destruct HE as [HE _].
  apply andb_true_iff in HE. destruct HE as [_ HE]. apply Nat.eqb_eq in HE. subst.
  exists c', k'. exact HI.
Qed.

Lemma written_wr_add o r l : written o (wr_add r l) <-> snd (fst r) = o \/ written o l.
Proof.
  unfold wr_add. destruct (wr_has r l) eqn:E.
  - split; [auto|]. intros [H|H]; [subst; apply wr_has_written; exact E | exact H].
  - apply written_cons.
Qed.

Lemma written_wr_app o a b : written o (wr_app a b) <-> written o a \/ written o b.
Proof.
  induction a as [|r tl IH]; cbn [wr_app fold_right].
  - split; [auto|]. intros [[c [k []]]|H]; exact H.
  - fold (wr_app tl b). rewrite written_wr_add, IH, written_cons. tauto.
Qed.

Lemma writtenb_spec o l : writtenb o l = true <-> written o l.
Proof.
  unfold writtenb, written. rewrite existsb_exists. split.
  - intros [[[c o'] k] [HI HE]]. cbn in HE. apply Nat.eqb_eq in HE. subst. eauto.
  - intros [c [k HI]]. exists (c, o, k). split; [exact HI | cbn; apply Nat.eqb_refl].
Qed.

Lemma sub_wr_spec a b : sub_wr a b = true -> forall o, written o a -> written o b.
Proof.
  unfold sub_wr. rewrite forallb_forall. intros H o [c [k HI]].
  apply writtenb_spec. exact (H _ HI).
Qed.

Lemma sub_set_spec a b : sub_set a b = true -> forall x, In x a -> In x b.
Proof.
  unfold sub_set. rewrite forallb_forall. intros H x HI. apply mem_In. exact (H _ HI).
Qed.

Lemma written_map_origins c k os o : In o os -> written o (wr_app (map (fun o => (c, o, k)) os) []).
Proof.
  intros H. apply written_wr_app. left. exists c, k. apply in_map_iff. exists o. auto.
Qed.

(* ---------------------------------------------------------------- the any-point state *)
Definition inany (r : res) (v : var) (o : origin) : Prop := in_kills v o (kills r) \/ In o (lookup (nrm r) v).

Lemma inany_anyS r v o : inany r v o -> In o (lookup (anyS r) v).
Proof. unfold anyS. intros [H|H]; [apply join_kills | apply join_r]; exact H. Qed.

Lemma in_kills_app_l v o K1 K2 : in_kills v o K1 -> in_kills v o (K1 ++ K2).
Proof. intros [os [H1 H2]]. exists os. split; [apply in_or_app; left; exact H1 | exact H2]. Qed.
Lemma in_kills_app_r v o K1 K2 : in_kills v o K2 -> in_kills v o (K1 ++ K2).
Proof. intros [os [H1 H2]]. exists os. split; [apply in_or_app; right; exact H1 | exact H2]. Qed.

Lemma assign_any A v os w o :
  In o (lookup A w) -> in_kills w o (snd (assign A v os)) \/ In o (lookup (fst (assign A v os)) w).
Proof.
  intros H. unfold assign. cbn [fst snd]. destruct (N.eq_dec w v) as [E|NE].
  - subst w. left. destruct (lookup A v) as [|x tl] eqn:EL; [destruct H|].
    exists (x :: tl). split; [left; reflexivity | exact H].
  - right. rewrite lookup_set_neq by exact NE. exact H.
Qed.

Lemma assign2_any A v os v2 os2 w o :
  In o (lookup A w) ->
  in_kills w o (snd (assign2 A v os v2 os2)) \/ In o (lookup (fst (assign2 A v os v2 os2)) w).
Proof.
  intros H. unfold assign2. cbn [fst snd].
  destruct (assign_any A v os w o H) as [HK|HN].
  - left. apply in_kills_app_l. exact HK.
  - destruct (assign_any _ v2 os2 w o HN) as [HK|HN2].
    + left. apply in_kills_app_r. exact HK.
    + right. exact HN2.
Qed.

Lemma A_le_any summ it p : forall A v o, In o (lookup A v) -> inany (ai summ it p A) v o.
Proof.
  induction p as [|op|p IHp q IHq|p IHp q IHq|p IHp|p IHp]; intros A v o H; cbn [ai].
  - right. exact H.
  - unfold inany. cbn [kills nrm].
    destruct op as [x|x ws|x ws|c w k|r r2 f args]; cbn [ai_op fst snd]; try (apply assign_any; exact H).
    + right. exact H.
    + apply assign2_any. exact H.
  - unfold inany. cbn [kills nrm]. destruct (IHp A v o H) as [HK|HN].
    + left. apply in_kills_app_l. exact HK.
    + destruct (IHq _ v o HN) as [HK2|HN2]; [left; apply in_kills_app_r; exact HK2 | right; exact HN2].
  - unfold inany. cbn [kills nrm]. destruct (IHp A v o H) as [HK|HN].
    + left. apply in_kills_app_l. exact HK.
    + right. apply join_l. exact HN.
  - unfold inany. cbn [kills nrm]. right. apply iter_fix_ext. exact H.
  - unfold inany. cbn [kills nrm]. right. apply inany_anyS. apply IHp. exact H.
Qed.

Lemma lookup_init a i : i < a -> lookup (init a) (vparam i) = [S i].
Proof.
  unfold init. intros H.
  assert (G : forall s n, s <= i < s + n ->
              lookup (map (fun i => (vparam i, [S i])) (seq s n)) (vparam i) = [S i]).
  { intros s n. revert s. induction n as [|n IH]; intros s Hs; [lia|].
    cbn [seq map lookup]. destruct (N.eqb (vparam s) (vparam i)) eqn:E.
    - apply N.eqb_eq in E. unfold vparam in E. apply Nat2N.inj in E. inversion E. reflexivity.
    - apply IH. assert (s <> i). { intro; subst. rewrite N.eqb_refl in E. discriminate. } lia. }
  apply G. lia.
Qed.

(* ---------------------------------------------------------------- soundness *)
Section Sound.
  Variable frame : Type.
  Variable mutate : N -> frame -> frame.
  Variable dflt : frame.
  Variable F : fname -> fdef.
  Variable summ : fname -> summary.
  Variable it : nat.

  Notation exec := (exec frame mutate dflt F).
  Notation state := (state frame).

  Definition cons_at (f : fname) : Prop :=
    let r := ai summ it (body (F f)) (init (arity (F f))) in
    ok r = true /\ (forall o, written o (wr r) -> written o (s_wr (summ f))) /\
    (forall o, inany r 0%N o -> In o (s_ret (summ f))) /\
    (forall o, inany r (ret2 (arity (F f))) o -> In o (s_ret2 (summ f))).
  Hypothesis CONS : forall f, cons_at f.

  Definition absP (n0 : nat) (oloc : origin -> list loc) (P : var -> origin -> Prop) (s : state) : Prop :=
    forall v l, In l (st s v) -> l < n0 -> exists o, P v o /\ In l (oloc o).
  Definition abstracts (n0 : nat) (oloc : origin -> list loc) (A : astate) (s : state) : Prop :=
    absP n0 oloc (fun v o => In o (lookup A v)) s.
  Definition frame_ok (n0 : nat) (oloc : origin -> list loc) (w : list wrec) (s s' : state) : Prop :=
    forall l, l < n0 -> (forall o, In l (oloc o) -> ~ written o w) -> hp s' l = hp s l.

  Definition post (n0 : nat) (oloc : origin -> list loc) (r : res) (s : state) (b : bool) (s' : state) : Prop :=
    (if b then abstracts n0 oloc (nrm r) s' else absP n0 oloc (inany r) s') /\
    nx s <= nx s' /\ frame_ok n0 oloc (wr r) s s'.

  Definition sound_prog (n : nat) (p : prog) : Prop :=
    forall A s b s' n0 oloc,
      exec n p s b s' -> ok (ai summ it p A) = true -> In 0 (oloc 0) -> n0 <= nx s ->
      abstracts n0 oloc A s -> post n0 oloc (ai summ it p A) s b s'.

  Lemma absP_weaken n0 oloc (P Q : var -> origin -> Prop) s :
    (forall v o, P v o -> Q v o) -> absP n0 oloc P s -> absP n0 oloc Q s.
  Proof. intros PQ H v l Hl Hn. destruct (H v l Hl Hn) as [o [H1 H2]]. exists o. auto. Qed.

  Lemma abort_post n0 oloc p A s : abstracts n0 oloc A s -> post n0 oloc (ai summ it p A) s false s.
  Proof.
    intros H. split; [|split].
    - eapply absP_weaken; [|exact H]. intros v o. apply A_le_any.
    - lia.
    - intros l _ _. reflexivity.
  Qed.

  Lemma abstracts_assign n0 oloc A (s : state) v os ls :
    abstracts n0 oloc A s ->
    (forall l, In l ls -> l < n0 -> exists o, In o os /\ In l (oloc o)) ->
    abstracts n0 oloc (set A v os) (mkstate (fun w => if N.eqb w v then ls else st s w) (hp s) (nx s)).
  Proof.
    intros HA HL w l Hl Hn. cbn [st] in Hl. destruct (N.eqb w v) eqn:E.
    - apply N.eqb_eq in E. subst w. rewrite lookup_set_eq. apply HL; assumption.
    - assert (w <> v) by (intro; subst; rewrite N.eqb_refl in E; discriminate).
      rewrite lookup_set_neq by assumption. apply HA; assumption.
  Qed.

  Lemma reach_in (s : state) ws l : In l (reach frame s ws) -> exists w, In w ws /\ In l (st s w).
  Proof. unfold reach. rewrite in_flat_map. auto. Qed.

  Lemma origins_in A ws w o : In w ws -> In o (lookup A w) -> In o (origins A ws).
  Proof. intros H1 H2. unfold origins. apply in_flat_map. exists w. auto. Qed.

  (* what a call does, given the soundness of the callee's body one call level down *)
  Lemma call_facts n (IHn : forall p, sound_prog n p) r r2 f args A (s : state) b0 s1 n0 oloc :
    exec n (body (F f)) (callee_state frame s (arity (F f)) args) b0 s1 ->
    In 0 (oloc 0) -> n0 <= nx s -> abstracts n0 oloc A s ->
    let res := ai summ it (Op (Call r r2 f args)) A in
    (forall l, In l (st s1 0%N) -> l < n0 ->
       exists o, In o (dedup (flat_map (tr A args) (s_ret (summ f)))) /\ In l (oloc o)) /\
    (forall l, In l (st s1 (ret2 (arity (F f)))) -> l < n0 ->
       exists o, In o (dedup (flat_map (tr A args) (s_ret2 (summ f)))) /\ In l (oloc o)) /\
    nx s <= nx s1 /\
    (forall l, l < n0 -> (forall o, In l (oloc o) -> ~ written o (wr res)) -> hp s1 l = hp s l).
  Proof.
    intros EX H0 Hn HA res.
    set (a := arity (F f)).
    set (oloc' := fun o : origin => match o with 0 => [0] | S i => reach frame s (nth i args []) end).
    destruct (CONS f) as [COK [CWR [CRET CRET2]]]. fold a in COK, CWR, CRET, CRET2.
    assert (HA0 : abstracts (nx s) oloc' (init a) (callee_state frame s a args)).
    { intros v l Hl _. cbn [callee_state st] in Hl.
      destruct (N.to_nat v) as [|i] eqn:EV; [destruct Hl|].
      destruct (Nat.ltb i a) eqn:EL; [|destruct Hl]. apply Nat.ltb_lt in EL.
      assert (v = vparam i). { unfold vparam. rewrite <- EV. symmetry. apply N2Nat.id. }
      subst v. exists (S i). split; [rewrite lookup_init by exact EL; left; reflexivity | exact Hl]. }
    assert (P := IHn (body (F f)) (init a) _ _ _ (nx s) oloc' EX COK (or_introl eq_refl) (le_n _) HA0).
    destruct P as [PA [PN PF]]. cbn [callee_state nx hp] in PN, PF.
    assert (PA' : absP (nx s) oloc' (inany (ai summ it (body (F f)) (init a))) s1).
    { destruct b0; [|exact PA]. eapply absP_weaken; [|exact PA]. intros v o H. right. exact H. }
    (* translation of a callee origin reaching l into a caller origin reaching l *)
    assert (TR : forall o' l, In l (oloc' o') -> l < n0 -> exists o, In o (tr A args o') /\ In l (oloc o)).
    { intros o' l Hl Hlt. destruct o' as [|i]; cbn [oloc'] in Hl.
      - destruct Hl as [E|[]]. subst l. exists 0. split; [left; reflexivity | exact H0].
      - destruct (reach_in _ _ _ Hl) as [w [Hw Hlw]]. destruct (HA w l Hlw Hlt) as [o [Ho Hlo]].
        exists o. split; [cbn [tr]; eapply origins_in; eassumption | exact Hlo]. }
    split; [|split; [|split]].
    - intros l Hl Hlt. destruct (PA' 0%N l Hl ltac:(lia)) as [o' [Ho' Hlo']].
      apply CRET in Ho'. destruct (TR o' l Hlo' Hlt) as [o [Ho Hlo]]. exists o. split; [|exact Hlo].
      apply In_dedup. apply in_flat_map. exists o'. auto.
    - intros l Hl Hlt. destruct (PA' (ret2 a) l Hl ltac:(lia)) as [o' [Ho' Hlo']].
      apply CRET2 in Ho'. destruct (TR o' l Hlo' Hlt) as [o [Ho Hlo]]. exists o. split; [|exact Hlo].
      apply In_dedup. apply in_flat_map. exists o'. auto.
    - exact PN.
    - intros l Hlt HW. apply PF; [lia|]. intros o' Hlo' HWo'. apply CWR in HWo'.
      destruct HWo' as [c [k HI]]. destruct (TR o' l Hlo' Hlt) as [o [Ho Hlo]].
      apply (HW o Hlo). subst res. cbn [ai wr ai_op snd]. apply written_wr_app. left.
      exists c, k. apply in_flat_map. exists (c, o', k). split; [exact HI|]. cbn [fst snd].
      apply in_map_iff. exists o. auto.
  Qed.

  Lemma sound_op n (IHn : forall m, m < n -> forall p, sound_prog m p) o : sound_prog n (Op o).
  Proof.
    intros A s b s' n0 oloc EX OK H0 Hn HA.
    inversion EX; subst; try (apply abort_post; exact HA).
    - (* Alias *)
      split; [|split]; [|cbn; lia|intros l _ _; reflexivity].
      cbn [ai nrm ai_op fst assign]. unfold upd_st. apply abstracts_assign; [exact HA|].
      intros l [E|[]] _. subst l. exists 0. split; [left; reflexivity | exact H0].
    - (* Move *)
      split; [|split]; [|cbn; lia|intros l _ _; reflexivity].
      cbn [ai nrm ai_op fst assign]. unfold upd_st. apply abstracts_assign; [exact HA|].
      intros l Hl Hlt. destruct (reach_in _ _ _ Hl) as [w [Hw Hlw]].
      destruct (HA w l Hlw Hlt) as [o [Ho Hlo]]. exists o. split; [|exact Hlo].
      apply In_dedup. eapply origins_in; eassumption.
    - (* Copy *)
      split; [|split].
      + cbn [ai nrm ai_op fst assign]. unfold alloc.
        intros w l Hl Hlt. cbn [st] in Hl. destruct (N.eqb w v) eqn:E.
        * destruct Hl as [E2|[]]. lia.
        * assert (w <> v) by (intro; subst; rewrite N.eqb_refl in E; discriminate).
          rewrite lookup_set_neq by assumption. apply HA; assumption.
      + cbn. lia.
      + intros l Hlt _. cbn [alloc hp]. destruct (Nat.eqb l (nx s)) eqn:E; [|reflexivity].
        apply Nat.eqb_eq in E. lia.
    - (* Write, hit *)
      split; [|split]; [|cbn; lia|].
      + cbn [ai nrm ai_op fst]. intros v l' Hl' Hlt. cbn [upd_hp st] in Hl'. apply HA; assumption.
      + intros l' Hlt HW. cbn [upd_hp hp]. destruct (Nat.eqb l' l) eqn:E; [|reflexivity].
        apply Nat.eqb_eq in E. subst l'. exfalso.
        match goal with HIn : In l (st s w) |- _ => destruct (HA w l HIn Hlt) as [o [Ho Hlo]] end. apply (HW o Hlo).
        cbn [ai wr ai_op snd]. apply written_map_origins. exact Ho.
    - (* Write, miss *)
      split; [|split]; [|lia|intros l _ _; reflexivity].
      cbn [ai nrm ai_op fst]. exact HA.
    - (* Call, returns *)
      match goal with HEX : Model.exec _ _ _ _ ?m _ _ ?bb ?ss |- _ =>
        assert (IH' : forall p, sound_prog m p) by (intros p; apply IHn; lia);
        destruct (call_facts m IH' r r2 f args A s bb ss n0 oloc HEX H0 Hn HA) as [CR [CR2 [CN CF]]] end.
      split; [|split]; [|cbn; exact CN|exact CF].
      intros w l Hl Hlt. cbn [after_call st] in Hl.
      cbn [ai nrm ai_op fst assign2 assign].
      destruct (N.eqb w r2) eqn:E2.
      + apply N.eqb_eq in E2. subst w. rewrite lookup_set_eq. apply CR2; assumption.
      + assert (w <> r2) by (intro; subst; rewrite N.eqb_refl in E2; discriminate).
        rewrite lookup_set_neq by assumption.
        destruct (N.eqb w r) eqn:E.
        * apply N.eqb_eq in E. subst w. rewrite lookup_set_eq. apply CR; assumption.
        * assert (w <> r) by (intro; subst; rewrite N.eqb_refl in E; discriminate).
          rewrite lookup_set_neq by assumption. apply HA; assumption.
    - (* Call, raises *)
      match goal with HEX : Model.exec _ _ _ _ ?m _ _ ?bb ?ss |- _ =>
        assert (IH' : forall p, sound_prog m p) by (intros p; apply IHn; lia);
        destruct (call_facts m IH' r r2 f args A s bb ss n0 oloc HEX H0 Hn HA) as [CR [CR2 [CN CF]]] end.
      split; [|split]; [|cbn; exact CN|exact CF].
      eapply absP_weaken; [|exact HA]. intros v o. apply A_le_any.
  Qed.

  Lemma frame_ok_trans n0 oloc w1 w2 (s s1 s2 : state) :
    frame_ok n0 oloc w1 s s1 -> frame_ok n0 oloc w2 s1 s2 -> frame_ok n0 oloc (wr_app w1 w2) s s2.
  Proof.
    intros H1 H2 l Hlt HW. rewrite H2, H1; auto.
    - intros o Ho C. apply (HW o Ho). apply written_wr_app. left. exact C.
    - intros o Ho C. apply (HW o Ho). apply written_wr_app. right. exact C.
  Qed.

  Lemma frame_ok_weaken n0 oloc w w' (s s1 : state) :
    (forall o, written o w -> written o w') -> frame_ok n0 oloc w s s1 -> frame_ok n0 oloc w' s s1.
  Proof. intros HW H l Hlt HN. apply H; [exact Hlt|]. intros o Ho C. apply (HN o Ho). apply HW. exact C. Qed.

  Lemma abstracts_le n0 oloc A B s : le_state A B -> abstracts n0 oloc A s -> abstracts n0 oloc B s.
  Proof. intros L H. eapply absP_weaken; [|exact H]. intros v o. apply L. Qed.

  Lemma sound_star n p (IHp : sound_prog n p) X :
    ok (ai summ it p X) = true -> le_state (nrm (ai summ it p X)) X ->
    forall q s b s', exec n q s b s' -> q = Star p ->
    forall n0 oloc, In 0 (oloc 0) -> n0 <= nx s -> abstracts n0 oloc X s ->
      (if b then abstracts n0 oloc X s'
       else absP n0 oloc (fun v o => in_kills v o (kills (ai summ it p X)) \/ In o (lookup X v)) s') /\
      nx s <= nx s' /\ frame_ok n0 oloc (wr (ai summ it p X)) s s'.
  Proof.
    intros OK ST q s b s' EX. induction EX; intros EQ n0 oloc H0 Hn HA; try discriminate.
    - split; [|split]; [|lia|intros l _ _; reflexivity].
      eapply absP_weaken; [|exact HA]. intros v o H. right. exact H.
    - split; [|split]; [exact HA|lia|intros l _ _; reflexivity].
    - inversion EQ; subst p0.
      destruct (IHp X _ _ _ n0 oloc EX1 OK H0 Hn HA) as [P1 [P2 P3]].
      assert (HA1 : abstracts n0 oloc X s1) by (eapply abstracts_le; [exact ST | exact P1]).
      destruct (IHEX2 IHp eq_refl n0 oloc H0 ltac:(lia) HA1) as [Q1 [Q2 Q3]].
      split; [exact Q1|split; [lia|]].
      intros l Hlt HW. rewrite Q3, P3; auto.
    - inversion EQ; subst p0.
      destruct (IHp X _ _ _ n0 oloc EX OK H0 Hn HA) as [P1 [P2 P3]].
      split; [|split; [exact P2 | exact P3]].
      eapply absP_weaken; [|exact P1]. intros v o [H|H]; [left; exact H | right; apply ST; exact H].
  Qed.

  Lemma sound_struct n (IHn : forall m, m < n -> forall p, sound_prog m p) : forall p, sound_prog n p.
  Proof.
    induction p as [|o|p IHp q IHq|p IHp q IHq|p IHp|p IHp].
    - (* Skip *)
      intros A s b s' n0 oloc EX OK H0 Hn HA. inversion EX; subst; [apply abort_post; exact HA|].
      split; [|split]; [exact HA|lia|intros l _ _; reflexivity].
    - apply sound_op. exact IHn.
    - (* Seq *)
      intros A s b s' n0 oloc EX OK H0 Hn HA. cbn [ai ok] in OK. apply andb_true_iff in OK. destruct OK as [OK1 OK2].
      inversion EX; subst; [apply abort_post; exact HA| |].
      + match goal with HP : Model.exec _ _ _ _ _ p _ _ _ |- _ =>
          destruct (IHp A _ _ _ n0 oloc HP OK1 H0 Hn HA) as [P1 [P2 P3]] end.
        match goal with HQ : Model.exec _ _ _ _ _ q _ _ _ |- _ =>
          destruct (IHq _ _ _ _ n0 oloc HQ OK2 H0 ltac:(lia) P1) as [Q1 [Q2 Q3]] end.
        split; [|split; [lia|]].
        * cbn [ai nrm]. destruct b; [exact Q1|]. eapply absP_weaken; [|exact Q1].
          intros v o [H|H]; [left; cbn [ai kills]; apply in_kills_app_r; exact H | right; exact H].
        * cbn [ai wr]. eapply frame_ok_trans; eassumption.
      + match goal with HP : Model.exec _ _ _ _ _ p _ _ _ |- _ =>
          destruct (IHp A _ _ _ n0 oloc HP OK1 H0 Hn HA) as [P1 [P2 P3]] end.
        split; [|split; [exact P2|]].
        * eapply absP_weaken; [|exact P1]. intros v o [H|H].
          -- left. cbn [ai kills]. apply in_kills_app_l. exact H.
          -- destruct (A_le_any summ it q _ v o H) as [H2|H2].
             ++ left. cbn [ai kills]. apply in_kills_app_r. exact H2.
             ++ right. exact H2.
        * cbn [ai wr]. eapply frame_ok_weaken; [|exact P3]. intros o C. apply written_wr_app. left. exact C.
    - (* Alt *)
      intros A s b s' n0 oloc EX OK H0 Hn HA. cbn [ai ok] in OK. apply andb_true_iff in OK. destruct OK as [OK1 OK2].
      inversion EX; subst; [apply abort_post; exact HA| |].
      + match goal with HP : Model.exec _ _ _ _ _ p _ _ _ |- _ =>
          destruct (IHp A _ _ _ n0 oloc HP OK1 H0 Hn HA) as [P1 [P2 P3]] end.
        split; [|split; [exact P2|]].
        * cbn [ai nrm]. destruct b.
          -- eapply abstracts_le; [|exact P1]. intros v o. apply join_l.
          -- eapply absP_weaken; [|exact P1]. intros v o [H|H].
             ++ left. cbn [ai kills]. apply in_kills_app_l. exact H.
             ++ right. apply join_l. exact H.
        * cbn [ai wr]. eapply frame_ok_weaken; [|exact P3]. intros o C. apply written_wr_app. left. exact C.
      + match goal with HQ : Model.exec _ _ _ _ _ q _ _ _ |- _ =>
          destruct (IHq A _ _ _ n0 oloc HQ OK2 H0 Hn HA) as [P1 [P2 P3]] end.
        split; [|split; [exact P2|]].
        * cbn [ai nrm]. destruct b.
          -- eapply abstracts_le; [|exact P1]. intros v o. apply join_r.
          -- eapply absP_weaken; [|exact P1]. intros v o [H|H].
             ++ left. cbn [ai kills]. apply in_kills_app_r. exact H.
             ++ right. apply join_r. exact H.
        * cbn [ai wr]. eapply frame_ok_weaken; [|exact P3]. intros o C. apply written_wr_app. right. exact C.
    - (* Star *)
      intros A s b s' n0 oloc EX OK H0 Hn HA. cbn [ai ok] in OK. apply andb_true_iff in OK. destruct OK as [OK1 OK2].
      set (X := iter_fix (fun X => nrm (ai summ it p X)) it A) in *.
      assert (HX : abstracts n0 oloc X s) by (eapply abstracts_le; [apply iter_fix_ext | exact HA]).
      destruct (sound_star n p IHp X OK1 (sub_state_spec _ _ OK2) _ _ _ _ EX eq_refl n0 oloc H0 Hn HX) as [P1 [P2 P3]].
      split; [|split; [exact P2 | exact P3]].
      cbn [ai nrm]. fold X. destruct b; [exact P1|]. exact P1.
    - (* Part *)
      intros A s b s' n0 oloc EX OK H0 Hn HA. cbn [ai ok] in OK.
      inversion EX; subst; [apply abort_post; exact HA|].
      match goal with HP : Model.exec _ _ _ _ _ p _ ?bb _ |- _ =>
        destruct (IHp A _ _ _ n0 oloc HP OK H0 Hn HA) as [P1 [P2 P3]]; destruct bb end;
      (split; [|split; [exact P2 | exact P3]]); cbn [ai nrm].
      + eapply absP_weaken; [|exact P1]. intros v o H. apply inany_anyS. right. exact H.
      + eapply absP_weaken; [|exact P1]. intros v o H. apply inany_anyS. exact H.
  Qed.

  Theorem sound_all : forall n p, sound_prog n p.
  Proof.
    intros n. induction n as [n IH] using lt_wf_ind. apply sound_struct. exact IH.
  Qed.

  (* ---- a function started in an entry state (only the parameters hold something) *)
  Definition entry (a : nat) (s : state) : Prop :=
    forall v, N.to_nat v = 0 \/ a < N.to_nat v -> st s v = [].

  Theorem function_frame : forall f n (s : state) b s',
    entry (arity (F f)) s ->
    exec n (body (F f)) s b s' ->
    forall l, l < nx s ->
      (l = 0 -> input_clean (summ f) = true) ->
      (forall i, In l (st s (vparam i)) -> param_clean i (summ f) = true) ->
      hp s' l = hp s l.
  Proof.
    intros f n s b s' HE EX l Hlt HI HP.
    destruct (CONS f) as [COK [CWR [CRET CRET2]]].
    set (a := arity (F f)) in *.
    set (oloc := fun o : origin => match o with 0 => [0] | S i => st s (vparam i) end).
    assert (HA : abstracts (nx s) oloc (init a) s).
    { intros v l' Hl' _. destruct (N.to_nat v) as [|i] eqn:EV.
      - rewrite HE in Hl' by (left; exact EV). destruct Hl'.
      - destruct (Nat.ltb i a) eqn:EL.
        + apply Nat.ltb_lt in EL.
          assert (v = vparam i). { unfold vparam. rewrite <- EV. symmetry. apply N2Nat.id. }
          subst v. exists (S i). split; [rewrite lookup_init by exact EL; left; reflexivity | exact Hl'].
        + apply Nat.ltb_ge in EL. rewrite HE in Hl' by (right; lia). destruct Hl'. }
    destruct (sound_all n (body (F f)) (init a) s b s' (nx s) oloc EX COK (or_introl eq_refl) (le_n _) HA)
      as [_ [_ PF]].
    apply PF; [exact Hlt|]. intros o Ho C. apply CWR in C. apply writtenb_spec in C.
    destruct o as [|i]; cbn [oloc] in Ho.
    - destruct Ho as [E|[]]. subst l. specialize (HI eq_refl). unfold input_clean in HI. rewrite C in HI. discriminate.
    - specialize (HP i Ho). unfold param_clean in HP. rewrite C in HP. discriminate.
  Qed.
End Sound.

(* ---------------------------------------------------------------- from the boolean table check *)
Lemma forallb2_nth {A B} (P : A -> B -> bool) (dA : A) (dB : B) :
  P dA dB = true -> forall l m, forallb2 P l m = true -> forall i, P (nth i l dA) (nth i m dB) = true.
Proof.
  intros HD l. induction l as [|a l IH]; intros [|b m] H i; cbn [forallb2] in H; try discriminate.
  - destruct i; exact HD.
  - apply andb_true_iff in H. destruct H as [H1 H2]. destruct i; cbn [nth]; [exact H1 | apply IH; exact H2].
Qed.

Lemma consistent_cons it fdefs summL :
  consistent it fdefs summL = true ->
  forall f, cons_at (fun g => nth (N.to_nat g) fdefs dfdef) (fun g => nth (N.to_nat g) summL dsum) it f.
Proof.
  intros H f. unfold consistent in H.
  assert (HD : fn_consistent summL it dfdef dsum = true) by reflexivity.
  pose proof (forallb2_nth _ dfdef dsum HD _ _ H (N.to_nat f)) as HF.
  unfold fn_consistent, analyse in HF. cbn [fst snd s_wr s_ret s_ret2] in HF.
  apply andb_true_iff in HF. destruct HF as [HF H4]. apply andb_true_iff in HF. destruct HF as [HF H3].
  apply andb_true_iff in HF. destruct HF as [H1 H2].
  unfold cons_at. cbn beta. split; [exact H1|split; [|split]].
  - intros o C. eapply sub_wr_spec; [exact H2|]. apply written_wr_app. left. exact C.
  - intros o C. eapply sub_set_spec; [exact H3|]. apply In_dedup. apply inany_anyS. exact C.
  - intros o C. eapply sub_set_spec; [exact H4|]. apply In_dedup. apply inany_anyS. exact C.
Qed.

Lemma ds_clean_param sm i : ds_clean sm = true -> Nat.odd i = true -> param_clean i sm = true.
Proof.
  unfold ds_clean, param_clean, writtenb. intros H Hi. apply negb_true_iff in H. apply negb_true_iff.
  destruct (existsb (fun r => Nat.eqb (snd (fst r)) (S i)) (s_wr sm)) eqn:E; [|reflexivity].
  apply existsb_exists in E. destruct E as [r [Hr Er]]. apply Nat.eqb_eq in Er.
  assert (existsb (fun r => negb (Nat.eqb (snd (fst r)) 0) && Nat.even (snd (fst r))) (s_wr sm) = true).
  { apply existsb_exists. exists r. split; [exact Hr|]. rewrite Er. cbn [Nat.eqb negb andb].
    rewrite Nat.even_succ. exact Hi. }
  congruence.
Qed.

(* ---------------------------------------------------------------- straight-line corollary *)
Section Straight.
  Variable frame : Type.
  Variable mutate : N -> frame -> frame.
  Variable dflt : frame.
  Let F0 : fname -> fdef := fun _ => dfdef.

  Lemma step_exec o (s : state frame) : exec frame mutate dflt F0 1 (Op o) s true (step_op frame mutate dflt o s).
  Proof.
    destruct o as [v|v ws|v ws|c w k|r r2 f args]; cbn [step_op].
    - apply E_alias.
    - apply E_move.
    - apply E_copy.
    - destruct (st s w) as [|l tl] eqn:E; [apply E_write_miss|].
      apply E_write_hit. rewrite E. left. reflexivity.
    - apply (E_call_ret frame mutate dflt F0 0 r r2 f args s true). cbn. apply E_skip.
  Qed.

  Lemma run_exec l : forall (s : state frame),
    exec frame mutate dflt F0 1 (seqs (map Op l)) s true (run frame mutate dflt l s).
  Proof.
    induction l as [|o tl IH]; intros s; cbn [map seqs fold_right run fold_left].
    - apply E_skip.
    - eapply E_seq_t; [apply step_exec | apply IH].
  Qed.

  Theorem straight_line_sound : forall (l : list eop) (s : state frame),
    (forall v, st s v = []) -> 0 < nx s -> no_write_to_alias l = true ->
    hp (run frame mutate dflt l s) 0 = hp s 0.
  Proof.
    intros l s HE Hn HC.
    set (summ := fun g : fname => nth (N.to_nat g) (@nil summary) dsum).
    assert (CONS : forall f, cons_at F0 summ 1 f).
    { intros f. unfold cons_at, F0. cbn. split; [reflexivity|split; [|split]].
      - intros o [c [k []]].
      - intros o [[os [[] _]]|[]].
      - intros o [[os [[] _]]|[]]. }
    set (p := seqs (map Op l)).
    set (oloc := fun o : origin => match o with 0 => [0] | S _ => @nil loc end).
    assert (HA : abstracts frame (nx s) oloc (init 0) s).
    { intros v l' Hl' _. rewrite HE in Hl'. destruct Hl'. }
    unfold no_write_to_alias, analyse, input_clean in HC. cbn [fst s_wr arity body] in HC. fold p summ in HC.
    destruct (ok (ai summ 1 p (init 0))) eqn:EOK.
    - destruct (sound_all frame mutate dflt F0 summ 1 CONS 1 p (init 0) s true _ (nx s) oloc
                  (run_exec l s) EOK (or_introl eq_refl) (le_n _) HA) as [_ [_ PF]].
      apply PF; [exact Hn|]. intros o Ho C. destruct o as [|i]; [|destruct Ho].
      apply negb_true_iff in HC. assert (writtenb 0 (wr_app (wr (ai summ 1 p (init 0))) []) = true).
      { apply writtenb_spec. apply written_wr_app. left. exact C. }
      congruence.
    - (* a straight-line program has no Star: ok is always true *)
      exfalso. clear - EOK. subst p. revert EOK. generalize (init 0).
      induction l as [|o tl IH]; intros A; cbn [map seqs fold_right ai ok]; [discriminate|].
      cbn [andb]. apply IH.
  Qed.
End Straight.
