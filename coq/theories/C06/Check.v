(* PV.C06.Check — the comparison run inside Coq by the correspondence check of C06: re-runs the models of
   PV.C06.Wf on the exported inputs, compares with what the implementation did (correspondence tags 1..9),
   evaluates the property itself on the implementation's outputs (oracle tags >= 11) and reports guard facts
   (tags >= 200).  (The effect IR is tied to the source by regeneration, see build/gen/C06/.) *)
From Coq Require Import QArith List Bool PArith Arith NArith.
From PV Require Import Base.PyData C06.Wf.
Import ListNotations.
Local Open Scope nat_scope.

Definition tag (b : bool) (t : nat) : list nat := if b then [] else [t].

Definition xnum_eqb (a b : xnum) : bool :=
  match a, b with
  | XNaN, XNaN | XNegInf, XNegInf | XPosInf, XPosInf => true
  | XFin x, XFin y => Qeq_bool x y
  | _, _ => false
  end.
Definition param_eqb (a b : param) : bool :=
  Pos.eqb (p_name a) (p_name b) && xnum_eqb (p_init a) (p_init b) && xnum_eqb (p_lower a) (p_lower b) &&
  xnum_eqb (p_upper a) (p_upper b) && Bool.eqb (p_fix a) (p_fix b).
Definition oparam_eqb (a b : option param) : bool :=
  match a, b with Some x, Some y => param_eqb x y | None, None => true | _, _ => false end.
Definition cerr_eqb (a b : cerr) : bool :=
  match a, b with NotDefined, NotDefined | DefinedAfter, DefinedAfter => true | _, _ => false end.

Inductive case : Type :=
(* Parameter.create(name, init, lower, upper, fix) -> observed object (None = raised) *)
| CCreate (n : id) (i : xnum) (l u : option xnum) (f : bool) (obs : option param)
(* p.replace(init=.., lower=.., upper=.., fix=..) on an existing parameter *)
| CReplace (p : param) (i l u : option xnum) (f : option bool) (obs : option param)
(* Parameters(ps).set_initial_estimates(inits) *)
| CSetInits (ps : list param) (inits : list (id * xnum)) (obs : option (list param))
(* Parameters(ps).set_fix(fix) *)
| CSetFix (ps : list param) (fx : list (id * bool)) (obs : option (list param))
(* Parameters.create(list of names): accepted? *)
| CNames (names : list id) (obs : bool)
(* RandomVariables.create(sequence) / create(single dist) / rvs + dist : accepted? and the resulting names *)
| CRvsSeq (ds : list dist) (obs : option (list id))
| CRvsSingle (d : dist) (obs : option (list id))
| CRvsAdd (r : list dist) (d : dist) (obs : option (list id))
(* Model.create(..statements..): accepted (None) or error kind; kind_sure = the model's error kind does not depend
   on the iteration order of a Python set *)
| CCanon (base : list id) (t nan : id) (l : list cstmt) (obs : option cerr)
(* a pair of objects of one class: term table, per-term observations, observed a == b and hash(a) == hash(b) *)
| CEqHash (c : eqclass) (eqbits : list bool) (hashbits : list bool) (obs_eq obs_hash : bool)
(* a model returned by a public function: parameters, rv names, statements *)
| CModelWf (ps : list param) (rvs : list dist) (base : list id) (t nan : id) (l : list cstmt).

Fixpoint lookup_bit (t : term) (ts : list term) (bs : list bool) : option bool :=
  match ts, bs with
  | t' :: ts', b :: bs' => if term_eqb t t' then Some b else lookup_bit t ts' bs'
  | _, _ => None
  end.
(* some term that is both compared and hashed is equal on the two objects but hashes differently: the law
   is broken by the class of that attribute, not by this class *)
Definition nested_break (c : eqclass) (eqbits hashbits : list bool) : bool :=
  existsb (fun t => match lookup_bit t (eq_terms c) eqbits, lookup_bit t (hash_terms c) hashbits with
                    | Some true, Some false => true
                    | _, _ => false end) (hash_terms c).

Definition olist_eqb (a b : option (list id)) : bool :=
  match a, b with Some x, Some y => list_eqb Pos.eqb x y | None, None => true | _, _ => false end.

(* failing symbols of the first failing statement share one error kind? (Python iterates a set) *)
Definition verdict (c : case) : list nat :=
  match c with
  | CCreate n i l u f obs =>
      tag (oparam_eqb (param_create n i l u f) obs) 1 ++
      match obs with Some p => tag (param_wf p) 11 | None => [] end
  | CReplace p i l u f obs =>
      tag (oparam_eqb (param_replace p None i l u f) obs) 1 ++
      match obs with Some q => tag (param_wf q) 11 | None => [] end
  | CSetInits ps inits obs =>
      tag (match set_inits ps inits, obs with
           | Some a, Some b => list_eqb param_eqb a b
           | None, None => true
           | _, _ => false end) 1 ++
      match obs with
      | Some r => tag (forallb param_wf r) 11 ++ tag (list_eqb Pos.eqb (map p_name r) (map p_name ps)) 12
      | None => []
      end ++ tag (forallb param_wf ps) 201
  | CSetFix ps fx obs =>
      tag (match set_fix ps fx, obs with
           | Some a, Some b => list_eqb param_eqb a b
           | None, None => true
           | _, _ => false end) 1 ++
      match obs with
      | Some r => (if forallb param_wf ps then tag (forallb param_wf r) 11 else []) ++
                  tag (list_eqb param_eqb r (map (with_fix fx) ps)) 12
      | None => tag (negb (forallb param_wf ps)) 11      (* raising on well-formed parameters *)
      end ++ tag (forallb param_wf ps) 201
  | CNames names obs =>
      tag (Bool.eqb (names_ok names) obs) 2 ++ (if obs then tag (names_ok names) 12 else [])
  | CRvsSeq ds obs =>
      tag (olist_eqb (option_map (@concat id) (rvs_create_seq ds)) obs) 3 ++
      match obs with Some ns => tag (names_ok ns) 13 | None => [] end
  | CRvsSingle d obs =>
      tag (olist_eqb (option_map (@concat id) (rvs_create_single d)) obs) 3 ++
      match obs with Some ns => tag (names_ok ns) 13 | None => [] end
  | CRvsAdd r d obs =>
      tag (olist_eqb (option_map (@concat id) (rvs_add r d)) obs) 3 ++
      match obs with Some ns => tag (names_ok ns) 13 | None => [] end
  | CCanon base t nan l obs =>
      tag (match canon base t nan l, obs with
           | None, None => true | Some _, Some _ => true | _, _ => false end) 4 ++
      match obs with
      | None => tag (g_no_fun_lhs l && g_no_nan nan l) 205 ++
                (if g_no_fun_lhs l && g_no_nan nan l then tag (defined_before_use (base_of base t l) l) 14 else [])
      | Some _ => []
      end
  | CEqHash c eqbits hashbits obs_eq obs_hash =>
      tag (Nat.eqb (length eqbits) (length (eq_terms c)) && Nat.eqb (length hashbits) (length (hash_terms c))) 9 ++
      tag (Bool.eqb (forallb (fun b => b) eqbits) obs_eq) 5 ++
      tag (Bool.eqb (forallb (fun b => b) hashbits) obs_hash) 6 ++
      tag (negb obs_eq || obs_hash) 15 ++
      tag (cls_consistent c) 206 ++ tag (negb (nested_break c eqbits hashbits)) 208
  | CModelWf ps rvs base t nan l =>
      tag (forallb param_wf ps) 16 ++
      tag (names_ok (map p_name ps)) 17 ++ tag (rvs_wf rvs) 17 ++
      tag (match canon base t nan l with None => true | Some _ => false end) 18 ++
      tag (forallb (fun p => negb (isnan (p_lower p)) && negb (isnan (p_upper p))) ps) 207
  end.
