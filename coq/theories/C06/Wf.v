(* PV.C06.Wf — executable models of the validating constructors and of the equality / hash keys
   (pharmpy/model/parameters.py Parameter.create/replace, Parameters.create;
    random_variables.py RandomVariables.create / __add__; model.py Model._canonicalize_statements;
    the __eq__/__hash__ pairs of the model classes as term tables).  No proofs here. *)
From Coq Require Import QArith List Bool PArith Arith Lia.
From PV Require Import Base.PyData.
Import ListNotations.
Local Open Scope nat_scope.

Definition id := positive.

(* ---- Python floats as far as the validation distinguishes them -------------------------------- *)
Inductive xnum : Type := XNaN | XNegInf | XFin (q : Q) | XPosInf.

(* Python `a < b` *)
Definition xlt (a b : xnum) : bool :=
  match a, b with
  | XNaN, _ | _, XNaN => false
  | XNegInf, XNegInf => false
  | XNegInf, _ => true
  | _, XNegInf => false
  | XPosInf, _ => false
  | XFin _, XPosInf => true
  | XFin x, XFin y => negb (Qle_bool y x)
  end.
(* mathematical a <= b (never with NaN) — what "init lies within its bounds" means *)
Definition xle (a b : xnum) : bool :=
  match a, b with
  | XNaN, _ | _, XNaN => false
  | XNegInf, _ => true
  | _, XPosInf => true
  | XFin x, XFin y => Qle_bool x y
  | _, _ => false
  end.
Definition isnan (a : xnum) : bool := match a with XNaN => true | _ => false end.

Record param := mkparam { p_name : id; p_init : xnum; p_lower : xnum; p_upper : xnum; p_fix : bool }.

(* Parameter.create: float(init); NaN init refused; None bounds become -inf / +inf; NaN bounds refused
   (since /repo caae827); `if init < lower: raise`, `if init > upper: raise` *)
Definition param_create (n : id) (i : xnum) (l u : option xnum) (f : bool) : option param :=
  if isnan i then None else
  let l' := match l with None => XNegInf | Some x => x end in
  let u' := match u with None => XPosInf | Some x => x end in
  if isnan l' || isnan u' then None else
  if xlt i l' then None else
  if xlt u' i then None else Some (mkparam n i l' u' f).

(* Parameter.replace with keyword arguments: missing keywords default to the current fields, then create *)
Definition param_replace (p : param) (n : option id) (i : option xnum) (l u : option xnum) (f : option bool)
  : option param :=
  param_create (match n with Some x => x | None => p_name p end)
               (match i with Some x => x | None => p_init p end)
               (Some (match l with Some x => x | None => p_lower p end))
               (Some (match u with Some x => x | None => p_upper p end))
               (match f with Some x => x | None => p_fix p end).

Definition param_wf (p : param) : bool := xle (p_lower p) (p_init p) && xle (p_init p) (p_upper p).
(* the bounds handed to create are not NaN (before /repo caae827 create did not test them; kept for the
   regression examples) *)
Definition g_bounds_not_nan (l u : option xnum) : bool :=
  negb (match l with Some x => isnan x | None => false end) &&
  negb (match u with Some x => isnan x | None => false end).

(* Parameters.set_initial_estimates(inits): `p.replace(init=inits[p.name])` for the named parameters, in order;
   the first failing replace raises *)
Fixpoint alookup_x (m : list (id * xnum)) (n : id) : option xnum :=
  match m with
  | [] => None
  | (k, v) :: tl => if Pos.eqb k n then Some v else alookup_x tl n
  end.
Fixpoint set_inits (l : list param) (inits : list (id * xnum)) : option (list param) :=
  match l with
  | [] => Some []
  | p :: tl =>
      match (match alookup_x inits (p_name p) with
             | Some i => param_replace p None (Some i) None None None
             | None => Some p end) with
      | None => None
      | Some q => match set_inits tl inits with None => None | Some r => Some (q :: r) end
      end
  end.

(* Parameters.set_fix(fix): `p.replace(fix=fix[p.name])` for the named parameters, in order (replace re-validates through
   create, so it raises for a parameter that was built unchecked with an init outside its bounds) *)
Fixpoint alookup_b (m : list (id * bool)) (n : id) : option bool :=
  match m with
  | [] => None
  | (k, v) :: tl => if Pos.eqb k n then Some v else alookup_b tl n
  end.
Fixpoint set_fix (l : list param) (fx : list (id * bool)) : option (list param) :=
  match l with
  | [] => Some []
  | p :: tl =>
      match (match alookup_b fx (p_name p) with
             | Some b => param_replace p None None None None (Some b)
             | None => Some p end) with
      | None => None
      | Some q => match set_fix tl fx with None => None | Some r => Some (q :: r) end
      end
  end.
(* what set_fix is meant to compute: only the fix flags change *)
Definition with_fix (fx : list (id * bool)) (p : param) : param :=
  match alookup_b fx (p_name p) with
  | Some b => mkparam (p_name p) (p_init p) (p_lower p) (p_upper p) b
  | None => p
  end.

(* ---- unique names ------------------------------------------------------------------------------- *)
(* the loop `for p in parameters: if p.name in names: raise; names.add(p.name)` *)
Fixpoint first_dup (seen : list id) (l : list id) : option id :=
  match l with
  | [] => None
  | x :: tl => if memp x seen then Some x else first_dup (x :: seen) tl
  end.
Definition names_ok (l : list id) : bool := match first_dup [] l with None => true | Some _ => false end.

Definition params_create (l : list param) : option (list param) :=
  if names_ok (map p_name l) then Some l else None.
(* Parameters.__add__ goes through create; Parameters.__getitem__(list) and set_initial_estimates build
   the object directly (no check) *)
Definition params_getitem (l : list param) (names : list id) : list param :=
  flat_map (fun n => match find (fun p => Pos.eqb (p_name p) n) l with Some p => [p] | None => [] end) names.

(* a distribution is the list of its variable names *)
Definition dist := list id.
(* RandomVariables.create(dists): a single distribution becomes a 1-tuple and runs through the same uniqueness
   loop as a sequence (since /repo 1b723c6) *)
Definition rvs_create_seq (ds : list dist) : option (list dist) :=
  if names_ok (concat ds) then Some ds else None.
Definition rvs_create_single (d : dist) : option (list dist) := rvs_create_seq [d].
(* RandomVariables.__add__(Distribution): self.replace(dists=self._dists + (other,)), i.e. create *)
Definition rvs_add (r : list dist) (d : dist) : option (list dist) := rvs_create_seq (r ++ [d]).
Definition rvs_wf (r : list dist) : bool := names_ok (concat r).
(* the names of the added distribution are fresh and distinct (characterises when rvs + dist is accepted) *)
Definition g_fresh_names (r : list dist) (d : dist) : bool :=
  names_ok d && negb (existsb (fun x => memp x (concat r)) d).

(* ---- Model._canonicalize_statements --------------------------------------------------------------- *)
(* what the check reads of a statement: the assigned symbol, whether the left-hand side is an applied function
   f(args) (Some (Symbol(f.name), symbol arguments)), the free symbols of the right-hand side; or an ODE system *)
Record cstmt := mkc { c_ode : bool; c_lhs : id; c_fun : option (id * list id); c_rhs : list id }.

Definition plain_def (x : id) (st : cstmt) : bool :=
  negb (c_ode st) && match c_fun st with None => Pos.eqb (c_lhs st) x | Some _ => false end.

Inductive cerr : Type := NotDefined | DefinedAfter.

(* one symbol of statement number i *)
Definition check_sym (all : list id) (nan : id) (whole before : list cstmt) (x : id) : option cerr :=
  if memp x all then None else
  if Pos.eqb x nan then None else
  if negb (existsb (plain_def x) whole) then Some NotDefined else
  if negb (existsb (plain_def x) before) then Some DefinedAfter else None.

Fixpoint first_err {A} (f : A -> option cerr) (l : list A) : option cerr :=
  match l with
  | [] => None
  | x :: tl => match f x with Some e => Some e | None => first_err f tl end
  end.

(* the loop; `all` is symbs_all and grows by the function-symbol exemption *)
Fixpoint canon_loop (all : list id) (nan : id) (whole : list cstmt) (before rest : list cstmt) : option cerr :=
  match rest with
  | [] => None
  | st :: tl =>
      if c_ode st then canon_loop all nan whole (before ++ [st]) tl else
      if forallb (fun x => memp x all) (c_rhs st) then canon_loop all nan whole (before ++ [st]) tl else
      let all' := match c_fun st with Some (f, args) => f :: args ++ all | None => all end in
      match first_err (check_sym all' nan whole before) (c_rhs st) with
      | Some e => Some e
      | None => canon_loop all' nan whole (before ++ [st]) tl
      end
  end.
(* base = rvs.free_symbols + params.symbols + column names (+ t when there is an ODE system) *)
Definition canon (base : list id) (t nan : id) (l : list cstmt) : option cerr :=
  canon_loop (if existsb c_ode l then t :: base else base) nan l [] l.

(* the function-symbol exemption: names and symbol arguments of applied-function left-hand sides *)
Definition fun_syms (l : list cstmt) : list id :=
  flat_map (fun st => match c_fun st with Some (f, args) => f :: args | None => [] end) l.
Definition base_of (base : list id) (t : id) (l : list cstmt) : list id :=
  if existsb c_ode l then t :: base else base.
Definition g_no_fun_lhs (l : list cstmt) : bool :=
  forallb (fun st => match c_fun st with None => true | Some _ => false end) l.
Definition g_no_nan (nan : id) (l : list cstmt) : bool :=
  forallb (fun st => negb (memp nan (c_rhs st))) l.

(* the property on a model the API returned: every right-hand-side symbol is a parameter / rv / column / t,
   or assigned by an earlier statement *)
Fixpoint defined_before_use (known : list id) (l : list cstmt) : bool :=
  match l with
  | [] => true
  | st :: tl =>
      if c_ode st then defined_before_use known tl else
      forallb (fun x => memp x known) (c_rhs st) &&
      defined_before_use (match c_fun st with None => c_lhs st :: known | Some _ => known end) tl
  end.

(* Model.replace(datainfo=.., dataset=..) WITHOUT a statements keyword keeps the statements as they are:
   _canonicalize_statements is only run on a `statements=` keyword (model.py, replace) *)
Definition replace_columns (l : list cstmt) (new_base : list id) : list cstmt := l.
(* guard: the statements are still acceptable over the new columns *)
Definition g_symbols_kept (new_base : list id) (t nan : id) (l : list cstmt) : bool :=
  match canon new_base t nan l with None => true | Some _ => false end.

(* ---- cached hashes (internals/immutable.py: cache_method's `_hash`, frozenmapping._hash) ------------ *)
(* how a store into `_hash` relates the cache to the content of the object that receives it *)
Inductive ckind : Type :=
| KWrapper      (* cache_method: h = func(self); self._hash = h *)
| KLazy         (* __hash__: if self._hash is None: self._hash = hash(own content) *)
| KInitNone     (* __init__: self._hash = None *)
| KInitShare    (* __init__: content and cache both taken verbatim from another object *)
| KCarry.       (* anything else: the cache of one object ends up on an object with other content *)
Definition ckind_allowed (k : ckind) : bool := match k with KCarry => false | _ => true end.

Section Cache.
  Variable content : Type.
  Variable H : content -> nat.           (* the content hash *)
  Record cobj := mkcobj { co_content : content; co_cache : option nat }.
  Definition cache_ok (o : cobj) : bool :=
    match co_cache o with None => true | Some h => Nat.eqb h (H (co_content o)) end.
  (* hash(o): the cached value when there is one *)
  Definition chash (o : cobj) : nat := match co_cache o with Some h => h | None => H (co_content o) end.
  (* the object a store of kind k produces from a source object and the content the new object has *)
  Definition cstep (k : ckind) (src : cobj) (newc : content) : cobj :=
    match k with
    | KWrapper | KLazy => mkcobj (co_content src) (Some (H (co_content src)))
    | KInitNone => mkcobj newc None
    | KInitShare => mkcobj (co_content src) (co_cache src)
    | KCarry => mkcobj newc (co_cache src)
    end.
End Cache.

(* ---- immutability of the metadata / model classes (DataInfo, ColumnInfo, Parameter(s), ...) -------------- *)
(* where a store into an attribute of an instance of an Immutable class occurs *)
Inductive skind : Type :=
| SInit        (* inside __init__ / __new__ / __setstate__ on the instance under construction *)
| SCache       (* the `_hash` cache *)
| SSingleton   (* a class attribute set once in __new__ (Output) *)
| SOther.      (* anywhere else: a field of an existing instance is changed *)
Definition skind_allowed (k : skind) : bool := match k with SOther => false | _ => true end.
(* an instance: its fields (what ==, to_dict, the API observe) and its cache; what one store does to it *)
Record inst := mkinst { i_fields : nat -> nat; i_cache : option nat }.
Definition store (k : skind) (fld val : nat) (o : inst) : inst :=
  match k with
  | SCache => mkinst (i_fields o) (Some val)
  | SSingleton => o
  | SInit | SOther => mkinst (fun g => if Nat.eqb g fld then val else i_fields o g) (i_cache o)
  end.
(* a method body after construction = a list of stores *)
Definition run_stores (l : list (skind * nat * nat)) (o : inst) : inst :=
  fold_left (fun o' s => store (fst (fst s)) (snd (fst s)) (snd s) o') l o.
Definition post_construction (k : skind) : bool := match k with SCache | SSingleton => true | _ => false end.

(* ---- __eq__ / __hash__ as term tables ---------------------------------------------------------- *)
(* a term is (field, how): how = 0 the raw attribute, n > 0 the attribute seen through some function *)
Definition term := (positive * nat)%type.
Definition term_eqb (a b : term) : bool := Pos.eqb (fst a) (fst b) && Nat.eqb (snd a) (snd b).
Record eqclass := mkclass { eq_terms : list term; hash_terms : list term }.
Definition obj := term -> nat.      (* the value of every term, as an atom *)

Definition cls_eq (c : eqclass) (a b : obj) : bool := forallb (fun t => Nat.eqb (a t) (b t)) (eq_terms c).
Definition cls_hkey (c : eqclass) (a : obj) : list nat := map a (hash_terms c).
Definition memt (t : term) (l : list term) : bool := existsb (term_eqb t) l.
(* every hashed term is also compared *)
Definition cls_consistent (c : eqclass) : bool := forallb (fun t => memt t (eq_terms c)) (hash_terms c).
Definition hashed_not_compared (c : eqclass) : list term := filter (fun t => negb (memt t (eq_terms c))) (hash_terms c).
