(* PV.C06.Model — the dataset-effect IR (regenerated from the pharmpy source by the T-effects
   translator harness/props/c06_effects.py), its heap semantics, and the executable may-alias /
   may-write analysis ("checker") with interprocedural summaries.  No proofs here.

   Locations hold frames (DataFrames and every other mutable object); location 0 is THE input:
   the frame behind `model.dataset` of the models passed to a function.  A variable holds a value
   from which a set of locations is reachable (views, containers).  var 0 is the return value,
   vars 1..arity are the parameters.  Origins: 0 = the input dataset, S i = what parameter i
   could reach when the function was entered. *)
From Coq Require Import List Bool Arith NArith Lia.
Import ListNotations.
Local Open Scope nat_scope.

Definition var := N.          (* 0 = return value, 1..arity = parameters, then locals and temporaries *)
Definition origin := nat.
Definition fname := N.
Definition loc := nat.
Definition vparam (i : nat) : var := N.of_nat (S i).
(* the second result channel of a function of arity a: the first variable after its parameters *)
Definition ret2 (a : nat) : var := vparam a.

Inductive eop : Type :=
| Alias (v : var)                                  (* v := <expr>.dataset *)
| Move (v : var) (ws : list var)                   (* v := value that may reach whatever ws reach *)
| Copy (v : var) (ws : list var)                   (* v := newly allocated object (copy of ws) *)
| Write (c : nat) (w : var) (k : N)                (* in-place mutation (site k) of an object w reaches;
                                                      class c: 0 attribute store, 1 other definite, 2 unknown code *)
| Call (r r2 : var) (f : fname) (args : list (list var)).
   (* r := f(args); r2 := the second result channel of f (the variable after its parameters: the translator keeps
      there what `.dataset` of the returned value denotes) *)

(* regular expressions over operations: every Python execution of a function body is a
   (prefix-closed) trace of its expression; Part p = p possibly abandoned part-way (exception caught,
   break, continue, return) *)
Inductive prog : Type :=
| Skip
| Op (o : eop)
| Seq (p q : prog)
| Alt (p q : prog)
| Star (p : prog)
| Part (p : prog).

Definition seqs (l : list prog) : prog := fold_right Seq Skip l.
Fixpoint alts (l : list prog) : prog :=
  match l with
  | [] => Skip
  | [p] => p
  | p :: tl => Alt p (alts tl)
  end.

Record fdef := mkfdef { arity : nat; body : prog }.
Definition dfdef : fdef := mkfdef 0 Skip.

(* ------------------------------------------------------------------------------------------------ *)
(* Heap semantics                                                                                   *)
(* ------------------------------------------------------------------------------------------------ *)
Section Semantics.
  Variable frame : Type.
  Variable mutate : N -> frame -> frame.     (* what write site k does to a frame: arbitrary *)
  Variable dflt : frame.
  Variable F : fname -> fdef.

  Record state := mkstate { st : var -> list loc; hp : loc -> frame; nx : loc }.

  Definition upd_st (s : state) (v : var) (ls : list loc) : state :=
    mkstate (fun w => if N.eqb w v then ls else st s w) (hp s) (nx s).
  Definition upd_hp (s : state) (l : loc) (x : frame) : state :=
    mkstate (st s) (fun l' => if Nat.eqb l' l then x else hp s l') (nx s).
  Definition reach (s : state) (ws : list var) : list loc := flat_map (st s) ws.

  Definition alloc (s : state) (v : var) (ws : list var) : state :=
    let c := match reach s ws with l :: _ => hp s l | [] => dflt end in
    mkstate (fun w => if N.eqb w v then [nx s] else st s w)
            (fun l' => if Nat.eqb l' (nx s) then c else hp s l') (S (nx s)).

  (* the callee starts with its parameters bound to what the arguments reach, nothing else *)
  Definition callee_state (s : state) (a : nat) (args : list (list var)) : state :=
    mkstate (fun v => match N.to_nat v with
                      | 0 => []
                      | S i => if Nat.ltb i a then reach s (nth i args []) else []
                      end) (hp s) (nx s).
  (* after the call: the caller's variables are unchanged, r holds the returned value, the heap is the callee's *)
  Definition after_call (s s1 : state) (r r2 : var) (a : nat) : state :=
    mkstate (fun w => if N.eqb w r2 then st s1 (ret2 a) else if N.eqb w r then st s1 0%N else st s w) (hp s1) (nx s1).
  Definition after_raise (s s1 : state) : state := mkstate (st s) (hp s1) (nx s1).

  (* exec n p s b s' : p started in s can stop in s'; b = true: p ran to completion,
     b = false: abandoned part-way (exception / return / break); n bounds the call depth *)
  Inductive exec : nat -> prog -> state -> bool -> state -> Prop :=
  | E_abort n p s : exec n p s false s
  | E_skip n s : exec n Skip s true s
  | E_alias n v s : exec n (Op (Alias v)) s true (upd_st s v [0])
  | E_move n v ws s : exec n (Op (Move v ws)) s true (upd_st s v (reach s ws))
  | E_copy n v ws s : exec n (Op (Copy v ws)) s true (alloc s v ws)
  | E_write_hit n c w k l s : In l (st s w) -> exec n (Op (Write c w k)) s true (upd_hp s l (mutate k (hp s l)))
  | E_write_miss n c w k s : exec n (Op (Write c w k)) s true s
  | E_call_ret n r r2 f args s b s1 :
      exec n (body (F f)) (callee_state s (arity (F f)) args) b s1 ->
      exec (S n) (Op (Call r r2 f args)) s true (after_call s s1 r r2 (arity (F f)))
  | E_call_raise n r r2 f args s b s1 :
      exec n (body (F f)) (callee_state s (arity (F f)) args) b s1 ->
      exec (S n) (Op (Call r r2 f args)) s false (after_raise s s1)
  | E_seq_t n p q s s1 b s2 : exec n p s true s1 -> exec n q s1 b s2 -> exec n (Seq p q) s b s2
  | E_seq_f n p q s s1 : exec n p s false s1 -> exec n (Seq p q) s false s1
  | E_alt_l n p q s b s1 : exec n p s b s1 -> exec n (Alt p q) s b s1
  | E_alt_r n p q s b s1 : exec n q s b s1 -> exec n (Alt p q) s b s1
  | E_star_0 n p s : exec n (Star p) s true s
  | E_star_s n p s s1 b s2 : exec n p s true s1 -> exec n (Star p) s1 b s2 -> exec n (Star p) s b s2
  | E_star_f n p s s1 : exec n p s false s1 -> exec n (Star p) s false s1
  | E_part n p s b s1 : exec n p s b s1 -> exec n (Part p) s true s1.

  (* deterministic interpreter for straight-line operation lists (used by the examples and by the straight-line
     corollary of the soundness theorem): a Write mutates the first frame the variable reaches, a Call is a
     call of a function with an empty body *)
  Definition step_op (o : eop) (s : state) : state :=
    match o with
    | Alias v => upd_st s v [0]
    | Move v ws => upd_st s v (reach s ws)
    | Copy v ws => alloc s v ws
    | Write c w k => match st s w with l :: _ => upd_hp s l (mutate k (hp s l)) | [] => s end
    | Call r r2 f args => after_call s (callee_state s 0 args) r r2 0
    end.
  Definition run (l : list eop) (s : state) : state := fold_left (fun s' o => step_op o s') l s.
End Semantics.

Arguments st {frame} _ _.
Arguments hp {frame} _ _.
Arguments nx {frame} _.
Arguments mkstate {frame} _ _ _.

(* ------------------------------------------------------------------------------------------------ *)
(* The analysis                                                                                     *)
(* ------------------------------------------------------------------------------------------------ *)
Definition mem (x : nat) (l : list nat) : bool := existsb (Nat.eqb x) l.
Fixpoint dedup (l : list nat) : list nat :=
  match l with
  | [] => []
  | x :: tl => if mem x tl then dedup tl else x :: dedup tl
  end.

Definition aset := list origin.
Definition astate := list (var * aset).      (* only variables with a non-empty origin set are stored *)

Fixpoint lookup (A : astate) (v : var) : aset :=
  match A with
  | [] => []
  | (w, os) :: tl => if N.eqb w v then os else lookup tl v
  end.
Definition remove (A : astate) (v : var) : astate := filter (fun p => negb (N.eqb (fst p) v)) A.
Definition set (A : astate) (v : var) (os : aset) : astate :=
  match os with
  | [] => remove A v
  | _ => (v, os) :: remove A v
  end.
Fixpoint join (A B : astate) : astate :=
  match A with
  | [] => B
  | (v, os) :: tl => let B' := join tl B in set B' v (dedup (os ++ lookup B' v))
  end.
Definition sub_state (A B : astate) : bool :=
  forallb (fun p => forallb (fun o => mem o (lookup B (fst p))) (lookup A (fst p))) A.
Definition origins (A : astate) (ws : list var) : aset := flat_map (lookup A) ws.

(* write records: (class, origin written, write site).  Every site is kept for writes to the input (origin 0)
   and for attribute stores (class 0); otherwise one witness site per (class, origin) *)
Definition wrec := (nat * origin * N)%type.
Definition keep_site (c : nat) (o : origin) : bool := Nat.even o || Nat.eqb c 0.
Definition wr_has (r : wrec) (l : list wrec) : bool :=
  let '(c, o, k) := r in
  existsb (fun r' => Nat.eqb (fst (fst r')) c && Nat.eqb (snd (fst r')) o &&
                     (negb (keep_site c o) || N.eqb (snd r') k)) l.
Definition wr_add (r : wrec) (l : list wrec) : list wrec :=
  if wr_has r l then l else r :: l.
Definition wr_app (a b : list wrec) : list wrec := fold_right wr_add b a.
Definition writtenb (o : origin) (l : list wrec) : bool := existsb (fun r => Nat.eqb (snd (fst r)) o) l.
Definition written (o : origin) (l : list wrec) : Prop := exists c k, In (c, o, k) l.

Record summary := mksum { s_wr : list wrec; s_ret : aset; s_ret2 : aset; s_ar : nat }.
Definition dsum : summary := mksum [] [] [] 0.

(* nrm: abstract state after normal completion; kills: the (non-empty) origin sets that were overwritten
   on the way — the abstract state at ANY point where the program may have been abandoned is below
   join nrm kills *)
Record res := mkres { nrm : astate; kills : astate; wr : list wrec; ok : bool }.
Definition anyS (r : res) : astate := join (kills r) (nrm r).

(* translation of a callee origin into caller origins *)
Definition tr (A : astate) (args : list (list var)) (o : origin) : aset :=
  match o with
  | 0 => [0]
  | S i => origins A (nth i args [])
  end.

Definition assign (A : astate) (v : var) (os : aset) : astate * astate :=
  (set A v os, match lookup A v with [] => [] | old => [(v, old)] end).

Definition assign2 (A : astate) (v : var) (os : aset) (v2 : var) (os2 : aset) : astate * astate :=
  let a1 := assign A v os in
  let a2 := assign (fst a1) v2 os2 in
  (fst a2, snd a1 ++ snd a2).

Definition ai_op (summ : fname -> summary) (o : eop) (A : astate) : astate * astate * list wrec :=
  match o with
  | Alias v => (assign A v [0], [])
  | Move v ws => (assign A v (dedup (origins A ws)), [])
  | Copy v ws => (assign A v [], [])
  | Write c w k => ((A, []), wr_app (map (fun o => (c, o, k)) (lookup A w)) [])
  | Call r r2 f args =>
      let sm := summ f in
      (assign2 A r (dedup (flat_map (tr A args) (s_ret sm))) r2 (dedup (flat_map (tr A args) (s_ret2 sm))),
       wr_app (flat_map (fun r => map (fun o' => (fst (fst r), o', snd r)) (tr A args (snd (fst r)))) (s_wr sm)) [])
  end.

Fixpoint iter_fix (f : astate -> astate) (n : nat) (X : astate) : astate :=
  match n with
  | 0 => X
  | S n' => let X' := join (f X) X in if sub_state X' X then X else iter_fix f n' X'
  end.

Fixpoint ai (summ : fname -> summary) (it : nat) (p : prog) (A : astate) : res :=
  match p with
  | Skip => mkres A [] [] true
  | Op o => let r := ai_op summ o A in mkres (fst (fst r)) (snd (fst r)) (snd r) true
  | Seq p q =>
      let r1 := ai summ it p A in
      let r2 := ai summ it q (nrm r1) in
      mkres (nrm r2) (kills r1 ++ kills r2) (wr_app (wr r1) (wr r2)) (ok r1 && ok r2)
  | Alt p q =>
      let r1 := ai summ it p A in
      let r2 := ai summ it q A in
      mkres (join (nrm r1) (nrm r2)) (kills r1 ++ kills r2) (wr_app (wr r1) (wr r2)) (ok r1 && ok r2)
  | Star p =>
      let X := iter_fix (fun X => nrm (ai summ it p X)) it A in
      let r := ai summ it p X in
      mkres X (kills r) (wr r) (ok r && sub_state (nrm r) X)
  | Part p =>
      let r := ai summ it p A in
      mkres (anyS r) [] (wr r) (ok r)
  end.

Definition init (a : nat) : astate := map (fun i => (vparam i, [S i])) (seq 0 a).

(* ---- summaries ---- *)
Definition sub_wr (a b : list wrec) : bool := forallb (fun r => writtenb (snd (fst r)) b) a.
Definition sub_wr_exact (a b : list wrec) : bool := forallb (fun r => wr_has r b) a.
Definition sub_set (a b : list nat) : bool := forallb (fun x => mem x b) a.

Definition analyse (summ : list summary) (it : nat) (f : fdef) : summary * bool :=
  let r := ai (fun g => nth (N.to_nat g) summ dsum) it (body f) (init (arity f)) in
  (mksum (wr_app (wr r) []) (dedup (lookup (anyS r) 0%N)) (dedup (lookup (anyS r) (ret2 (arity f)))) (arity f), ok r).

Fixpoint forallb2 {A B} (f : A -> B -> bool) (l : list A) (m : list B) : bool :=
  match l, m with
  | [], [] => true
  | a :: l', b :: m' => f a b && forallb2 f l' m'
  | _, _ => false
  end.

(* the summary table is a post-fixpoint of the analysis: every function's analysis result, computed
   WITH the table, is below its table entry *)
Definition fn_consistent (summ : list summary) (it : nat) (f : fdef) (sm : summary) : bool :=
  let a := analyse summ it f in
  snd a && sub_wr (s_wr (fst a)) (s_wr sm) && sub_set (s_ret (fst a)) (s_ret sm) &&
  sub_set (s_ret2 (fst a)) (s_ret2 sm).
Definition consistent (it : nat) (fdefs : list fdef) (summ : list summary) : bool :=
  forallb2 (fn_consistent summ it) fdefs summ.

Definition merge_summary (a b : summary) : summary :=
  mksum (wr_app (s_wr a) (s_wr b)) (dedup (s_ret a ++ s_ret b)) (dedup (s_ret2 a ++ s_ret2 b)) (s_ar a).
Definition sub_summary (a b : summary) : bool :=
  sub_wr_exact (s_wr a) (s_wr b) && sub_set (s_ret a) (s_ret b) && sub_set (s_ret2 a) (s_ret2 b).
Definition next_round (it : nat) (fdefs : list fdef) (summ : list summary) : list summary :=
  map (fun fs => merge_summary (fst (analyse summ it (fst fs))) (snd fs)) (combine fdefs summ).
Fixpoint solve (it : nat) (fdefs : list fdef) (rounds : nat) (summ : list summary) : list summary :=
  match rounds with
  | 0 => summ
  | S k => let nxt := next_round it fdefs summ in
           if forallb2 sub_summary nxt summ then summ else solve it fdefs k nxt
  end.
Definition bottom (fdefs : list fdef) : list summary := map (fun _ => dsum) fdefs.

(* ---- verdicts on a function's summary ---- *)
(* the input dataset is never written, neither definitely nor through code the tables do not know *)
Definition input_clean (sm : summary) : bool := negb (writtenb 0 (s_wr sm)).
(* no attribute store (obj.attr = v, setattr) into anything reachable from a parameter *)
Definition params_clean (sm : summary) : bool :=
  negb (existsb (fun r => Nat.eqb (fst (fst r)) 0 && negb (Nat.eqb (snd (fst r)) 0)) (s_wr sm)).
Definition param_clean (i : nat) (sm : summary) : bool := negb (writtenb (S i) (s_wr sm)).
(* The translator gives every Python parameter i the two IR parameters 2i (the value) and 2i+1 (what `.dataset` of
   the value denotes).  IR parameter j has origin S j: the dataset channels are the EVEN origins >= 2.
   ds_clean: no write of any class into the dataset of any argument *)
Definition ds_clean (sm : summary) : bool :=
  negb (existsb (fun r => negb (Nat.eqb (snd (fst r)) 0) && Nat.even (snd (fst r))) (s_wr sm)).
Definition fn_clean (sm : summary) : bool := input_clean sm && ds_clean sm && params_clean sm.
(* offending records (class, origin, write site), for reporting *)
Definition offending (sm : summary) : list wrec :=
  filter (fun r => Nat.even (snd (fst r)) || Nat.eqb (fst (fst r)) 0) (s_wr sm).

(* the DESIGN's straight-line checker: an operation list never writes through an alias of the input *)
Definition no_write_to_alias (l : list eop) : bool :=
  input_clean (fst (analyse [] 1 (mkfdef 0 (seqs (map Op l))))).

(* ---- a faster search for the summary table (Gauss-Seidel in a given order, typically callees first).  Like `solve`
   it is only a SEARCH: what the theorems need is `consistent` of the table it returns. *)
Fixpoint set_nth {A} (n : nat) (x : A) (l : list A) : list A :=
  match l, n with
  | [], _ => []
  | _ :: tl, 0 => x :: tl
  | y :: tl, S n' => y :: set_nth n' x tl
  end.
Definition gs_round (it : nat) (fdefs : list fdef) (order : list nat) (summ : list summary) : list summary :=
  fold_left (fun sm i => set_nth i (merge_summary (fst (analyse sm it (nth i fdefs dfdef))) (nth i sm dsum)) sm) order summ.
Fixpoint solve_gs (it : nat) (fdefs : list fdef) (order : list nat) (rounds : nat) (summ : list summary) : list summary :=
  match rounds with
  | 0 => summ
  | S k => let nxt := gs_round it fdefs order summ in
           if forallb2 sub_summary nxt summ then summ else solve_gs it fdefs order k nxt
  end.
