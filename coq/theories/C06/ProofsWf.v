(* PV.C06.ProofsWf — lemmas about the validating constructors and the eq/hash term tables. *)
From Coq Require Import QArith List Bool PArith Arith Lia.
From PV Require Import Base.PyData C06.Wf.
Import ListNotations.
Local Open Scope nat_scope.

(* ---------------------------------------------------------------- Parameter.create *)
Lemma xlt_false_xle a b : isnan a = false -> isnan b = false -> xlt a b = false -> xle b a = true.
Proof.
  destruct a as [| |x|], b as [| |y|]; cbn; intros; try discriminate; try reflexivity.
  apply negb_false_iff. assumption.
Qed.

Lemma param_create_wf n i l u f p :
  param_create n i l u f = Some p -> param_wf p = true.
Proof.
  unfold param_create, param_wf.
  destruct (isnan i) eqn:Ei; [discriminate|].
  set (l' := match l with None => XNegInf | Some x => x end).
  set (u' := match u with None => XPosInf | Some x => x end).
  destruct (isnan l' || isnan u') eqn:EN; [discriminate|].
  apply orb_false_iff in EN. destruct EN as [Nl Nu].
  destruct (xlt i l') eqn:E1; [discriminate|]. destruct (xlt u' i) eqn:E2; [discriminate|].
  intros H. inversion H; subst p. cbn [p_lower p_init p_upper].
  rewrite (xlt_false_xle _ _ Ei Nl E1), (xlt_false_xle _ _ Nu Ei E2). reflexivity.
Qed.

Lemma xle_false_xlt a b : isnan a = false -> isnan b = false -> xle a b = false -> xlt b a = true.
Proof.
  destruct a as [| |x|], b as [| |y|]; cbn; intros; try discriminate; try reflexivity.
  apply negb_true_iff. assumption.
Qed.

(* completeness: an init outside the bounds, a NaN init or a NaN bound is refused (xle with NaN is false) *)
Lemma param_create_rejects n i l u f :
  (isnan i = true \/
   xle (match l with None => XNegInf | Some x => x end) i = false \/
   xle i (match u with None => XPosInf | Some x => x end) = false) ->
  param_create n i l u f = None.
Proof.
  unfold param_create. intros H.
  destruct (isnan i) eqn:Ei; [reflexivity|].
  set (l' := match l with None => XNegInf | Some x => x end) in *.
  set (u' := match u with None => XPosInf | Some x => x end) in *.
  destruct (isnan l' || isnan u') eqn:EN; [reflexivity|].
  apply orb_false_iff in EN. destruct EN as [Nl Nu].
  destruct H as [H|[H|H]]; [discriminate| |].
  - rewrite (xle_false_xlt _ _ Nl Ei H). reflexivity.
  - destruct (xlt i l'); [reflexivity|]. rewrite (xle_false_xlt _ _ Ei Nu H). reflexivity.
Qed.

Lemma param_replace_wf p n i l u f q :
  param_replace p n i l u f = Some q -> param_wf q = true.
Proof. unfold param_replace. intros H. eapply param_create_wf. exact H. Qed.

Lemma param_wf_not_nan p : param_wf p = true -> isnan (p_lower p) = false /\ isnan (p_upper p) = false.
Proof.
  unfold param_wf. intros H. apply andb_true_iff in H. destruct H as [H1 H2].
  destruct (p_lower p), (p_init p), (p_upper p); cbn in *; try discriminate; auto.
Qed.

Lemma param_create_name n i l u f p : param_create n i l u f = Some p -> p_name p = n.
Proof.
  unfold param_create. destruct (isnan i); [discriminate|].
  destruct (isnan _ || isnan _); [discriminate|].
  destruct (xlt i _); [discriminate|]. destruct (xlt _ i); [discriminate|].
  intros H. inversion H. reflexivity.
Qed.

Lemma set_inits_spec inits : forall l r,
  set_inits l inits = Some r ->
  map p_name r = map p_name l /\ (forallb param_wf l = true -> forallb param_wf r = true).
Proof.
  induction l as [|p tl IH]; intros r H; cbn [set_inits] in H.
  - inversion H. split; [reflexivity | auto].
  - destruct (match alookup_x inits (p_name p) with
              | Some i => param_replace p None (Some i) None None None
              | None => Some p end) as [q|] eqn:EQ; [|discriminate].
    destruct (set_inits tl inits) as [r'|] eqn:ER; [|discriminate].
    inversion H; subst r. destruct (IH r' eq_refl) as [HN HW].
    assert (Hq : p_name q = p_name p /\ (param_wf p = true -> param_wf q = true)).
    { destruct (alookup_x inits (p_name p)) as [i|].
      - split.
        + unfold param_replace in EQ. apply param_create_name in EQ. exact EQ.
        + intros _. eapply param_replace_wf. exact EQ.
      - inversion EQ; subst. split; auto. }
    destruct Hq as [Hq1 Hq2]. split.
    + cbn [map]. rewrite Hq1, HN. reflexivity.
    + cbn [forallb]. intros HA. apply andb_true_iff in HA. destruct HA as [HA1 HA2].
      rewrite (Hq2 HA1), (HW HA2). reflexivity.
Qed.

(* ---------------------------------------------------------------- Parameters.set_fix *)
Lemma xle_true_xlt_false a b : xle a b = true -> xlt b a = false.
Proof.
  destruct a as [| |x|], b as [| |y|]; cbn; intros H; try discriminate; try reflexivity.
  rewrite H. reflexivity.
Qed.

Lemma xle_true_not_nan a b : xle a b = true -> isnan a = false /\ isnan b = false.
Proof. destruct a, b; cbn; intros H; try discriminate; auto. Qed.

(* re-fixing a well-formed parameter never fails and changes the flag only *)
Lemma param_replace_fix_total p b :
  param_wf p = true ->
  param_replace p None None None None (Some b) = Some (mkparam (p_name p) (p_init p) (p_lower p) (p_upper p) b).
Proof.
  unfold param_wf, param_replace, param_create. intros H. apply andb_true_iff in H. destruct H as [H1 H2].
  destruct (xle_true_not_nan _ _ H1) as [Nl Ni]. destruct (xle_true_not_nan _ _ H2) as [_ Nu].
  rewrite Ni, Nl, Nu. cbn [orb]. rewrite (xle_true_xlt_false _ _ H1), (xle_true_xlt_false _ _ H2). reflexivity.
Qed.

(* whatever replace returns differs from p in the flag only *)
Lemma param_replace_fix_shape p b q :
  param_replace p None None None None (Some b) = Some q ->
  q = mkparam (p_name p) (p_init p) (p_lower p) (p_upper p) b.
Proof.
  unfold param_replace, param_create. destruct (isnan (p_init p)); [discriminate|].
  destruct (isnan (p_lower p) || isnan (p_upper p)); [discriminate|].
  destruct (xlt (p_init p) (p_lower p)); [discriminate|]. destruct (xlt (p_upper p) (p_init p)); [discriminate|].
  intros H. inversion H. reflexivity.
Qed.

Lemma set_fix_shape fx : forall l r, set_fix l fx = Some r -> r = map (with_fix fx) l.
Proof.
  induction l as [|p tl IH]; intros r H; cbn [set_fix] in H.
  - inversion H. reflexivity.
  - cbn [map]. unfold with_fix at 1.
    destruct (alookup_b fx (p_name p)) as [b|] eqn:EL.
    + destruct (param_replace p None None None None (Some b)) as [q|] eqn:EQ; [|discriminate].
      destruct (set_fix tl fx) as [r'|] eqn:ER; [|discriminate]. inversion H; subst r.
      rewrite (param_replace_fix_shape _ _ _ EQ), (IH r' eq_refl). reflexivity.
    + destruct (set_fix tl fx) as [r'|] eqn:ER; [|discriminate]. inversion H; subst r.
      rewrite (IH r' eq_refl). reflexivity.
Qed.

Lemma with_fix_wf fx p : param_wf (with_fix fx p) = param_wf p.
Proof. unfold with_fix. destruct (alookup_b fx (p_name p)); reflexivity. Qed.

Lemma with_fix_fields fx p :
  p_name (with_fix fx p) = p_name p /\ p_init (with_fix fx p) = p_init p /\
  p_lower (with_fix fx p) = p_lower p /\ p_upper (with_fix fx p) = p_upper p.
Proof. unfold with_fix. destruct (alookup_b fx (p_name p)); cbn; auto. Qed.

Lemma set_fix_total fx : forall l, forallb param_wf l = true -> set_fix l fx = Some (map (with_fix fx) l).
Proof.
  induction l as [|p tl IH]; intros H; cbn [set_fix map]; [reflexivity|].
  cbn [forallb] in H. apply andb_true_iff in H. destruct H as [Hp Ht].
  unfold with_fix at 1. destruct (alookup_b fx (p_name p)) as [b|] eqn:EL.
  - rewrite (param_replace_fix_total p b Hp), (IH Ht). reflexivity.
  - rewrite (IH Ht). reflexivity.
Qed.

Lemma set_fix_wf fx l r : set_fix l fx = Some r -> forallb param_wf l = true -> forallb param_wf r = true.
Proof.
  intros H W. rewrite (set_fix_shape fx l r H). clear H.
  induction l as [|p tl IH]; cbn [map forallb] in *; [reflexivity|].
  apply andb_true_iff in W. destruct W as [W1 W2]. rewrite with_fix_wf, W1, (IH W2). reflexivity.
Qed.

Lemma first_dup_none seen l :
  first_dup seen l = None -> NoDup l /\ forall x, In x l -> ~ In x seen.
Proof.
  revert seen. induction l as [|x tl IH]; intros seen H; cbn [first_dup] in H.
  - split; [constructor | intros x []].
  - destruct (memp x seen) eqn:E; [discriminate|].
    destruct (IH _ H) as [ND NI]. split.
    + constructor; [|exact ND]. intro HI. apply (NI x HI). left. reflexivity.
    + intros y [Hy|Hy] HS.
      * subst y. apply memp_In in HS. congruence.
      * apply (NI y Hy). right. exact HS.
Qed.

Lemma first_dup_some seen l x :
  first_dup seen l = Some x -> In x l /\ (In x seen \/ ~ NoDup l).
Proof.
  revert seen. induction l as [|y tl IH]; intros seen H; cbn [first_dup] in H; [discriminate|].
  destruct (memp y seen) eqn:E.
  - inversion H; subst. split; [left; reflexivity | left; apply memp_In; exact E].
  - destruct (IH _ H) as [HI HD]. split; [right; exact HI|].
    destruct HD as [[HD|HD]|HD].
    + subst y. right. intro ND. inversion ND; contradiction.
    + left. exact HD.
    + right. intro ND. inversion ND; contradiction.
Qed.

Lemma names_ok_NoDup l : names_ok l = true <-> NoDup l.
Proof.
  unfold names_ok. destruct (first_dup [] l) as [x|] eqn:E; split; intros H; try reflexivity; try discriminate.
  - destruct (first_dup_some _ _ _ E) as [_ [[]|HD]]. contradiction.
  - apply (first_dup_none _ _ E).
Qed.

Lemma params_create_unique l r : params_create l = Some r -> r = l /\ NoDup (map p_name r).
Proof.
  unfold params_create. destruct (names_ok (map p_name l)) eqn:E; [|discriminate].
  intros H. inversion H; subst. split; [reflexivity | apply names_ok_NoDup; exact E].
Qed.

Lemma params_create_rejects l : ~ NoDup (map p_name l) -> params_create l = None.
Proof.
  unfold params_create. intros H. destruct (names_ok (map p_name l)) eqn:E; [|reflexivity].
  apply names_ok_NoDup in E. contradiction.
Qed.

Lemma rvs_create_seq_unique ds r : rvs_create_seq ds = Some r -> r = ds /\ NoDup (concat r).
Proof.
  unfold rvs_create_seq. destruct (names_ok (concat ds)) eqn:E; [|discriminate].
  intros H. inversion H; subst. split; [reflexivity | apply names_ok_NoDup; exact E].
Qed.

Lemma NoDup_app_intro {A} (a b : list A) :
  NoDup a -> NoDup b -> (forall x, In x b -> ~ In x a) -> NoDup (a ++ b).
Proof.
  induction a as [|x tl IH]; intros Ha Hb HD; cbn; [exact Hb|].
  inversion Ha; subst. constructor.
  - intro HI. apply in_app_or in HI. destruct HI as [HI|HI]; [contradiction|]. apply (HD x HI). left. reflexivity.
  - apply IH; [assumption | assumption |]. intros y Hy HI. apply (HD y Hy). right. exact HI.
Qed.

Lemma rvs_add_unique r d q : rvs_add r d = Some q -> q = r ++ [d] /\ NoDup (concat q).
Proof. unfold rvs_add. apply rvs_create_seq_unique. Qed.

Lemma rvs_create_single_unique d q : rvs_create_single d = Some q -> q = [d] /\ NoDup d.
Proof.
  unfold rvs_create_single. intros H. destruct (rvs_create_seq_unique _ _ H) as [E ND]. subst q.
  cbn [concat] in ND. rewrite app_nil_r in ND. auto.
Qed.

(* rvs + dist is accepted exactly when the added names are fresh and distinct *)
Lemma rvs_add_accepts r d : rvs_wf r = true -> g_fresh_names r d = true -> rvs_add r d = Some (r ++ [d]).
Proof.
  unfold rvs_wf, g_fresh_names, rvs_add, rvs_create_seq. intros Hr G. apply andb_true_iff in G. destruct G as [G1 G2].
  assert (E : names_ok (concat (r ++ [d])) = true); [|rewrite E; reflexivity].
  apply names_ok_NoDup. rewrite concat_app. cbn [concat]. rewrite app_nil_r.
  apply NoDup_app_intro; [apply names_ok_NoDup; exact Hr | apply names_ok_NoDup; exact G1|].
  intros x Hx HI. apply negb_true_iff in G2.
  assert (existsb (fun x => memp x (concat r)) d = true).
  { apply existsb_exists. exists x. split; [exact Hx | apply memp_In; exact HI]. }
  congruence.
Qed.

(* ---------------------------------------------------------------- _canonicalize_statements *)
Lemma first_err_none {A} (f : A -> option cerr) l : first_err f l = None -> forall x, In x l -> f x = None.
Proof.
  induction l as [|y tl IH]; cbn [first_err]; intros H x []; subst.
  - destruct (f x); [discriminate | reflexivity].
  - destruct (f y); [discriminate|]. apply IH; assumption.
Qed.

Lemma fun_syms_in whole st f args x :
  In st whole -> c_fun st = Some (f, args) -> In x (f :: args) -> In x (fun_syms whole).
Proof.
  intros HI HF HX. unfold fun_syms. apply in_flat_map. exists st. split; [exact HI|]. rewrite HF. exact HX.
Qed.

Lemma canon_loop_sound nan whole known : forall rest all before,
  whole = before ++ rest ->
  canon_loop all nan whole before rest = None ->
  (forall x, memp x all = true -> In x known \/ In x (fun_syms whole)) ->
  forall pre st post, rest = pre ++ st :: post -> c_ode st = false ->
  forall x, In x (c_rhs st) ->
    In x known \/ In x (fun_syms whole) \/ x = nan \/ existsb (plain_def x) (before ++ pre) = true.
Proof.
  induction rest as [|s0 tl IH]; intros all before HW HC HA pre st post HR HO x HX.
  - destruct pre; discriminate.
  - cbn [canon_loop] in HC.
    assert (HW' : whole = (before ++ [s0]) ++ tl) by (rewrite <- app_assoc; exact HW).
    destruct pre as [|p0 pre'].
    + (* st is s0 *)
      cbn in HR. inversion HR; subst s0 post. rewrite HO in HC. rewrite app_nil_r.
      destruct (forallb (fun x => memp x all) (c_rhs st)) eqn:EF.
      * rewrite forallb_forall in EF. destruct (HA x (EF x HX)) as [H|H]; auto.
      * set (all' := match c_fun st with Some (f, args) => f :: args ++ all | None => all end) in *.
        destruct (first_err (check_sym all' nan whole before) (c_rhs st)) eqn:EE; [discriminate|].
        pose proof (first_err_none _ _ EE x HX) as HS. unfold check_sym in HS.
        destruct (memp x all') eqn:EM.
        -- apply memp_In in EM. subst all'. destruct (c_fun st) as [[f args]|] eqn:ECF.
           ++ destruct EM as [EM|EM].
              ** right. left. eapply fun_syms_in; [|exact ECF|left; exact EM]. rewrite HW. apply in_or_app. right. left. reflexivity.
              ** apply in_app_or in EM. destruct EM as [EM|EM].
                 --- right. left. eapply fun_syms_in; [|exact ECF|right; exact EM]. rewrite HW. apply in_or_app. right. left. reflexivity.
                 --- apply memp_In in EM. destruct (HA x EM); auto.
           ++ apply memp_In in EM. destruct (HA x EM); auto.
        -- destruct (Pos.eqb x nan) eqn:EN; [apply Pos.eqb_eq in EN; auto|].
           destruct (existsb (plain_def x) whole); cbn [negb] in HS; [|discriminate].
           destruct (existsb (plain_def x) before) eqn:EB; cbn [negb] in HS; [|discriminate]. auto.
    + (* st is further down *)
      cbn in HR. inversion HR; subst p0.
      assert (G : forall all', canon_loop all' nan whole (before ++ [s0]) tl = None ->
                  (forall x, memp x all' = true -> In x known \/ In x (fun_syms whole)) ->
                  In x known \/ In x (fun_syms whole) \/ x = nan \/ existsb (plain_def x) ((before ++ [s0]) ++ pre') = true).
      { intros all' HC' HA'. eapply IH; eauto. }
      rewrite <- app_assoc in G. cbn [app] in G.
      destruct (c_ode s0) eqn:EO0; [apply (G all HC HA)|].
      destruct (forallb (fun x => memp x all) (c_rhs s0)) eqn:EF; [apply (G all HC HA)|].
      set (all' := match c_fun s0 with Some (f, args) => f :: args ++ all | None => all end) in *.
      destruct (first_err (check_sym all' nan whole before) (c_rhs s0)); [discriminate|].
      apply (G all' HC). intros y Hy. apply memp_In in Hy. subst all'.
      destruct (c_fun s0) as [[f args]|] eqn:ECF.
      * destruct Hy as [Hy|Hy].
        -- right. eapply fun_syms_in; [|exact ECF|left; exact Hy]. rewrite HW. apply in_or_app. right. left. reflexivity.
        -- apply in_app_or in Hy. destruct Hy as [Hy|Hy].
           ++ right. eapply fun_syms_in; [|exact ECF|right; exact Hy]. rewrite HW. apply in_or_app. right. left. reflexivity.
           ++ apply HA. apply memp_In. exact Hy.
      * apply HA. apply memp_In. exact Hy.
Qed.

Lemma canon_sound base t nan l :
  canon base t nan l = None ->
  forall pre st post, l = pre ++ st :: post -> c_ode st = false ->
  forall x, In x (c_rhs st) ->
    In x (base_of base t l) \/ In x (fun_syms l) \/ x = nan \/ existsb (plain_def x) pre = true.
Proof.
  unfold canon. intros HC pre st post HL HO x HX.
  exact (canon_loop_sound nan l (base_of base t l) l _ [] eq_refl HC
           (fun y Hy => or_introl (proj1 (memp_In _ _) Hy)) pre st post HL HO x HX).
Qed.

(* under the two guards (no applied-function left-hand side, the symbol NaN is not used) acceptance gives
   the plain property: defined before use *)
Lemma fun_syms_nil l : g_no_fun_lhs l = true -> fun_syms l = [].
Proof.
  unfold g_no_fun_lhs, fun_syms. induction l as [|st tl IH]; cbn [forallb flat_map]; [reflexivity|].
  intros H. apply andb_true_iff in H. destruct H as [H1 H2].
  destruct (c_fun st); [discriminate|]. cbn [app]. apply IH. exact H2.
Qed.

Lemma dbu_spec : forall l known,
  g_no_fun_lhs l = true ->
  (forall pre st post, l = pre ++ st :: post -> c_ode st = false ->
     forall x, In x (c_rhs st) -> In x known \/ existsb (plain_def x) pre = true) ->
  defined_before_use known l = true.
Proof.
  induction l as [|s0 tl IH]; intros known G H; cbn [defined_before_use]; [reflexivity|].
  cbn [g_no_fun_lhs forallb] in G. apply andb_true_iff in G. destruct G as [G0 G].
  destruct (c_fun s0) eqn:ECF; [discriminate|].
  assert (HT : forall known', (forall x, In x known -> In x known') ->
               (c_ode s0 = false -> In (c_lhs s0) known') ->
               defined_before_use known' tl = true).
  { intros known' HK HL. apply IH; [exact G|]. intros pre st post E HO x HX.
    destruct (H (s0 :: pre) st post ltac:(rewrite E; reflexivity) HO x HX) as [HI|HE]; [left; auto|].
    cbn [existsb] in HE. apply orb_true_iff in HE. destruct HE as [HE|HE]; [|right; exact HE].
    left. unfold plain_def in HE. rewrite ECF in HE. apply andb_true_iff in HE. destruct HE as [HE1 HE2].
    apply negb_true_iff in HE1. apply Pos.eqb_eq in HE2. subst x. apply HL. exact HE1. }
  destruct (c_ode s0) eqn:EO.
  - apply HT; [auto | discriminate].
  - apply andb_true_iff. split.
    + apply forallb_forall. intros x HX. apply memp_In.
      destruct (H [] s0 tl eq_refl EO x HX) as [HI|HE]; [exact HI | discriminate].
    + apply HT; [intros x HI; right; exact HI | intros _; left; reflexivity].
Qed.

Lemma canon_defined_before_use base t nan l :
  canon base t nan l = None -> g_no_fun_lhs l = true -> g_no_nan nan l = true ->
  defined_before_use (base_of base t l) l = true.
Proof.
  intros HC GF GN. apply dbu_spec; [exact GF|].
  intros pre st post E HO x HX.
  destruct (canon_sound base t nan l HC pre st post E HO x HX) as [H|[H|[H|H]]]; auto.
  - rewrite (fun_syms_nil l GF) in H. destruct H.
  - subst x. exfalso. unfold g_no_nan in GN. rewrite forallb_forall in GN.
    assert (HI : In st l) by (rewrite E; apply in_or_app; right; left; reflexivity).
    specialize (GN st HI). apply negb_true_iff in GN. apply memp_In in HX. congruence.
Qed.

(* ---------------------------------------------------------------- cached hashes *)
Lemma cstep_ok content H k src newc :
  ckind_allowed k = true -> cache_ok content H src = true -> cache_ok content H (cstep content H k src newc) = true.
Proof.
  destruct k; cbn; intros A Hs; try discriminate; try reflexivity; try apply Nat.eqb_refl. exact Hs.
Qed.

Lemma chash_ok content H o : cache_ok content H o = true -> chash content H o = H (co_content content o).
Proof.
  unfold cache_ok, chash. destruct (co_cache content o) as [h|]; [|reflexivity].
  intros E. apply Nat.eqb_eq in E. exact E.
Qed.

(* ---------------------------------------------------------------- immutability *)
Lemma run_stores_fields l : forall o,
  forallb (fun s => post_construction (fst (fst s))) l = true ->
  forall g, i_fields (run_stores l o) g = i_fields o g.
Proof.
  induction l as [|[[k f] v] tl IH]; intros o H g; cbn [run_stores fold_left]; [reflexivity|].
  cbn [forallb fst snd] in H. apply andb_true_iff in H. destruct H as [Hk Ht].
  fold (run_stores tl (store k f v o)). rewrite (IH _ Ht g).
  destruct k; cbn in Hk; try discriminate; reflexivity.
Qed.

(* ---------------------------------------------------------------- eq / hash term tables *)
Lemma cls_eq_refl c a : cls_eq c a a = true.
Proof. unfold cls_eq. apply forallb_forall. intros t _. apply Nat.eqb_refl. Qed.

Lemma cls_eq_sym c a b : cls_eq c a b = cls_eq c b a.
Proof.
  unfold cls_eq. induction (eq_terms c) as [|t tl IH]; cbn [forallb]; [reflexivity|].
  rewrite IH, (Nat.eqb_sym (a t) (b t)). reflexivity.
Qed.

Lemma cls_eq_trans c a b d : cls_eq c a b = true -> cls_eq c b d = true -> cls_eq c a d = true.
Proof.
  unfold cls_eq. rewrite !forallb_forall. intros H1 H2 t Ht.
  specialize (H1 t Ht). specialize (H2 t Ht). apply Nat.eqb_eq in H1, H2. apply Nat.eqb_eq. congruence.
Qed.

Lemma term_eqb_eq a b : term_eqb a b = true <-> a = b.
Proof.
  destruct a as [f1 h1], b as [f2 h2]. unfold term_eqb. cbn [fst snd]. rewrite andb_true_iff, Pos.eqb_eq, Nat.eqb_eq.
  split; [intros [? ?]; subst; reflexivity | intros H; inversion H; auto].
Qed.

Lemma memt_In t l : memt t l = true <-> In t l.
Proof.
  unfold memt. rewrite existsb_exists. split.
  - intros [y [Hy E]]. apply term_eqb_eq in E. subst. exact Hy.
  - intros H. exists t. split; [exact H | apply term_eqb_eq; reflexivity].
Qed.

Lemma cls_eq_hash c a b : cls_consistent c = true -> cls_eq c a b = true -> cls_hkey c a = cls_hkey c b.
Proof.
  unfold cls_consistent, cls_eq, cls_hkey. rewrite !forallb_forall. intros HC HE.
  apply map_ext_in. intros t Ht. apply Nat.eqb_eq. apply HE. apply memt_In. apply HC. exact Ht.
Qed.

(* a hashed term that is not compared separates two equal objects *)
Lemma cls_inconsistent_refuted c t :
  In t (hashed_not_compared c) ->
  exists a b : obj, cls_eq c a b = true /\ cls_hkey c a <> cls_hkey c b.
Proof.
  unfold hashed_not_compared. rewrite filter_In. intros [HI HN]. apply negb_true_iff in HN.
  exists (fun _ => 0), (fun t' => if term_eqb t' t then 1 else 0). split.
  - unfold cls_eq. apply forallb_forall. intros t' Ht'. destruct (term_eqb t' t) eqn:E; [|reflexivity].
    apply term_eqb_eq in E. subst t'. apply memt_In in Ht'. congruence.
  - unfold cls_hkey. intro HE.
    assert (G : forall l, In t l -> map (fun _ : term => 0) l <> map (fun t' => if term_eqb t' t then 1 else 0) l).
    { induction l as [|x tl IH]; intros [] HM.
      - subst x. cbn [map] in HM. assert (E : term_eqb t t = true) by (apply term_eqb_eq; reflexivity).
        rewrite E in HM. discriminate.
      - cbn [map] in HM. inversion HM. apply IH; assumption. }
    exact (G _ HI HE).
Qed.
