(* PV.C06.Properties — the property theorems of C06 and nothing else. *)
From Coq Require Import QArith List Bool PArith Arith NArith Lia.
From PV Require Import Base.PyData C06.Model C06.Proofs C06.Wf C06.ProofsWf.
Import ListNotations.
Local Open Scope nat_scope.

(* ---- no API call changes its input ------------------------------------------------------------------ *)

(* THE frame theorem.  Given a table of function bodies in the effect IR and a summary table that the
   checker accepts as a post-fixpoint (`consistent`), ANY execution of ANY function of the table — any
   trace of its regular expression, any abandonment point (exception, return), calls to any depth, any
   mutation performed by each write site, any initial heap, any objects behind the parameters — leaves
   every pre-existing location l unchanged, provided the function's summary records no write to the input
   (when l is the input dataset, location 0) and no write to any parameter that reaches l. *)
Theorem checker_sound :
  forall (frame : Type) (mutate : N -> frame -> frame) (dflt : frame)
         (it : nat) (fdefs : list fdef) (summ : list summary),
    consistent it fdefs summ = true ->
    forall (f : fname) (n : nat) (s : state frame) (b : bool) (s' : state frame),
      entry frame (arity (nth (N.to_nat f) fdefs dfdef)) s ->
      exec frame mutate dflt (fun g => nth (N.to_nat g) fdefs dfdef) n
           (body (nth (N.to_nat f) fdefs dfdef)) s b s' ->
      forall l : loc, l < nx s ->
        (l = 0 -> input_clean (nth (N.to_nat f) summ dsum) = true) ->
        (forall i, In l (st s (vparam i)) -> param_clean i (nth (N.to_nat f) summ dsum) = true) ->
        hp s' l = hp s l.
Proof.
  intros frame mutate dflt it fdefs summ HC f n s b s' HE EX l Hl HI HP.
  exact (function_frame frame mutate dflt _ _ it (consistent_cons it fdefs summ HC) f n s b s' HE EX l Hl HI HP).
Qed.

(* The instance used for the public functions of pharmpy.modeling: when the summary of f is input-clean and
   no argument IS (or contains) the dataset object itself, the dataset behind `model.dataset` is the same
   frame after the call as before, whether the call returns or raises. *)
Theorem input_dataset_preserved :
  forall (frame : Type) (mutate : N -> frame -> frame) (dflt : frame)
         (it : nat) (fdefs : list fdef) (summ : list summary),
    consistent it fdefs summ = true ->
    forall (f : fname) (n : nat) (s : state frame) (b : bool) (s' : state frame),
      input_clean (nth (N.to_nat f) summ dsum) = true ->
      entry frame (arity (nth (N.to_nat f) fdefs dfdef)) s ->
      (forall i, ~ In 0 (st s (vparam i))) -> 0 < nx s ->
      exec frame mutate dflt (fun g => nth (N.to_nat g) fdefs dfdef) n
           (body (nth (N.to_nat f) fdefs dfdef)) s b s' ->
      hp s' 0 = hp s 0.
Proof.
  intros frame mutate dflt it fdefs summ HC f n s b s' HI HE HP Hn EX.
  apply (checker_sound frame mutate dflt it fdefs summ HC f n s b s' HE EX 0 Hn); [intros _; exact HI|].
  intros i Hi. destruct (HP i Hi).
Qed.

(* The form used since the translator separates a value from what its `.dataset` denotes (IR parameter 2i = the
   Python argument i, IR parameter 2i+1 = its dataset): when the summary records no write to the input origin and
   none to any dataset channel, and only dataset channels of the arguments denote the input frame, the input frame is
   unchanged — also when the function works on datasets of models it created itself, which are other locations. *)
Theorem argument_datasets_preserved :
  forall (frame : Type) (mutate : N -> frame -> frame) (dflt : frame)
         (it : nat) (fdefs : list fdef) (summ : list summary),
    consistent it fdefs summ = true ->
    forall (f : fname) (n : nat) (s : state frame) (b : bool) (s' : state frame),
      input_clean (nth (N.to_nat f) summ dsum) = true ->
      ds_clean (nth (N.to_nat f) summ dsum) = true ->
      entry frame (arity (nth (N.to_nat f) fdefs dfdef)) s ->
      (forall i, In 0 (st s (vparam i)) -> Nat.odd i = true) -> 0 < nx s ->
      exec frame mutate dflt (fun g => nth (N.to_nat g) fdefs dfdef) n
           (body (nth (N.to_nat f) fdefs dfdef)) s b s' ->
      hp s' 0 = hp s 0.
Proof.
  intros frame mutate dflt it fdefs summ HC f n s b s' HI HD HE HP Hn EX.
  apply (checker_sound frame mutate dflt it fdefs summ HC f n s b s' HE EX 0 Hn); [intros _; exact HI|].
  intros i Hi. apply ds_clean_param; [exact HD | apply HP; exact Hi].
Qed.

(* A function whose summary records no write at all changes NO pre-existing object. *)
Theorem pure_function_changes_nothing :
  forall (frame : Type) (mutate : N -> frame -> frame) (dflt : frame)
         (it : nat) (fdefs : list fdef) (summ : list summary),
    consistent it fdefs summ = true ->
    forall (f : fname) (n : nat) (s : state frame) (b : bool) (s' : state frame),
      s_wr (nth (N.to_nat f) summ dsum) = [] ->
      entry frame (arity (nth (N.to_nat f) fdefs dfdef)) s ->
      exec frame mutate dflt (fun g => nth (N.to_nat g) fdefs dfdef) n
           (body (nth (N.to_nat f) fdefs dfdef)) s b s' ->
      forall l, l < nx s -> hp s' l = hp s l.
Proof.
  intros frame mutate dflt it fdefs summ HC f n s b s' HW HE EX l Hl.
  apply (checker_sound frame mutate dflt it fdefs summ HC f n s b s' HE EX l Hl).
  - intros _. unfold input_clean. rewrite HW. reflexivity.
  - intros i _. unfold param_clean. rewrite HW. reflexivity.
Qed.

(* The straight-line checker of the design: an operation list that the checker accepts, run from any heap in
   which no variable is bound yet, leaves the input frame as it was. *)
Theorem no_write_to_alias_sound :
  forall (frame : Type) (mutate : N -> frame -> frame) (dflt : frame) (p : list eop) (h : state frame),
    (forall v, st h v = []) -> 0 < nx h -> no_write_to_alias p = true ->
    hp (run frame mutate dflt p h) 0 = hp h 0.
Proof. exact straight_line_sound. Qed.

(* ---- objects the API returns are well formed ------------------------------------------------------------ *)

(* Parameter.create: an accepted parameter has lower <= init <= upper — no side condition (NaN bounds are
   refused since /repo caae827). *)
Theorem param_wf :
  forall n i l u f p, param_create n i l u f = Some p -> Wf.param_wf p = true.
Proof. exact param_create_wf. Qed.

(* ... and create refuses everything else: NaN init, NaN bound, init below lower, init above upper. *)
Theorem param_create_complete :
  forall n i l u f,
    (isnan i = true \/ xle (match l with None => XNegInf | Some x => x end) i = false \/
     xle i (match u with None => XPosInf | Some x => x end) = false) ->
    param_create n i l u f = None.
Proof. exact param_create_rejects. Qed.

(* Parameter.replace (hence Parameters.set_initial_estimates / set_fix and the modeling functions built on
   them) never produces an init outside the bounds: it either raises or returns a well-formed parameter. *)
Theorem replace_preserves_wf :
  forall p n i l u f q, param_replace p n i l u f = Some q -> Wf.param_wf q = true.
Proof. exact param_replace_wf. Qed.

(* Parameters.set_initial_estimates (the path of modeling.set_initial_estimates and of
   Model._canonicalize_parameter_estimates): when it returns, the names are unchanged and in the same order and
   every parameter still has its init within its bounds. *)
Theorem set_initial_estimates_wf :
  forall inits l r,
    set_inits l inits = Some r ->
    map p_name r = map p_name l /\ (forallb Wf.param_wf l = true -> forallb Wf.param_wf r = true).
Proof. exact set_inits_spec. Qed.

(* Parameters.set_fix (the path of modeling.fix_parameters / unfix_parameters / fix_or_unfix_parameters / fix_parameters_to):
   for every parameter list and every name -> flag mapping, whenever it returns, the result is the input list with only
   the fix flags of the named parameters changed (same names in the same order, same inits and bounds); on a list of
   well-formed parameters it ALWAYS returns (re-validation through replace/create never refuses) and the result is well
   formed.  It can only raise for a parameter that was built unchecked with its init outside its bounds. *)
Theorem set_fix_changes_only_flags :
  forall fx l r, set_fix l fx = Some r -> r = map (with_fix fx) l.
Proof. exact set_fix_shape. Qed.
Theorem set_fix_never_refuses_wellformed :
  forall fx l, forallb Wf.param_wf l = true -> set_fix l fx = Some (map (with_fix fx) l).
Proof. exact set_fix_total. Qed.
Theorem set_fix_preserves_wf :
  forall fx l r, set_fix l fx = Some r -> forallb Wf.param_wf l = true -> forallb Wf.param_wf r = true.
Proof. exact set_fix_wf. Qed.
Theorem with_fix_keeps_value_fields :
  forall fx p, p_name (with_fix fx p) = p_name p /\ p_init (with_fix fx p) = p_init p /\
               p_lower (with_fix fx p) = p_lower p /\ p_upper (with_fix fx p) = p_upper p.
Proof. exact with_fix_fields. Qed.

(* Parameters.create accepts exactly the lists with pairwise distinct names (and returns them unchanged). *)
Theorem names_unique :
  forall l r, params_create l = Some r -> r = l /\ NoDup (map p_name r).
Proof. exact params_create_unique. Qed.
Theorem names_duplicate_rejected :
  forall l, ~ NoDup (map p_name l) -> params_create l = None.
Proof. exact params_create_rejects. Qed.

(* RandomVariables.create — on a sequence AND on a single distribution (since /repo 1b723c6) — returns an object
   whose variable names are pairwise distinct. *)
Theorem rv_names_unique :
  forall ds r, rvs_create_seq ds = Some r -> r = ds /\ NoDup (concat r).
Proof. exact rvs_create_seq_unique. Qed.
Theorem rv_names_unique_single :
  forall d r, rvs_create_single d = Some r -> r = [d] /\ NoDup d.
Proof. exact rvs_create_single_unique. Qed.

(* RandomVariables + Distribution goes through create: whenever it returns, ALL names are pairwise distinct — no
   side condition; and it does return when the added names are fresh. *)
Theorem rvs_add_unique :
  forall r d q, rvs_add r d = Some q -> q = r ++ [d] /\ NoDup (concat q).
Proof. exact ProofsWf.rvs_add_unique. Qed.
Theorem rvs_add_accepts_fresh :
  forall r d, rvs_wf r = true -> g_fresh_names r d = true -> rvs_add r d = Some (r ++ [d]).
Proof. exact rvs_add_accepts. Qed.

(* Model._canonicalize_statements: when the statements are accepted, every free symbol of every right-hand
   side is a parameter / random variable / data column / t (`base_of`), or one of the two exemptions of the
   code (name or argument of an applied-function left-hand side; the symbol NaN), or is assigned by an
   earlier plain assignment. *)
Theorem canon_statements_sound :
  forall base t nan l,
    canon base t nan l = None ->
    forall pre st post, l = pre ++ st :: post -> c_ode st = false ->
    forall x, In x (c_rhs st) ->
      In x (base_of base t l) \/ In x (fun_syms l) \/ x = nan \/ existsb (plain_def x) pre = true.
Proof. exact canon_sound. Qed.

(* Without the two exemptions the accepted statement list is defined-before-use in the plain sense. *)
Theorem canon_statements_defined_before_use :
  forall base t nan l,
    canon base t nan l = None -> g_no_fun_lhs l = true -> g_no_nan nan l = true ->
    defined_before_use (base_of base t l) l = true.
Proof. exact canon_defined_before_use. Qed.

(* Immutability of the metadata / model classes: a method whose stores after construction are only cache / singleton
   stores (the regenerated site list of DataInfo, ColumnInfo, Parameter(s), RandomVariables, distributions, statements,
   execution steps, Model, frozenmapping) leaves every field of the instance as it was — for any sequence of stores,
   any field, any values. *)
Theorem immutable_fields_preserved :
  forall (l : list (skind * nat * nat)) (o : inst),
    forallb (fun s => post_construction (fst (fst s))) l = true ->
    forall g, i_fields (run_stores l o) g = i_fields o g.
Proof. exact run_stores_fields. Qed.

(* ---- equal means equal ------------------------------------------------------------------------------------ *)

(* Cached hashes (cache_method, frozenmapping): as long as every store into a `_hash` attribute is of one of the
   four allowed kinds (the regenerated site list), the cache invariant is kept by every step, and under the
   invariant hash(o) is the hash of o's CURRENT content — whatever was hashed, copied or replaced before
   (any history): objects with equal content have equal hashes. *)
Theorem cache_invariant_step :
  forall (content : Type) (H : content -> nat) (k : ckind) (src : cobj content) (newc : content),
    ckind_allowed k = true -> cache_ok content H src = true ->
    cache_ok content H (cstep content H k src newc) = true.
Proof. exact cstep_ok. Qed.
Theorem cached_hash_history_independent :
  forall (content : Type) (H : content -> nat) (a b : cobj content),
    cache_ok content H a = true -> cache_ok content H b = true ->
    co_content content a = co_content content b -> chash content H a = chash content H b.
Proof.
  intros content H a b Ha Hb E. rewrite (chash_ok content H a Ha), (chash_ok content H b Hb), E. reflexivity.
Qed.

(* For every class whose __eq__ compares a list of terms (the regenerated term table): == is an equivalence *)
Theorem eq_equivalence :
  forall c : eqclass,
    (forall a, cls_eq c a a = true) /\
    (forall a b, cls_eq c a b = cls_eq c b a) /\
    (forall a b d, cls_eq c a b = true -> cls_eq c b d = true -> cls_eq c a d = true).
Proof.
  intros c. split; [apply cls_eq_refl | split; [apply cls_eq_sym | apply cls_eq_trans]].
Qed.

(* ... and equal objects have equal hash keys when every hashed term is also compared.  "partial": the terms
   are atoms — an attribute whose own class violates the law (Statements holding a CompartmentalSystem)
   breaks it from below, which is what the behavioural check observes on whole models. *)
Theorem eq_hash_consistent_partial :
  forall (c : eqclass) (a b : obj),
    cls_consistent c = true -> cls_eq c a b = true -> cls_hkey c a = cls_hkey c b.
Proof. exact cls_eq_hash. Qed.
