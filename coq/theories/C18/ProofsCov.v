(* PV.C18.ProofsCov — covsearch's greedy step procedure offers exactly the remaining effects at every step. *)
From Coq Require Import List Bool Arith ZArith NArith Lia.
From PV Require Import C18.Model.
Import ListNotations.
Local Open Scope nat_scope.

Lemma filter_filter {X} (g h : X -> bool) l : filter g (filter h l) = filter (fun x => h x && g x) l.
Proof. induction l as [|a l IH]; cbn; [reflexivity|]. destruct (h a); cbn; [destruct (g a); cbn; rewrite IH; reflexivity|exact IH]. Qed.

(* every step's candidate list is the original effect list with the effects removed that share parameter and
   covariate with one of the effects chosen so far (order kept) *)
Lemma covsearch_steps_remaining fuel : forall (effects : list ceff) (Q : ceff -> bool) winners n,
  Forall (fun r => exists chosen : list ceff,
            fst r = filter (fun x => Q x && negb (existsb (fun e => same_pc e x) chosen)) effects)
         (covsearch_steps fuel (filter Q effects) winners n).
Proof.
  induction fuel as [|f IH]; intros effects Q winners n; [constructor|].
  cbn [covsearch_steps]. destruct (filter Q effects) as [|c0 cs] eqn:Ec; [constructor|]. rewrite <- Ec.
  constructor.
  - exists []. cbn. apply filter_ext. intro x. rewrite andb_true_r. reflexivity.
  - destruct winners as [|[i|] ws]; [constructor| |constructor].
    destruct (nth_error (filter Q effects) i) as [e|]; [|constructor].
    rewrite filter_filter.
    specialize (IH effects (fun x => Q x && negb (same_pc e x)) ws (n + length (filter Q effects))).
    eapply Forall_impl; [|exact IH]. intros r [chosen Hr]. exists (e :: chosen). rewrite Hr. apply filter_ext. intro x.
    cbn [existsb]. destruct (Q x); cbn; [|reflexivity]. destruct (same_pc e x); reflexivity.
Qed.

Lemma covsearch_steps_nodup fuel : forall (cands : list ceff) winners n,
  NoDup cands -> Forall (fun r => NoDup (fst r)) (covsearch_steps fuel cands winners n).
Proof.
  induction fuel as [|f IH]; intros cands winners n Hnd; [constructor|].
  cbn [covsearch_steps]. destruct cands as [|c0 cs]; [constructor|]. constructor; [exact Hnd|].
  destruct winners as [|[i|] ws]; [constructor| |constructor].
  destruct (nth_error (c0 :: cs) i) as [e|]; [|constructor]. apply IH. apply NoDup_filter. exact Hnd.
Qed.

Lemma same_pc_refl e : same_pc e e = true.
Proof. unfold same_pc. rewrite !N.eqb_refl. reflexivity. Qed.

Lemma filter_len_le {X} (g : X -> bool) l : length (filter g l) <= length l.
Proof. induction l as [|a l IH]; cbn; [lia|]. destruct (g a); cbn; lia. Qed.

Lemma filter_length_lt {X} (g : X -> bool) l x : In x l -> g x = false -> length (filter g l) < length l.
Proof.
  induction l as [|a l IH]; intros Hin Hg; [contradiction|]. cbn. destruct Hin as [->|Hin].
  - rewrite Hg. pose proof (filter_len_le g l). lia.
  - specialize (IH Hin Hg). destruct (g a); cbn; lia.
Qed.

(* the `count(1)` loop ends: more fuel than |effects|+1 changes nothing *)
Lemma covsearch_steps_fuel : forall k (cands : list ceff) winners n f1 f2,
  length cands <= k -> k < f1 -> k < f2 ->
  covsearch_steps f1 cands winners n = covsearch_steps f2 cands winners n.
Proof.
  induction k as [|k IH]; intros cands winners n f1 f2 Hk H1 H2.
  - destruct cands; [|cbn in Hk; lia]. destruct f1; [lia|]. destruct f2; [lia|]. reflexivity.
  - destruct f1 as [|f1]; [lia|]. destruct f2 as [|f2]; [lia|]. cbn [covsearch_steps].
    destruct cands as [|c0 cs]; [reflexivity|]. f_equal.
    destruct winners as [|[i|] ws]; try reflexivity.
    destruct (nth_error (c0 :: cs) i) as [e|] eqn:En; [|reflexivity].
    apply IH; try lia. apply nth_error_In in En.
    pose proof (filter_length_lt (fun x => negb (same_pc e x)) (c0 :: cs) e En) as Hlt.
    assert (Hg : negb (same_pc e e) = false) by (rewrite same_pc_refl; reflexivity). specialize (Hlt Hg). cbn [length] in *. lia.
Qed.
