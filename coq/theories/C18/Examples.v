(* PV.C18.Examples — non-vacuity: concrete non-trivial instances of the hypotheses of the theorems. *)
From Coq Require Import List Bool Arith ZArith NArith.
From PV Require Import C18.Model C18.Spec.
Import ListNotations.

(* partitions of a 4-element duplicate-free list: 15 = Bell(4) outputs, in the documented order *)
Example partitions_example :
  partitions Nat.compare [1; 2; 3; 4] =
  [[[1; 2; 3; 4]]; [[1]; [2; 3; 4]]; [[2]; [1; 3; 4]]; [[3]; [1; 2; 4]]; [[4]; [1; 2; 3]];
   [[1; 2]; [3; 4]]; [[1; 3]; [2; 4]]; [[1; 4]; [2; 3]]; [[1]; [2]; [3; 4]]; [[1]; [3]; [2; 4]];
   [[1]; [4]; [2; 3]]; [[2]; [3]; [1; 4]]; [[2]; [4]; [1; 3]]; [[3]; [4]; [1; 2]]; [[1]; [2]; [3]; [4]]].
Proof. vm_compute. reflexivity. Qed.

(* the element orders used by the check (integers, strings as code point lists) are antisymmetric *)
Example cmp_opp_instances :
  (forall a b : nat, Nat.compare b a = CompOpp (Nat.compare a b)) /\
  (forall a b : Z, Z.compare b a = CompOpp (Z.compare a b)).
Proof. split; [intros; apply Nat.compare_antisym|intros; apply Z.compare_antisym]. Qed.

Example bell_values : map bell [0; 1; 2; 3; 4; 5; 6; 7] = [1; 1; 2; 5; 15; 52; 203; 877].
Proof. vm_compute. reflexivity. Qed.

(* a non-trivial equivalence relation on a duplicate-free list (same parity) *)
Example equiv_on_example : NoDup [1; 2; 3; 4; 5] /\ equiv_on [1; 2; 3; 4; 5] (fun a b => Nat.eqb (Nat.modulo a 2) (Nat.modulo b 2)).
Proof.
  split; [repeat constructor; cbn; intuition discriminate|].
  split; [|split].
  - intros a _. apply Nat.eqb_refl.
  - intros a b _ _. apply Nat.eqb_sym.
  - intros a b c _ _ _ H1 H2. apply Nat.eqb_eq in H1. apply Nat.eqb_eq in H2. apply Nat.eqb_eq. congruence.
Qed.

Example subsets_example :
  subsets [1; 2; 3] 1 2%Z = [[1]; [2]; [3]; [1; 2]; [1; 3]; [2; 3]] /\
  non_empty_subsets [1; 2; 3] = [[1]; [2]; [3]; [1; 2]; [1; 3]; [2; 3]; [1; 2; 3]] /\
  non_empty_proper_subsets [1; 2; 3] = [[1]; [2]; [3]; [1; 2]; [1; 3]; [2; 3]].
Proof. repeat split; vm_compute; reflexivity. Qed.

(* categories interleaved in the key order: groups follow first occurrence *)
Example all_combinations_example :
  all_combinations fst Nat.eqb [(1, 1); (2, 1); (1, 2)] =
  [[(2, 1)]; [(1, 1)]; [(1, 1); (2, 1)]; [(1, 2)]; [(1, 2); (2, 1)]] /\
  NoDup [(1, 1); (2, 1); (1, 2)].
Proof. split; [vm_compute; reflexivity|repeat constructor; cbn; intuition discriminate]. Qed.

(* ---- stepwise search ---- *)
From PV Require Import C18.Refuted.
Definition kELIM_MM : key := [AS s_ELIMINATION; AS s_MM].
Definition kLAG_ON : key := [AS s_LAGTIME; AS s_ON].
Definition kTR1 : key := [AS s_TRANSITS; AI 1; AS s_DEPOT].

(* a path really steps through two peripheral features, in increasing order *)
Example periph_path_nonvacuous :
  In [kP 1; kABS_ZO; kP 2] (fst (exhaustive_stepwise not_supported_combo [kABS_ZO; kP 1; kP 2])) /\
  ~ In [kP 2; kABS_ZO; kP 1] (fst (exhaustive_stepwise not_supported_combo [kABS_ZO; kP 1; kP 2])).
Proof. split; [vm_compute; tauto|]. vm_compute. intuition discriminate. Qed.

(* the documented example ABSORPTION(ZO); ELIMINATION(MM); PERIPHERALS(1): 15 candidates, the loop ends *)
Example stepwise_doc_example :
  length (fst (exhaustive_stepwise not_supported_combo [kABS_ZO; kELIM_MM; kP 1])) = 15 /\
  snd (exhaustive_stepwise not_supported_combo [kABS_ZO; kELIM_MM; kP 1]) = true.
Proof. split; vm_compute; reflexivity. Qed.

(* ... and its reduced version: 12 candidates and 3 'Best model' collectors as in the documentation's graph *)
Example reduced_doc_example :
  let r := reduced_stepwise not_supported_combo [kABS_ZO; kELIM_MM; kP 1] in
  length (fst (fst r)) = 12 /\ length (snd (fst r)) = 3 /\ snd r = true.
Proof. repeat split; vm_compute; reflexivity. Qed.

(* an excluded combination really prunes: ZO absorption and transits are never on one path *)
Example excluded_combo_example :
  In (kABS_ZO, [AS s_TRANSITS]) not_supported_combo /\
  forallb (fun p => negb (memk kABS_ZO p && memk kTR1 p))
          (fst (exhaustive_stepwise not_supported_combo [kABS_ZO; kTR1; kLAG_ON])) = true /\
  length (fst (exhaustive_stepwise not_supported_combo [kABS_ZO; kTR1; kLAG_ON])) = 5.
Proof. split; [cbn; tauto|]. split; vm_compute; reflexivity. Qed.

(* the documented rule accepts PERIPHERALS(2) after PERIPHERALS(1) and rejects it at the root *)
Example doc_rule_example :
  doc_allowed not_supported_combo [kABS_ZO; kP 1; kP 2] (kP 2) [kP 1] = true /\
  doc_allowed not_supported_combo [kABS_ZO; kP 1; kP 2] (kP 2) [] = false.
Proof. repeat split; vm_compute; reflexivity. Qed.

(* ---- exhaustive(): a combination of three features gets three aligned (key, function) pairs ---- *)
Example exhaustive_pairs_nonvacuous :
  In [(kABS_ZO, kABS_ZO); (kELIM_MM, kELIM_MM); (kP 1, kP 1)] (exhaustive_pairs kcat atom_eqb [kABS_ZO; kELIM_MM; kP 1]).
Proof. vm_compute. tauto. Qed.

(* ---- the search-space algebra ---- *)
From PV Require Import C18.MflModel C18.MflSpec C18.MflProofs.
Local Open Scope N_scope.

(* ABSORPTION([FO,ZO]) + ABSORPTION([ZO,INST]) and ABSORPTION( * ) + ABSORPTION(FO): hypotheses of mfl_add_modes_is_union *)
Example add_modes_example :
  modes_ok w_absorption (Some (MList [s_FO; s_ZO])) = true /\ modes_ok w_absorption (Some MWild) = true /\
  opt_add cat_absorption (Some (MList [s_FO; s_ZO])) (Some (MList [s_ZO; s_INST])) = Ok (Some (MList [s_FO; s_ZO; s_INST])) /\
  opt_add cat_absorption (Some MWild) (Some (MList [s_FO])) = Ok (Some MWild).
Proof. repeat split; vm_compute; reflexivity. Qed.

(* differences: non-empty (kept), empty in a PK category (default INST), non-empty in a PD category (guard pd_diff_ok) *)
Example sub_modes_example :
  modes_plain_ok w_absorption (Some (MList [s_FO; s_ZO])) = true /\
  opt_sub cat_absorption (Some (MList [s_FO; s_ZO])) (Some (MList [s_ZO])) = Ok (Some (MList [s_FO])) /\
  opt_sub cat_absorption (Some (MList [s_FO])) (Some (MList [s_FO; s_ZO])) = Ok (Some (MList [s_INST])) /\
  pd_diff_ok w_direct_effect (Some (MList [s_EMAX; s_LINEAR])) (Some (MList [s_EMAX])) = true /\
  opt_sub cat_direct_effect (Some (MList [s_EMAX; s_LINEAR])) (Some (MList [s_EMAX])) = Ok (Some (MList [s_LINEAR])).
Proof. repeat split; vm_compute; reflexivity. Qed.

(* TRANSITS([0,1],DEPOT) + TRANSITS([1,2],NODEPOT) (the pair of DESIGN.md section 9): the union, statement by depot *)
Example add_transits_example :
  forallb pstmt_ok [mkP (MList [0; 1]) (MList [s_DEPOT])] = true /\
  add_sub_pairs [] w_depot [mkP (MList [0; 1]) (MList [s_DEPOT])] [mkP (MList [1; 2]) (MList [s_NODEPOT])] true =
  Ok [mkP (MList [0; 1]) (MList [s_DEPOT]); mkP (MList [1; 2]) (MList [s_NODEPOT])].
Proof. split; vm_compute; reflexivity. Qed.

(* peripherals and covariates: hypotheses of the add/sub theorems on non-trivial inputs *)
Example peripherals_example :
  forallb periph_plain [mkP (MList [0; 1]) (MList [s_DRUG]); mkP (MList [1]) (MList [s_MET])] = true /\
  add_sub_peripherals [mkP (MList [0; 1]) (MList [s_DRUG]); mkP (MList [1]) (MList [s_MET])] [mkP (MList [1; 2]) (MList [s_DRUG])] false =
  Ok [mkP (MList [1]) (MList [s_MET]); mkP (MList [0]) (MList [s_DRUG])].
Proof. split; vm_compute; reflexivity. Qed.

Example covariates_example :
  forallb cov_ok [mkC [n_CL; n_V] [n_WGT] (MList [s_EXP; s_LIN]) n_STAR true] = true /\
  add_sub_covariates [mkC [n_CL; n_V] [n_WGT] (MList [s_EXP; s_LIN]) n_STAR true] [mkC [n_CL] [n_WGT] (MList [s_EXP]) n_STAR false] false =
  Ok [(n_CL, n_WGT, s_LIN, n_STAR, true); (n_V, n_WGT, s_EXP, n_STAR, true); (n_V, n_WGT, s_LIN, n_STAR, true)].
Proof. split; vm_compute; reflexivity. Qed.

(* == : all hypotheses of mfl_eq_is_set_equality hold on two different writings of one space (-> true) and on
   two different spaces (-> false) *)
Definition ex_space_1 : mf :=
  mkMF (Some (MList [s_FO; s_ZO])) (Some (MList [s_FO])) [mkP (MList [0; 1]) (MList [s_DEPOT])]
       [mkP (MList [0; 1]) (MList [s_DRUG])] (Some (MList [s_OFF; s_ON]))
       [mkC [n_CL] [n_WGT] (MList [s_EXP]) n_STAR true] (Some MWild) None [] None.
Definition ex_space_2 : mf :=
  mkMF (Some (MList [s_ZO; s_FO])) (Some (MList [s_FO])) [mkP (MList [1]) (MList [s_DEPOT]); mkP (MList [0]) (MList [s_DEPOT])]
       [mkP (MList [1; 0]) (MList [s_DRUG])] (Some (MList [s_ON; s_OFF]))
       [mkC [n_CL] [n_WGT] (MList [s_EXP]) n_STAR true] (Some (MList [s_SIGMOID; s_EMAX; s_LINEAR])) None [] None.
Example eq_guards_nonvacuous :
  wf_eq_space ex_space_1 = true /\ wf_eq_space ex_space_2 = true /\
  g_tuples_canonical ex_space_1 ex_space_2 = true /\
  g_same_metabolite ex_space_1 ex_space_2 = true /\
  mf_eq ex_space_1 ex_space_2 = Ok true /\
  mf_eq ex_space_1 (dflt_space (MList [s_FO])) = Ok false /\ g_tuples_canonical ex_space_1 (dflt_space (MList [s_FO])) = true.
Proof. repeat split; vm_compute; reflexivity. Qed.

(* contain_subset: the guard holds for a space whose transit features are a product, and the answer goes both ways *)
Example subset_transits_nonvacuous :
  let a := space_transits [mkP (MList [0; 1; 3]) MWild] in
  g_transits_product a = true /\
  forallb transits_nonempty [mkP (MList [3]) (MList [s_NODEPOT])] = true /\
  subset_transits (transits a) [mkP (MList [3]) (MList [s_NODEPOT])] = true /\
  subset_transits (transits a) [mkP (MList [2]) (MList [s_NODEPOT])] = false.
Proof. repeat split; vm_compute; reflexivity. Qed.

(* LET(P,[CL]);COVARIATE?(@P,WGT,EXP);COVARIATE(CL,WGT,LIN): a reference in an OPTIONAL statement is harmless *)
Example let_guard_nonvacuous :
  let l := [mkV true false [(n_CL, n_WGT)]; mkV false true [(n_CL, n_WGT)]] in
  g_let_not_forced l = true /\ validate l = true /\ validate (printed l) = true.
Proof. repeat split; vm_compute; reflexivity. Qed.

(* Transits.__eq__ on equal statements written differently *)
Example transits_eq_nonvacuous :
  transits_stmt_eq (mkP (MList [1; 2]) (MList [s_DEPOT])) (mkP (MList [2; 1]) (MList [s_DEPOT])) = Some true /\
  seteqb pair_eqb (E_stmt [] w_depot (mkP (MList [1; 2]) (MList [s_DEPOT]))) (E_stmt [] w_depot (mkP (MList [2; 1]) (MList [s_DEPOT]))) = true.
Proof. split; vm_compute; reflexivity. Qed.

(* least_number_of_transformations: model ABSORPTION(FO) vs space ABSORPTION([ZO,SEQ-ZO-FO]) -> ('ABSORPTION','ZO');
   peripherals 0 vs {1,2} -> ('PERIPHERALS', 1) *)
Example lnt_example :
  lnt_modes s_ABSORPTION w_absorption (Some (MList [s_FO])) (Some (MList [s_ZO; s_SEQ_ZO_FO])) = Ok [LKey [AS s_ABSORPTION; AS s_ZO]] /\
  lnt_peripherals [mkP (MList [0]) (MList [s_DRUG])] [mkP (MList [2; 1]) (MList [s_DRUG])] = Ok [LKey [AS s_PERIPHERALS; AI 1]] /\
  forallb periph_plain [mkP (MList [2; 1]) (MList [s_DRUG])] = true.
Proof. repeat split; vm_compute; reflexivity. Qed.

(* the collector step of the documented example after layer 2: three expandable groups of two *)
Definition ex_layer2 : list leaf :=
  [(PCand 4, [kABS_ZO; kELIM_MM]); (PCand 5, [kABS_ZO; kP 1]); (PCand 6, [kELIM_MM; kABS_ZO]);
   (PCand 7, [kELIM_MM; kP 1]); (PCand 8, [kP 1; kABS_ZO]); (PCand 9, [kP 1; kELIM_MM])].
Example collect_nonvacuous :
  length (same_model_groups ex_layer2) = 3%nat /\
  forallb (forallb (has_actions not_supported_combo [kABS_ZO; kELIM_MM; kP 1])) (same_model_groups ex_layer2) = true /\
  map fst (fst (collect not_supported_combo [kABS_ZO; kELIM_MM; kP 1] 0 ex_layer2)) = [PColl 0; PColl 1; PColl 2].
Proof. repeat split; vm_compute; reflexivity. Qed.

(* the reference parser on "TRANSITS(0..2,DEPOT);COVARIATE?(@P,[WGT,AGE],*,+)": canonical, printed, read back, elaborated *)
From PV Require Import C18.MflParser.
Definition ex_stmts : list MflParser.stmt :=
  [mkS n_TRANSITS false [AVals [INum 0; INum 1; INum 2]; AVals [IWord v_DEPOT]];
   mkS n_COVARIATE true [ARef [80]; AVals [IWord [87;71;84]; IWord [65;71;69]]; AWild; AVals [IWord v_PLUS]]].
Example parser_nonvacuous :
  canonical ex_stmts = true /\
  stringify ex_stmts = [84;82;65;78;83;73;84;83;40;48;46;46;50;44;68;69;80;79;84;41;59;
                        67;79;86;65;82;73;65;84;69;63;40;64;80;44;91;87;71;84;44;65;71;69;93;44;42;44;43;41] /\
  parse_mfl (stringify ex_stmts) = Accepted ex_stmts /\
  parse_ref [84;82;65;78;83;73;84;83;40;49;41] = Some [mkS n_TRANSITS false [AVals [INum 1]]] /\
  parse_mfl [84;82;65;78;83;73;84;83;40;49;41] = Accepted [mkS n_TRANSITS false [AVals [INum 1]; AVals [IWord v_DEPOT]]] /\
  parse_mfl [84;82;65;78;83;73;84;83;40;70;79;41] = Rejected /\
  (* "allometry(wt, 070.50)" : lower-case keyword, covariate spelling kept, decimal normalised *)
  parse_mfl [97;108;108;111;109;101;116;114;121;40;119;116;44;32;48;55;48;46;53;48;41] =
    Accepted [mkS n_ALLOMETRY false [AVals [IWord [119;116]]; AVals [IWord [55;48;46;53]]]].
Proof. repeat split; vm_compute; reflexivity. Qed.

(* lnt optimality: model FO/FO/0 transits/0 peripherals/no lag against a space needing three transformations *)
Example lnt_smallest_nonvacuous :
  let a := dflt_space (MList [s_FO]) in
  let b := pk_space (MList [s_ZO; s_SEQ_ZO_FO]) (MList [s_FO]) [mkP (MList [1; 3]) (MList [s_NODEPOT])]
                    [mkP (MList [1; 2]) (MList [s_DRUG])] (MList [s_OFF]) in
  wf_lnt_space a = true /\ wf_lnt_space b = true /\
  needed_categories a b = [s_ABSORPTION; s_TRANSITS; s_PERIPHERALS] /\
  (exists items, lnt_modelsearch a b = Ok items /\ length items = 3%nat).
Proof. repeat split; try (vm_compute; reflexivity). eexists. split; vm_compute; reflexivity. Qed.

(* covsearch: CL-WGT-exp wins step 1, then CL-AGE wins: the CL/WGT effects are gone in step 2, CL/AGE in step 3 *)
Example covsearch_example :
  covsearch_procedure [(1,2,3,9); (1,2,4,9); (5,2,3,9); (1,6,3,9)]%N [Some 0%nat; Some 1%nat; None] 1%nat (-1)%Z =
  [([(1,2,3,9); (1,2,4,9); (5,2,3,9); (1,6,3,9)]%N, 0%nat); ([(5,2,3,9); (1,6,3,9)]%N, 4%nat); ([(5,2,3,9)]%N, 6%nat)].
Proof. vm_compute. reflexivity. Qed.

(* Round 4: model TRANSITS(0,DEPOT) against the space TRANSITS([3,1],DEPOT);TRANSITS(2,NODEPOT): a DEPOT step to 3 or 1 *)
Example lnt_transits_example :
  forallb pstmt_ok [mkP (MList [0]) (MList [s_DEPOT])] = true /\
  lnt_transits [mkP (MList [0]) (MList [s_DEPOT])]
               [mkP (MList [3; 1]) (MList [s_DEPOT]); mkP (MList [2]) (MList [s_NODEPOT])] = Ok [LTransits s_DEPOT [3; 1]].
Proof. split; vm_compute; reflexivity. Qed.
