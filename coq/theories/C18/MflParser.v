(* PV.C18.MflParser — a reference parser and printer for the MFL text (tools/mfl/grammar.py, stringify.py):
   statements NAME[?](arg, ...) separated by ';' or newline; an argument is `*`, `@NAME`, a bracketed list
   `[a,b,...]`, a range `a..b`, or a single number / word.  Words and names are code point lists.
   (ALLOMETRY's decimal argument is outside this reference grammar.)  No proofs here. *)
From Coq Require Import List Bool Arith NArith Decimal DecimalN.
Import ListNotations.
Local Open Scope N_scope.

Definition str := list N.

Inductive token :=
| TSemi | TComma | TLP | TRP | TLB | TRB | TAt | TStar | TQ | TDots
| TNum (n : N) | TWord (w : str)
| TDec (w : str).        (* a decimal number digits.digits (ALLOMETRY's reference value), kept as its text *)

(* ---- characters ---- *)
Definition c_semi : N := 59. Definition c_nl : N := 10. Definition c_comma : N := 44. Definition c_lp : N := 40.
Definition c_rp : N := 41. Definition c_lb : N := 91. Definition c_rb : N := 93. Definition c_at : N := 64.
Definition c_star : N := 42. Definition c_q : N := 63. Definition c_dot : N := 46. Definition c_space : N := 32.

Definition is_digit (c : N) : bool := (48 <=? c) && (c <=? 57).
(* letters, digits, '-', '_', '+' *)
Definition is_wordchar (c : N) : bool :=
  is_digit c || ((65 <=? c) && (c <=? 90)) || ((97 <=? c) && (c <=? 122)) || (c =? 45) || (c =? 95) || (c =? 43).

(* ---- decimal numbers ---- *)
Fixpoint uint_chars (u : uint) : list N :=
  match u with
  | Nil => []
  | D0 u' => 48 :: uint_chars u' | D1 u' => 49 :: uint_chars u' | D2 u' => 50 :: uint_chars u'
  | D3 u' => 51 :: uint_chars u' | D4 u' => 52 :: uint_chars u' | D5 u' => 53 :: uint_chars u'
  | D6 u' => 54 :: uint_chars u' | D7 u' => 55 :: uint_chars u' | D8 u' => 56 :: uint_chars u'
  | D9 u' => 57 :: uint_chars u'
  end.
Fixpoint chars_uint (l : list N) : uint :=
  match l with
  | [] => Nil
  | c :: tl =>
      let u := chars_uint tl in
      if c =? 48 then D0 u else if c =? 49 then D1 u else if c =? 50 then D2 u else if c =? 51 then D3 u
      else if c =? 52 then D4 u else if c =? 53 then D5 u else if c =? 54 then D6 u else if c =? 55 then D7 u
      else if c =? 56 then D8 u else D9 u
  end.
Definition num_chars (n : N) : list N := uint_chars (N.to_uint n).
Definition chars_num (l : list N) : N := N.of_uint (chars_uint l).

(* ---- lexer ---- *)
(* the word collected so far (reversed) becomes a number if it is all digits, a word otherwise *)
Definition has_dot (w : list N) : bool := existsb (fun c => c =? 46) w.
Definition flush (acc : list N) : list token :=
  match acc with
  | [] => []
  | _ => let w := List.rev acc in
         if forallb is_digit w then [TNum (chars_num w)] else if has_dot w then [TDec w] else [TWord w]
  end.
Definition punct (c : N) : option token :=
  if c =? c_semi then Some TSemi else if c =? c_nl then Some TSemi else if c =? c_comma then Some TComma
  else if c =? c_lp then Some TLP else if c =? c_rp then Some TRP else if c =? c_lb then Some TLB
  else if c =? c_rb then Some TRB else if c =? c_at then Some TAt else if c =? c_star then Some TStar
  else if c =? c_q then Some TQ else None.
Fixpoint lex_go (acc : list N) (l : list N) : option (list token) :=
  match l with
  | [] => Some (flush acc)
  | c :: tl =>
      if is_wordchar c then lex_go (c :: acc) tl
      else if c =? c_space then option_map (fun r => flush acc ++ r) (lex_go [] tl)
      else if c =? c_dot then
        match tl with
        | d :: tl' =>
            if d =? c_dot then option_map (fun r => flush acc ++ TDots :: r) (lex_go [] tl')
            else if is_digit d && negb (match acc with [] => true | _ => false end) && forallb is_digit acc
                 then lex_go (c :: acc) tl       (* digits '.' digit...: a decimal number *)
                 else None
        | [] => None
        end
      else match punct c with
           | Some t => option_map (fun r => flush acc ++ t :: r) (lex_go [] tl)
           | None => None
           end
  end.
Definition lex (l : list N) : option (list token) := lex_go [] l.

Definition render_token (t : token) : list N :=
  match t with
  | TSemi => [c_semi] | TComma => [c_comma] | TLP => [c_lp] | TRP => [c_rp] | TLB => [c_lb] | TRB => [c_rb]
  | TAt => [c_at] | TStar => [c_star] | TQ => [c_q] | TDots => [c_dot; c_dot]
  | TNum n => num_chars n | TWord w => w | TDec w => w
  end.
Definition render (ts : list token) : list N := flat_map render_token ts.

(* ---- abstract syntax ---- *)
Inductive item := INum (n : N) | IWord (w : str).
Inductive arg := AWild | ARef (name : str) | AVals (l : list item).
Record stmt := mkS { s_name : str; s_opt : bool; s_args : list arg }.

(* ---- parser on tokens ---- *)
(* item (',' item)* ']'   or   ']' for the empty list *)
Fixpoint parse_items (acc : list item) (ts : list token) : option (list item * list token) :=
  match ts with
  | TNum n :: TComma :: ts' => parse_items (acc ++ [INum n]) ts'
  | TWord w :: TComma :: ts' => parse_items (acc ++ [IWord w]) ts'
  | TNum n :: TRB :: ts' => Some (acc ++ [INum n], ts')
  | TWord w :: TRB :: ts' => Some (acc ++ [IWord w], ts')
  | TRB :: ts' => match acc with [] => Some ([], ts') | _ => None end
  | _ => None
  end.
Definition nrange (a b : N) : list item := map (fun k => INum (a + N.of_nat k)) (seq 0 (N.to_nat (b + 1 - a))).
Definition parse_arg (ts : list token) : option (arg * list token) :=
  match ts with
  | TStar :: r => Some (AWild, r)
  | TAt :: TWord w :: r => Some (ARef w, r)
  | TLB :: r => match parse_items [] r with Some (l, r') => Some (AVals l, r') | None => None end
  | TNum a :: TDots :: TNum b :: r => if a <=? b then Some (AVals (nrange a b), r) else None
  | TNum n :: r => Some (AVals [INum n], r)
  | TWord w :: r => Some (AVals [IWord w], r)
  | TDec w :: r => Some (AVals [IWord w], r)
  | _ => None
  end.
(* arg (',' arg)* ')' *)
Fixpoint parse_args (fuel : nat) (acc : list arg) (ts : list token) : option (list arg * list token) :=
  match fuel with
  | O => None
  | S f =>
      match parse_arg ts with
      | Some (a, TComma :: r) => parse_args f (acc ++ [a]) r
      | Some (a, TRP :: r) => Some (acc ++ [a], r)
      | _ => None
      end
  end.
Definition parse_stmt (fuel : nat) (ts : list token) : option (stmt * list token) :=
  match ts with
  | TWord name :: TQ :: TLP :: r =>
      match parse_args fuel [] r with Some (args, r') => Some (mkS name true args, r') | None => None end
  | TWord name :: TLP :: r =>
      match parse_args fuel [] r with Some (args, r') => Some (mkS name false args, r') | None => None end
  | _ => None
  end.
(* stmt (SEP stmt)* *)
Fixpoint parse_stmts (fuel : nat) (acc : list stmt) (ts : list token) : option (list stmt) :=
  match fuel with
  | O => None
  | S f =>
      match parse_stmt (S f) ts with
      | Some (s, []) => Some (acc ++ [s])
      | Some (s, TSemi :: r) => parse_stmts f (acc ++ [s]) r
      | _ => None
      end
  end.
Definition parse_tokens (ts : list token) : option (list stmt) := parse_stmts (S (length ts)) [] ts.
Definition parse_ref (text : list N) : option (list stmt) :=
  match lex text with Some ts => parse_tokens ts | None => None end.

(* ---- printer (stringify.py) ---- *)
Definition item_token (i : item) : token := match i with INum n => TNum n | IWord w => TWord w end.
Fixpoint sep_tokens (sep : token) (parts : list (list token)) : list token :=
  match parts with
  | [] => []
  | [p] => p
  | p :: tl => p ++ sep :: sep_tokens sep tl
  end.
Definition item_eqb (a b : item) : bool :=
  match a, b with
  | INum x, INum y => x =? y
  | IWord x, IWord y => (fix eq (u v : str) := match u, v with [] , [] => true | p :: u', q :: v' => (p =? q) && eq u' v' | _, _ => false end) x y
  | _, _ => false
  end.
Fixpoint items_eqb (a b : list item) : bool :=
  match a, b with [], [] => true | x :: a', y :: b' => item_eqb x y && items_eqb a' b' | _, _ => false end.
(* _stringify_attribute on a tuple: one element bare, consecutive integers i..j, otherwise [a,b,...] *)
Definition arg_tokens (a : arg) : list token :=
  match a with
  | AWild => [TStar]
  | ARef w => [TAt; TWord w]
  | AVals [i] => [item_token i]
  | AVals l =>
      match l, last l (INum 0) with
      | INum a :: _ :: _, INum b =>
          if (a <=? b) && items_eqb l (nrange a b) then [TNum a; TDots; TNum b]
          else TLB :: sep_tokens TComma (map (fun i => [item_token i]) l) ++ [TRB]
      | _, _ => TLB :: sep_tokens TComma (map (fun i => [item_token i]) l) ++ [TRB]
      end
  end.
Definition stmt_tokens (s : stmt) : list token :=
  TWord (s_name s) :: (if s_opt s then [TQ] else []) ++ TLP :: sep_tokens TComma (map arg_tokens (s_args s)) ++ [TRP].
Definition stmts_tokens (ss : list stmt) : list token := sep_tokens TSemi (map stmt_tokens ss).
Definition stringify (ss : list stmt) : list N := render (stmts_tokens ss).

(* ---- canonical statements: what the printer is meant for ---- *)
Definition word_ok (w : str) : bool :=
  negb (match w with [] => true | _ => false end) && forallb is_wordchar w && negb (forallb is_digit w).
Definition item_ok (i : item) : bool := match i with INum _ => true | IWord w => word_ok w end.
Definition arg_ok (a : arg) : bool :=
  match a with AWild => true | ARef w => word_ok w | AVals l => forallb item_ok l end.
Definition stmt_ok (s : stmt) : bool :=
  word_ok (s_name s) && negb (match s_args s with [] => true | _ => false end) && forallb arg_ok (s_args s).
Definition canonical (ss : list stmt) : bool :=
  negb (match ss with [] => true | _ => false end) && forallb stmt_ok ss.

(* ---- elaboration: what MFLInterpreter makes of a statement (arity, allowed names, default attributes) ---- *)
Fixpoint str_eqb (u v : str) : bool :=
  match u, v with [], [] => true | p :: u', q :: v' => (p =? q) && str_eqb u' v' | _, _ => false end.
Definition mem_str (w : str) (l : list str) : bool := existsb (str_eqb w) l.

(* names as code points *)
Definition n_ABSORPTION : str := [65;66;83;79;82;80;84;73;79;78].
Definition n_ELIMINATION : str := [69;76;73;77;73;78;65;84;73;79;78].
Definition n_LAGTIME : str := [76;65;71;84;73;77;69].
Definition n_TRANSITS : str := [84;82;65;78;83;73;84;83].
Definition n_PERIPHERALS : str := [80;69;82;73;80;72;69;82;65;76;83].
Definition n_COVARIATE : str := [67;79;86;65;82;73;65;84;69].
Definition n_DIRECTEFFECT : str := [68;73;82;69;67;84;69;70;70;69;67;84].
Definition n_EFFECTCOMP : str := [69;70;70;69;67;84;67;79;77;80].
Definition n_INDIRECTEFFECT : str := [73;78;68;73;82;69;67;84;69;70;70;69;67;84].
Definition n_METABOLITE : str := [77;69;84;65;66;79;76;73;84;69].
Definition n_LET : str := [76;69;84].
Definition v_FO : str := [70;79]. Definition v_ZO : str := [90;79]. Definition v_SEQ : str := [83;69;81;45;90;79;45;70;79].
Definition v_INST : str := [73;78;83;84]. Definition v_MM : str := [77;77]. Definition v_MIX : str := [77;73;88;45;70;79;45;77;77].
Definition v_ON : str := [79;78]. Definition v_OFF : str := [79;70;70].
Definition v_DEPOT : str := [68;69;80;79;84]. Definition v_NODEPOT : str := [78;79;68;69;80;79;84].
Definition v_DRUG : str := [68;82;85;71]. Definition v_MET : str := [77;69;84].
Definition v_LINEAR : str := [76;73;78;69;65;82]. Definition v_EMAX : str := [69;77;65;88]. Definition v_SIGMOID : str := [83;73;71;77;79;73;68].
Definition v_PRODUCTION : str := [80;82;79;68;85;67;84;73;79;78]. Definition v_DEGRADATION : str := [68;69;71;82;65;68;65;84;73;79;78].
Definition v_BASIC : str := [66;65;83;73;67]. Definition v_PSC : str := [80;83;67].
Definition v_LIN : str := [76;73;78]. Definition v_CAT : str := [67;65;84]. Definition v_CAT2 : str := [67;65;84;50].
Definition v_PIECE_LIN : str := [80;73;69;67;69;95;76;73;78]. Definition v_EXP : str := [69;88;80]. Definition v_POW : str := [80;79;87].
Definition v_CUSTOM : str := [67;85;83;84;79;77]. Definition v_PLUS : str := [43]. Definition v_STAR : str := [42].

Definition n_ALLOMETRY : str := [65;76;76;79;77;69;84;82;89].
(* str.upper() on ASCII *)
Definition upper (c : N) : N := if (97 <=? c) && (c <=? 122) then c - 32 else c.
Definition upper_str (w : str) : str := map upper w.
Definition up_item (i : item) : item := match i with IWord w => IWord (upper_str w) | INum n => INum n end.
Definition up_arg (a : arg) : arg := match a with AVals l => AVals (map up_item l) | _ => a end.
(* float(text) printed back: integer part without leading zeros, fraction without trailing zeros *)
Fixpoint split_dot (w : list N) : list N * option (list N) :=
  match w with
  | [] => ([], None)
  | c :: tl => if c =? 46 then ([], Some tl) else let '(a, b) := split_dot tl in (c :: a, b)
  end.
Fixpoint strip_zeros_front (w : list N) : list N :=
  match w with c :: tl => if c =? 48 then strip_zeros_front tl else w | [] => [] end.
Definition strip_zeros_back (w : list N) : list N := List.rev (strip_zeros_front (List.rev w)).
Definition canonical_decimal (w : list N) : option str :=
  match split_dot w with
  | (ip, Some fr) =>
      if negb (match ip with [] => true | _ => false end) && forallb is_digit ip &&
         negb (match fr with [] => true | _ => false end) && forallb is_digit fr
      then let fr' := strip_zeros_back fr in
           Some (num_chars (chars_num ip) ++ match fr' with [] => [] | _ => 46 :: fr' end)
      else None
  | (_, None) => None
  end.

Definition words_in (allowed : list str) (l : list item) : bool :=
  forallb (fun i => match i with IWord w => mem_str w allowed | INum _ => false end) l.
Definition nums_only (l : list item) : bool := forallb (fun i => match i with INum _ => true | _ => false end) l.
(* `X | [X, X, ...]` or `*` *)
Definition modes_arg (allowed : list str) (a : arg) : bool :=
  match a with AWild => true | AVals l => words_in allowed l | ARef _ => false end.
Definition counts_arg (a : arg) : bool := match a with AVals l => nums_only l | _ => false end.
(* value: /[a-zA-Z0-9-]+/ ; VARIABLE_NAME: /[a-zA-Z_]+/ *)
Definition is_letter (c : N) : bool := ((65 <=? c) && (c <=? 90)) || ((97 <=? c) && (c <=? 122)).
Definition value_word (w : str) : bool :=
  negb (match w with [] => true | _ => false end) && forallb (fun c => is_letter c || is_digit c || (c =? 45)) w.
Definition varname (w : str) : bool :=
  negb (match w with [] => true | _ => false end) && forallb (fun c => is_letter c || (c =? 95)) w.
Definition item_str (i : item) : str := match i with IWord w => w | INum n => num_chars n end.
(* values: value | [value, ...]; a value may be all digits: the interpreter keeps its text *)
Definition values_arg (a : arg) : option arg :=
  match a with
  | AVals l => if forallb (fun i => value_word (item_str i)) l then Some (AVals (map (fun i => IWord (item_str i)) l)) else None
  | _ => None
  end.
Definition symbol_arg (a : arg) : option arg :=
  match a with
  | AWild => Some AWild
  | ARef w => if varname w then Some (ARef w) else None
  | AVals _ => values_arg a
  end.

Definition elaborate_upper (s : stmt) : option stmt :=
  let name := s_name s in
  let one (allowed : list str) :=
    match s_args s with
    | [a] => if negb (s_opt s) && modes_arg allowed a then Some s else None
    | _ => None
    end in
  let counted (allowed : list str) (dflt : str) :=
    match s_args s with
    | [c] => if negb (s_opt s) && counts_arg c then Some (mkS name false [c; AVals [IWord dflt]]) else None
    | [c; m] => if negb (s_opt s) && counts_arg c && modes_arg allowed m then Some s else None
    | _ => None
    end in
  if str_eqb name n_ABSORPTION then one [v_FO; v_ZO; v_SEQ; v_INST]
  else if str_eqb name n_ELIMINATION then one [v_FO; v_ZO; v_MM; v_MIX]
  else if str_eqb name n_LAGTIME then one [v_ON; v_OFF]
  else if str_eqb name n_DIRECTEFFECT then one [v_LINEAR; v_EMAX; v_SIGMOID]
  else if str_eqb name n_EFFECTCOMP then one [v_LINEAR; v_EMAX; v_SIGMOID]
  else if str_eqb name n_METABOLITE then one [v_BASIC; v_PSC]
  else if str_eqb name n_TRANSITS then counted [v_DEPOT; v_NODEPOT] v_DEPOT
  else if str_eqb name n_PERIPHERALS then counted [v_DRUG; v_MET] v_DRUG
  else if str_eqb name n_INDIRECTEFFECT then
    match s_args s with
    | [m; p] =>
        if negb (s_opt s) && modes_arg [v_LINEAR; v_EMAX; v_SIGMOID] m &&
           match p with AWild => true | AVals [IWord w] => mem_str w [v_PRODUCTION; v_DEGRADATION] | _ => false end
        then Some s else None
    | _ => None
    end
  else if str_eqb name n_COVARIATE then
    let mk (p c f : arg) (op : str) :=
      match symbol_arg p, symbol_arg c with
      | Some p', Some c' =>
          if modes_arg [v_LIN; v_CAT; v_CAT2; v_PIECE_LIN; v_EXP; v_POW; v_CUSTOM] f
          then Some (mkS name (s_opt s) [p'; c'; f; AVals [IWord op]]) else None
      | _, _ => None
      end in
    match s_args s with
    | [p; c; f] => mk p c f v_STAR
    | [p; c; f; AWild] => mk p c f v_STAR
    | [p; c; f; AVals [IWord w]] => if str_eqb w v_PLUS then mk p c f v_PLUS else None
    | _ => None
    end
  else if str_eqb name n_LET then
    match s_args s with
    | [AVals [IWord v]; vals] =>
        if negb (s_opt s) && varname v then
          match values_arg vals with Some vs => Some (mkS name false [AVals [IWord v]; vs]) | None => None end
        else None
    | _ => None
    end
  else None.

(* ALLOMETRY(value[, decimal]): the covariate name keeps its spelling; without the (optional) reference value the
   dataclass default 70.0 applies (Allometry( *children ) since fix c794b0d; it used to read children[1]: IndexError) *)
Definition allometry_args (s : stmt) : option (item * option arg) :=
  match s_args s with
  | [AVals [v]] => if negb (s_opt s) && value_word (item_str v) then Some (v, None) else None
  | [AVals [v]; r] => if negb (s_opt s) && value_word (item_str v) then Some (v, Some r) else None
  | _ => None
  end.
Definition default_reference : str := [55;48].     (* 70.0 printed without its zero fraction *)
Definition elaborate (s : stmt) : option stmt :=
  let name := upper_str (s_name s) in
  if str_eqb name n_ALLOMETRY then
    match allometry_args s with
    | Some (v, None) => Some (mkS name false [AVals [IWord (item_str v)]; AVals [IWord default_reference]])
    | Some (v, Some (AVals [INum n])) => Some (mkS name false [AVals [IWord (item_str v)]; AVals [IWord (num_chars n)]])
    | Some (v, Some (AVals [IWord w])) =>
        match canonical_decimal w with
        | Some d => Some (mkS name false [AVals [IWord (item_str v)]; AVals [IWord d]])
        | None => None
        end
    | _ => None
    end
  else if str_eqb name n_LET then
    (* the variable name keeps its spelling, the values are upper-cased *)
    match s_args s with
    | [v; vals] => elaborate_upper (mkS name (s_opt s) [v; up_arg vals])
    | _ => None
    end
  else elaborate_upper (mkS name (s_opt s) (map up_arg (s_args s))).

Fixpoint elaborate_all (ss : list stmt) : option (list stmt) :=
  match ss with
  | [] => Some []
  | s :: tl => match elaborate s, elaborate_all tl with Some s', Some tl' => Some (s' :: tl') | _, _ => None end
  end.
(* the reference for lark's parse + MFLInterpreter (before validate_mfl_list) *)
Inductive outcome := Accepted (ss : list stmt) | Rejected | InternalError.
(* ALLOMETRY's arguments are a bare value and a bare decimal: no bracketed list inside its parentheses *)
Fixpoint allometry_bracketed (inside : bool) (ts : list token) : bool :=
  match ts with
  | [] => false
  | TWord w :: TLP :: tl => allometry_bracketed (str_eqb (upper_str w) n_ALLOMETRY) tl
  | TRP :: tl => allometry_bracketed false tl
  | TLB :: tl => inside || allometry_bracketed inside tl
  | _ :: tl => allometry_bracketed inside tl
  end.
Definition parse_mfl (text : list N) : outcome :=
  match lex text with
  | Some ts => if allometry_bracketed false ts then Rejected else
  match parse_ref text with
  | Some ss =>
      match elaborate_all ss with
      | Some ss' => Accepted ss'
      | None => Rejected
      end
  | None => Rejected
  end
  | None => Rejected
  end.

Definition arg_eqb (a b : arg) : bool :=
  match a, b with
  | AWild, AWild => true
  | ARef x, ARef y => str_eqb x y
  | AVals x, AVals y => items_eqb x y
  | _, _ => false
  end.
Fixpoint args_eqb (a b : list arg) : bool :=
  match a, b with [], [] => true | x :: a', y :: b' => arg_eqb x y && args_eqb a' b' | _, _ => false end.
Definition stmt_eqb (a b : stmt) : bool :=
  str_eqb (s_name a) (s_name b) && Bool.eqb (s_opt a) (s_opt b) && args_eqb (s_args a) (s_args b).
Fixpoint stmts_eqb (a b : list stmt) : bool :=
  match a, b with [], [] => true | x :: a', y :: b' => stmt_eqb x y && stmts_eqb a' b' | _, _ => false end.
Definition parse_agrees (text : list N) (obs : option (list stmt)) (internal : bool) : bool :=
  match parse_mfl text, obs, internal with
  | Accepted a, Some b, false => stmts_eqb a b
  | Rejected, None, false => true
  | InternalError, None, true => true
  | _, _, _ => false
  end.
