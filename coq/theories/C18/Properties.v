(* PV.C18.Properties — the property theorems of C18 and nothing else.
   Part 1: the enumerators (partitions / subsets / all_combinations / exhaustive). *)
From Coq Require Import List Bool Arith ZArith Permutation Sorted.
From PV Require Import C18.Model C18.Spec C18.Proofs C18.ProofsStep C18.MflModel C18.MflSpec C18.MflProofs C18.MflParser C18.MflParserProofs C18.ProofsIiv C18.ProofsCov.
Import ListNotations.

(* ---------------------------------------------------------------- partitions.py *)

(* Every output of partitions(l) is a set partition of l: non-empty blocks whose concatenation is a
   rearrangement of l.  For every element type, every order `cmp` Python might use, every length. *)
Theorem partitions_are_partitions :
  forall (A : Type) (cmp : A -> A -> comparison) (l : list A) (p : list (list A)),
    In p (partitions cmp l) -> is_partition p l.
Proof. exact partitions_are_partitions_lemma. Qed.

(* Complete: every equivalence relation on the (distinct) elements — i.e. every set partition —
   is realised by one of the outputs. *)
Theorem partitions_complete :
  forall (A : Type) (cmp : A -> A -> comparison) (l : list A) (R : A -> A -> bool),
    NoDup l -> equiv_on l R -> exists p, In p (partitions cmp l) /\ represents p l R.
Proof. exact partitions_complete_lemma. Qed.

(* ... in particular every explicitly given partition (block list) of l has an equivalent output. *)
Theorem partitions_complete_blocks :
  forall (A : Type) (cmp : A -> A -> comparison) (eq_dec : forall a b : A, {a = b} + {a <> b})
         (l : list A) (p0 : list (list A)),
    NoDup l -> is_partition p0 l -> exists p, In p (partitions cmp l) /\ part_equiv p p0.
Proof. exact partitions_complete_given. Qed.

(* No duplicates: the output list has no repeated entry, and two entries that denote the same set
   partition are the same entry (each set partition is enumerated exactly once). *)
Theorem partitions_nodup :
  forall (A : Type) (cmp : A -> A -> comparison) (l : list A),
    NoDup l ->
    NoDup (partitions cmp l) /\
    (forall p p', In p (partitions cmp l) -> In p' (partitions cmp l) -> part_equiv p p' -> p = p').
Proof. exact partitions_nodup_lemma. Qed.

(* The number of outputs is the Bell number of the length (sum of Stirling numbers of the second kind),
   for every n. *)
Theorem partitions_count :
  forall (A : Type) (cmp : A -> A -> comparison) (l : list A),
    length (partitions cmp l) = bell (length l).
Proof. exact partitions_count_lemma. Qed.

(* The documented order: the partitions come sorted by (number of blocks, block sizes, blocks lexicographically)
   and the blocks of each partition by (size, elements) -- no element is followed by one with a strictly smaller
   key -- for every element order `cmp` that is antisymmetric (cmp b a is the opposite of cmp a b), every length. *)
Theorem partitions_sorted :
  forall (A : Type) (cmp : A -> A -> comparison),
    (forall a b, cmp b a = CompOpp (cmp a b)) ->
    forall l : list A,
      LocallySorted (fun p q => is_lt (partitionkey_cmp cmp q p) = false) (partitions cmp l) /\
      forall p, In p (partitions cmp l) -> LocallySorted (fun a b => is_lt (shortlex_cmp cmp b a) = false) p.
Proof. exact partitions_sorted_lemma. Qed.

(* ---------------------------------------------------------------- subsets.py *)

(* subsets(l, min, max) lists exactly the sub-sequences of l whose size is between min and the
   effective maximum (negative max counts from len(l)). *)
Theorem subsets_exact :
  forall (A : Type) (l : list A) (min_size : nat) (max_size : Z) (s : list A),
    In s (subsets l min_size max_size) <->
    Subseq s l /\ min_size <= length s /\ (Z.of_nat (length s) <= eff_max (length l) max_size)%Z.
Proof. exact subsets_spec. Qed.

(* each of them once *)
Theorem subsets_nodup :
  forall (A : Type) (l : list A) (min_size : nat) (max_size : Z),
    NoDup l -> NoDup (subsets l min_size max_size).
Proof. exact subsets_nodup. Qed.

(* every subset of l (duplicate-free list of elements of l, any order) is a rearrangement of a sub-sequence *)
Theorem subsets_cover_sets :
  forall (A : Type) (eq_dec : forall a b : A, {a = b} + {a <> b}) (l s : list A),
    NoDup l -> NoDup s -> incl s l -> exists s', Subseq s' l /\ Permutation s s'.
Proof. exact subset_has_subseq. Qed.

(* counts: binomial sums in general, 2^n - 1 for the non-empty subsets *)
Theorem subsets_count :
  forall (A : Type) (l : list A) (min_size : nat) (max_size : Z),
    length (subsets l min_size max_size) =
    fold_right Nat.add 0 (map (binom (length l)) (size_range min_size (eff_max (length l) max_size))).
Proof. exact subsets_length. Qed.

Theorem non_empty_subsets_count :
  forall (A : Type) (l : list A), length (non_empty_subsets l) = 2 ^ length l - 1.
Proof. exact non_empty_subsets_length. Qed.

(* ---------------------------------------------------------------- all_combinations / exhaustive *)

(* The feature groups are a rearrangement of the keys, every group is non-empty, of one category, and
   different groups have different categories. *)
Theorem grouped_is_grouping :
  forall (K C : Type) (cat : K -> C) (ceqb : C -> C -> bool),
    (forall a b, ceqb a b = true <-> a = b) ->
    forall keys : list K,
      Permutation (concat (grouped cat ceqb keys)) keys /\ ginv K C cat (grouped_assoc cat ceqb keys).
Proof. exact grouped_is_grouping_lemma. Qed.

(* all_combinations yields exactly the non-empty choices of at most one key per category
   (written in group order). *)
Theorem all_combinations_exact :
  forall (K C : Type) (cat : K -> C) (ceqb : C -> C -> bool),
    (forall a b, ceqb a b = true <-> a = b) ->
    forall (keys : list K) (c : list K),
      In c (all_combinations cat ceqb keys) <->
      c <> [] /\ Subseq c (concat (grouped cat ceqb keys)) /\ NoDup (map cat c).
Proof. exact In_all_combinations. Qed.

(* each once *)
Theorem all_combinations_nodup :
  forall (K C : Type) (cat : K -> C) (ceqb : C -> C -> bool),
    (forall a b, ceqb a b = true <-> a = b) ->
    forall keys : list K, NoDup keys -> NoDup (all_combinations cat ceqb keys).
Proof. exact all_combinations_nodup. Qed.

(* their number is the product over the categories of (1 + group size), minus the empty choice *)
Theorem all_combinations_count :
  forall (K C : Type) (cat : K -> C) (ceqb : C -> C -> bool) (keys : list K),
    S (length (all_combinations cat ceqb keys)) =
    fold_right Nat.mul 1 (map (fun g => S (length g)) (grouped cat ceqb keys)).
Proof. exact all_combinations_count. Qed.

(* exhaustive: candidates are the combinations in order, numbered 1..N (so the names are unique) *)
Theorem exhaustive_numbering :
  forall (K C : Type) (cat : K -> C) (ceqb : C -> C -> bool) (keys : list K),
    map fst (exhaustive cat ceqb keys) = seq 1 (length (all_combinations cat ceqb keys)) /\
    map snd (exhaustive cat ceqb keys) = all_combinations cat ceqb keys.
Proof. exact exhaustive_names. Qed.

(* ---------------------------------------------------------------- stepwise search (modelsearch/algorithms.py) *)

(* The `while True` loop of exhaustive_stepwise reaches its `break` within |mfl_funcs|+1 passes
   (the fuel of the model is never exhausted), for every table and every feature dictionary. *)
Theorem stepwise_terminates :
  forall (tbl : combo_table) (keys : list key), snd (exhaustive_stepwise tbl keys) = true.
Proof. exact stepwise_terminates_lemma. Qed.

(* The candidates are exactly the non-empty paths that arise from the empty path by repeatedly adding a
   feature accepted by _is_allowed ... *)
Theorem stepwise_paths_exact :
  forall (tbl : combo_table) (keys : list key) (p : list key),
    In p (fst (exhaustive_stepwise tbl keys)) <-> p <> [] /\ Chain tbl keys p.
Proof. exact stepwise_paths_exact_lemma. Qed.

(* ... each path once; candidate names are run1..runN in creation order, hence unique. *)
Theorem stepwise_paths_once :
  forall (tbl : combo_table) (keys : list key), NoDup keys -> NoDup (fst (exhaustive_stepwise tbl keys)).
Proof. exact stepwise_nodup_lemma. Qed.

Theorem stepwise_names_unique :
  forall (tbl : combo_table) (keys : list key),
    map fst (stepwise_named tbl keys) = seq 1 (length (fst (exhaustive_stepwise tbl keys))) /\
    map snd (stepwise_named tbl keys) = fst (exhaustive_stepwise tbl keys).
Proof. exact stepwise_named_lemma. Qed.

(* What the accepted paths satisfy (the documented rules).  No feature twice, only features of the space: *)
Theorem path_features_once :
  forall (tbl : combo_table) (keys p : list key), Chain tbl keys p -> NoDup p /\ incl p keys.
Proof. exact Chain_nodup_incl. Qed.

(* at most one feature per category, peripherals aside (they are stepped through): *)
Theorem path_category_once :
  forall (tbl : combo_table) (keys p : list key) (a b : key),
    Chain tbl keys p -> In a p -> In b p -> a <> b -> is_periph a = false -> kcat a <> kcat b.
Proof. exact Chain_category_once. Qed.

(* no two features of an excluded combination (either orientation), and never TRANSITS(0,NODEPOT): *)
Theorem path_no_excluded_combination :
  forall (tbl : combo_table) (keys p : list key) (a b f1 f2 : key),
    Chain tbl keys p -> In a p -> In b p -> a <> b -> is_periph a = false -> is_periph b = false ->
    In (f1, f2) tbl -> (is_prefix f1 a && is_prefix f2 b)%bool = false.
Proof. exact Chain_no_excluded. Qed.

Theorem path_never_transits0_nodepot :
  forall (tbl : combo_table) (keys p : list key),
    Chain tbl keys p -> ~ In [AS s_TRANSITS; AI 0; AS s_NODEPOT] p.
Proof. exact Chain_never_t0n. Qed.

(* peripheral compartments are added in increasing order on every accepted path (no guard any more: fix c2f5172
   made _is_allowed_peripheral the "next larger count" rule; the old counter-models are regression Examples) *)
Theorem path_peripherals_increasing :
  forall (tbl : combo_table) (keys p : list key),
    Chain tbl keys p -> increasing (map karg1 (filter is_periph p)).
Proof. exact periph_increasing_lemma. Qed.

(* reduced_stepwise's collector step (`if groups:` after fix e9380e6): every expandable group of output tasks with
   the same features gets its 'choose_best_model' task and its members stop being output tasks (they could only be
   listed again under one of the new collector numbers). *)
Theorem reduced_collect_merges :
  forall (tbl : combo_table) (keys : list key) (ncoll : nat) (leaves : list leaf) (g : list leaf),
    In g (same_model_groups leaves) -> forallb (has_actions tbl keys) g = true ->
    (exists i, In (PColl (ncoll + i), snd (hd (PRoot, []) g)) (fst (collect tbl keys ncoll leaves))) /\
    (forall l, In l g -> In l (fst (collect tbl keys ncoll leaves)) -> exists i, fst l = PColl (ncoll + i)).
Proof. exact collect_merges_lemma. Qed.

(* _is_allowed IS the documented acceptance rule (Spec.doc_allowed: new feature; one per category; no excluded
   combination; peripheral counts one step at a time in increasing order) for every feature dictionary ... *)
Theorem allowed_is_documented :
  forall (tbl : combo_table) (keys : list key) (f : key) (prev : list key),
    In f keys -> allowed tbl keys f prev = doc_allowed tbl keys f prev.
Proof. exact allowed_is_documented_lemma. Qed.

(* ... and exhaustive_stepwise generates exactly the paths the documented rules allow. *)
Theorem stepwise_paths_documented :
  forall (tbl : combo_table) (keys p : list key),
    In p (fst (exhaustive_stepwise tbl keys)) <-> p <> [] /\ DocChain tbl keys p.
Proof. exact stepwise_paths_documented_lemma. Qed.

(* reduced_stepwise also reaches its `break` within |mfl_funcs|+1 passes. *)
Theorem reduced_terminates :
  forall (tbl : combo_table) (keys : list key), snd (reduced_stepwise tbl keys) = true.
Proof. exact reduced_terminates_lemma. Qed.

(* exhaustive(): the functions reach create_candidate_exhaustive aligned with the feature keys they are zipped with,
   for every combination (a list in key order since fix 16091ea; Examples.exhaustive_zip_regression) *)
Theorem exhaustive_functions_aligned :
  forall (K C : Type) (cat : K -> C) (ceqb : C -> C -> bool) (keys : list K) (pairs : list (K * K)),
    In pairs (exhaustive_pairs cat ceqb keys) ->
    Forall (fun kf => fst kf = snd kf) pairs /\ In (map fst pairs) (all_combinations cat ceqb keys).
Proof. exact (@exhaustive_pairs_aligned). Qed.

(* ---------------------------------------------------------------- the search-space algebra (mfl/parse.py) *)
(* Notation: E_modes / E_pairs / E_cov give the explicitly expanded features a statement list denotes. *)

(* a + b on ABSORPTION / ELIMINATION / LAGTIME / DIRECTEFFECT / EFFECTCOMP / METABOLITE: the union (wildcards included) *)
Theorem mfl_add_modes_is_union :
  forall (c : catdesc) (lhs rhs : option modes),
    cd_wild c <> [] -> modes_ok (cd_wild c) lhs = true -> modes_ok (cd_wild c) rhs = true ->
    exists r, opt_add c lhs rhs = Ok r /\ modes_ok (cd_wild c) r = true /\
              forall x, In x (E_modes (cd_wild c) r) <-> In x (E_modes (cd_wild c) lhs) \/ In x (E_modes (cd_wild c) rhs).
Proof. exact opt_add_union. Qed.

(* a - b on the same categories, for statements without wildcard: never an internal error, never an unusable
   X(None) object; the set difference, where an empty difference gives the category default (PK categories) or
   no statement.  For the PD categories / METABOLITE this needs guard pd_diff_ok (g_pd_difference). *)
Theorem mfl_sub_modes_is_difference :
  forall (c : catdesc) (lhs rhs : option modes),
    cd_wild c <> [] -> modes_plain_ok (cd_wild c) lhs = true -> modes_plain_ok (cd_wild c) rhs = true ->
    (cd_sub c = SubNone -> pd_diff_ok (cd_wild c) lhs rhs = true) ->
    exists r, opt_sub c lhs rhs = Ok r /\
      (forall x, In x (diffN (E_modes (cd_wild c) lhs) (E_modes (cd_wild c) rhs)) -> In x (E_modes (cd_wild c) r)) /\
      (diffN (E_modes (cd_wild c) lhs) (E_modes (cd_wild c) rhs) <> [] ->
         forall x, In x (E_modes (cd_wild c) r) -> In x (diffN (E_modes (cd_wild c) lhs) (E_modes (cd_wild c) rhs))) /\
      (diffN (E_modes (cd_wild c) lhs) (E_modes (cd_wild c) rhs) = [] ->
         match cd_sub c with SubDefault dflt => incl (E_modes (cd_wild c) r) [dflt] | SubNone => r = None end) /\
      r <> Some MNone.
Proof. exact opt_sub_difference. Qed.

(* TRANSITS / INDIRECTEFFECT (via _add_helper): a + b is the union, a - b the difference of the expanded pairs *)
Theorem mfl_add_pairs_is_union :
  forall (wv wk : list N) (s1 s2 : list pstmt),
    forallb pstmt_ok s1 = true -> forallb pstmt_ok s2 = true ->
    exists r, add_sub_pairs wv wk s1 s2 true = Ok r /\ forallb pstmt_ok r = true /\
      forall p, In p (E_pairs wv wk r) <-> In p (E_pairs wv wk s1) \/ In p (E_pairs wv wk s2).
Proof. exact add_sub_pairs_union. Qed.

Theorem mfl_sub_pairs_is_difference :
  forall (wv wk : list N) (s1 s2 : list pstmt),
    forallb pstmt_ok s1 = true -> forallb pstmt_ok s2 = true ->
    exists r, add_sub_pairs wv wk s1 s2 false = Ok r /\ forallb pstmt_ok r = true /\
      forall p, In p (E_pairs wv wk r) <-> In p (E_pairs wv wk s1) /\ ~ In p (E_pairs wv wk s2).
Proof. exact add_sub_pairs_difference. Qed.

(* PERIPHERALS (no `*` mode -- guard g_no_wildcard): union / difference of the (count, DRUG|MET) pairs *)
Theorem mfl_peripherals_add_sub :
  forall (a b : list pstmt) (add : bool),
    forallb periph_plain a = true -> forallb periph_plain b = true ->
    exists r, add_sub_peripherals a b add = Ok r /\
      forall p, In p (E_pairs [] w_periph_modes r) <->
        if add then In p (E_pairs [] w_periph_modes a) \/ In p (E_pairs [] w_periph_modes b)
        else In p (E_pairs [] w_periph_modes a) /\ ~ In p (E_pairs [] w_periph_modes b).
Proof. exact add_sub_peripherals_spec. Qed.

(* COVARIATE: union / difference of the candidate effects (parameter, covariate, effect, operation) *)
Theorem mfl_covariates_add_sub :
  forall (a b : list cstmt) (add : bool),
    forallb cov_ok a = true -> forallb cov_ok b = true ->
    exists r, add_sub_covariates a b add = Ok r /\
      forall x4, In x4 (map unflag r) <->
        if add then In x4 (map unflag (E_cov a)) \/ In x4 (map unflag (E_cov b))
        else In x4 (map unflag (E_cov a)) /\ ~ In x4 (map unflag (E_cov b)).
Proof. exact add_sub_covariates_spec. Qed.

(* a == b is equality of the denotations -- for well-formed spaces (no `*` in the raw-compared statements) under
   the two remaining guards g_tuples_canonical, g_same_metabolite (each refuted in Refuted.v); the covariate
   conjunct needs no guard since fix 0aa11f5 *)
Theorem mfl_eq_is_set_equality :
  forall a b : mf,
    wf_eq_space a = true -> wf_eq_space b = true ->
    g_tuples_canonical a b = true -> g_same_metabolite a b = true ->
    mf_eq a b = Ok (spaces_equal a b).
Proof. exact mf_eq_is_set_equality. Qed.

(* _eq_covariate decides equality of the expanded covariate effects *)
Theorem mfl_eq_covariate_is_set_equality :
  forall a b : list cstmt,
    forallb cov_ok a = true -> forallb cov_ok b = true ->
    eq_covariate a b = Ok (seteqb effect_eqb (E_cov a) (E_cov b)).
Proof. exact eq_covariate_spec. Qed.

(* contain_subset's transit test is inclusion of the expansions when the containing space's transit features
   are counts x depots (guard g_transits_product) *)
Theorem mfl_subset_transits_is_inclusion :
  forall (a : mf) (b : list pstmt),
    forallb transits_nonempty b = true -> g_transits_product a = true ->
    (subset_transits (transits a) b = true <->
     forall p, In p (E_pairs [] w_depot b) -> In p (E_pairs [] w_depot (transits a))).
Proof. exact subset_transits_spec. Qed.

(* a text the parser accepts prints to a text the parser accepts again, when no forced COVARIATE statement
   goes through a LET reference (guard g_let_not_forced) *)
Theorem mfl_printed_form_accepted :
  forall l : list vstmt, g_let_not_forced l = true -> validate l = true -> validate (printed l) = true.
Proof. exact roundtrip_accepted. Qed.

(* Transits.__eq__ on statements with explicit non-empty count and depot lists: equality of the expansions *)
Theorem transits_eq_is_set_equality :
  forall c1 d1 c2 d2 : list N,
    c1 <> [] -> d1 <> [] -> c2 <> [] -> d2 <> [] ->
    transits_stmt_eq (mkP (MList c1) (MList d1)) (mkP (MList c2) (MList d2)) =
    Some (seteqb pair_eqb (E_stmt [] w_depot (mkP (MList c1) (MList d1))) (E_stmt [] w_depot (mkP (MList c2) (MList d2)))).
Proof. exact transits_stmt_eq_spec. Qed.

(* least_number_of_transformations(tool='modelsearch'), one mode category (ABSORPTION / ELIMINATION / LAGTIME):
   no transformation when the model's mode lies in the space, otherwise exactly one, to a mode of the space *)
Theorem lnt_mode_category :
  forall (catname : N) (w : list N) (lhs rhs : modes),
    w <> [] -> modes_ok w (Some lhs) = true -> modes_ok w (Some rhs) = true ->
    exists items, lnt_modes catname w (Some lhs) (Some rhs) = Ok items /\
      ((exists x, In x (E_modes w (Some lhs)) /\ In x (E_modes w (Some rhs))) -> items = []) /\
      ((forall x, In x (E_modes w (Some lhs)) -> ~ In x (E_modes w (Some rhs))) ->
         exists m, items = [LKey [AS catname; AS m]] /\ In m (E_modes w (Some rhs))).
Proof. exact lnt_modes_spec. Qed.

(* ... peripherals: only a step of the drug's compartments to a count of the space can be returned, and none if
   the model's count is in the space (no guard on metabolite compartments since fix 78f8b1d) *)
Theorem lnt_peripherals_drug_only :
  forall a b : list pstmt,
    forallb periph_plain a = true -> forallb periph_plain b = true ->
    exists items, lnt_peripherals a b = Ok items /\
      ((exists c, In (c, s_DRUG) (E_pairs [] w_periph_modes a) /\ In (c, s_DRUG) (E_pairs [] w_periph_modes b)) -> items = []) /\
      (forall i, In i items -> exists n, i = LKey [AS s_PERIPHERALS; AI (Z.of_N n)] /\ In (n, s_DRUG) (E_pairs [] w_periph_modes b)).
Proof. exact lnt_peripherals_spec. Qed.

(* ---------------------------------------------------------------- reference parser for the MFL text *)
(* For every canonical statement list -- any number of statements NAME[?](args) with non-empty argument lists, every
   argument `*`, `@NAME`, or a list of numbers / well-formed words of any length -- the reference parser reads the
   printed text (stringify.py's rules: one element bare, consecutive integers a..b, otherwise [a,b,...]; `;` between
   statements) back to exactly that list: lexer and parser together, no bound on sizes. *)
Theorem mfl_parse_print :
  forall ss : list MflParser.stmt, canonical ss = true -> parse_ref (stringify ss) = Some ss.
Proof. exact mfl_parse_print_lemma. Qed.

(* ... hence the reading of the printed text by the reference for lark + MFLInterpreter (parse_mfl: case-insensitive
   keywords, upper-cased values, arity, allowed names per feature, default attributes, LET, COVARIATE?, ALLOMETRY with
   its decimal reference) is the elaboration of the statements themselves *)
Theorem mfl_parse_print_elaborated :
  forall ss : list MflParser.stmt, canonical ss = true ->
    parse_mfl (stringify ss) =
    if allometry_bracketed false (stmts_tokens ss) then Rejected else
    match elaborate_all ss with Some ss' => Accepted ss' | None => Rejected end.
Proof. exact parse_mfl_print_lemma. Qed.

(* every text is either read or refused, never answered with an internal error (at full strength since fix c794b0d;
   it needed the guard "no ALLOMETRY statement without reference value", see Refuted.allometry_default_ref_fixed) *)
Theorem mfl_no_internal_error :
  forall text : list N, parse_mfl text <> InternalError.
Proof. exact parse_mfl_never_internal. Qed.

(* ---------------------------------------------------------------- iivsearch / iovsearch brute-force candidates *)
(* td_exhaustive_block_structure: the candidates are numbered from 1+offset and are exactly the partitions of the eta
   names other than the base model's own structure ... *)
Theorem iiv_block_structures_exact :
  forall (A : Type) (cmp : A -> A -> comparison) (names : list A) (base : list (list A)) (offset : nat) (p : list (list A)),
    In p (map snd (block_structure_candidates cmp names base offset)) <->
    In p (partitions cmp names) /\ is_rv_block_structure cmp base p = false.
Proof. exact block_candidates_exact. Qed.

Theorem iiv_block_structures_numbering :
  forall (A : Type) (cmp : A -> A -> comparison) (names : list A) (base : list (list A)) (offset : nat),
    map fst (block_structure_candidates cmp names base offset) =
      seq (1 + offset) (length (block_structure_candidates cmp names base offset)) /\
    map snd (block_structure_candidates cmp names base offset) =
      filter (fun p => negb (is_rv_block_structure cmp base p)) (partitions cmp names).
Proof. exact block_candidates_split. Qed.

(* ... every block structure (equivalence relation on distinct eta names, any number of etas) is the base structure or
   a candidate, and it is a candidate at most once *)
Theorem iiv_block_structures_complete_once :
  forall (A : Type) (cmp : A -> A -> comparison) (names : list A) (base : list (list A)) (offset : nat) (R : A -> A -> bool),
    NoDup names -> equiv_on names R ->
    exists p, represents p names R /\
      ((In p (partitions cmp names) /\ is_rv_block_structure cmp base p = true) \/
       In p (map snd (block_structure_candidates cmp names base offset))) /\
      (forall q, In q (map snd (block_structure_candidates cmp names base offset)) -> part_equiv q p -> q = p).
Proof. exact block_candidates_complete. Qed.

Theorem iiv_block_structures_nodup :
  forall (A : Type) (cmp : A -> A -> comparison) (names : list A) (base : list (list A)) (offset : nat),
    NoDup names -> NoDup (map snd (block_structure_candidates cmp names base offset)).
Proof. exact block_candidates_nodup. Qed.

(* td_exhaustive_no_of_etas: the sets of etas to remove are exactly the non-empty sub-sequences of the eta names,
   2^n - 1 candidates numbered from 1+offset *)
Theorem iiv_no_of_etas_exact :
  forall (A : Type) (names : list A) (offset : nat) (s : list A),
    In s (map snd (no_of_etas_candidates names offset)) <-> Subseq s names /\ s <> [].
Proof. exact no_of_etas_exact. Qed.

Theorem iiv_no_of_etas_count :
  forall (A : Type) (names : list A) (offset : nat), length (no_of_etas_candidates names offset) = 2 ^ length names - 1.
Proof. exact no_of_etas_count. Qed.

(* iovsearch wf_etas_removal: candidates i, i+1, ... one per given subset; with the IOV parameters it removes exactly
   the non-empty PROPER sub-sequences *)
Theorem iov_removal_numbering :
  forall (A : Type) (subsets : list (list A)) (i : nat),
    map fst (removal_candidates subsets i) = seq i (length subsets) /\ map snd (removal_candidates subsets i) = subsets.
Proof. exact removal_split. Qed.

Theorem iov_removal_exact :
  forall (A : Type) (names : list A) (i : nat) (s : list A),
    In s (map snd (removal_candidates (non_empty_proper_subsets names) i)) <->
    Subseq s names /\ s <> [] /\ length s < length names.
Proof. exact iov_removal_exact. Qed.

(* least_number_of_transformations(tool='modelsearch') returns a SMALLEST sufficient set: for all PK spaces a (the
   model's features) and b (no `*` in PERIPHERALS modes) it returns exactly one transformation for each of the
   categories ABSORPTION / ELIMINATION / TRANSITS / PERIPHERALS(drug) / LAGTIME in which a's features are not offered
   by b (and b offers something), nothing else; and every set of feature keys that has a transformation for each of
   those categories -- which any set bringing a into b must have, a transformation changing one category only -- is
   at least as large. *)
Theorem lnt_is_smallest :
  forall a b : mf,
    wf_lnt_space a = true -> wf_lnt_space b = true ->
    exists items, lnt_modelsearch a b = Ok items /\
      length items = length (needed_categories a b) /\
      (forall i, In i items -> In (item_cat i) (needed_categories a b)) /\
      (forall ks : list key, covers ks (needed_categories a b) -> length items <= length ks).
Proof. exact lnt_smallest_lemma. Qed.

(* ---------------------------------------------------------------- wildcards: the exact domain of the open finding *)
(* C18-MFL-WILDCARD, characterised: in the raw-compared categories (ABSORPTION, ELIMINATION, LAGTIME, METABOLITE) `-`
   and `==` ALWAYS raise when both sides are present and one is `*` -- every category descriptor, every mode list *)
Theorem mfl_wildcard_sub_eq_raise :
  forall (c : catdesc) (a b : modes),
    cd_eq c = EqRaw -> cd_wild c <> [] ->
    modes_ok (cd_wild c) (Some a) = true -> modes_ok (cd_wild c) (Some b) = true ->
    a = MWild \/ b = MWild ->
    opt_sub c (Some a) (Some b) = TypeError /\ opt_eq c (Some a) (Some b) = TypeError.
Proof. exact opt_sub_raw_wildcard_raises. Qed.

(* ... and a PERIPHERALS statement with a `*` mode makes _extract_peripherals (hence +, -, contain_subset, the
   transformation distance) raise, whatever precedes or follows it *)
Theorem mfl_wildcard_peripherals_raise :
  forall (pre : list pstmt) (p : pstmt) (post : list pstmt) (met drug : list N),
    forallb periph_plain pre = true -> p_keys p = MWild ->
    extract_peripherals (pre ++ p :: post) met drug = TypeError.
Proof. exact extract_peripherals_wildcard_raises. Qed.

(* whereas in the eval-compared categories (DIRECTEFFECT, EFFECTCOMP) `-` is the set difference WITH wildcards on
   either side (guard pd_diff_ok only) *)
Theorem mfl_sub_pd_with_wildcards :
  forall (c : catdesc) (lhs rhs : option modes),
    cd_eq c = EqEval -> cd_sub c = SubNone -> cd_wild c <> [] ->
    modes_ok (cd_wild c) lhs = true -> modes_ok (cd_wild c) rhs = true ->
    pd_diff_ok (cd_wild c) lhs rhs = true ->
    exists r, opt_sub c lhs rhs = Ok r /\ r <> Some MNone /\
      forall x, In x (E_modes (cd_wild c) r) <-> In x (diffN (E_modes (cd_wild c) lhs) (E_modes (cd_wild c) rhs)).
Proof. exact opt_sub_eval_wildcards. Qed.

(* ---------------------------------------------------------------- covsearch: the greedy step procedure *)
(* For every effect list, every oracle for the fits (which candidate wins each step), every number of earlier
   candidates: each step offers exactly the original effects minus those that share parameter AND covariate with an
   effect chosen so far, in the original order ... *)
Theorem covsearch_steps_offer_remaining :
  forall (fuel : nat) (effects : list ceff) (Q : ceff -> bool) (winners : list (option nat)) (n : nat),
    Forall (fun r => exists chosen : list ceff,
              fst r = filter (fun x => Q x && negb (existsb (fun e => same_pc e x) chosen)) effects)
           (covsearch_steps fuel (filter Q effects) winners n).
Proof. exact covsearch_steps_remaining. Qed.

(* ... each (parameter, covariate, effect, operation) at most once per step ... *)
Theorem covsearch_steps_once :
  forall (fuel : nat) (cands : list ceff) (winners : list (option nat)) (n : nat),
    NoDup cands -> Forall (fun r => NoDup (fst r)) (covsearch_steps fuel cands winners n).
Proof. exact covsearch_steps_nodup. Qed.

(* ... and the unbounded loop (`max_steps = -1`: itertools.count) ends: beyond |effects| + 1 passes nothing changes *)
Theorem covsearch_unbounded_terminates :
  forall (k : nat) (cands : list ceff) (winners : list (option nat)) (n f1 f2 : nat),
    length cands <= k -> k < f1 -> k < f2 ->
    covsearch_steps f1 cands winners n = covsearch_steps f2 cands winners n.
Proof. exact covsearch_steps_fuel. Qed.

(* Round 4.  least_number_of_transformations, TRANSITS: for all transit statement lists a (model) and b (space) and
   whatever element of `tuple(set(...))` Python takes as rhs[key][0], the returned step ('TRANSITS', c, depot) leads
   INTO the space: every candidate count c is offered by b together with that depot and is not a transit feature of a.
   With lnt_mode_category and lnt_peripherals_drug_only this makes the returned set sufficient in all five categories
   (lnt_is_smallest gives minimality). *)
Theorem lnt_transits_targets_offered :
  forall (a b : list pstmt) (items : list lnt_item),
    forallb pstmt_ok a = true -> forallb pstmt_ok b = true ->
    lnt_transits a b = Ok items ->
    forall i, In i items ->
      exists d cs, i = LTransits d cs /\ cs <> [] /\
        forall c, In c cs -> In (c, d) (E_pairs [] w_depot b) /\ ~ In (c, d) (E_pairs [] w_depot a).
Proof. exact lnt_transits_targets. Qed.
