(* PV.C18.Spec — the mathematical notions the C18 theorems are stated with (no code model here):
   set partitions as block lists / equivalence relations, subsequences, choice of at most one
   key per category. *)
From Coq Require Import List Bool Arith Permutation.
Import ListNotations.

Section Spec.
  Context {A : Type}.

  (* two elements lie in a common block *)
  Definition same_block (p : list (list A)) (a b : A) : Prop :=
    exists blk, In blk p /\ In a blk /\ In b blk.

  (* two block lists denote the same set partition *)
  Definition part_equiv (p q : list (list A)) : Prop :=
    forall a b, same_block p a b <-> same_block q a b.

  Definition nonempty_blocks (p : list (list A)) : Prop := Forall (fun b => b <> []) p.

  (* p is a partition of the elements of l: non-empty blocks whose concatenation is a
     rearrangement of l (for duplicate-free l this makes the blocks pairwise disjoint) *)
  Definition is_partition (p : list (list A)) (l : list A) : Prop :=
    nonempty_blocks p /\ Permutation (concat p) l.

  (* R is an equivalence relation on the elements of l *)
  Definition equiv_on (l : list A) (R : A -> A -> bool) : Prop :=
    (forall a, In a l -> R a a = true) /\
    (forall a b, In a l -> In b l -> R a b = R b a) /\
    (forall a b c, In a l -> In b l -> In c l -> R a b = true -> R b c = true -> R a c = true).

  (* the block list p realises exactly the relation R on l *)
  Definition represents (p : list (list A)) (l : list A) (R : A -> A -> bool) : Prop :=
    forall a b, In a l -> In b l -> (same_block p a b <-> R a b = true).

  (* s is obtained from l by deleting elements (order kept): for duplicate-free l these are
     exactly the subsets of l, each written in the order of l *)
  Inductive Subseq : list A -> list A -> Prop :=
  | Subseq_nil : Subseq [] []
  | Subseq_skip : forall s x l, Subseq s l -> Subseq s (x :: l)
  | Subseq_take : forall s x l, Subseq s l -> Subseq (x :: s) (x :: l).
End Spec.

(* ---- stepwise search: the paths the rules allow ---- *)
From PV Require Import C18.Model.

(* A path is built from the empty path by repeatedly appending a feature of the search space that
   _is_allowed accepts after the features already on the path. *)
Inductive Chain (tbl : combo_table) (keys : list key) : list key -> Prop :=
| Chain_nil : Chain tbl keys []
| Chain_snoc : forall p f, Chain tbl keys p -> In f keys -> allowed tbl keys f p = true -> Chain tbl keys (p ++ [f]).

(* strictly increasing list of integers *)
Fixpoint increasing (l : list BinNums.Z) : Prop :=
  match l with
  | a :: ((b :: _) as tl) => BinInt.Z.lt a b /\ increasing tl
  | _ => True
  end.

(* ---- the documented acceptance rule, written independently of _is_allowed's peripheral test ----
   A feature may be added after the features `prev` iff it is new and
   - (peripheral compartments) its count is the next one: larger than every count already added and
     with no count of the search space strictly in between (one compartment step at a time, increasing);
   - (anything else) it is not TRANSITS(0,NODEPOT), no feature of its category was added before, and it
     forms no excluded combination with a feature added before. *)
Definition used_counts (prev : list key) : list BinNums.Z := map karg1 (filter is_periph prev).
Definition next_count (na used : list BinNums.Z) (n : BinNums.Z) : bool :=
  forallb (fun u => BinInt.Z.ltb u n) used &&
  forallb (fun m => BinInt.Z.leb n m || existsb (fun u => BinInt.Z.leb m u) used) na.
Definition doc_allowed (tbl : combo_table) (keys : list key) (cur : key) (prev : list key) : bool :=
  negb (memk cur prev) &&
  if is_periph cur then next_count (n_all keys) (used_counts prev) (karg1 cur)
  else negb (key_eqb cur [AS s_TRANSITS; AI BinNums.Z0; AS s_NODEPOT]) &&
       negb (existsb (fun f => atom_eqb (kcat f) (kcat cur)) prev) &&
       negb (combo_hit tbl cur prev).

Fixpoint increasingb (l : list BinNums.Z) : bool :=
  match l with a :: ((b :: _) as tl) => BinInt.Z.ltb a b && increasingb tl | _ => true end.

(* paths built with the documented rule *)
Inductive DocChain (tbl : combo_table) (keys : list key) : list key -> Prop :=
| DocChain_nil : DocChain tbl keys []
| DocChain_snoc : forall p f, DocChain tbl keys p -> In f keys -> doc_allowed tbl keys f p = true ->
                              DocChain tbl keys (p ++ [f]).
