(* PV.C18.Spec — the mathematical notions the C18 theorems are stated with (no code model here):
   set partitions as block lists / equivalence relations, subsequences, choice of at most one
   key per category. *)
From Coq Require Import List Bool Arith Permutation.
Import ListNotations.

Section Spec.
  Context {A : Type}.

  (* two elements lie in a common block *)
  Definition same_block (p : list (list A)) (a b : A) : Prop :=
    exists blk, In blk p /\ In a blk /\ In b blk.

  (* two block lists denote the same set partition *)
  Definition part_equiv (p q : list (list A)) : Prop :=
    forall a b, same_block p a b <-> same_block q a b.

  Definition nonempty_blocks (p : list (list A)) : Prop := Forall (fun b => b <> []) p.

  (* p is a partition of the elements of l: non-empty blocks whose concatenation is a
     rearrangement of l (for duplicate-free l this makes the blocks pairwise disjoint) *)
  Definition is_partition (p : list (list A)) (l : list A) : Prop :=
    nonempty_blocks p /\ Permutation (concat p) l.

  (* R is an equivalence relation on the elements of l *)
  Definition equiv_on (l : list A) (R : A -> A -> bool) : Prop :=
    (forall a, In a l -> R a a = true) /\
    (forall a b, In a l -> In b l -> R a b = R b a) /\
    (forall a b c, In a l -> In b l -> In c l -> R a b = true -> R b c = true -> R a c = true).

  (* the block list p realises exactly the relation R on l *)
  Definition represents (p : list (list A)) (l : list A) (R : A -> A -> bool) : Prop :=
    forall a b, In a l -> In b l -> (same_block p a b <-> R a b = true).

  (* s is obtained from l by deleting elements (order kept): for duplicate-free l these are
     exactly the subsets of l, each written in the order of l *)
  Inductive Subseq : list A -> list A -> Prop :=
  | Subseq_nil : Subseq [] []
  | Subseq_skip : forall s x l, Subseq s l -> Subseq s (x :: l)
  | Subseq_take : forall s x l, Subseq s l -> Subseq (x :: s) (x :: l).
End Spec.
