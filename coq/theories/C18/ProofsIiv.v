(* PV.C18.ProofsIiv — the brute-force candidate lists of iivsearch / iovsearch are images of the enumerators. *)
From Coq Require Import List Bool Arith ZArith Lia Permutation.
From PV Require Import C18.Model C18.Spec C18.Proofs.
Import ListNotations.
Local Open Scope nat_scope.

Section IivProofs.
  Variable A : Type.
  Variable cmp : A -> A -> comparison.

  Lemma block_candidates_split names base offset :
    map fst (block_structure_candidates cmp names base offset) =
      seq (1 + offset) (length (block_structure_candidates cmp names base offset)) /\
    map snd (block_structure_candidates cmp names base offset) =
      filter (fun p => negb (is_rv_block_structure cmp base p)) (partitions cmp names).
  Proof.
    unfold block_structure_candidates.
    set (ps := filter (fun p => negb (is_rv_block_structure cmp base p)) (partitions cmp names)).
    destruct (combine_fst_snd (seq (1 + offset) (length ps)) ps (seq_length _ _)) as [H1 H2].
    rewrite combine_length, seq_length, Nat.min_id. auto.
  Qed.

  (* a candidate is a partition of the eta names that is not the base model's structure, and conversely *)
  Lemma block_candidates_exact names base offset p :
    In p (map snd (block_structure_candidates cmp names base offset)) <->
    In p (partitions cmp names) /\ is_rv_block_structure cmp base p = false.
  Proof.
    rewrite (proj2 (block_candidates_split names base offset)), filter_In, negb_true_iff. reflexivity.
  Qed.

  Lemma block_candidates_nodup names base offset :
    NoDup names -> NoDup (map snd (block_structure_candidates cmp names base offset)).
  Proof.
    intro H. rewrite (proj2 (block_candidates_split names base offset)). apply NoDup_filter.
    apply (partitions_nodup_lemma A cmp names H).
  Qed.

  (* every way of grouping the etas (equivalence relation) is either the base structure or exactly one candidate *)
  Lemma block_candidates_complete names base offset (R : A -> A -> bool) :
    NoDup names -> equiv_on names R ->
    exists p, represents p names R /\
      ((In p (partitions cmp names) /\ is_rv_block_structure cmp base p = true) \/
       In p (map snd (block_structure_candidates cmp names base offset))) /\
      (forall q, In q (map snd (block_structure_candidates cmp names base offset)) -> part_equiv q p -> q = p).
  Proof.
    intros Hnd HR. destruct (partitions_complete_lemma A cmp names R Hnd HR) as [p [Hp Hrep]].
    exists p. split; [exact Hrep|]. split.
    - destruct (is_rv_block_structure cmp base p) eqn:E; [left; auto|]. right. apply block_candidates_exact. auto.
    - intros q Hq Heq. apply block_candidates_exact in Hq. destruct Hq as [Hq _].
      apply (proj2 (partitions_nodup_lemma A cmp names Hnd) q p Hq Hp Heq).
  Qed.

  Lemma no_of_etas_split (names : list A) offset :
    map fst (no_of_etas_candidates names offset) = seq (1 + offset) (length (no_of_etas_candidates names offset)) /\
    map snd (no_of_etas_candidates names offset) = non_empty_subsets names.
  Proof.
    unfold no_of_etas_candidates. set (ss := non_empty_subsets names).
    destruct (combine_fst_snd (seq (1 + offset) (length ss)) ss (seq_length _ _)) as [H1 H2].
    rewrite combine_length, seq_length, Nat.min_id. auto.
  Qed.

  (* the etas-to-remove candidates are exactly the non-empty sub-sequences of the eta names, 2^n - 1 of them *)
  Lemma no_of_etas_exact (names : list A) offset s :
    In s (map snd (no_of_etas_candidates names offset)) <-> Subseq s names /\ s <> [].
  Proof.
    rewrite (proj2 (no_of_etas_split names offset)). unfold non_empty_subsets. rewrite subsets_spec.
    unfold eff_max. cbn [Z.ltb Z.compare]. split.
    - intros [H1 [H2 _]]. split; [exact H1|]. destruct s; [cbn in H2; lia|discriminate].
    - intros [H1 H2]. split; [exact H1|]. pose proof (Subseq_length A s names H1). destruct s; [congruence|cbn [length] in *; lia].
  Qed.

  Lemma no_of_etas_count (names : list A) offset :
    length (no_of_etas_candidates names offset) = 2 ^ length names - 1.
  Proof.
    rewrite <- (map_length snd), (proj2 (no_of_etas_split names offset)). apply non_empty_subsets_length.
  Qed.

  (* iovsearch.wf_etas_removal(remove, entry, subsets, i): candidate j = i, i+1, ... removes the j-th subset *)
  Lemma removal_split (subsets : list (list A)) i :
    map fst (removal_candidates subsets i) = seq i (length subsets) /\ map snd (removal_candidates subsets i) = subsets.
  Proof. unfold removal_candidates. apply combine_fst_snd. apply seq_length. Qed.

  (* iovsearch removes every non-empty PROPER sub-sequence of the IOV parameters *)
  Lemma iov_removal_exact (names : list A) i s :
    In s (map snd (removal_candidates (non_empty_proper_subsets names) i)) <->
    Subseq s names /\ s <> [] /\ length s < length names.
  Proof.
    rewrite (proj2 (removal_split _ i)). unfold non_empty_proper_subsets. rewrite subsets_spec.
    unfold eff_max. cbn [Z.ltb Z.compare]. split.
    - intros [H1 [H2 H3]]. split; [exact H1|]. split; [destruct s; [cbn in H2; lia|discriminate]|lia].
    - intros [H1 [H2 H3]]. split; [exact H1|]. destruct s; [congruence|cbn [length] in *; lia].
  Qed.
End IivProofs.
