(* PV.C18.MflCheck — in-Coq comparison for the search-space algebra: model vs implementation (tag 7),
   the algebraic laws evaluated on the implementation's own results (tags 71..76), guard facts (210..215). *)
From Coq Require Import List Bool Arith ZArith NArith.
From PV Require Import Base.PyData C18.Model C18.MflModel C18.MflSpec.
Import ListNotations.
Local Open Scope nat_scope.

Inductive obs (A : Type) : Type := OOk (a : A) | OTypeError | OAttributeError | OOther.
Arguments OOk {A}. Arguments OTypeError {A}. Arguments OAttributeError {A}. Arguments OOther {A}.

Record mflcase := mkMflCase {
  m_a : mf; m_b : mf;                       (* the two parsed search spaces (covariate statements inside) *)
  m_add : obs mf; m_sub : obs mf;           (* a + b, a - b  (result objects, covariate statements inside) *)
  m_eq : obs bool; m_eq_rev : obs bool;     (* a == b, b == a *)
  m_sup : obs bool;                         (* a.contain_subset(b) *)
  m_val_a : list vstmt; m_val_b : list vstmt;   (* the covariate statements as validate_mfl_list sees them *)
  m_rt_a : nat; m_rt_b : nat                (* parse(repr(x)): 0 = same object and repr stable, 1 = the parser refuses
                                               the printed form with its ValueError, 2 = anything else *)
}.

Definition mtag (b : bool) (t : nat) : list nat := if b then [] else [t].

(* model result vs observed result object *)
Definition result_matches (r : res mfres) (o : obs mf) : bool :=
  match r, o with
  | Ok x, OOk y =>
      let m := r_mf x in
      omodes_seteq (absorption m) (absorption y) && omodes_seteq (elimination m) (elimination y) &&
      pstmts_eq (transits m) (transits y) && pstmts_eq (peripherals m) (peripherals y) &&
      omodes_seteq (lagtime m) (lagtime y) && omodes_seteq (direct_effect m) (direct_effect y) &&
      omodes_seteq (effect_comp m) (effect_comp y) && pstmts_eq (indirect_effect m) (indirect_effect y) &&
      omodes_seteq (metabolite m) (metabolite y) &&
      seteqb effect_eqb (r_cov x) (E_cov (covariate y))
  | TypeError, OTypeError | AttributeError, OAttributeError => true
  | _, _ => false
  end.
Definition bool_matches (r : res bool) (o : obs bool) : bool :=
  match r, o with
  | Ok x, OOk y => Bool.eqb x y
  | TypeError, OTypeError | AttributeError, OAttributeError => true
  | _, _ => false
  end.

Definition is_ok {A} (o : obs A) : bool := match o with OOk _ => true | _ => false end.

Definition mfl_verdict (c : mflcase) : list nat :=
  let a := m_a c in let b := m_b c in
  (* correspondence *)
  mtag (result_matches (mf_add a b) (m_add c)) 7 ++
  mtag (result_matches (mf_sub a b) (m_sub c)) 7 ++
  mtag (bool_matches (mf_eq a b) (m_eq c)) 7 ++
  mtag (bool_matches (mf_eq b a) (m_eq_rev c)) 7 ++
  mtag (bool_matches (contain_subset a b) (m_sup c)) 7 ++
  (* the laws on the implementation's own answers *)
  (* the printed form is re-accepted iff the substituted statements pass validate_mfl_list *)
  mtag (Bool.eqb (negb (validate (printed (m_val_a c)))) (Nat.eqb (m_rt_a c) 1)) 7 ++
  mtag (Bool.eqb (negb (validate (printed (m_val_b c)))) (Nat.eqb (m_rt_b c) 1)) 7 ++
  mtag (Nat.eqb (m_rt_a c) 0 && Nat.eqb (m_rt_b c) 0) 71 ++
  match m_add c with OOk r => mtag (law_add a b r) 72 ++ mtag (wf_result r) 761 | _ => [761] end ++
  match m_sub c with OOk r => mtag (law_sub a b r) 73 ++ mtag (wf_result r) 762 | _ => [762] end ++
  match m_eq c with OOk e => mtag (Bool.eqb e (spaces_equal a b)) 74 | _ => [763] end ++
  match m_eq_rev c with OOk e => mtag (Bool.eqb e (spaces_equal a b)) 74 | _ => [764] end ++
  (* contain_subset compares the PK features of two PK spaces (modelsearch); outside that domain only the
     correspondence above is judged *)
  (if is_pk a && is_pk b
   then match m_sup c with OOk e => mtag (Bool.eqb e (space_includes a b)) 75 | _ => [765] end
   else [216]) ++
  (* guards *)
  mtag (g_no_wildcard a && g_no_wildcard b) 210 ++
  mtag (g_tuples_canonical a b) 212 ++
  mtag (g_same_metabolite a b) 213 ++
  mtag (g_transits_product a) 214 ++
  mtag (g_pd_difference a b) 215 ++
  mtag (g_let_not_forced (m_val_a c) && g_let_not_forced (m_val_b c)) 217.

(* Transits.__eq__ on two statements: the truth value that came back *)
Definition same_depot_form (t1 t2 : pstmt) : bool :=
  match p_keys t1, p_keys t2 with MWild, MWild | MList _, MList _ => true | _, _ => false end.
Definition teq_verdict (t1 t2 : pstmt) (is_bool : bool) (truth : bool) : list nat :=
  match transits_stmt_eq t1 t2 with
  | Some x => mtag (is_bool && Bool.eqb x truth) 7
  | None => [7]
  end ++
  (* `t1 == t2` is the truth value of "same counts and same depots" (statements written in the same form:
     a `*` depot is only equal to a `*` depot -- tag 220 marks the pairs outside that domain) *)
  (if same_depot_form t1 t2
   then mtag (is_bool && Bool.eqb truth (seteqb pair_eqb (E_stmt [] w_depot t1) (E_stmt [] w_depot t2))) 78
   else [220]).

(* ---- least_number_of_transformations(other, tool='modelsearch') ---- *)
Definition lnt_item_matches (i : lnt_item) (k : key) : bool :=
  match i with
  | LKey k' => key_eqb k' k
  | LTransits d cs => match k with
                      | [AS c; AI z; AS d'] => N.eqb c s_TRANSITS && N.eqb d d' && Z.leb 0 z && memN (Z.to_N z) cs
                      | _ => false
                      end
  end.
(* the documented contract: for every PK category in which the model's feature is not in the space, exactly one
   transformation to a feature of the space; nothing for the other categories; nothing else *)
Definition keys_of_cat (c : N) (ks : list key) : list key := filter (fun k => atom_eqb (kcat k) (AS c)) ks.
Definition lnt_cat_ok (c : N) (shared : bool) (target_ok : key -> bool) (ks : list key) : bool :=
  match keys_of_cat c ks with
  | [] => shared
  | [k] => negb shared && target_ok k
  | _ => false
  end.
Definition has_common {X} (eqb : X -> X -> bool) (a b : list X) : bool := existsb (fun x => memb eqb x b) a.
Definition lnt_spec_ok (a b : mf) (ks : list key) : bool :=
  lnt_cat_ok s_ABSORPTION (has_common N.eqb (E_modes w_absorption (absorption a)) (E_modes w_absorption (absorption b)))
             (fun k => match k with [_; AS m] => memN m (E_modes w_absorption (absorption b)) | _ => false end) ks &&
  lnt_cat_ok s_ELIMINATION (has_common N.eqb (E_modes w_elimination (elimination a)) (E_modes w_elimination (elimination b)))
             (fun k => match k with [_; AS m] => memN m (E_modes w_elimination (elimination b)) | _ => false end) ks &&
  lnt_cat_ok s_LAGTIME (has_common N.eqb (E_modes w_lagtime (lagtime a)) (E_modes w_lagtime (lagtime b)))
             (fun k => match k with [_; AS m] => memN m (E_modes w_lagtime (lagtime b)) | _ => false end) ks &&
  lnt_cat_ok s_TRANSITS (has_common pair_eqb (Epk_transits a) (Epk_transits b))
             (fun k => match k with [_; AI z; AS d] => Z.leb 0 z && memb pair_eqb (Z.to_N z, d) (Epk_transits b) | _ => false end) ks &&
  (* modelsearch only moves the drug's peripheral compartments *)
  lnt_cat_ok s_PERIPHERALS (has_common pair_eqb (drug_only (Epk_periph a)) (drug_only (Epk_periph b)) || is_nil (drug_only (Epk_periph b)))
             (fun k => match k with [_; AI z] => Z.leb 0 z && memb pair_eqb (Z.to_N z, s_DRUG) (Epk_periph b) | _ => false end) ks &&
  forallb (fun k => existsb (fun c => atom_eqb (kcat k) (AS c)) [s_ABSORPTION; s_ELIMINATION; s_LAGTIME; s_TRANSITS; s_PERIPHERALS]) ks.
Definition lnt_verdict (a b : mf) (o : obs (list key)) : list nat :=
  match lnt_modelsearch a b, o with
  | Ok items, OOk ks => mtag (list_rel2 lnt_item_matches items ks) 7
  | TypeError, OTypeError | AttributeError, OAttributeError => []
  | _, _ => [7]
  end ++
  match o with OOk ks => mtag (lnt_spec_ok a b ks) 77 | _ => [766] end ++
  mtag (g_no_wildcard a && g_no_wildcard b) 210.
