(* PV.C18.MflProofs — lemmas about the search-space algebra model (MflModel) against its denotation (MflSpec). *)
From Coq Require Import List Bool Arith ZArith NArith Lia Permutation Setoid Morphisms.
From PV Require Import C18.Model C18.MflModel C18.MflSpec.
Import ListNotations.
Local Open Scope N_scope.

(* ---------------------------------------------------------------- list-sets of N *)
Lemma memN_In x l : memN x l = true <-> In x l.
Proof.
  unfold memN. rewrite existsb_exists. split.
  - intros [y [Hy E]]. apply N.eqb_eq in E. subst. exact Hy.
  - intro H. exists x. split; [exact H|apply N.eqb_refl].
Qed.
Lemma memN_false x l : memN x l = false <-> ~ In x l.
Proof. rewrite <- memN_In. destruct (memN x l); split; congruence. Qed.

Lemma In_dedupN x l : In x (dedupN l) <-> In x l.
Proof.
  induction l as [|a l IH]; cbn; [tauto|]. destruct (memN a l) eqn:E.
  - rewrite IH. split; [auto|]. intros [<-|H]; [apply memN_In; exact E|exact H].
  - cbn. rewrite IH. tauto.
Qed.
Lemma In_diffN x a b : In x (diffN a b) <-> In x a /\ ~ In x b.
Proof. unfold diffN. rewrite filter_In, negb_true_iff, memN_false. tauto. Qed.
Lemma In_interN x a b : In x (interN a b) <-> In x a /\ In x b.
Proof. unfold interN. rewrite filter_In, memN_In. tauto. Qed.
Lemma subsetN_spec a b : subsetN a b = true <-> incl a b.
Proof.
  unfold subsetN. rewrite forallb_forall. split; intros H x Hx; [apply memN_In|apply memN_In]; apply H; exact Hx.
Qed.
Lemma seteqN_spec a b : seteqN a b = true <-> (forall x, In x a <-> In x b).
Proof.
  unfold seteqN. rewrite andb_true_iff, !subsetN_spec. split.
  - intros [H1 H2] x. split; [apply H1|apply H2].
  - intro H. split; intros x Hx; apply H; exact Hx.
Qed.
Lemma is_nil_true {X} (l : list X) : is_nil l = true <-> l = [].
Proof. destruct l; cbn; split; congruence. Qed.
Lemma is_nil_false {X} (l : list X) : is_nil l = false <-> l <> [].
Proof. destruct l; cbn; split; congruence. Qed.
Lemma nonempty_has {X} (l : list X) : l <> [] -> exists x, In x l.
Proof. destruct l as [|x l]; [congruence|]. exists x. left. reflexivity. Qed.

(* ---------------------------------------------------------------- mode categories *)
(* a well-formed optional mode statement of a category with wildcard list w *)
Definition modes_ok (w : list N) (o : option modes) : bool :=
  match o with
  | None => true
  | Some MWild => true
  | Some (MList l) => negb (is_nil l) && subsetN l w
  | Some MNone => false
  end.
(* ... without a wildcard *)
Definition modes_plain_ok (w : list N) (o : option modes) : bool :=
  match o with
  | None => true
  | Some (MList l) => negb (is_nil l) && subsetN l w
  | _ => false
  end.

Lemma truthy_ok w o : w <> [] -> modes_ok w o = true ->
  truthy w o = Ok (match o with None => false | Some _ => true end).
Proof.
  intros Hw H. destruct o as [[| l |]|]; cbn in *; try discriminate; try reflexivity.
  - destruct w; [congruence|reflexivity].
  - apply andb_true_iff in H. destruct H as [H _]. destruct l; [discriminate|reflexivity].
Qed.

Lemma E_modes_wild w : E_modes w (Some MWild) = w.
Proof. reflexivity. Qed.

Lemma opt_add_union c lhs rhs :
  cd_wild c <> [] -> modes_ok (cd_wild c) lhs = true -> modes_ok (cd_wild c) rhs = true ->
  exists r, opt_add c lhs rhs = Ok r /\ modes_ok (cd_wild c) r = true /\
            forall x, In x (E_modes (cd_wild c) r) <-> In x (E_modes (cd_wild c) lhs) \/ In x (E_modes (cd_wild c) rhs).
Proof.
  intros Hw Hl Hr. unfold opt_add. rewrite (truthy_ok _ _ Hw Hl), (truthy_ok _ _ Hw Hr). cbn [bind].
  destruct lhs as [a|]; destruct rhs as [b|].
  - destruct a as [| l1 |]; destruct b as [| l2 |]; cbn in Hl, Hr; try discriminate; cbn [modes_add bind].
    + exists (Some MWild). split; [reflexivity|]. split; [reflexivity|]. cbn. tauto.
    + exists (Some MWild). split; [reflexivity|]. split; [reflexivity|]. cbn. intro x. split; [auto|].
      intros [H|H]; [exact H|]. apply andb_true_iff in Hr. destruct Hr as [_ Hr]. apply subsetN_spec in Hr. apply Hr. exact H.
    + exists (Some MWild). split; [reflexivity|]. split; [reflexivity|]. cbn. intro x. split; [auto|].
      intros [H|H]; [|exact H]. apply andb_true_iff in Hl. destruct Hl as [_ Hl]. apply subsetN_spec in Hl. apply Hl. exact H.
    + apply andb_true_iff in Hl. destruct Hl as [Hl1 Hl2]. apply andb_true_iff in Hr. destruct Hr as [Hr1 Hr2].
      apply subsetN_spec in Hl2. apply subsetN_spec in Hr2.
      assert (Hmem : forall x, In x (dedupN (l1 ++ filter (fun x0 => negb (memN x0 l1)) l2)) <-> In x l1 \/ In x l2).
      { intro x. rewrite In_dedupN, in_app_iff, filter_In, negb_true_iff, memN_false. split; [tauto|].
        intros [H|H]; [auto|]. destruct (in_dec N.eq_dec x l1); auto. }
      exists (Some (MList (dedupN (l1 ++ filter (fun x0 => negb (memN x0 l1)) l2)))). split; [reflexivity|]. split.
      * cbn. apply andb_true_iff. split.
        -- apply negb_true_iff, is_nil_false. apply negb_true_iff, is_nil_false in Hl1.
           destruct (nonempty_has _ Hl1) as [x Hx]. intro E. assert (In x []) by (rewrite <- E; apply Hmem; auto). contradiction.
        -- apply subsetN_spec. intros x Hx. apply Hmem in Hx. destruct Hx; auto.
      * cbn. exact Hmem.
  - exists (Some a). split; [reflexivity|]. split; [exact Hl|]. cbn. tauto.
  - exists (Some b). split; [reflexivity|]. split; [exact Hr|]. cbn. tauto.
  - exists None. split; [reflexivity|]. split; [reflexivity|]. cbn. tauto.
Qed.

Lemma stmt_eq_plain c l1 l2 : stmt_eq c (MList l1) (MList l2) = Ok (seteqN l1 l2).
Proof. unfold stmt_eq. destruct (cd_eq c); reflexivity. Qed.

Lemma opt_eq_plain c a b :
  modes_plain_ok (cd_wild c) a = true -> modes_plain_ok (cd_wild c) b = true ->
  opt_eq c a b = Ok (seteqN (E_modes (cd_wild c) a) (E_modes (cd_wild c) b)).
Proof.
  intros Ha Hb. destruct a as [[| l1 |]|]; destruct b as [[| l2 |]|]; cbn in Ha, Hb; try discriminate; cbn [opt_eq].
  - rewrite stmt_eq_plain. reflexivity.
  - cbn. apply andb_true_iff in Ha. destruct Ha as [Ha _]. destruct l1; [discriminate|reflexivity].
  - cbn. apply andb_true_iff in Hb. destruct Hb as [Hb _]. destruct l2; [discriminate|]. cbn. reflexivity.
  - reflexivity.
Qed.

(* difference of two plain optional statements *)
Lemma opt_sub_difference c lhs rhs :
  cd_wild c <> [] -> modes_plain_ok (cd_wild c) lhs = true -> modes_plain_ok (cd_wild c) rhs = true ->
  (cd_sub c = SubNone -> pd_diff_ok (cd_wild c) lhs rhs = true) ->
  exists r, opt_sub c lhs rhs = Ok r /\
    (forall x, In x (diffN (E_modes (cd_wild c) lhs) (E_modes (cd_wild c) rhs)) -> In x (E_modes (cd_wild c) r)) /\
    (diffN (E_modes (cd_wild c) lhs) (E_modes (cd_wild c) rhs) <> [] ->
       forall x, In x (E_modes (cd_wild c) r) -> In x (diffN (E_modes (cd_wild c) lhs) (E_modes (cd_wild c) rhs))) /\
    (diffN (E_modes (cd_wild c) lhs) (E_modes (cd_wild c) rhs) = [] ->
       match cd_sub c with
       | SubDefault dflt => incl (E_modes (cd_wild c) r) [dflt]
       | SubNone => r = None
       end) /\
    r <> Some MNone.
Proof.
  intros Hw Hl Hr Hpd. unfold opt_sub.
  assert (Hl' : modes_ok (cd_wild c) lhs = true) by (destruct lhs as [[| |]|]; cbn in *; auto; discriminate).
  assert (Hr' : modes_ok (cd_wild c) rhs = true) by (destruct rhs as [[| |]|]; cbn in *; auto; discriminate).
  rewrite (truthy_ok _ _ Hw Hl'). cbn [bind].
  destruct lhs as [[| l1 |]|]; cbn in Hl; try discriminate.
  - rewrite (truthy_ok _ _ Hw Hr'). cbn [bind].
    destruct rhs as [[| l2 |]|]; cbn in Hr; try discriminate.
    + rewrite stmt_eq_plain. cbn [bind E_modes eval_modes].
      destruct (seteqN l1 l2) eqn:Eeq.
      * (* equal: no statement left *)
        assert (Hd : diffN l1 l2 = []).
        { pose proof (proj1 (seteqN_spec _ _) Eeq) as Eeq'. destruct (diffN l1 l2) as [|x d] eqn:Ed; [reflexivity|]. exfalso.
          assert (Hx : In x (diffN l1 l2)) by (rewrite Ed; left; reflexivity). apply In_diffN in Hx. apply (proj2 Hx). apply Eeq'. tauto. }
        exists None. split; [reflexivity|]. rewrite Hd. split; [intros x []|]. split; [intro H; congruence|].
        split; [|discriminate]. intros _. destruct (cd_sub c); [intros x []|reflexivity].
      * destruct (cd_sub c) as [dflt|] eqn:Esub.
        -- cbn [modes_sub_default bind]. destruct (diffN l1 l2) as [|y d] eqn:Ed.
           ++ exists (Some (MList [dflt])). split; [reflexivity|]. split; [intros x []|]. split; [intro H; congruence|].
              split; [|discriminate]. intros _ x Hx. exact Hx.
           ++ exists (Some (MList (dedupN (y :: d)))). split; [reflexivity|]. cbn [E_modes eval_modes].
              split; [intros x Hx; apply In_dedupN; exact Hx|]. split; [intros _ x Hx; apply -> In_dedupN in Hx; exact Hx|].
              split; [discriminate|discriminate].
        -- specialize (Hpd eq_refl). unfold pd_diff_ok in Hpd. cbn [E_modes eval_modes] in Hpd. rewrite Eeq in Hpd.
           apply andb_true_iff in Hl. destruct Hl as [Hl1 _]. apply andb_true_iff in Hr. destruct Hr as [Hr1 _].
           apply negb_true_iff in Hl1. apply negb_true_iff in Hr1. rewrite Hl1, Hr1 in Hpd. cbn in Hpd.
           apply negb_true_iff, is_nil_false in Hpd.
           cbn [modes_sub_none]. destruct (diffN l1 l2) as [|y d] eqn:Ed; [congruence|].
           exists (Some (MList (dedupN (y :: d)))). split; [reflexivity|]. cbn [E_modes eval_modes].
           split; [intros x Hx; apply In_dedupN; exact Hx|]. split; [intros _ x Hx; apply -> In_dedupN in Hx; exact Hx|].
           split; [discriminate|discriminate].
    + (* nothing to subtract *)
      exists (Some (MList l1)). split; [reflexivity|]. cbn [E_modes eval_modes].
      assert (Hd : diffN l1 [] = l1).
      { unfold diffN. clear. induction l1 as [|a l IH]; [reflexivity|]. cbn. f_equal. exact IH. }
      rewrite Hd. split; [auto|]. split; [auto|]. split; [|discriminate].
      intro E. apply andb_true_iff in Hl. destruct Hl as [Hl1 _]. rewrite E in Hl1. discriminate.
  - exists None. split; [reflexivity|]. cbn [E_modes diffN filter]. split; [intros x []|]. split; [intro H; congruence|].
    split; [|discriminate]. intros _. destruct (cd_sub c); [intros x []|reflexivity].
Qed.

(* ---------------------------------------------------------------- _add_helper and the value x key statements *)
Definition pstmt_ok (s : pstmt) : bool :=
  match p_vals s, p_keys s with MNone, _ | _, MNone => false | _, _ => true end.

Lemma list_of_eval w m : m <> MNone -> exists l, list_of (eval_modes w m) = Ok l /\ eval_modes w m = MList l.
Proof. destruct m as [| l |]; intro H; [exists w|exists l|congruence]; split; reflexivity. Qed.

Lemma In_E_stmt wv wk s v k :
  In (v, k) (E_stmt wv wk s) <->
  exists vs ks, eval_modes wv (p_vals s) = MList vs /\ eval_modes wk (p_keys s) = MList ks /\ In v vs /\ In k ks.
Proof.
  unfold E_stmt. destruct (eval_modes wv (p_vals s)) as [| vs |] eqn:E1; destruct (eval_modes wk (p_keys s)) as [| ks |] eqn:E2;
    try (split; [contradiction|intros [? [? [? [? _]]]]; discriminate]).
  rewrite in_flat_map. split.
  - intros [v' [Hv Hin]]. apply in_map_iff in Hin. destruct Hin as [k' [E Hk]]. injection E as -> ->. exists vs, ks. auto.
  - intros [vs' [ks' [Ev [Ek [Hv Hk]]]]]. injection Ev as <-. injection Ek as <-. exists v. split; [exact Hv|].
    apply in_map_iff. exists k. auto.
Qed.

Lemma In_E_stmt_pairs wv wk ss v k :
  In (v, k) (E_pairs wv wk ss) <->
  exists s vs ks, In s ss /\ eval_modes wv (p_vals s) = MList vs /\ eval_modes wk (p_keys s) = MList ks /\ In v vs /\ In k ks.
Proof.
  unfold E_pairs. rewrite in_flat_map. split.
  - intros [s [Hs Hin]]. apply In_E_stmt in Hin. destruct Hin as [vs [ks H]]. exists s, vs, ks. tauto.
  - intros [s [vs [ks [Hs H]]]]. exists s. split; [exact Hs|]. apply In_E_stmt. exists vs, ks. exact H.
Qed.

Lemma dict_get_extend d k vs k' :
  dict_get (dict_extend d k vs) k' = if N.eqb k' k then dict_get d k ++ vs else dict_get d k'.
Proof.
  unfold dict_get. induction d as [|[k0 v0] tl IH].
  - cbn. destruct (N.eqb_spec k k'); destruct (N.eqb_spec k' k); subst; try congruence; reflexivity.
  - cbn [dict_extend]. destruct (N.eqb_spec k0 k) as [->|Hne].
    + cbn [find fst snd]. rewrite N.eqb_refl. cbn [snd].
      destruct (N.eqb_spec k k') as [E1|H1]; destruct (N.eqb_spec k' k) as [E2|H2]; try congruence; reflexivity.
    + cbn [find fst snd]. destruct (N.eqb_spec k0 k') as [E1|H1].
      * destruct (N.eqb_spec k' k) as [E2|H2]; [congruence|reflexivity].
      * rewrite IH. destruct (N.eqb_spec k' k) as [E2|H2]; [|reflexivity].
        destruct (N.eqb_spec k0 k); [congruence|reflexivity].
Qed.

Lemma dict_extend_keys d k vs :
  map fst (dict_extend d k vs) = if memN k (map fst d) then map fst d else map fst d ++ [k].
Proof.
  induction d as [|[k0 v0] tl IH]; [reflexivity|].
  cbn [dict_extend map fst]. unfold memN in *. cbn [existsb].
  destruct (N.eqb_spec k0 k) as [E|Hne].
  - subst k0. rewrite N.eqb_refl. reflexivity.
  - destruct (N.eqb_spec k k0) as [E|_]; [congruence|]. cbn [orb map fst]. rewrite IH.
    destruct (existsb (N.eqb k) (map fst tl)); reflexivity.
Qed.

Lemma NoDup_app_intro_N (l : list N) (k : N) : NoDup l -> ~ In k l -> NoDup (l ++ [k]).
Proof.
  induction l as [|a l IH]; cbn; intros H Hk; [repeat constructor; intros []|].
  inversion H as [|? ? Ha Hl]; subst. constructor.
  - rewrite in_app_iff. intros [H1|[H1|[]]]; [contradiction|]. apply Hk. left. symmetry. exact H1.
  - apply IH; [exact Hl|]. intro H1. apply Hk. right. exact H1.
Qed.

Lemma dict_extend_nodup d k vs : NoDup (map fst d) -> NoDup (map fst (dict_extend d k vs)).
Proof.
  intro H. rewrite dict_extend_keys. destruct (memN k (map fst d)) eqn:E; [exact H|].
  apply memN_false in E. apply NoDup_app_intro_N; auto.
Qed.

Lemma fold_extend_spec ks : forall d vals k v,
  In v (dict_get (fold_left (fun d a => dict_extend d a vals) ks d) k) <->
  In v (dict_get d k) \/ (In k ks /\ In v vals).
Proof.
  induction ks as [|a ks IH]; intros d vals k v; cbn [fold_left].
  - cbn. tauto.
  - rewrite IH, dict_get_extend. destruct (N.eqb_spec k a) as [->|Hne].
    + rewrite in_app_iff. cbn. tauto.
    + cbn. split; [tauto|]. intros [H|[[H|H] Hv]]; auto. congruence.
Qed.

Lemma fold_extend_nodup ks : forall d vals,
  NoDup (map fst d) -> NoDup (map fst (fold_left (fun d a => dict_extend d a vals) ks d)).
Proof.
  induction ks as [|a ks IH]; intros d vals H; cbn [fold_left]; [exact H|]. apply IH. apply dict_extend_nodup. exact H.
Qed.

Lemma join_dict_spec wv wk ss : forall d,
  forallb pstmt_ok ss = true ->
  exists d', join_dict wv wk ss d = Ok d' /\ (NoDup (map fst d) -> NoDup (map fst d')) /\
             forall k v, In v (dict_get d' k) <-> In v (dict_get d k) \/ In (v, k) (E_pairs wv wk ss).
Proof.
  induction ss as [|s ss IH]; intros d Hok.
  - exists d. split; [reflexivity|]. split; [auto|]. intros k v. cbn. tauto.
  - cbn in Hok. apply andb_true_iff in Hok. destruct Hok as [Hs Hss].
    unfold pstmt_ok in Hs.
    assert (Hv : p_vals s <> MNone) by (destruct (p_vals s); try discriminate; congruence).
    assert (Hk : p_keys s <> MNone) by (destruct (p_vals s); destruct (p_keys s); try discriminate; congruence).
    destruct (list_of_eval wv _ Hv) as [vals [Ev Ev']]. destruct (list_of_eval wk _ Hk) as [ks [Ek Ek']].
    cbn [join_dict]. rewrite Ev, Ek. cbn [bind].
    destruct (IH (fold_left (fun d0 a => dict_extend d0 a vals) ks d) Hss) as [d' [H1 [H2 H3]]].
    exists d'. split; [exact H1|]. split.
    + intro Hnd. apply H2. apply fold_extend_nodup. exact Hnd.
    + intros k v. rewrite H3, fold_extend_spec. cbn [E_pairs flat_map]. rewrite in_app_iff, In_E_stmt. split.
      * intros [[H|[Hkk Hvv]]|H]; auto. right. left. exists vals, ks. auto.
      * intros [H|[[vs' [ks' [E1 [E2 [Hvv Hkk]]]]]|H]]; auto.
        rewrite Ev' in E1. rewrite Ek' in E2. injection E1 as <-. injection E2 as <-. auto.
Qed.

Lemma dict_get_In d k vs : NoDup (map fst d) -> In (k, vs) d -> dict_get d k = vs.
Proof.
  unfold dict_get. induction d as [|[k0 v0] tl IH]; cbn; intros Hnd Hin; [contradiction|].
  inversion Hnd as [|? ? Hk0 Hnd']; subst. destruct Hin as [E|Hin].
  - injection E as -> ->. rewrite N.eqb_refl. reflexivity.
  - destruct (N.eqb_spec k0 k) as [->|Hne]; [|apply IH; auto].
    exfalso. apply Hk0. apply in_map_iff. exists (k, vs). auto.
Qed.

(* the expansion of the statements built from a dictionary *)
Lemma In_E_dict_stmts wv wk d v k :
  In (v, k) (E_pairs wv wk (dict_stmts d)) <-> exists vs, In (k, vs) d /\ In v vs.
Proof.
  unfold dict_stmts, E_pairs. rewrite in_flat_map. split.
  - intros [s [Hs Hin]]. apply in_map_iff in Hs. destruct Hs as [[k0 vs] [<- Hkv]]. apply In_E_stmt in Hin.
    cbn in Hin. destruct Hin as [vs' [ks' [E1 [E2 [Hv Hk]]]]]. injection E1 as <-. injection E2 as <-.
    destruct Hk as [<-|[]]. exists vs. auto.
  - intros [vs [Hkv Hv]]. exists (mkP (MList vs) (MList [k])). split.
    + apply in_map_iff. exists (k, vs). auto.
    + apply In_E_stmt. exists vs, [k]. cbn. auto.
Qed.

Lemma In_remove_empty_map (g : N * list N -> list N) d k vs :
  In (k, vs) (remove_empty (map (fun kv => (fst kv, g kv)) d)) <-> vs <> [] /\ exists v0, In (k, v0) d /\ vs = g (k, v0).
Proof.
  unfold remove_empty. rewrite filter_In, in_map_iff. cbn [snd]. rewrite negb_true_iff, is_nil_false. split.
  - intros [[[k0 v0] [E Hin]] Hne]. cbn in E. injection E as -> <-. split; [exact Hne|]. exists v0. auto.
  - intros [Hne [v0 [Hin ->]]]. split; [|exact Hne]. exists (k, v0). auto.
Qed.

Lemma dict_get_some d k v : In v (dict_get d k) -> exists v0, In (k, v0) d /\ dict_get d k = v0.
Proof.
  unfold dict_get. destruct (find (fun kv => N.eqb (fst kv) k) d) as [[k0 v0]|] eqn:E; [|contradiction].
  intros _. apply find_some in E. destruct E as [Hin Hk]. cbn in Hk. apply N.eqb_eq in Hk. subst. exists v0. auto.
Qed.

(* one of the three dictionaries of _add_helper: op is set difference (R = not) or intersection (R = id) *)
Lemma helper_part wv wk (da db : dict) (op : list N -> list N -> list N) (R : Prop -> Prop) :
  NoDup (map fst da) ->
  (forall x a b, In x (op a b) <-> In x a /\ R (In x b)) ->
  forall v k,
    In (v, k) (E_pairs wv wk (dict_stmts (remove_empty (map (fun kv => (fst kv, op (dedupN (snd kv)) (dict_get db (fst kv)))) da)))) <->
    In v (dict_get da k) /\ R (In v (dict_get db k)).
Proof.
  intros Hnd Hop v k. rewrite In_E_dict_stmts. split.
  - intros [vs [Hkv Hv]]. apply (In_remove_empty_map (fun kv => op (dedupN (snd kv)) (dict_get db (fst kv)))) in Hkv.
    destruct Hkv as [_ [v0 [Hin ->]]]. cbn [fst snd] in Hv. apply Hop in Hv. destruct Hv as [Hv1 Hv2].
    apply -> In_dedupN in Hv1. rewrite (dict_get_In da k v0 Hnd Hin). auto.
  - intros [Hv HR]. destruct (dict_get_some da k v Hv) as [v0 [Hin E]]. rewrite E in Hv.
    exists (op (dedupN v0) (dict_get db k)).
    assert (Hmem : In v (op (dedupN v0) (dict_get db k))) by (apply Hop; split; [apply In_dedupN; exact Hv|exact HR]).
    split; [|exact Hmem].
    apply (In_remove_empty_map (fun kv => op (dedupN (snd kv)) (dict_get db (fst kv)))). split.
    + intro E0. rewrite E0 in Hmem. contradiction.
    + exists v0. auto.
Qed.

Lemma add_helper_spec wv wk s1 s2 :
  forallb pstmt_ok s1 = true -> forallb pstmt_ok s2 = true ->
  exists u1 u2 j, add_helper wv wk s1 s2 = Ok (u1, u2, j) /\
    (forall v k, In (v, k) (E_pairs wv wk (dict_stmts u1)) <-> In (v, k) (E_pairs wv wk s1) /\ ~ In (v, k) (E_pairs wv wk s2)) /\
    (forall v k, In (v, k) (E_pairs wv wk (dict_stmts u2)) <-> In (v, k) (E_pairs wv wk s2) /\ ~ In (v, k) (E_pairs wv wk s1)) /\
    (forall v k, In (v, k) (E_pairs wv wk (dict_stmts j)) <-> In (v, k) (E_pairs wv wk s1) /\ In (v, k) (E_pairs wv wk s2)).
Proof.
  intros H1 H2. unfold add_helper.
  destruct (join_dict_spec wv wk s1 [] H1) as [d1 [E1 [N1 M1]]].
  destruct (join_dict_spec wv wk s2 [] H2) as [d2 [E2 [N2 M2]]].
  rewrite E1, E2. cbn [bind]. specialize (N1 (NoDup_nil _)). specialize (N2 (NoDup_nil _)).
  assert (G1 : forall k v, In v (dict_get d1 k) <-> In (v, k) (E_pairs wv wk s1)) by (intros k v; rewrite M1; cbn; tauto).
  assert (G2 : forall k v, In v (dict_get d2 k) <-> In (v, k) (E_pairs wv wk s2)) by (intros k v; rewrite M2; cbn; tauto).
  do 3 eexists. split; [reflexivity|]. split; [|split]; intros v k.
  - rewrite (helper_part wv wk d1 d2 diffN (fun P => ~ P) N1 (fun x a b => In_diffN x a b)), G1, G2. reflexivity.
  - rewrite (helper_part wv wk d2 d1 diffN (fun P => ~ P) N2 (fun x a b => In_diffN x a b)), G1, G2. reflexivity.
  - rewrite (helper_part wv wk d1 d2 interN (fun P => P) N1 (fun x a b => In_interN x a b)), G1, G2. reflexivity.
Qed.

Lemma dict_stmts_ok d : forallb pstmt_ok (dict_stmts d) = true.
Proof.
  unfold dict_stmts. apply forallb_forall. intros s Hs. apply in_map_iff in Hs. destruct Hs as [kv [<- _]]. reflexivity.
Qed.

Definition pair_dec (x y : N * N) : {x = y} + {x <> y}.
Proof. decide equality; apply N.eq_dec. Defined.

(* _add_sub_transits / _add_sub_indirect_effect: union and difference of the expansions *)
Lemma add_sub_pairs_union wv wk s1 s2 :
  forallb pstmt_ok s1 = true -> forallb pstmt_ok s2 = true ->
  exists r, add_sub_pairs wv wk s1 s2 true = Ok r /\ forallb pstmt_ok r = true /\
    forall p, In p (E_pairs wv wk r) <-> In p (E_pairs wv wk s1) \/ In p (E_pairs wv wk s2).
Proof.
  intros H1 H2. destruct (add_helper_spec wv wk s1 s2 H1 H2) as [u1 [u2 [j [E [A [B C]]]]]].
  unfold add_sub_pairs. rewrite E. cbn [bind]. eexists. split; [reflexivity|]. split.
  - rewrite !forallb_app, !dict_stmts_ok. reflexivity.
  - intros [v k]. unfold E_pairs. rewrite !flat_map_app, !in_app_iff. fold (E_pairs wv wk (dict_stmts u1)).
    fold (E_pairs wv wk (dict_stmts u2)). fold (E_pairs wv wk (dict_stmts j)). fold (E_pairs wv wk s1). fold (E_pairs wv wk s2).
    rewrite A, B, C. split; [tauto|].
    destruct (in_dec pair_dec (v, k) (E_pairs wv wk s1)) as [i1|n1];
      destruct (in_dec pair_dec (v, k) (E_pairs wv wk s2)) as [i2|n2]; tauto.
Qed.

Lemma add_sub_pairs_difference wv wk s1 s2 :
  forallb pstmt_ok s1 = true -> forallb pstmt_ok s2 = true ->
  exists r, add_sub_pairs wv wk s1 s2 false = Ok r /\ forallb pstmt_ok r = true /\
    forall p, In p (E_pairs wv wk r) <-> In p (E_pairs wv wk s1) /\ ~ In p (E_pairs wv wk s2).
Proof.
  intros H1 H2. destruct (add_helper_spec wv wk s1 s2 H1 H2) as [u1 [u2 [j [E [A [B C]]]]]].
  unfold add_sub_pairs. rewrite E. cbn [bind]. eexists. split; [reflexivity|]. split.
  - apply dict_stmts_ok.
  - intros [v k]. apply A.
Qed.

(* ---------------------------------------------------------------- peripherals *)
Definition periph_plain (p : pstmt) : bool :=
  match p_vals p, p_keys p with
  | MList _, MList ms => subsetN ms [s_DRUG; s_MET]
  | _, _ => false
  end.
Notation Eper := (E_pairs [] w_periph_modes).

Lemma In_Eper_plain p c k :
  periph_plain p = true ->
  (In (c, k) (E_stmt [] w_periph_modes p) <-> exists cs ms, p_vals p = MList cs /\ p_keys p = MList ms /\ In c cs /\ In k ms).
Proof.
  unfold periph_plain. intro H. rewrite In_E_stmt.
  destruct (p_vals p) as [| cs |]; try discriminate. destruct (p_keys p) as [| ms |]; try discriminate. cbn. reflexivity.
Qed.

Lemma extract_peripherals_spec ps : forall met drug,
  forallb periph_plain ps = true ->
  exists m d, extract_peripherals ps met drug = Ok (m, d) /\
    (forall c, In c m <-> In c met \/ In (c, s_MET) (Eper ps)) /\
    (forall c, In c d <-> In c drug \/ In (c, s_DRUG) (Eper ps)).
Proof.
  induction ps as [|p ps IH]; intros met drug H.
  - exists met, drug. split; [reflexivity|]. cbn. split; intro c; tauto.
  - cbn in H. apply andb_true_iff in H. destruct H as [Hp Hps].
    pose proof Hp as Hp'. unfold periph_plain in Hp'.
    destruct (p_vals p) as [| cs |] eqn:Ev; try discriminate. destruct (p_keys p) as [| ms |] eqn:Ek; try discriminate.
    cbn [extract_peripherals]. rewrite Ev, Ek. cbn [list_of bind].
    destruct (IH (if memN s_MET ms then dedupN (met ++ cs) else met) (if memN s_DRUG ms then dedupN (drug ++ cs) else drug) Hps)
      as [m [d [E [Hm Hd]]]].
    exists m, d. split; [exact E|].
    assert (Hin : forall c k, In (c, k) (E_stmt [] w_periph_modes p) <-> In c cs /\ In k ms).
    { intros c k. rewrite (In_Eper_plain p c k Hp). rewrite Ev, Ek. split.
      - intros [cs' [ms' [E1 [E2 H]]]]. injection E1 as <-. injection E2 as <-. exact H.
      - intro H. exists cs, ms. auto. }
    split; intro c; [rewrite Hm|rewrite Hd]; cbn [E_pairs flat_map]; rewrite in_app_iff, Hin.
    + destruct (memN s_MET ms) eqn:Em.
      * apply memN_In in Em. rewrite In_dedupN, in_app_iff. tauto.
      * apply memN_false in Em. tauto.
    + destruct (memN s_DRUG ms) eqn:Em.
      * apply memN_In in Em. rewrite In_dedupN, in_app_iff. tauto.
      * apply memN_false in Em. tauto.
Qed.

Lemma Eper_keys ps c k : forallb periph_plain ps = true -> In (c, k) (Eper ps) -> k = s_MET \/ k = s_DRUG.
Proof.
  intros H Hin. unfold E_pairs in Hin. apply in_flat_map in Hin. destruct Hin as [p [Hp Hin]].
  rewrite forallb_forall in H. specialize (H p Hp). apply (In_Eper_plain p c k H) in Hin.
  destruct Hin as [cs [ms [Ev [Ek [_ Hk]]]]]. unfold periph_plain in H. rewrite Ev, Ek in H.
  apply subsetN_spec in H. specialize (H k Hk). cbn in H. intuition.
Qed.

Lemma E_periph_result met drug c k :
  In (c, k) (Eper ((if is_nil met then [] else [mkP (MList met) (MList [s_MET])]) ++
                   (if is_nil drug then [] else [mkP (MList drug) (MList [s_DRUG])]))) <->
  (k = s_MET /\ In c met) \/ (k = s_DRUG /\ In c drug).
Proof.
  unfold E_pairs. rewrite flat_map_app, in_app_iff. split.
  - intros [H|H].
    + destruct met as [|m0 met]; [contradiction|]. cbn [is_nil flat_map] in H. rewrite app_nil_r in H.
      apply In_E_stmt in H. cbn in H. destruct H as [vs [ks [E1 [E2 [Hv Hk]]]]]. injection E1 as <-. injection E2 as <-.
      destruct Hk as [<-|[]]. auto.
    + destruct drug as [|d0 drug]; [contradiction|]. cbn [is_nil flat_map] in H. rewrite app_nil_r in H.
      apply In_E_stmt in H. cbn in H. destruct H as [vs [ks [E1 [E2 [Hv Hk]]]]]. injection E1 as <-. injection E2 as <-.
      destruct Hk as [<-|[]]. auto.
  - intros [[-> H]|[-> H]].
    + left. destruct met as [|m0 met]; [contradiction|]. cbn [is_nil flat_map]. rewrite app_nil_r.
      apply In_E_stmt. exists (m0 :: met), [s_MET]. cbn. auto.
    + right. destruct drug as [|d0 drug]; [contradiction|]. cbn [is_nil flat_map]. rewrite app_nil_r.
      apply In_E_stmt. exists (d0 :: drug), [s_DRUG]. cbn. auto.
Qed.

Lemma add_sub_peripherals_spec a b (add : bool) :
  forallb periph_plain a = true -> forallb periph_plain b = true ->
  exists r, add_sub_peripherals a b add = Ok r /\
    forall p, In p (Eper r) <->
      if add then In p (Eper a) \/ In p (Eper b) else In p (Eper a) /\ ~ In p (Eper b).
Proof.
  intros Ha Hb. unfold add_sub_peripherals.
  destruct (extract_peripherals_spec a [] [] Ha) as [ma [da [Ea [Hma Hda]]]].
  destruct (extract_peripherals_spec b [] [] Hb) as [mb [db [Eb [Hmb Hdb]]]].
  rewrite Ea, Eb. cbn [bind fst snd]. eexists. split; [reflexivity|]. intros [c k].
  rewrite E_periph_result. destruct add.
  - rewrite !In_dedupN, !in_app_iff, Hma, Hmb, Hda, Hdb. cbn [In]. split.
    + intros [[-> H]|[-> H]]; tauto.
    + intros [H|H].
      * destruct (Eper_keys a c k Ha H) as [-> | ->]; tauto.
      * destruct (Eper_keys b c k Hb H) as [-> | ->]; tauto.
  - rewrite !In_diffN, Hma, Hmb, Hda, Hdb. cbn [In]. split.
    + intros [[-> H]|[-> H]]; tauto.
    + intros [H Hn]. destruct (Eper_keys a c k Ha H) as [-> | ->]; tauto.
Qed.

(* ---------------------------------------------------------------- covariates *)
Lemma effect_eqb_spec (x y : effect) : effect_eqb x y = true <-> x = y.
Proof.
  destruct x as [[[[p c] f] o] t], y as [[[[p' c'] f'] o'] t']. cbn.
  rewrite !andb_true_iff, !N.eqb_eq, Bool.eqb_true_iff. split.
  - intros [[[[-> ->] ->] ->] ->]. reflexivity.
  - intro E. injection E as -> -> -> -> ->. auto.
Qed.
Definition effect_dec (x y : effect) : {x = y} + {x <> y}.
Proof.
  destruct (effect_eqb x y) eqn:E; [left; apply effect_eqb_spec; exact E|].
  right. intro H. apply effect_eqb_spec in H. congruence.
Defined.
Lemma memE_In x l : memE x l = true <-> In x l.
Proof.
  unfold memE. rewrite existsb_exists. split.
  - intros [y [Hy E]]. apply effect_eqb_spec in E. subst. exact Hy.
  - intro H. exists x. split; [exact H|apply effect_eqb_spec; reflexivity].
Qed.
Lemma memE_false x l : memE x l = false <-> ~ In x l.
Proof. rewrite <- memE_In. destruct (memE x l); split; congruence. Qed.
Lemma In_dedupE x l : In x (dedupE l) <-> In x l.
Proof.
  induction l as [|a l IH]; cbn; [tauto|]. destruct (memE a l) eqn:E.
  - rewrite IH. split; [auto|]. intros [<-|H]; [apply memE_In; exact E|exact H].
  - cbn. rewrite IH. tauto.
Qed.

Definition cov_ok (c : cstmt) : bool :=
  negb (is_nil (c_par c)) && negb (is_nil (c_cov c)) && match c_fp c with MNone => false | _ => true end.

Lemma extract_covariates_spec cs :
  forallb cov_ok cs = true ->
  exists l, extract_covariates cs = Ok l /\ forall x, In x l <-> In x (E_cov cs).
Proof.
  induction cs as [|c cs IH]; intro H.
  - exists []. split; [reflexivity|]. cbn. tauto.
  - cbn in H. apply andb_true_iff in H. destruct H as [Hc Hcs]. destruct (IH Hcs) as [l [El Hl]].
    unfold cov_ok in Hc. apply andb_true_iff in Hc. destruct Hc as [Hc Hfp]. apply andb_true_iff in Hc. destruct Hc as [Hp Hv].
    assert (Hfp' : c_fp c <> MNone) by (destruct (c_fp c); try discriminate; congruence).
    destruct (list_of_eval w_fp _ Hfp') as [fps [Ef Ef']].
    cbn [extract_covariates]. rewrite Ef, El. cbn [bind].
    destruct (c_par c) as [|p0 ps] eqn:Epar; [discriminate|]. destruct (c_cov c) as [|v0 vs] eqn:Ecov; [discriminate|].
    eexists. split; [reflexivity|]. intro x. rewrite In_dedupE, in_app_iff, Hl. cbn [E_cov flat_map]. rewrite in_app_iff.
    unfold E_cov_stmt. rewrite Ef', Epar, Ecov. reflexivity.
Qed.

Notation U := (map unflag).

Lemma In_unflag (x4 : N * N * N * N) (l : list effect) : In x4 (U l) <-> In (x4, true) l \/ In (x4, false) l.
Proof.
  rewrite in_map_iff. split.
  - intros [[y t] [E H]]. cbn in E. subst. destruct t; auto.
  - intros [H|H]; eexists; (split; [|exact H]); reflexivity.
Qed.

Lemma set_opt_true (x : effect) : set_opt x true = (fst x, true).
Proof. destruct x as [[[[p c] f] o] t]. reflexivity. Qed.
Lemma flip_spec (x : effect) : flip x = (fst x, negb (snd x)).
Proof. destruct x as [[[[p c] f] o] t]. reflexivity. Qed.

(* _add_sub_covariates at the level of candidate effects (the optional flag aside): union and difference *)
Lemma add_sub_covariates_spec a b (add : bool) :
  forallb cov_ok a = true -> forallb cov_ok b = true ->
  exists r, add_sub_covariates a b add = Ok r /\
    forall x4, In x4 (U r) <->
      if add then In x4 (U (E_cov a)) \/ In x4 (U (E_cov b)) else In x4 (U (E_cov a)) /\ ~ In x4 (U (E_cov b)).
Proof.
  intros Ha Hb. unfold add_sub_covariates.
  destruct (extract_covariates_spec a Ha) as [la [Ea Hla]]. destruct (extract_covariates_spec b Hb) as [lb [Eb Hlb]].
  rewrite Ea, Eb. cbn [bind].
  assert (HUa : forall x4, In x4 (U la) <-> In x4 (U (E_cov a))).
  { intro x4. rewrite !In_unflag, !Hla. reflexivity. }
  assert (HUb : forall x4, In x4 (U lb) <-> In x4 (U (E_cov b))).
  { intro x4. rewrite !In_unflag, !Hlb. reflexivity. }
  destruct la as [|xa la']; destruct lb as [|xb lb'].
  - exists []. split; [reflexivity|]. intro x4. destruct add; rewrite <- HUa, <- HUb; cbn; tauto.
  - exists (if add then xb :: lb' else []). split; [reflexivity|]. intro x4. destruct add; rewrite <- HUa, <- HUb; cbn; tauto.
  - exists (xa :: la'). split; [destruct add; reflexivity|]. intro x4. destruct add; rewrite <- HUa, <- HUb; cbn; tauto.
  - set (la := xa :: la') in *. set (lb := xb :: lb') in *. destruct add.
    + eexists. split; [reflexivity|]. intro x4. rewrite <- HUa, <- HUb.
      rewrite !In_unflag. setoid_rewrite filter_In. setoid_rewrite In_dedupE. setoid_rewrite in_app_iff.
      split.
      * intros [[H _]|[H _]]; tauto.
      * intro H.
        assert (Hany : In (x4, true) (la ++ lb) \/ In (x4, false) (la ++ lb)) by (rewrite !in_app_iff; tauto).
        rewrite !in_app_iff in Hany.
        destruct (in_dec effect_dec (x4, true) (la ++ lb)) as [Ht|Hnt].
        -- left. split; [apply in_app_iff in Ht; exact Ht|]. reflexivity.
        -- right. split.
           ++ destruct Hany as [Hx|Hx]; [exfalso; apply Hnt; apply in_app_iff; exact Hx|exact Hx].
           ++ cbn [is_opt snd orb]. apply negb_true_iff, memE_false. rewrite set_opt_true. cbn [fst].
              rewrite In_dedupE. exact Hnt.
    + eexists. split; [reflexivity|]. intro x4. rewrite <- HUa, <- HUb. rewrite !In_unflag. split.
      * intros [H|H]; apply filter_In in H; destruct H as [H H2]; apply filter_In in H; destruct H as [H H1];
          apply negb_true_iff in H1; apply negb_true_iff in H2; apply memE_false in H1; apply memE_false in H2;
          rewrite flip_spec in H2; cbn in H2; (split; [auto|intros [Hq|Hq]; contradiction]).
      * intros [[H|H] Hn]; [left|right];
          (apply filter_In; split;
           [apply filter_In; split; [exact H|apply negb_true_iff, memE_false; intro Hq; apply Hn; auto]
           |apply negb_true_iff, memE_false; rewrite flip_spec; cbn; intro Hq; apply Hn; auto]).
Qed.

(* _eq_covariate decides equality of the two effect sets *)
Lemma eq_covariate_spec a b :
  forallb cov_ok a = true -> forallb cov_ok b = true ->
  eq_covariate a b = Ok (seteqb effect_eqb (E_cov a) (E_cov b)).
Proof.
  intros Ha Hb. unfold eq_covariate.
  destruct (extract_covariates_spec a Ha) as [la [Ea Hla]]. destruct (extract_covariates_spec b Hb) as [lb [Eb Hlb]].
  rewrite Ea, Eb. cbn [bind]. f_equal. unfold seteqb, subsetb.
  assert (Hhalf : forall l1 l2 e1 e2, (forall x, In x l1 <-> In x e1) -> (forall x, In x l2 <-> In x e2) ->
                    forallb (fun x => memE x l2) l1 = forallb (fun x => memb effect_eqb x e2) e1).
  { intros l1 l2 e1 e2 H1 H2. apply eq_true_iff_eq. rewrite !forallb_forall. split; intros H x Hx.
    - apply H1 in Hx. specialize (H x Hx). apply memE_In in H. apply H2 in H. unfold memb. apply existsb_exists.
      exists x. split; [exact H|apply effect_eqb_spec; reflexivity].
    - apply H1 in Hx. specialize (H x Hx). unfold memb in H. apply existsb_exists in H. destruct H as [y [Hy E]].
      apply effect_eqb_spec in E. subst y. apply memE_In. apply H2. exact Hy. }
  rewrite (Hhalf la lb _ _ Hla Hlb), (Hhalf lb la _ _ Hlb Hla). reflexivity.
Qed.

(* ---------------------------------------------------------------- generic boolean set tests *)
Section SetBSpec.
  Context {X : Type} (eqb : X -> X -> bool).
  Hypothesis eqb_spec : forall x y, eqb x y = true <-> x = y.
  Lemma memb_In x l : memb eqb x l = true <-> In x l.
  Proof.
    unfold memb. rewrite existsb_exists. split.
    - intros [y [Hy E]]. apply eqb_spec in E. subst. exact Hy.
    - intro H. exists x. split; [exact H|apply eqb_spec; reflexivity].
  Qed.
  Lemma subsetb_spec a b : subsetb eqb a b = true <-> incl a b.
  Proof. unfold subsetb. rewrite forallb_forall. split; intros H x Hx; apply memb_In; apply H; exact Hx. Qed.
  Lemma seteqb_spec a b : seteqb eqb a b = true <-> (forall x, In x a <-> In x b).
  Proof.
    unfold seteqb. rewrite andb_true_iff, !subsetb_spec. split.
    - intros [H1 H2] x. split; [apply H1|apply H2].
    - intro H. split; intros x Hx; apply H; exact Hx.
  Qed.
End SetBSpec.

Lemma pair_eqb_spec (x y : N * N) : pair_eqb x y = true <-> x = y.
Proof.
  destruct x as [a b], y as [c d]. unfold pair_eqb. cbn. rewrite andb_true_iff, !N.eqb_eq. split.
  - intros [-> ->]. reflexivity.
  - intro E. injection E as -> ->. auto.
Qed.

(* ---------------------------------------------------------------- transits: == and contain_subset *)
Notation Etr := (E_pairs [] w_depot).

Lemma In_counts_with d ts c : In c (counts_with d ts) <-> In (c, d) (Etr ts).
Proof.
  unfold counts_with, E_pairs. rewrite !in_flat_map. split.
  - intros [t [Ht Hc]]. exists t. split; [exact Ht|]. apply In_E_stmt.
    destruct (eval_modes w_depot (p_keys t)) as [| ks |] eqn:Ek; try contradiction.
    destruct (p_vals t) as [| cs |] eqn:Ev; try contradiction.
    destruct (memN d ks) eqn:Em; [|contradiction]. exists cs, ks. cbn. apply memN_In in Em. auto.
  - intros [t [Ht Hc]]. exists t. split; [exact Ht|]. apply In_E_stmt in Hc.
    destruct Hc as [cs [ks [Ev [Ek [Hc Hd]]]]]. rewrite Ek.
    destruct (p_vals t) as [| cs' |] eqn:Ev'; cbn in Ev; try discriminate.
    + injection Ev as <-. contradiction.
    + injection Ev as <-. apply memN_In in Hd. rewrite Hd. exact Hc.
Qed.

Definition transits_ok (t : pstmt) : bool :=
  match p_keys t with MList ks => subsetN ks w_depot | MWild => true | MNone => false end.

Lemma Etr_keys ts c d : forallb transits_ok ts = true -> In (c, d) (Etr ts) -> d = s_DEPOT \/ d = s_NODEPOT.
Proof.
  intros H Hin. unfold E_pairs in Hin. apply in_flat_map in Hin. destruct Hin as [t [Ht Hin]].
  rewrite forallb_forall in H. specialize (H t Ht). apply In_E_stmt in Hin.
  destruct Hin as [cs [ks [_ [Ek [_ Hd]]]]]. unfold transits_ok in H.
  destruct (p_keys t) as [| ks' |]; cbn in Ek; try discriminate.
  - injection Ek as <-. cbn in Hd. intuition.
  - injection Ek as <-. apply subsetN_spec in H. specialize (H d Hd). cbn in H. intuition.
Qed.

(* _eq_transits decides equality of the expanded (count, depot) sets *)
Lemma eq_transits_spec a b :
  forallb transits_ok a = true -> forallb transits_ok b = true ->
  (eq_transits a b = true <-> forall p, In p (Etr a) <-> In p (Etr b)).
Proof.
  intros Ha Hb. unfold eq_transits. rewrite andb_true_iff, !seteqN_spec. split.
  - intros [H1 H2] [c d]. split; intro H.
    + destruct (Etr_keys a c d Ha H) as [-> | ->]; apply In_counts_with; [apply H1|apply H2]; apply In_counts_with; exact H.
    + destruct (Etr_keys b c d Hb H) as [-> | ->]; apply In_counts_with; [apply H1|apply H2]; apply In_counts_with; exact H.
  - intro H. split; intro c; rewrite !In_counts_with; apply H.
Qed.

Lemma In_all_counts ts c : In c (all_counts ts) <-> exists t cs, In t ts /\ p_vals t = MList cs /\ In c cs.
Proof.
  unfold all_counts. rewrite in_flat_map. split.
  - intros [t [Ht Hc]]. destruct (p_vals t) as [| cs |] eqn:E; try contradiction. exists t, cs. auto.
  - intros [t [cs [Ht [E Hc]]]]. exists t. rewrite E. auto.
Qed.
Lemma In_all_depots ts d : In d (all_depots ts) <-> exists t ks, In t ts /\ eval_modes w_depot (p_keys t) = MList ks /\ In d ks.
Proof.
  unfold all_depots. rewrite in_flat_map. split.
  - intros [t [Ht Hd]]. destruct (eval_modes w_depot (p_keys t)) as [| ks |] eqn:E; try contradiction. exists t, ks. auto.
  - intros [t [ks [Ht [E Hd]]]]. exists t. rewrite E. auto.
Qed.

(* statements with a non-empty count list and a non-empty (or wildcard) depot list *)
Definition transits_nonempty (t : pstmt) : bool :=
  match p_vals t, p_keys t with
  | MList (_ :: _), MList (_ :: _) | MList (_ :: _), MWild => true
  | _, _ => false
  end.

(* _subset_transits decides inclusion of the expansions when the containing space is counts x depots *)
Lemma subset_transits_spec (a : mf) (b : list pstmt) :
  forallb transits_nonempty b = true -> g_transits_product a = true ->
  (subset_transits (transits a) b = true <-> forall p, In p (Etr b) -> In p (Etr (transits a))).
Proof.
  intros Hb Hprod. unfold g_transits_product in Hprod.
  pose proof (proj1 (seteqb_spec pair_eqb pair_eqb_spec _ _) Hprod) as Hp.
  assert (HEa : forall c d, In (c, d) (Etr (transits a)) <-> In c (all_counts (transits a)) /\ In d (all_depots (transits a))).
  { intros c d. unfold Epk_transits in Hp. rewrite Hp, in_flat_map. split.
    - intros [c' [Hc Hin]]. apply in_map_iff in Hin. destruct Hin as [d' [E Hd]]. injection E as -> ->. auto.
    - intros [Hc Hd]. exists c. split; [exact Hc|]. apply in_map_iff. exists d. auto. }
  unfold subset_transits. rewrite andb_true_iff, !subsetN_spec. split.
  - intros [H1 H2] [c d] Hin. apply HEa. apply In_E_stmt_pairs in Hin. destruct Hin as [t [cs [ks [Ht [Ev [Ek [Hc Hd]]]]]]].
    split; [apply H1; apply In_all_counts|apply H2; apply In_all_depots].
    + exists t, cs. split; [exact Ht|]. split; [|exact Hc]. destruct (p_vals t); cbn in Ev; try discriminate; [injection Ev as <-; contradiction|exact Ev].
    + exists t, ks. auto.
  - intro H. rewrite forallb_forall in Hb. split.
    + intros c Hc. apply In_all_counts in Hc. destruct Hc as [t [cs [Ht [Ev Hc]]]].
      specialize (Hb t Ht). unfold transits_nonempty in Hb. rewrite Ev in Hb.
      assert (exists d ks, eval_modes w_depot (p_keys t) = MList ks /\ In d ks) as [d [ks [Ek Hd]]].
      { destruct cs; [discriminate|]. destruct (p_keys t) as [| [|k0 ks] |]; try discriminate.
        - exists s_DEPOT, w_depot. cbn. auto.
        - exists k0, (k0 :: ks). cbn. auto. }
      assert (Hin : In (c, d) (Etr b)).
      { apply In_E_stmt_pairs. exists t, cs, ks. rewrite Ev. cbn. auto. }
      apply H in Hin. apply HEa in Hin. tauto.
    + intros d Hd. apply In_all_depots in Hd. destruct Hd as [t [ks [Ht [Ek Hd]]]].
      specialize (Hb t Ht). unfold transits_nonempty in Hb.
      destruct (p_vals t) as [| [|c cs] |] eqn:Ev; try discriminate.
      assert (Hin : In (c, d) (Etr b)).
      { apply In_E_stmt_pairs. exists t, (c :: cs), ks. rewrite Ev. cbn. repeat split; auto. }
      apply H in Hin. apply HEa in Hin. tauto.
Qed.

(* ---------------------------------------------------------------- == on the PERIPHERALS tuples *)
Lemma periph_tuple_eq_plain a : forall b,
  forallb periph_plain a = true -> forallb periph_plain b = true ->
  periph_tuple_eq a b = Ok (pstmts_eq a b).
Proof.
  induction a as [|p a IH]; intros [|q b] Ha Hb; try reflexivity.
  cbn in Ha, Hb. apply andb_true_iff in Ha. destruct Ha as [Hp Ha]. apply andb_true_iff in Hb. destruct Hb as [Hq Hb].
  cbn [periph_tuple_eq pstmts_eq list_rel2]. unfold periph_eq. unfold periph_plain in Hp, Hq.
  destruct (p_vals p) as [| c1 |]; try discriminate. destruct (p_keys p) as [| m1 |]; try discriminate.
  destruct (p_vals q) as [| c2 |]; try discriminate. destruct (p_keys q) as [| m2 |]; try discriminate.
  cbn [list_of bind modes_seteq]. destruct (seteqN c1 c2); cbn [andb bind]; [|reflexivity].
  destruct (seteqN m1 m2); cbn [andb]; [|reflexivity]. apply IH; assumption.
Qed.

Lemma pstmts_eq_sound a : forall b,
  forallb periph_plain a = true -> forallb periph_plain b = true ->
  pstmts_eq a b = true -> forall p, In p (Eper a) <-> In p (Eper b).
Proof.
  induction a as [|s a IH]; intros [|t b] Ha Hb H; try discriminate; [tauto|].
  cbn in Ha, Hb, H. apply andb_true_iff in Ha. destruct Ha as [Hs Ha]. apply andb_true_iff in Hb. destruct Hb as [Ht Hb].
  apply andb_true_iff in H. destruct H as [Hst H]. apply andb_true_iff in Hst. destruct Hst as [Hv Hk].
  intros [c k]. cbn [E_pairs flat_map]. rewrite !in_app_iff. fold (Eper a). fold (Eper b). rewrite (IH b Ha Hb H (c, k)).
  rewrite (In_Eper_plain s c k Hs), (In_Eper_plain t c k Ht).
  unfold periph_plain in Hs, Ht.
  destruct (p_vals s) as [| c1 |]; try discriminate. destruct (p_keys s) as [| m1 |]; try discriminate.
  destruct (p_vals t) as [| c2 |]; try discriminate. destruct (p_keys t) as [| m2 |]; try discriminate.
  cbn in Hv, Hk. pose proof (proj1 (seteqN_spec _ _) Hv) as Hv'. pose proof (proj1 (seteqN_spec _ _) Hk) as Hk'.
  split.
  - intros [[cs [ms [E1 [E2 [H1 H2]]]]]|Hr]; [|auto]. injection E1 as <-. injection E2 as <-. left. exists c2, m2.
    repeat split; auto; [apply Hv'|apply Hk']; assumption.
  - intros [[cs [ms [E1 [E2 [H1 H2]]]]]|Hr]; [|auto]. injection E1 as <-. injection E2 as <-. left. exists c1, m1.
    repeat split; auto; [apply Hv'|apply Hk']; assumption.
Qed.

(* with the guard (equal denotations are written as the same tuples) the tuple comparison decides equality *)
Lemma periph_tuple_eq_canonical (a b : mf) :
  forallb periph_plain (peripherals a) = true -> forallb periph_plain (peripherals b) = true ->
  g_tuples_canonical a b = true ->
  periph_tuple_eq (peripherals a) (peripherals b) = Ok (seteqb pair_eqb (Epk_periph a) (Epk_periph b)).
Proof.
  intros Ha Hb Hg. rewrite (periph_tuple_eq_plain _ _ Ha Hb). f_equal.
  unfold g_tuples_canonical in Hg. apply andb_true_iff in Hg. destruct Hg as [Hg _].
  destruct (pstmts_eq (peripherals a) (peripherals b)) eqn:E.
  - symmetry. apply (seteqb_spec pair_eqb pair_eqb_spec). apply pstmts_eq_sound; assumption.
  - rewrite orb_false_r in Hg. apply negb_true_iff in Hg. symmetry. exact Hg.
Qed.

(* ---------------------------------------------------------------- validate_mfl_list and LET references *)
Lemma validate_printed l : forall mand,
  g_let_not_forced l = true -> validate_from mand (printed l) = validate_from mand l.
Proof.
  induction l as [|s l IH]; intros mand H; [reflexivity|].
  cbn in H. apply andb_true_iff in H. destruct H as [Hs Hl]. cbn [printed map validate_from v_ref v_forced v_pairs].
  fold (printed l). destruct (v_ref s) eqn:Er; cbn [orb].
  - apply negb_true_iff in Hs. cbn in Hs. rewrite Hs. cbn [negb]. apply IH. exact Hl.
  - destruct (negb (v_forced s)); [apply IH; exact Hl|].
    destruct (existsb (fun e => memP e mand) (v_pairs s)); [reflexivity|]. apply IH. exact Hl.
Qed.

Lemma roundtrip_accepted l : g_let_not_forced l = true -> validate l = true -> validate (printed l) = true.
Proof. intros Hg Hv. unfold validate. rewrite validate_printed; assumption. Qed.

(* ---------------------------------------------------------------- ModelFeatures.__eq__ *)
Lemma opt_eq_eval c a b :
  cd_eq c = EqEval -> cd_wild c <> [] -> modes_ok (cd_wild c) a = true -> modes_ok (cd_wild c) b = true ->
  opt_eq c a b = Ok (seteqN (E_modes (cd_wild c) a) (E_modes (cd_wild c) b)).
Proof.
  intros He Hw Ha Hb. unfold opt_eq, stmt_eq. rewrite He.
  assert (Hne : forall l, negb (is_nil l) && subsetN l (cd_wild c) = true -> seteqN [] l = false /\ seteqN l [] = false).
  { intros l H. apply andb_true_iff in H. destruct H as [H _]. destruct l; [discriminate|]. split; reflexivity. }
  assert (Hwn : seteqN [] (cd_wild c) = false /\ seteqN (cd_wild c) [] = false).
  { destruct (cd_wild c); [congruence|]. split; reflexivity. }
  destruct a as [[| l1 |]|]; destruct b as [[| l2 |]|]; cbn in Ha, Hb; try discriminate;
    cbn [modes_eq_eval modes_eq_raw eval_modes E_modes]; try reflexivity.
  - destruct Hwn as [_ H]. rewrite H. reflexivity.
  - destruct (Hne l1 Ha) as [_ H]. rewrite H. reflexivity.
  - destruct Hwn as [H _]. rewrite H. reflexivity.
  - destruct (Hne l2 Hb) as [H _]. rewrite H. reflexivity.
Qed.

Lemma list_eqb_g_eq (l1 : list N) : forall l2, list_eqb_g N.eqb l1 l2 = true -> l1 = l2.
Proof.
  induction l1 as [|x l1 IH]; intros [|y l2] H; try discriminate; [reflexivity|].
  cbn in H. apply andb_true_iff in H. destruct H as [H1 H2]. apply N.eqb_eq in H1. subst. f_equal. apply IH. exact H2.
Qed.
Lemma modes_struct_eqb_eq a b : modes_struct_eqb a b = true -> a = b.
Proof.
  destruct a as [| l1 |], b as [| l2 |]; cbn; try discriminate; try reflexivity.
  intro H. apply list_eqb_g_eq in H. subst. reflexivity.
Qed.
Lemma indirect_tuple_eq_eq a : forall b, indirect_tuple_eq a b = true -> a = b.
Proof.
  unfold indirect_tuple_eq. induction a as [|p a IH]; intros [|q b] H; try discriminate; [reflexivity|].
  cbn in H. apply andb_true_iff in H. destruct H as [H1 H2]. apply andb_true_iff in H1. destruct H1 as [Hv Hk].
  apply modes_struct_eqb_eq in Hv. apply modes_struct_eqb_eq in Hk. destruct p, q. cbn in *. subst. f_equal. apply IH. exact H2.
Qed.

(* well-formed search space for the purposes of ==: no wildcard in the raw-compared mode statements and in
   the peripherals, names from the grammar, explicit non-empty covariate statements *)
Definition wf_eq_space (m : mf) : bool :=
  modes_plain_ok w_absorption (absorption m) && modes_plain_ok w_elimination (elimination m) &&
  modes_plain_ok w_lagtime (lagtime m) && modes_ok w_direct_effect (direct_effect m) &&
  modes_ok w_effect_comp (effect_comp m) && forallb transits_ok (transits m) &&
  forallb periph_plain (peripherals m) && forallb cov_ok (covariate m).

Lemma mf_eq_is_set_equality a b :
  wf_eq_space a = true -> wf_eq_space b = true ->
  g_tuples_canonical a b = true -> g_same_metabolite a b = true ->
  mf_eq a b = Ok (spaces_equal a b).
Proof.
  unfold wf_eq_space. intros Ha Hb Hcan Hmet.
  repeat (apply andb_true_iff in Ha; destruct Ha as [Ha ?]). repeat (apply andb_true_iff in Hb; destruct Hb as [Hb ?]).
  unfold mf_eq.
  rewrite (opt_eq_plain cat_absorption (absorption a) (absorption b)) by assumption. cbn [bind cd_wild cat_absorption].
  rewrite (opt_eq_plain cat_elimination (elimination a) (elimination b)) by assumption.
  rewrite (opt_eq_plain cat_lagtime (lagtime a) (lagtime b)) by assumption.
  rewrite (opt_eq_eval cat_direct_effect (direct_effect a) (direct_effect b)) by (try reflexivity; try discriminate; assumption).
  rewrite (opt_eq_eval cat_effect_comp (effect_comp a) (effect_comp b)) by (try reflexivity; try discriminate; assumption).
  rewrite (periph_tuple_eq_canonical a b) by assumption.
  rewrite (eq_covariate_spec (covariate a) (covariate b)) by assumption.
  assert (Htr : eq_transits (transits a) (transits b) = seteqb pair_eqb (Epk_transits a) (Epk_transits b)).
  { apply eq_true_iff_eq. rewrite (eq_transits_spec (transits a) (transits b)) by assumption.
    rewrite (seteqb_spec pair_eqb pair_eqb_spec). reflexivity. }
  assert (Hie : indirect_tuple_eq (indirect_effect a) (indirect_effect b) = seteqb pair_eqb (E_indirect a) (E_indirect b)).
  { unfold g_tuples_canonical in Hcan. apply andb_true_iff in Hcan. destruct Hcan as [_ Hcan].
    destruct (indirect_tuple_eq (indirect_effect a) (indirect_effect b)) eqn:E.
    - apply indirect_tuple_eq_eq in E. unfold E_indirect. rewrite E. symmetry.
      apply (seteqb_spec pair_eqb pair_eqb_spec). tauto.
    - rewrite orb_false_r in Hcan. apply negb_true_iff in Hcan. symmetry. exact Hcan. }
  rewrite Htr, Hie. unfold g_same_metabolite in Hmet. unfold spaces_equal. rewrite Hmet.
  cbn [bind cd_wild cat_absorption cat_elimination cat_lagtime cat_direct_effect cat_effect_comp].
  destruct (seteqN (E_modes w_absorption (absorption a)) (E_modes w_absorption (absorption b))); cbn [negb andb bind]; [|reflexivity].
  destruct (seteqN (E_modes w_elimination (elimination a)) (E_modes w_elimination (elimination b))); cbn [negb andb bind]; [|reflexivity].
  destruct (seteqb pair_eqb (Epk_transits a) (Epk_transits b)); cbn [negb andb bind];
    [|repeat match goal with |- context [seteqN ?x ?y] => destruct (seteqN x y) end; reflexivity].
  destruct (seteqb pair_eqb (Epk_periph a) (Epk_periph b)); cbn [negb andb bind];
    [|repeat match goal with |- context [seteqN ?x ?y] => destruct (seteqN x y) end; reflexivity].
  destruct (seteqN (E_modes w_lagtime (lagtime a)) (E_modes w_lagtime (lagtime b))); cbn [negb andb bind]; [|reflexivity].
  destruct (seteqb effect_eqb (E_cov (covariate a)) (E_cov (covariate b))); cbn [negb andb bind];
    [|repeat match goal with |- context [seteqN ?x ?y] => destruct (seteqN x y) end;
      repeat match goal with |- context [seteqb pair_eqb ?x ?y] => destruct (seteqb pair_eqb x y) end; reflexivity].
  destruct (seteqN (E_modes w_direct_effect (direct_effect a)) (E_modes w_direct_effect (direct_effect b))); cbn [negb andb bind]; [|reflexivity].
  destruct (seteqN (E_modes w_effect_comp (effect_comp a)) (E_modes w_effect_comp (effect_comp b))); cbn [negb andb bind]; [|reflexivity].
  destruct (seteqb pair_eqb (E_indirect a) (E_indirect b)); reflexivity.
Qed.

(* ---------------------------------------------------------------- Transits.__eq__ *)
(* for two statements with explicit, non-empty count and depot lists `==` is equality of the expansions *)
Lemma transits_stmt_eq_spec c1 d1 c2 d2 :
  c1 <> [] -> d1 <> [] -> c2 <> [] -> d2 <> [] ->
  transits_stmt_eq (mkP (MList c1) (MList d1)) (mkP (MList c2) (MList d2)) =
  Some (seteqb pair_eqb (E_stmt [] w_depot (mkP (MList c1) (MList d1))) (E_stmt [] w_depot (mkP (MList c2) (MList d2)))).
Proof.
  intros Hc1 Hd1 Hc2 Hd2. unfold transits_stmt_eq. cbn [p_vals p_keys]. f_equal. apply eq_true_iff_eq.
  rewrite andb_true_iff, !seteqN_spec, (seteqb_spec pair_eqb pair_eqb_spec).
  assert (HE : forall c d v k, In (v, k) (E_stmt [] w_depot (mkP (MList c) (MList d))) <-> In v c /\ In k d).
  { intros c d v k. rewrite In_E_stmt. cbn. split.
    - intros [vs [ks [E1 [E2 H]]]]. injection E1 as <-. injection E2 as <-. exact H.
    - intro H. exists c, d. auto. }
  split.
  - intros [Hc Hd] [v k]. rewrite !HE, Hc, Hd. reflexivity.
  - intro H. destruct (nonempty_has _ Hc1) as [v1 Hv1]. destruct (nonempty_has _ Hd1) as [k1 Hk1].
    destruct (nonempty_has _ Hc2) as [v2 Hv2]. destruct (nonempty_has _ Hd2) as [k2 Hk2]. split.
    + intro v. split; intro Hv.
      * assert (In (v, k1) (E_stmt [] w_depot (mkP (MList c1) (MList d1)))) by (apply HE; auto). apply H in H0. apply HE in H0. tauto.
      * assert (In (v, k2) (E_stmt [] w_depot (mkP (MList c2) (MList d2)))) by (apply HE; auto). apply H in H0. apply HE in H0. tauto.
    + intro k. split; intro Hk.
      * assert (In (v1, k) (E_stmt [] w_depot (mkP (MList c1) (MList d1)))) by (apply HE; auto). apply H in H0. apply HE in H0. tauto.
      * assert (In (v2, k) (E_stmt [] w_depot (mkP (MList c2) (MList d2)))) by (apply HE; auto). apply H in H0. apply HE in H0. tauto.
Qed.

(* ---------------------------------------------------------------- least_number_of_transformations *)
(* one mode category: nothing when the model's mode is in the space, otherwise one transformation to a mode of the space *)
Lemma lnt_modes_spec catname w lhs rhs :
  w <> [] -> modes_ok w (Some lhs) = true -> modes_ok w (Some rhs) = true ->
  exists items, lnt_modes catname w (Some lhs) (Some rhs) = Ok items /\
    ((exists x, In x (E_modes w (Some lhs)) /\ In x (E_modes w (Some rhs))) -> items = []) /\
    ((forall x, In x (E_modes w (Some lhs)) -> ~ In x (E_modes w (Some rhs))) ->
       exists m, items = [LKey [AS catname; AS m]] /\ In m (E_modes w (Some rhs))).
Proof.
  intros Hw Hl Hr. unfold lnt_modes.
  assert (Hl' : lhs <> MNone) by (destruct lhs; try discriminate; congruence).
  assert (Hr' : rhs <> MNone) by (destruct rhs; try discriminate; congruence).
  destruct (list_of_eval w lhs Hl') as [la [E1 E1']]. destruct (list_of_eval w rhs Hr') as [lb [E2 E2']].
  rewrite E1, E2. cbn [bind]. cbn [E_modes]. rewrite E1', E2'.
  destruct (existsb (fun x => memN x lb) la) eqn:Ex.
  - exists []. split; [reflexivity|]. split; [reflexivity|]. intro H. exfalso.
    apply existsb_exists in Ex. destruct Ex as [x [Hx Hm]]. apply memN_In in Hm. exact (H x Hx Hm).
  - assert (Hnone : forall x, In x la -> ~ In x lb).
    { intros x Hx Hm. assert (existsb (fun x0 => memN x0 lb) la = true) by (apply existsb_exists; exists x; split; [exact Hx|apply memN_In; exact Hm]).
      congruence. }
    destruct lb as [|m lb'].
    + exfalso. destruct rhs as [| l |]; cbn in E2', Hr.
      * injection E2' as E. apply Hw. exact E.
      * injection E2' as E. subst l. discriminate.
      * discriminate.
    + exists [LKey [AS catname; AS m]]. split; [reflexivity|]. split.
      * intros [x [H1 H2]]. exfalso. exact (Hnone x H1 H2).
      * intros _. exists m. split; [reflexivity|left; reflexivity].
Qed.

Lemma minN_In l : forall d, l <> [] -> In (minN l d) l.
Proof.
  induction l as [|x l IH]; intros d Hne; [congruence|]. cbn [minN].
  destruct l as [|y l'].
  - cbn. left. symmetry. apply N.min_id.
  - destruct (N.min_spec x (minN (y :: l') x)) as [[_ E]|[_ E]]; rewrite E.
    + left. reflexivity.
    + right. apply IH. discriminate.
Qed.

(* peripherals: only a step of the drug's compartments to a count of the space can be returned, none when the
   model's count is already there -- whatever metabolite compartments the space offers *)
Lemma lnt_peripherals_spec a b :
  forallb periph_plain a = true -> forallb periph_plain b = true ->
  exists items, lnt_peripherals a b = Ok items /\
    ((exists c, In (c, s_DRUG) (Eper a) /\ In (c, s_DRUG) (Eper b)) -> items = []) /\
    (forall i, In i items -> exists n, i = LKey [AS s_PERIPHERALS; AI (Z.of_N n)] /\ In (n, s_DRUG) (Eper b)).
Proof.
  intros Ha Hb. unfold lnt_peripherals.
  destruct (extract_peripherals_spec a [] [] Ha) as [ma [da [Ea [Hma Hda]]]].
  destruct (extract_peripherals_spec b [] [] Hb) as [mb [db [Eb [Hmb Hdb]]]].
  rewrite Ea, Eb. cbn [bind fst snd]. eexists. split; [reflexivity|]. split.
  - intros [c [H1 H2]].
    assert (Hex : existsb (fun c0 => memN c0 db) da = true).
    { apply existsb_exists. exists c. split; [apply Hda; right; exact H1|apply memN_In, Hdb; right; exact H2]. }
    rewrite Hex. reflexivity.
  - intros i Hi. destruct (existsb (fun c0 => memN c0 db) da); [destruct Hi|].
    destruct db as [|x db']; [destruct Hi|]. destruct Hi as [<-|[]].
    exists (minN (x :: db') x). split; [reflexivity|].
    assert (Hin : In (minN (x :: db') x) (x :: db')) by (apply minN_In; discriminate).
    apply Hdb in Hin. destruct Hin as [[]|Hin]. exact Hin.
Qed.

(* ---- least_number_of_transformations is a SMALLEST sufficient set (categories of tool='modelsearch') ---- *)
(* a transformation changes the feature of exactly one category; a category needs one iff the model's feature is
   not offered by the space while the space offers something there *)
Definition commonN (a b : list N) : bool := existsb (fun x => memN x b) a.
Definition commonP (a b : list (N * N)) : bool := existsb (fun x => memb pair_eqb x b) a.
Definition need_absorption (a b : mf) : bool := negb (commonN (E_modes w_absorption (absorption a)) (E_modes w_absorption (absorption b))).
Definition need_elimination (a b : mf) : bool := negb (commonN (E_modes w_elimination (elimination a)) (E_modes w_elimination (elimination b))).
Definition need_lagtime (a b : mf) : bool := negb (commonN (E_modes w_lagtime (lagtime a)) (E_modes w_lagtime (lagtime b))).
Definition need_transits (a b : mf) : bool := negb (commonP (Epk_transits a) (Epk_transits b)) && negb (is_nil (Epk_transits b)).
Definition need_peripherals (a b : mf) : bool :=
  negb (commonP (drug_only (Epk_periph a)) (drug_only (Epk_periph b))) && negb (is_nil (drug_only (Epk_periph b))).
Definition needed_categories (a b : mf) : list N :=
  (if need_absorption a b then [s_ABSORPTION] else []) ++ (if need_elimination a b then [s_ELIMINATION] else []) ++
  (if need_transits a b then [s_TRANSITS] else []) ++ (if need_peripherals a b then [s_PERIPHERALS] else []) ++
  (if need_lagtime a b then [s_LAGTIME] else []).
(* a set of feature keys can only bring the model into the space if it has a transformation for every such category *)
Definition covers (ks : list key) (cats : list N) : Prop := forall c, In c cats -> exists k, In k ks /\ kcat k = AS c.
Definition item_cat (i : lnt_item) : N :=
  match i with LKey (AS c :: _) => c | LKey _ => 0 | LTransits _ _ => s_TRANSITS end.
(* PK spaces as the parser builds them, no `*` in PERIPHERALS modes *)
Definition wf_lnt_space (m : mf) : bool :=
  match absorption m, elimination m, lagtime m with
  | Some x, Some y, Some z => modes_ok w_absorption (Some x) && modes_ok w_elimination (Some y) && modes_ok w_lagtime (Some z)
  | _, _, _ => false
  end && forallb pstmt_ok (transits m) && forallb periph_plain (peripherals m).

Lemma commonN_spec a b : commonN a b = true <-> exists x, In x a /\ In x b.
Proof.
  unfold commonN. rewrite existsb_exists. split; intros [x [H1 H2]]; exists x; split; auto; apply memN_In; exact H2.
Qed.
Lemma commonP_spec a b : commonP a b = true <-> exists x, In x a /\ In x b.
Proof.
  unfold commonP. rewrite existsb_exists. split; intros [x [H1 H2]]; exists x; split; auto; apply (memb_In pair_eqb pair_eqb_spec); exact H2.
Qed.

(* one mode category: as many items as needed (0 or 1), of that category *)
Lemma lnt_modes_count catname w lhs rhs :
  w <> [] -> modes_ok w (Some lhs) = true -> modes_ok w (Some rhs) = true ->
  exists items, lnt_modes catname w (Some lhs) (Some rhs) = Ok items /\
    items = (if negb (commonN (E_modes w (Some lhs)) (E_modes w (Some rhs))) then items else []) /\
    length items = (if negb (commonN (E_modes w (Some lhs)) (E_modes w (Some rhs))) then 1 else 0)%nat /\
    forall i, In i items -> item_cat i = catname.
Proof.
  intros Hw Hl Hr. destruct (lnt_modes_spec catname w lhs rhs Hw Hl Hr) as [items [E [H1 H2]]].
  exists items. split; [exact E|]. destruct (commonN (E_modes w (Some lhs)) (E_modes w (Some rhs))) eqn:Ec; cbn [negb].
  - apply commonN_spec in Ec. rewrite (H1 Ec). repeat split; auto. intros i [].
  - destruct H2 as [m [-> _]].
    + intros x Hx Hx'. assert (commonN (E_modes w (Some lhs)) (E_modes w (Some rhs)) = true) by (apply commonN_spec; exists x; auto). congruence.
    + repeat split; auto. intros i [<-|[]]. reflexivity.
Qed.

Lemma lnt_peripherals_count a b :
  forallb periph_plain a = true -> forallb periph_plain b = true ->
  exists items, lnt_peripherals a b = Ok items /\
    length items = (if negb (commonP (drug_only (E_pairs [] w_periph_modes a)) (drug_only (E_pairs [] w_periph_modes b)))
                       && negb (is_nil (drug_only (E_pairs [] w_periph_modes b))) then 1 else 0)%nat /\
    forall i, In i items -> item_cat i = s_PERIPHERALS.
Proof.
  intros Ha Hb. unfold lnt_peripherals.
  destruct (extract_peripherals_spec a [] [] Ha) as [ma [da [Ea [Hma Hda]]]].
  destruct (extract_peripherals_spec b [] [] Hb) as [mb [db [Eb [Hmb Hdb]]]].
  rewrite Ea, Eb. cbn [bind fst snd]. eexists. split; [reflexivity|].
  assert (Hdrug : forall (ps : list pstmt) c, In (c, s_DRUG) (drug_only (E_pairs [] w_periph_modes ps)) <-> In (c, s_DRUG) (E_pairs [] w_periph_modes ps)).
  { intros ps c. unfold drug_only. rewrite filter_In. cbn [snd]. rewrite N.eqb_refl. tauto. }
  assert (Hkey : forall (ps : list pstmt) x, In x (drug_only (E_pairs [] w_periph_modes ps)) -> snd x = s_DRUG).
  { intros ps x Hx. unfold drug_only in Hx. apply filter_In in Hx. destruct Hx as [_ Hx]. apply N.eqb_eq in Hx. exact Hx. }
  assert (Hc : existsb (fun c => memN c db) da = commonP (drug_only (E_pairs [] w_periph_modes a)) (drug_only (E_pairs [] w_periph_modes b))).
  { apply eq_true_iff_eq. rewrite existsb_exists, commonP_spec. split.
    - intros [c [H1 H2]]. apply memN_In in H2. exists (c, s_DRUG). split; apply Hdrug; [apply Hda in H1; destruct H1 as [[]|H1]; exact H1|apply Hdb in H2; destruct H2 as [[]|H2]; exact H2].
    - intros [[c k] [H1 H2]]. pose proof (Hkey _ _ H1) as Ek. cbn in Ek. subst k. exists c.
      split; [apply Hda; right; apply Hdrug; exact H1|apply memN_In, Hdb; right; apply Hdrug; exact H2]. }
  assert (Hn : is_nil db = is_nil (drug_only (E_pairs [] w_periph_modes b))).
  { destruct db as [|x db'].
    - destruct (drug_only (E_pairs [] w_periph_modes b)) as [|[c k] l] eqn:E; [reflexivity|]. exfalso.
      assert (H : In (c, k) (drug_only (E_pairs [] w_periph_modes b))) by (rewrite E; left; reflexivity).
      pose proof (Hkey _ _ H) as Ek. cbn in Ek. subst k. apply Hdrug in H. assert (In c []) by (apply Hdb; right; exact H). contradiction.
    - assert (H : In (x, s_DRUG) (E_pairs [] w_periph_modes b)) by (assert (H0 : In x (x :: db')) by (left; reflexivity); apply Hdb in H0; destruct H0 as [[]|H0]; exact H0).
      apply Hdrug in H. destruct (drug_only (E_pairs [] w_periph_modes b)); [contradiction|reflexivity]. }
  rewrite Hc, <- Hn. destruct (commonP _ _); cbn [negb andb].
  - split; [reflexivity|intros i []].
  - destruct db as [|x db']; cbn [is_nil negb]; (split; [reflexivity|]); [intros i []|intros i [<-|[]]; reflexivity].
Qed.

Lemma remove_empty_values d : Forall (fun kv : N * list N => snd kv <> []) (remove_empty d).
Proof.
  unfold remove_empty. apply Forall_forall. intros kv H. apply filter_In in H. destruct H as [_ H].
  apply negb_true_iff, is_nil_false in H. exact H.
Qed.

Lemma add_helper_shape wv wk s1 s2 u1 u2 j :
  add_helper wv wk s1 s2 = Ok (u1, u2, j) ->
  Forall (fun kv => snd kv <> []) u2 /\ Forall (fun kv => snd kv <> []) j.
Proof.
  unfold add_helper. destruct (join_dict wv wk s1 []) as [d1| |]; cbn [bind]; try discriminate.
  destruct (join_dict wv wk s2 []) as [d2| |]; cbn [bind]; try discriminate.
  intro H. injection H as _ <- <-. split; apply remove_empty_values.
Qed.

Lemma dict_nil_iff wv wk d :
  Forall (fun kv : N * list N => snd kv <> []) d -> (d = [] <-> forall p, ~ In p (E_pairs wv wk (dict_stmts d))).
Proof.
  intro Hd. split.
  - intros -> p H. exact H.
  - intro H. destruct d as [|[k vs] d']; [reflexivity|]. exfalso. inversion Hd as [|? ? Hv _]; subst. cbn in Hv.
    destruct vs as [|v vs']; [congruence|]. apply (H (v, k)). apply In_E_dict_stmts. exists (v :: vs'). cbn. auto.
Qed.

Lemma lnt_transits_count (a b : mf) :
  forallb pstmt_ok (transits a) = true -> forallb pstmt_ok (transits b) = true ->
  exists items, lnt_transits (transits a) (transits b) = Ok items /\
    length items = (if need_transits a b then 1 else 0)%nat /\ forall i, In i items -> item_cat i = s_TRANSITS.
Proof.
  intros Ha Hb. unfold lnt_transits.
  destruct (add_helper_spec [] w_depot (transits a) (transits b) Ha Hb) as [u1 [u2 [j [E [A [B C]]]]]].
  destruct (add_helper_shape _ _ _ _ _ _ _ E) as [S2 Sj]. rewrite E. cbn [bind].
  assert (Hj : is_nil j = negb (commonP (Epk_transits a) (Epk_transits b))).
  { apply eq_true_iff_eq. rewrite is_nil_true, negb_true_iff, (dict_nil_iff [] w_depot j Sj). split.
    - intro H. destruct (commonP (Epk_transits a) (Epk_transits b)) eqn:Ec; [|reflexivity]. exfalso.
      apply commonP_spec in Ec. destruct Ec as [[v k] [H1 H2]]. apply (H (v, k)). apply C. auto.
    - intros Hn [v k] Hin. apply C in Hin. assert (commonP (Epk_transits a) (Epk_transits b) = true) by (apply commonP_spec; exists (v, k); exact Hin).
      congruence. }
  assert (Hu : commonP (Epk_transits a) (Epk_transits b) = false -> is_nil u2 = is_nil (Epk_transits b)).
  { intro Hn. apply eq_true_iff_eq. rewrite !is_nil_true, (dict_nil_iff [] w_depot u2 S2). split.
    - intro H. destruct (Epk_transits b) as [|[v k] l] eqn:Eb; [reflexivity|]. exfalso. apply (H (v, k)). apply B.
      fold (Epk_transits b). rewrite Eb. split; [left; reflexivity|]. intro H1.
      assert (commonP (Epk_transits a) ((v, k) :: l) = true) by (apply commonP_spec; exists (v, k); split; [exact H1|left; reflexivity]).
      congruence.
    - intros Eb [v k] Hin. apply B in Hin. fold (Epk_transits b) in Hin. rewrite Eb in Hin. destruct Hin as [[] _]. }
  unfold need_transits. rewrite Hj. destruct (commonP (Epk_transits a) (Epk_transits b)) eqn:Ec; cbn [negb andb].
  - eexists. split; [reflexivity|]. split; [reflexivity|intros i []].
  - rewrite (Hu eq_refl). destruct (is_nil (Epk_transits b)) eqn:En; cbn [negb].
    + eexists. split; [reflexivity|]. split; [reflexivity|intros i []].
    + destruct (find _ u1) as [kv|].
      * eexists. split; [reflexivity|]. split; [reflexivity|intros i [<-|[]]; reflexivity].
      * destruct u2 as [|kv u2'].
        -- exfalso. specialize (Hu eq_refl). cbn in Hu. congruence.
        -- eexists. split; [reflexivity|]. split; [reflexivity|intros i [<-|[]]; reflexivity].
Qed.

(* the returned transformations: exactly one per category that needs one, none else -- hence no sufficient set is smaller *)
Theorem lnt_smallest_lemma (a b : mf) :
  wf_lnt_space a = true -> wf_lnt_space b = true ->
  exists items, lnt_modelsearch a b = Ok items /\
    length items = length (needed_categories a b) /\
    (forall i, In i items -> In (item_cat i) (needed_categories a b)) /\
    (forall ks : list key, covers ks (needed_categories a b) -> (length items <= length ks)%nat).
Proof.
  unfold wf_lnt_space. intros Ha Hb.
  apply andb_true_iff in Ha. destruct Ha as [Ha Hpa]. apply andb_true_iff in Ha. destruct Ha as [Hma Hta].
  apply andb_true_iff in Hb. destruct Hb as [Hb Hpb]. apply andb_true_iff in Hb. destruct Hb as [Hmb Htb].
  destruct (absorption a) as [aa|] eqn:Eaa; [|discriminate]. destruct (elimination a) as [ea|] eqn:Eea; [|discriminate].
  destruct (lagtime a) as [la|] eqn:Ela; [|discriminate].
  destruct (absorption b) as [ab|] eqn:Eab; [|discriminate]. destruct (elimination b) as [eb|] eqn:Eeb; [|discriminate].
  destruct (lagtime b) as [lb|] eqn:Elb; [|discriminate].
  apply andb_true_iff in Hma. destruct Hma as [Hma H3a]. apply andb_true_iff in Hma. destruct Hma as [H1a H2a].
  apply andb_true_iff in Hmb. destruct Hmb as [Hmb H3b]. apply andb_true_iff in Hmb. destruct Hmb as [H1b H2b].
  destruct (lnt_modes_count s_ABSORPTION w_absorption aa ab ltac:(discriminate) H1a H1b) as [k1 [E1 [_ [L1 C1]]]].
  destruct (lnt_modes_count s_ELIMINATION w_elimination ea eb ltac:(discriminate) H2a H2b) as [k2 [E2 [_ [L2 C2]]]].
  destruct (lnt_transits_count a b Hta Htb) as [k3 [E3 [L3 C3]]].
  destruct (lnt_peripherals_count (peripherals a) (peripherals b) Hpa Hpb) as [k4 [E4 [L4 C4]]].
  destruct (lnt_modes_count s_LAGTIME w_lagtime la lb ltac:(discriminate) H3a H3b) as [k5 [E5 [_ [L5 C5]]]].
  exists (k1 ++ k2 ++ k3 ++ k4 ++ k5). unfold lnt_modelsearch. rewrite Eaa, Eab, Eea, Eeb, Ela, Elb, E1, E2, E3, E4, E5. cbn [bind].
  split; [reflexivity|].
  assert (Hlen : length (k1 ++ k2 ++ k3 ++ k4 ++ k5) = length (needed_categories a b)).
  { unfold needed_categories, need_absorption, need_elimination, need_lagtime, need_peripherals, Epk_periph.
    rewrite Eaa, Eab, Eea, Eeb, Ela, Elb, !app_length, L1, L2, L3, L4, L5.
    repeat match goal with |- context [if ?c then _ else _] => destruct c end; reflexivity. }
  assert (Hcat : forall i, In i (k1 ++ k2 ++ k3 ++ k4 ++ k5) -> In (item_cat i) (needed_categories a b)).
  { intros i Hi. unfold needed_categories, need_absorption, need_elimination, need_lagtime, need_peripherals, Epk_periph.
    rewrite Eaa, Eab, Eea, Eeb, Ela, Elb. rewrite !in_app_iff in Hi. rewrite !in_app_iff.
    assert (Hone : forall (k : list lnt_item) (c : bool) x, length k = (if c then 1 else 0)%nat -> In x k -> c = true).
    { intros k c x Hl Hx. destruct c; [reflexivity|]. destruct k; [contradiction|discriminate]. }
    destruct Hi as [Hi|[Hi|[Hi|[Hi|Hi]]]].
    - rewrite (C1 i Hi), (Hone _ _ _ L1 Hi). left. left. reflexivity.
    - rewrite (C2 i Hi), (Hone _ _ _ L2 Hi). right. left. left. reflexivity.
    - rewrite (C3 i Hi), (Hone _ _ _ L3 Hi). right. right. left. left. reflexivity.
    - rewrite (C4 i Hi), (Hone _ _ _ L4 Hi). right. right. right. left. left. reflexivity.
    - rewrite (C5 i Hi), (Hone _ _ _ L5 Hi). right. right. right. right. left. reflexivity. }
  split; [exact Hlen|]. split; [exact Hcat|].
  intros ks Hcov. rewrite Hlen.
  assert (Hnd : NoDup (needed_categories a b)).
  { unfold needed_categories. repeat match goal with |- context [if ?c then _ else _] => destruct c end;
      cbn; repeat constructor; cbn; intuition discriminate. }
  assert (Hincl : incl (map AS (needed_categories a b)) (map kcat ks)).
  { intros x Hx. apply in_map_iff in Hx. destruct Hx as [c [<- Hc]]. destruct (Hcov c Hc) as [k [Hk E]]. rewrite <- E. apply in_map. exact Hk. }
  assert (Hnd' : NoDup (map AS (needed_categories a b))).
  { apply FinFun.Injective_map_NoDup; [|exact Hnd]. intros x y E. injection E. auto. }
  pose proof (NoDup_incl_length Hnd' Hincl) as H. rewrite !map_length in H. exact H.
Qed.

(* ---------------------------------------------------------------- wildcards in - and == : the exact failing domain *)
(* raw-compared categories (ABSORPTION, ELIMINATION, LAGTIME, METABOLITE): as soon as both sides are present and one
   of them is `*`, both `-` and `==` are an internal error -- for every category descriptor, every mode list *)
Lemma opt_sub_raw_wildcard_raises c a b :
  cd_eq c = EqRaw -> cd_wild c <> [] ->
  modes_ok (cd_wild c) (Some a) = true -> modes_ok (cd_wild c) (Some b) = true ->
  a = MWild \/ b = MWild ->
  opt_sub c (Some a) (Some b) = TypeError /\ opt_eq c (Some a) (Some b) = TypeError.
Proof.
  intros He Hw Ha Hb Hwild. unfold opt_sub, opt_eq, stmt_eq. rewrite (truthy_ok _ _ Hw Ha), (truthy_ok _ _ Hw Hb), He. cbn [bind].
  destruct Hwild as [-> | ->]; [split; reflexivity|]. destruct a as [| l |]; cbn in Ha; try discriminate; split; reflexivity.
Qed.

(* PERIPHERALS: the first statement with a `*` mode makes _extract_peripherals (hence +, -, contain_subset, lnt) fail *)
Lemma extract_peripherals_wildcard_raises pre p post : forall met drug,
  forallb periph_plain pre = true -> p_keys p = MWild ->
  extract_peripherals (pre ++ p :: post) met drug = TypeError.
Proof.
  induction pre as [|q pre IH]; intros met drug Hpre Hp.
  - cbn. rewrite Hp. reflexivity.
  - cbn in Hpre. apply andb_true_iff in Hpre. destruct Hpre as [Hq Hpre]. unfold periph_plain in Hq.
    cbn [List.app extract_peripherals].
    destruct (p_vals q) as [| cs |]; try discriminate. destruct (p_keys q) as [| ms |]; try discriminate.
    cbn [list_of bind]. apply IH; assumption.
Qed.

(* eval-compared categories (DIRECTEFFECT, EFFECTCOMP): `-` works with `*` on either side and is the set difference *)
Lemma opt_sub_eval_wildcards c lhs rhs :
  cd_eq c = EqEval -> cd_sub c = SubNone -> cd_wild c <> [] ->
  modes_ok (cd_wild c) lhs = true -> modes_ok (cd_wild c) rhs = true ->
  pd_diff_ok (cd_wild c) lhs rhs = true ->
  exists r, opt_sub c lhs rhs = Ok r /\ r <> Some MNone /\
    forall x, In x (E_modes (cd_wild c) r) <-> In x (diffN (E_modes (cd_wild c) lhs) (E_modes (cd_wild c) rhs)).
Proof.
  intros He Hs Hw Hl Hr Hpd.
  destruct lhs as [[| l1 |]|]; destruct rhs as [[| l2 |]|]; cbn in Hl, Hr; try discriminate.
  - (* * - * *)
    exists None. unfold opt_sub, stmt_eq. rewrite (truthy_ok (cd_wild c) (Some MWild) Hw eq_refl). cbn [bind]. rewrite He.
    cbn [modes_eq_eval modes_eq_raw eval_modes bind E_modes].
    assert (seteqN (cd_wild c) (cd_wild c) = true) by (apply seteqN_spec; tauto). rewrite H. cbn [bind].
    split; [reflexivity|]. split; [discriminate|]. intro x. rewrite In_diffN. cbn. tauto.
  - (* * - list *)
    unfold opt_sub, stmt_eq. rewrite (truthy_ok (cd_wild c) (Some MWild) Hw eq_refl), (truthy_ok (cd_wild c) (Some (MList l2)) Hw Hr). cbn [bind]. rewrite He.
    cbn [modes_eq_eval modes_eq_raw eval_modes bind E_modes].
    apply andb_true_iff in Hr. destruct Hr as [Hne Hsub]. apply subsetN_spec in Hsub.
    destruct (seteqN (cd_wild c) l2) eqn:Eq.
    + exists None. split; [reflexivity|]. split; [discriminate|]. intro x. rewrite In_diffN. cbn.
      pose proof (proj1 (seteqN_spec _ _) Eq x). tauto.
    + rewrite Hs. cbn [modes_sub_none]. destruct (diffN (cd_wild c) l2) as [|y d] eqn:Ed.
      * exfalso. assert (seteqN (cd_wild c) l2 = true); [|congruence]. apply seteqN_spec. intro x. split; [|apply Hsub].
        intro Hx. destruct (in_dec N.eq_dec x l2) as [H|H]; [exact H|]. exfalso.
        assert (In x (diffN (cd_wild c) l2)) by (apply In_diffN; auto). rewrite Ed in H0. exact H0.
      * exists (Some (MList (y :: d))). split; [reflexivity|]. split; [discriminate|]. intro x. cbn [E_modes eval_modes]. tauto.
  - (* * - nothing *)
    exists (Some MWild). unfold opt_sub. rewrite (truthy_ok (cd_wild c) (Some MWild) Hw eq_refl). cbn [bind truthy]. split; [reflexivity|]. split; [discriminate|].
    intro x. rewrite In_diffN. cbn. tauto.
  - (* list - * *)
    unfold opt_sub, stmt_eq. rewrite (truthy_ok (cd_wild c) (Some (MList l1)) Hw Hl), (truthy_ok (cd_wild c) (Some MWild) Hw eq_refl). cbn [bind]. rewrite He.
    cbn [modes_eq_eval modes_eq_raw eval_modes bind E_modes].
    apply andb_true_iff in Hl. destruct Hl as [Hne Hsub]. apply subsetN_spec in Hsub.
    exists None. split.
    + destruct (seteqN l1 (cd_wild c)); [reflexivity|]. rewrite Hs. reflexivity.
    + split; [discriminate|]. intro x. rewrite In_diffN. cbn. split; [tauto|]. intros [H1 H2]. apply H2, Hsub, H1.
  - (* list - list : the plain case *)
    destruct (opt_sub_difference c (Some (MList l1)) (Some (MList l2)) Hw Hl Hr (fun _ => Hpd)) as [r [E [H1 [H2 [H3 H4]]]]].
    exists r. split; [exact E|]. split; [exact H4|]. intro x. split; [|apply H1].
    destruct (diffN (E_modes (cd_wild c) (Some (MList l1))) (E_modes (cd_wild c) (Some (MList l2)))) as [|y d] eqn:Ed.
    + rewrite Hs in H3. rewrite (H3 eq_refl). cbn. tauto.
    + apply H2. discriminate.
  - exists (Some (MList l1)). unfold opt_sub. rewrite (truthy_ok (cd_wild c) (Some (MList l1)) Hw Hl). cbn [bind truthy]. split; [reflexivity|].
    split; [discriminate|]. intro x. rewrite In_diffN. cbn. tauto.
  - exists None. split; [reflexivity|]. split; [discriminate|]. intro x. rewrite In_diffN. cbn. tauto.
  - exists None. split; [reflexivity|]. split; [discriminate|]. intro x. rewrite In_diffN. cbn. tauto.
  - exists None. split; [reflexivity|]. split; [discriminate|]. intro x. rewrite In_diffN. cbn. tauto.
Qed.

(* ---------------------------------------------------------------- lnt: the TRANSITS step leads into the space *)
(* whatever element of tuple(set(...)) Python picks as rhs[key][0]: every candidate count c of the returned
   ('TRANSITS', c, depot) is offered by the space with that depot and is not a transit feature of the model *)
Lemma lnt_transits_targets (a b : list pstmt) items :
  forallb pstmt_ok a = true -> forallb pstmt_ok b = true ->
  lnt_transits a b = Ok items ->
  forall i, In i items ->
    exists d cs, i = LTransits d cs /\ cs <> [] /\
      forall c, In c cs -> In (c, d) (E_pairs [] w_depot b) /\ ~ In (c, d) (E_pairs [] w_depot a).
Proof.
  intros Ha Hb. unfold lnt_transits.
  destruct (add_helper_spec [] w_depot a b Ha Hb) as [u1 [u2 [j [E [A [B C]]]]]].
  destruct (add_helper_shape _ _ _ _ _ _ _ E) as [S2 _]. rewrite E. cbn [bind].
  assert (Hmem : forall k v0, In (k, v0) u2 -> v0 <> [] /\ forall c, In c v0 -> In (c, k) (E_pairs [] w_depot b) /\ ~ In (c, k) (E_pairs [] w_depot a)).
  { intros k v0 Hin. split.
    - rewrite Forall_forall in S2. exact (S2 (k, v0) Hin).
    - intros c Hc. apply B. apply In_E_dict_stmts. exists v0. auto. }
  destruct (is_nil j && negb (is_nil u2)); [|intro H; injection H as <-; intros i []].
  destruct (find (fun kv => existsb (fun kv2 => fst kv =? fst kv2) u2) u1) as [kv|] eqn:Ef.
  - intro H. injection H as <-. intros i [<-|[]].
    apply find_some in Ef. destruct Ef as [_ Hex]. apply existsb_exists in Hex. destruct Hex as [[k2 v2] [Hin2 Hk]].
    cbn in Hk. apply N.eqb_eq in Hk.
    (* the looked-up list is the value stored under that depot *)
    assert (Hget : exists v0, In (fst kv, v0) u2 /\ dict_get u2 (fst kv) = v0).
    { unfold dict_get. destruct (find (fun kv0 => fst kv0 =? fst kv) u2) as [[k0 v0]|] eqn:Ef2.
      - apply find_some in Ef2. destruct Ef2 as [Hin Hk0]. cbn in Hk0. apply N.eqb_eq in Hk0. subst k0. exists v0. auto.
      - exfalso. apply (find_none _ _ Ef2 (k2, v2)) in Hin2. cbn in Hin2. rewrite Hk, N.eqb_refl in Hin2. discriminate. }
    destruct Hget as [v0 [Hin0 ->]]. destruct (Hmem _ _ Hin0) as [Hne Hall].
    exists (fst kv), v0. auto.
  - destruct u2 as [|[k v0] u2'].
    + intro H. injection H as <-. intros i [].
    + intro H. injection H as <-. intros i [<-|[]]. destruct (Hmem k v0 (or_introl eq_refl)) as [Hne Hall].
      exists k, v0. auto.
Qed.
