(* PV.C18.Refuted — counter-models: one per guard conjunct that exists because the CODE fails, and regression
   Examples of the repaired behaviour for the defects fixed in /repo (the former witnesses). *)
From Coq Require Import List Bool Arith ZArith NArith.
From Coq Require Import Permutation.
From PV Require Import C18.Model C18.Spec C18.Proofs C18.ProofsStep C18.MflModel C18.MflSpec C18.MflParser.
Import ListNotations.

Definition kP (n : Z) : key := [AS s_PERIPHERALS; AI n].
Definition kABS_ZO : key := [AS s_ABSORPTION; AS s_ZO].

(* C18-PERIPH-ORDER, fixed by c2f5172 (formerly PERIPHERALS(1) -> (3) -> (2) was generated): with three peripheral
   features the only paths are 1, 1-2, 1-2-3, and after PERIPHERALS(1) the count 3 is refused *)
Example periph_order_fixed :
  fst (exhaustive_stepwise not_supported_combo [kP 1; kP 2; kP 3]) = [[kP 1]; [kP 1; kP 2]; [kP 1; kP 2; kP 3]] /\
  allowed not_supported_combo [kP 1; kP 2; kP 3] (kP 3) [kP 1] = false /\
  doc_allowed not_supported_combo [kP 1; kP 2; kP 3] (kP 3) [kP 1] = false.
Proof. repeat split; vm_compute; reflexivity. Qed.

(* C18-PERIPH-UNSORTED, fixed by c2f5172 (formerly only PERIPHERALS(1) was built): the listing order no longer matters *)
Example periph_unsorted_fixed :
  fst (exhaustive_stepwise not_supported_combo [kP 2; kP 1]) = [[kP 1]; [kP 1; kP 2]] /\
  allowed not_supported_combo [kP 2; kP 1] (kP 2) [kP 1] = true.
Proof. split; vm_compute; reflexivity. Qed.

(* C18-REDUCED-SINGLE-GROUP, fixed by e9380e6 (formerly candidates 3 and 4 were both extended, 8 candidates): on
   {ABSORPTION(ZO), PERIPHERALS(1), PERIPHERALS(2)} the single group (ZO;P1 / P1;ZO) gets its collector and the tree
   has 7 candidates, the last one below the collector *)
Definition reduced_witness : list key := [kABS_ZO; kP 1; kP 2].
Definition created_of (keys : list key) := fst (fst (reduced_stepwise not_supported_combo keys)).
Example reduced_single_group_fixed :
  length (created_of reduced_witness) = 7 /\
  snd (fst (reduced_stepwise not_supported_combo reduced_witness)) = [[PCand 3; PCand 4]] /\
  map (fun x => fst (fst x)) (created_of reduced_witness) =
    [PRoot; PRoot; PCand 1; PCand 2; PCand 2; PCand 5; PColl 0].
Proof. repeat split; vm_compute; reflexivity. Qed.

(* C18-EXHAUSTIVE-SET-ZIP, fixed by 16091ea (formerly a set): the two-feature candidate gets its functions in key order *)
Definition kELIM_MM' : key := [AS s_ELIMINATION; AS s_MM].
Example exhaustive_zip_fixed :
  In [(kABS_ZO, kABS_ZO); (kELIM_MM', kELIM_MM')] (exhaustive_pairs kcat atom_eqb [kABS_ZO; kELIM_MM']).
Proof. vm_compute. tauto. Qed.

(* ---------------------------------------------------------------- the search-space algebra *)
Local Open Scope N_scope.
(* parse('ABSORPTION(m)') etc.: ModelFeatures.create completes a PK space with its defaults *)
Definition pk_space (ab el : modes) (tr pe : list pstmt) (lg : modes) : mf :=
  mkMF (Some ab) (Some el) tr pe (Some lg) [] None None [] None.
Definition dflt_space (ab : modes) : mf :=
  pk_space ab (MList [s_FO]) [default_transits] [default_peripherals] (MList [s_OFF]).
Definition pd_space (de : option modes) (me : option modes) : mf :=
  match me with
  | Some _ => mkMF (Some (MList [s_INST])) (Some (MList [s_FO])) [default_transits] [default_peripherals] (Some (MList [s_OFF])) [] de None [] me
  | None => mkMF None None [] [] None [] de None [] None
  end.
Definition cov_space (cs : list cstmt) : mf := mkMF None None [] [] None cs None None [] None.
Definition n_CL : N := 1000. Definition n_V : N := 1001. Definition n_WGT : N := 1002. Definition n_STAR : N := 1003.

(* C18-MFL-WILDCARD: ABSORPTION([FO,ZO]) - ABSORPTION( * ) is an internal error *)
Theorem mfl_wildcard_refuted :
  exists a b, g_no_wildcard b = false /\ mf_sub a b = TypeError /\ mf_eq a b = TypeError.
Proof.
  exists (dflt_space (MList [s_FO; s_ZO])), (dflt_space MWild). repeat split; vm_compute; reflexivity.
Qed.

(* C18-EQ-COVARIATE-ONEWAY, fixed by 0aa11f5 (formerly a == b was True): both directions are False now *)
Example eq_covariate_fixed :
  let a := cov_space [mkC [n_CL] [n_WGT] (MList [s_EXP]) n_STAR false] in
  let b := cov_space [mkC [n_CL; n_V] [n_WGT] (MList [s_EXP]) n_STAR false] in
  mf_eq a b = Ok false /\ mf_eq b a = Ok false /\ spaces_equal a b = false /\ mf_eq b b = Ok true.
Proof. repeat split; vm_compute; reflexivity. Qed.

(* C18-EQ-TUPLES-STRUCTURAL: PERIPHERALS(0);PERIPHERALS(1) vs PERIPHERALS(0..1) *)
Definition space_periph (pe : list pstmt) : mf :=
  pk_space (MList [s_INST]) (MList [s_FO]) [default_transits] pe (MList [s_OFF]).
Theorem mfl_eq_tuples_refuted :
  exists a b, g_tuples_canonical a b = false /\ mf_eq a b = Ok false /\ spaces_equal a b = true.
Proof.
  exists (space_periph [mkP (MList [0]) (MList [s_DRUG]); mkP (MList [1]) (MList [s_DRUG])]),
         (space_periph [mkP (MList [0; 1]) (MList [s_DRUG])]).
  repeat split; vm_compute; reflexivity.
Qed.

(* C18-EQ-IGNORES-METABOLITE: METABOLITE(BASIC) == METABOLITE(PSC) *)
Theorem mfl_eq_metabolite_refuted :
  exists a b, g_same_metabolite a b = false /\ mf_eq a b = Ok true /\ spaces_equal a b = false.
Proof.
  exists (pd_space None (Some (MList [s_BASIC]))), (pd_space None (Some (MList [s_PSC]))).
  repeat split; vm_compute; reflexivity.
Qed.

(* C18-SUBSET-TRANSITS-PRODUCT: TRANSITS([1,3]);TRANSITS(0..3,NODEPOT) "contains" TRANSITS(0,DEPOT) *)
Definition space_transits (tr : list pstmt) : mf :=
  pk_space (MList [s_INST]) (MList [s_FO]) tr [default_peripherals] (MList [s_OFF]).
Theorem mfl_subset_transits_refuted :
  exists a b, g_transits_product a = false /\ contain_subset a b = Ok true /\ space_includes a b = false.
Proof.
  exists (space_transits [mkP (MList [1; 3]) (MList [s_DEPOT]); mkP (MList [0; 1; 2; 3]) (MList [s_NODEPOT])]),
         (space_transits [mkP (MList [0]) (MList [s_DEPOT])]).
  repeat split; vm_compute; reflexivity.
Qed.

(* C18-SUB-PD-EMPTY: DIRECTEFFECT(EMAX) - DIRECTEFFECT([LINEAR,EMAX,SIGMOID]) holds DirectEffect(None);
   METABOLITE(BASIC) - METABOLITE([BASIC,PSC]) raises *)
Theorem mfl_sub_pd_refuted :
  (exists a b r, g_pd_difference a b = false /\ mf_sub a b = Ok r /\ wf_result (r_mf r) = false) /\
  (exists a b, g_pd_difference a b = false /\ mf_sub a b = TypeError).
Proof.
  split.
  - exists (pd_space (Some (MList [s_EMAX])) None), (pd_space (Some (MList [s_LINEAR; s_EMAX; s_SIGMOID])) None).
    eexists. repeat split; vm_compute; reflexivity.
  - exists (pd_space None (Some (MList [s_BASIC]))), (pd_space None (Some (MList [s_BASIC; s_PSC]))).
    repeat split; vm_compute; reflexivity.
Qed.

(* C18-TRANSITS-EQ-TUPLE, fixed by 67f03bc (formerly the truthy tuple (False, True)) *)
Example transits_eq_fixed :
  transits_stmt_eq (mkP (MList [1]) (MList [s_DEPOT])) (mkP (MList [2]) (MList [s_DEPOT])) = Some false /\
  transits_stmt_eq (mkP (MList [1; 2]) (MList [s_DEPOT])) (mkP (MList [2; 1]) (MList [s_DEPOT])) = Some true.
Proof. split; vm_compute; reflexivity. Qed.

(* C18-LET-BYPASSES-VALIDATION: LET(P,[CL]);COVARIATE(@P,WGT,EXP);COVARIATE(CL,WGT,LIN) is accepted, its printed form is not *)
Theorem mfl_let_validation_refuted :
  exists l, g_let_not_forced l = false /\ validate l = true /\ validate (printed l) = false.
Proof.
  exists [mkV true true [(n_CL, n_WGT)]; mkV false true [(n_CL, n_WGT)]]. repeat split; vm_compute; reflexivity.
Qed.

(* C18-LNT-PK-INCLUDES-MET, fixed by 78f8b1d (formerly ('PERIPHERALS', 1, 'METABOLITE') was returned) *)
Example lnt_met_fixed :
  lnt_peripherals [mkP (MList [0]) (MList [s_DRUG])] [mkP (MList [0]) (MList [s_DRUG]); mkP (MList [1]) (MList [s_MET])] = Ok [].
Proof. vm_compute. reflexivity. Qed.

(* C18-ALLOMETRY-DEFAULT-REF, fixed by c794b0d (formerly IndexError): "ALLOMETRY(WT)" is read with the default reference 70 *)
Example allometry_default_ref_fixed :
  parse_mfl [65;76;76;79;77;69;84;82;89;40;87;84;41]%N =
  Accepted [mkS n_ALLOMETRY false [AVals [IWord [87;84]%N]; AVals [IWord default_reference]]].
Proof. vm_compute. reflexivity. Qed.
