(* PV.C18.Check — the comparison run inside Coq by the correspondence check: re-runs the model on the
   exported input, compares with the implementation's observed outputs (tags 1..9), and evaluates the
   property statements themselves on the implementation's outputs (oracle tags >= 11). *)
From Coq Require Import List Bool Arith ZArith NArith Lia.
From PV Require Import Base.PyData C18.Model C18.Spec C18.MflModel C18.MflSpec C18.MflCheck C18.MflParser.
Import ListNotations.
Local Open Scope nat_scope.

Definition tag (b : bool) (t : nat) : list nat := if b then [] else [t].

Definition cmp_eqb {X} (cmp : X -> X -> comparison) (a b : X) : bool :=
  match cmp a b with Eq => true | _ => false end.

Definition str := list N.
Definition str_cmp : str -> str -> comparison := lex_cmp N.compare.

Inductive case :=
| CPartZ (l : list Z) (out : list (list (list Z)))              (* partitions of integers *)
| CPartS (l : list str) (out : list (list (list str)))          (* partitions of strings (eta names) *)
| CSubZ (l : list Z) (mn : nat) (mx : Z) (out : list (list Z))  (* subsets(l, min_size, max_size) *)
| CComb (keys : list key) (out : list (list key))               (* all_combinations(dict with these keys) *)
| CExh (keys : list key) (out : list (nat * list key)) (unordered : bool)
    (* exhaustive: run number, combo; does a candidate with several features receive its functions as an unordered set? *)
| CTeq (t1 t2 : pstmt) (is_bool truth : bool)                    (* Transits.__eq__: is the result a bool, its truth value *)
| CIov (names : list str) (proper : bool) (i : nat) (out : list (nat * list str))
    (* iovsearch.wf_etas_removal(_, _, non_empty_(proper_)subsets(names), i): candidate number, etas removed *)
| CCov (effects : list ceff) (winners : list (option nat)) (n_all : nat) (max_steps : Z) (out : list (list ceff * nat))
    (* covsearch perform_step_procedure with the fits replaced by the oracle `winners`: per step the candidate effects
       handed to handle_effects and the index offset *)
| CParse (text : list N) (parsed : option (list MflParser.stmt)) (internal : bool)
    (* an MFL text and what lark + MFLInterpreter made of it (None/false = lark refuses it, None/true = an exception
       other than lark's syntax errors came out of the interpreter) *)
| CLnt (a b : mf) (o : obs (list key))                          (* a.least_number_of_transformations(b, tool='modelsearch').keys() *)
| CAllowed (keys : list key) (qs : list (key * list key * bool)) (* _is_allowed(cur, ., prev, funcs) *)
| CStep (keys : list key) (out : list (nat * list key))         (* exhaustive_stepwise: run number, feature path from the root, in model_tasks order *)
| CIivBlock (names : list str) (base : list (list str)) (offset : nat) (out : list (nat * list (list str)))
    (* td_exhaustive_block_structure: eta names (fixed ones removed), the base model's blocks, index_offset; run number, block structure *)
| CMfl (c : mflcase)
    (* two search spaces and what the implementation answered for a+b, a-b, a==b, b==a, a.contain_subset(b), round trips *)
| CIivSub (names : list str) (offset : nat) (out : list (nat * list str))
    (* td_exhaustive_no_of_etas: run number, etas to remove *)
| CRed (keys : list key) (out : list (nat * pref * list key * key)) (colls : list (list pref)).
    (* reduced_stepwise: run number, parent task, features upstream of the parent, new feature; members of each choose_best_model task *)

(* ---- generic oracles, parameterised by the element order ---- *)
Section Oracles.
  Context {X : Type}.
  Variable cmp : X -> X -> comparison.
  Let xeqb := cmp_eqb cmp.
  Let xsort := py_sorted (fun a b => is_lt (cmp a b)).
  Definition blk_cmp := lex_cmp cmp.
  Definition part_cmp := lex_cmp blk_cmp.

  Definition canon_part (p : list (list X)) : list (list X) :=
    py_sorted (fun a b => is_lt (blk_cmp a b)) (map xsort p).

  Fixpoint adjacent_distinct {Y} (c : Y -> Y -> comparison) (l : list Y) : bool :=
    match l with
    | a :: ((b :: _) as tl) => negb (cmp_eqb c a b) && adjacent_distinct c tl
    | _ => true
    end.
  Fixpoint strictly_sorted {Y} (c : Y -> Y -> comparison) (l : list Y) : bool :=
    match l with
    | a :: ((b :: _) as tl) => is_lt (c a b) && strictly_sorted c tl
    | _ => true
    end.

  (* every output is a partition of l *)
  Definition o_is_partition (l : list X) (p : list (list X)) : bool :=
    forallb (fun b => nonempty b) p && list_eqb xeqb (xsort (concat p)) (xsort l).
  (* no two outputs denote the same set partition *)
  Definition o_part_nodup (out : list (list (list X))) : bool :=
    adjacent_distinct part_cmp (py_sorted (fun a b => is_lt (part_cmp a b)) (map canon_part out)).
  (* the documented order: by number of blocks, then block sizes, then lexicographically; blocks shortlex *)
  Definition o_part_order (out : list (list (list X))) : bool :=
    strictly_sorted (partitionkey_cmp cmp) out && forallb (strictly_sorted (shortlex_cmp cmp)) out.

  Fixpoint subseqb (s l : list X) : bool :=
    match s, l with
    | [], _ => true
    | _ :: _, [] => false
    | a :: s', b :: l' => if xeqb a b then subseqb s' l' else subseqb s l'
    end.
  Definition o_list_nodup (out : list (list X)) : bool :=
    adjacent_distinct blk_cmp (py_sorted (fun a b => is_lt (blk_cmp a b)) out).
End Oracles.

Definition check_part {X} (cmp : X -> X -> comparison) (l : list X) (out : list (list (list X))) : list nat :=
  tag (list_eqb (list_eqb (list_eqb (cmp_eqb cmp))) (partitions cmp l) out) 1 ++
  tag (forallb (o_is_partition cmp l) out) 11 ++
  tag (o_part_nodup cmp out) 12 ++
  tag (Nat.eqb (length out) (bell (length l))) 13 ++
  tag (o_part_order cmp out) 14.

Definition check_sub (l : list Z) (mn : nat) (mx : Z) (out : list (list Z)) : list nat :=
  let m := eff_max (length l) mx in
  tag (list_eqb (list_eqb Z.eqb) (subsets l mn mx) out) 2 ++
  tag (forallb (fun s => subseqb Z.compare s l && Nat.leb mn (length s) && Z.leb (Z.of_nat (length s)) m) out) 21 ++
  tag (o_list_nodup Z.compare out) 22 ++
  tag (Nat.eqb (length out) (fold_right Nat.add 0 (map (binom (length l)) (size_range mn m)))) 23.

Definition atom_cmp (a b : atom) : comparison :=
  match a, b with
  | AS x, AS y => N.compare x y
  | AI x, AI y => Z.compare x y
  | AS _, AI _ => Lt
  | AI _, AS _ => Gt
  end.
Definition key_cmp : key -> key -> comparison := lex_cmp atom_cmp.
Fixpoint nodupb {Y} (eqb : Y -> Y -> bool) (l : list Y) : bool :=
  match l with [] => true | a :: tl => negb (existsb (eqb a) tl) && nodupb eqb tl end.
Fixpoint dedup {Y} (eqb : Y -> Y -> bool) (l : list Y) : list Y :=
  match l with [] => [] | a :: tl => a :: filter (fun b => negb (eqb a b)) (dedup eqb tl) end.

Definition o_combo_valid (keys : list key) (c : list key) : bool :=
  nonempty c && forallb (fun k => memk k keys) c && nodupb atom_eqb (map kcat c).
Definition o_combo_count (keys : list key) : nat :=
  fold_right Nat.mul 1 (map (fun c => S (length (filter (fun k => atom_eqb (kcat k) c) keys))) (dedup atom_eqb (map kcat keys))).

Definition check_comb (keys : list key) (out : list (list key)) : list nat :=
  tag (list_eqb (list_eqb key_eqb) (all_combinations kcat atom_eqb keys) out) 3 ++
  tag (forallb (o_combo_valid keys) out) 31 ++
  tag (o_list_nodup key_cmp out) 32 ++
  tag (Nat.eqb (S (length out)) (o_combo_count keys)) 33.

Definition check_exh (keys : list key) (out : list (nat * list key)) (unordered : bool) : list nat :=
  (* the functions must reach create_candidate_exhaustive aligned with the feature keys they are zipped with *)
  tag (negb unordered) 42 ++
  tag (list_eqb (fun a b => Nat.eqb (fst a) (fst b) && list_eqb key_eqb (snd a) (snd b))
                (exhaustive kcat atom_eqb keys) out) 4 ++
  tag (nodupb Nat.eqb (map fst out)) 41 ++
  tag (forallb (o_combo_valid keys) (map snd out)) 31 ++
  tag (o_list_nodup key_cmp (map snd out)) 32 ++
  tag (Nat.eqb (S (length out)) (o_combo_count keys)) 33.

(* ---- stepwise search ---- *)
Definition tbl := not_supported_combo.

Definition check_allowed (keys : list key) (qs : list (key * list key * bool)) : list nat :=
  tag (forallb (fun q => let '(cur, prev, r) := q in Bool.eqb (allowed tbl keys cur prev) r) qs) 9.

(* the documented rules on a set of features used together (order-free part) *)
Definition t0n : key := [AS s_TRANSITS; AI 0; AS s_NODEPOT].
Definition features_ok (keys : list key) (p : list key) : bool :=
  nodupb key_eqb p && forallb (fun k => memk k keys) p &&
  nodupb atom_eqb (map kcat (filter (fun k => negb (is_periph k)) p)) &&
  negb (memk t0n p) &&
  forallb (fun a => forallb (fun b => key_eqb a b || is_periph a || is_periph b ||
             forallb (fun e => negb (is_prefix (fst e) a && is_prefix (snd e) b)) tbl) p) p.
Definition periph_order_ok (keys : list key) (p : list key) : bool :=
  let ns := map karg1 (filter is_periph p) in
  increasingb ns && match ns with [] => true | n :: _ => Z.eqb n (zmin (n_all keys) n) end.

Definition mempath (p : list key) (l : list (list key)) : bool := existsb (list_eqb key_eqb p) l.
(* the set of paths is the closure of the empty path under the DOCUMENTED rule (Spec.doc_allowed): every
   acceptable extension is present, every present path extends a present path (or the root) by an
   acceptable feature *)
Definition closure_ok (keys : list key) (paths : list (list key)) : bool :=
  forallb (fun p => forallb (fun f => negb (doc_allowed tbl keys f p) || mempath (p ++ [f]) paths) keys) ([] :: paths) &&
  forallb (fun p => match rev p with
                    | [] => false
                    | f :: rp => doc_allowed tbl keys f (rev rp) && (is_nil rp || mempath (rev rp) paths)
                    end) paths.

Definition check_step (keys : list key) (out : list (nat * list key)) : list nat :=
  let paths := map snd out in
  tag (list_eqb (fun a b => Nat.eqb (fst a) (fst b) && list_eqb key_eqb (snd a) (snd b)) (stepwise_named tbl keys) out
       && snd (exhaustive_stepwise tbl keys)) 5 ++
  tag (forallb (features_ok keys) paths) 51 ++
  tag (forallb (periph_order_ok keys) paths) 52 ++
  tag (closure_ok keys paths && o_list_nodup key_cmp paths) 53 ++
  tag (list_eqb Nat.eqb (map fst out) (seq 1 (length out))) 54 ++
  [].

Fixpoint list_rel {X Y} (r : X -> Y -> bool) (a : list X) (b : list Y) : bool :=
  match a, b with
  | [], [] => true
  | x :: a', y :: b' => r x y && list_rel r a' b'
  | _, _ => false
  end.
Definition pref_eqb (a b : pref) : bool :=
  match a, b with
  | PRoot, PRoot => true
  | PCand x, PCand y | PColl x, PColl y => Nat.eqb x y
  | _, _ => false
  end.
Definition is_parent (n : nat) (out : list (nat * pref * list key * key)) (colls : list (list pref)) : bool :=
  existsb (fun x => pref_eqb (snd (fst (fst x))) (PCand n)) out.
Definition cand_set (x : nat * pref * list key * key) : list key := snd (fst x) ++ [snd x].

(* candidates with the same features are compared, only the winner is extended: never two of them both extended *)
Definition merged_ok (out : list (nat * pref * list key * key)) (colls : list (list pref)) : bool :=
  forallb (fun x => forallb (fun y =>
     Nat.eqb (fst (fst (fst x))) (fst (fst (fst y))) || negb (same_set (cand_set x) (cand_set y)) ||
     negb (is_parent (fst (fst (fst x))) out colls && is_parent (fst (fst (fst y))) out colls)) out) out.

Definition check_red (keys : list key) (out : list (nat * pref * list key * key)) (colls : list (list pref)) : list nat :=
  let '(created, mcolls, ok) := reduced_stepwise tbl keys in
  tag (list_rel (fun a b => let '(n, pr, ps, f) := b in
                   Nat.eqb (fst a) n && pref_eqb (fst (fst (snd a))) pr && same_set (snd (fst (snd a))) ps && key_eqb (snd (snd a)) f)
                (combine (seq 1 (length created)) created) out
       && list_eqb (list_eqb pref_eqb) mcolls colls && ok) 5 ++
  tag (forallb (fun x => features_ok keys (cand_set x)) out) 51 ++
  tag (forallb (fun x => let f := snd x in
          negb (is_periph f) || forallb (fun g => Z.ltb (karg1 g) (karg1 f)) (filter is_periph (snd (fst x)))) out) 52 ++
  (* every candidate extends its parent by a feature the documented rule accepts, and every parent that
     is extended at all is extended by all of them *)
  tag (forallb (fun x => doc_allowed tbl keys (snd x) (snd (fst x))) out &&
       forallb (fun x => forallb (fun f => negb (doc_allowed tbl keys f (snd (fst x))) ||
                    existsb (fun y => pref_eqb (snd (fst (fst y))) (snd (fst (fst x))) && key_eqb (snd y) f) out) keys) out) 53 ++
  tag (list_eqb Nat.eqb (map (fun x => fst (fst (fst x))) out) (seq 1 (length out))) 54 ++
  tag (merged_ok out colls) 55.

(* ---- iivsearch brute force ---- *)
Definition check_iivblock (names : list str) (base : list (list str)) (offset : nat) (out : list (nat * list (list str))) : list nat :=
  let ps := map snd out in
  tag (list_eqb (fun a b => Nat.eqb (fst a) (fst b) && list_eqb (list_eqb (cmp_eqb str_cmp)) (snd a) (snd b))
                (block_structure_candidates str_cmp names base offset) out) 6 ++
  (* together with the base structure the candidates are all the partitions, each once *)
  tag (forallb (o_is_partition str_cmp names) ps && o_part_nodup str_cmp (base :: ps) &&
       Nat.eqb (S (length ps)) (bell (length names))) 61 ++
  tag (list_eqb Nat.eqb (map fst out) (seq (1 + offset) (length out))) 41.

Definition check_iivsub (names : list str) (offset : nat) (out : list (nat * list str)) : list nat :=
  let ss := map snd out in
  tag (list_eqb (fun a b => Nat.eqb (fst a) (fst b) && list_eqb (cmp_eqb str_cmp) (snd a) (snd b))
                (no_of_etas_candidates names offset) out) 6 ++
  tag (forallb (fun s => nonempty s && subseqb str_cmp s names) ss && o_list_nodup str_cmp ss &&
       Nat.eqb (S (length ss)) (2 ^ length names)) 61 ++
  tag (list_eqb Nat.eqb (map fst out) (seq (1 + offset) (length out))) 41.

Definition verdict (c : case) : list nat :=
  match c with
  | CPartZ l out => check_part Z.compare l out
  | CPartS l out => check_part str_cmp l out
  | CSubZ l mn mx out => check_sub l mn mx out
  | CComb keys out => check_comb keys out
  | CExh keys out u => check_exh keys out u
  | CTeq t1 t2 p tr => teq_verdict t1 t2 p tr
  | CLnt a b o => lnt_verdict a b o
  | CCov effects winners n_all max_steps out =>
      let ceff_eqb := fun (a b : ceff) => same_pc a b && N.eqb (snd (fst a)) (snd (fst b)) && N.eqb (snd a) (snd b) in
      tag (list_eqb (fun a b => list_eqb ceff_eqb (fst a) (fst b) && Nat.eqb (snd a) (snd b))
             (covsearch_procedure effects winners n_all max_steps) out) 6 ++
      (* every step offers exactly the effects of the previous step whose (parameter, covariate) differs from the
         effect just chosen, in the same order, and the numbering continues *)
      tag ((fix ok (prev : list ceff) (ws : list (option nat)) (n : nat) (o : list (list ceff * nat)) : bool :=
              match o with
              | [] => true
              | (c, k) :: o' =>
                  list_eqb ceff_eqb c prev && Nat.eqb k (n - 1) &&
                  match o', ws with
                  | [], _ => true
                  | _, Some i :: ws' =>
                      match nth_error c i with
                      | Some e => ok (filter (fun x => negb (same_pc e x)) c) ws' (n + length c) o'
                      | None => false
                      end
                  | _, _ => false
                  end
              end) effects winners n_all out) 62
  | CParse text parsed internal =>
      tag (parse_agrees text parsed internal) 10 ++
      (* a text is read or refused with a syntax error, never with an internal error *)
      tag (negb internal) 79
  | CIov names proper i out =>
      let ss := map snd out in
      tag (list_eqb (fun a b => Nat.eqb (fst a) (fst b) && list_eqb (cmp_eqb str_cmp) (snd a) (snd b))
             (removal_candidates (if proper then non_empty_proper_subsets names else non_empty_subsets names) i) out) 6 ++
      tag (forallb (fun s => nonempty s && subseqb str_cmp s names && (negb proper || Nat.ltb (length s) (length names))) ss
           && o_list_nodup str_cmp ss
           && Nat.eqb (length ss + (if proper && negb (is_nil names) then 2 else 1)) (2 ^ length names)) 61 ++
      tag (list_eqb Nat.eqb (map fst out) (seq i (length out))) 41
  | CAllowed keys qs => check_allowed keys qs
  | CStep keys out => check_step keys out
  | CRed keys out colls => check_red keys out colls
  | CIivBlock names base offset out => check_iivblock names base offset out
  | CIivSub names offset out => check_iivsub names offset out
  | CMfl c => mfl_verdict c
  end.
