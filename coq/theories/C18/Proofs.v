(* PV.C18.Proofs — lemmas about partitions / subsets / all_combinations. *)
From Coq Require Import List Bool Arith ZArith Lia Permutation FinFun Sorted.
From PV Require Import C18.Model C18.Spec.
Import ListNotations.
Local Open Scope nat_scope.

(* ---------------------------------------------------------------- general list facts *)
Lemma NoDup_app_intro {X} (a b : list X) :
  NoDup a -> NoDup b -> (forall x, In x a -> In x b -> False) -> NoDup (a ++ b).
Proof.
  induction a as [|x a IH]; intros Ha Hb Hd; cbn; [exact Hb|].
  inversion Ha as [|? ? Hx Ha']; subst. constructor.
  - rewrite in_app_iff. intros [H|H]; [exact (Hx H)|]. apply (Hd x); [left; reflexivity|exact H].
  - apply IH; auto. intros y Hy1 Hy2. apply (Hd y); [right; exact Hy1|exact Hy2].
Qed.

Lemma NoDup_app_disjoint {X} (a b : list X) x : NoDup (a ++ b) -> In x a -> In x b -> False.
Proof.
  induction a as [|y a IH]; cbn; intros H Ha Hb; [contradiction|].
  inversion H as [|? ? Hy H']; subst. destruct Ha as [->|Ha].
  - apply Hy. rewrite in_app_iff. right. exact Hb.
  - exact (IH H' Ha Hb).
Qed.

Lemma NoDup_app_l {X} (a b : list X) : NoDup (a ++ b) -> NoDup a.
Proof.
  induction a as [|y a IH]; cbn; intros H; [constructor|].
  inversion H as [|? ? Hy H']; subst. constructor; [|exact (IH H')].
  intro Hin. apply Hy. rewrite in_app_iff. left. exact Hin.
Qed.

Lemma NoDup_app_r {X} (a b : list X) : NoDup (a ++ b) -> NoDup b.
Proof.
  induction a as [|y a IH]; cbn; intros H; [exact H|].
  inversion H; subst. auto.
Qed.

Lemma NoDup_flat_map {X Y} (f : X -> list Y) (l : list X) :
  NoDup l -> (forall a, In a l -> NoDup (f a)) ->
  (forall a b y, In a l -> In b l -> In y (f a) -> In y (f b) -> a = b) ->
  NoDup (flat_map f l).
Proof.
  induction l as [|a l IH]; intros Hl Hf Hd; cbn; [constructor|].
  inversion Hl as [|? ? Ha Hl']; subst. apply NoDup_app_intro.
  - apply Hf. left. reflexivity.
  - apply IH; auto.
    + intros b Hb. apply Hf. right. exact Hb.
    + intros b c y Hb Hc. apply Hd; right; assumption.
  - intros y Hy1 Hy2. apply in_flat_map in Hy2. destruct Hy2 as [b [Hb Hy2]].
    assert (a = b) by (apply (Hd a b y); auto; [left; reflexivity|right; exact Hb]).
    subst. contradiction.
Qed.

Lemma NoDup_map_inj_in {X Y} (f : X -> Y) (l : list X) :
  NoDup l -> (forall a b, In a l -> In b l -> f a = f b -> a = b) -> NoDup (map f l).
Proof.
  induction l as [|a l IH]; intros Hl Hinj; cbn; [constructor|].
  inversion Hl as [|? ? Ha Hl']; subst. constructor.
  - intro H. apply in_map_iff in H. destruct H as [b [E Hb]].
    assert (b = a) by (apply Hinj; auto; [right; exact Hb|left; reflexivity]). subst. contradiction.
  - apply IH; auto. intros b c Hb Hc. apply Hinj; right; assumption.
Qed.

Lemma Permutation_concat {X} (p q : list (list X)) : Permutation p q -> Permutation (concat p) (concat q).
Proof.
  induction 1; cbn.
  - reflexivity.
  - apply Permutation_app_head. assumption.
  - rewrite !app_assoc. apply Permutation_app_tail. apply Permutation_app_comm.
  - etransitivity; eassumption.
Qed.

Lemma length_filter_const {X} (f : X -> bool) (c : bool) (l : list X) :
  (forall y, In y l -> f y = c) -> length (filter f l) = if c then length l else 0.
Proof.
  induction l as [|a l IH]; intros H; cbn; [destruct c; reflexivity|].
  rewrite (H a (or_introl eq_refl)).
  assert (IH' := IH (fun y Hy => H y (or_intror Hy))).
  destruct c; cbn [length]; rewrite IH'; reflexivity.
Qed.

Definition sumf (f : nat -> nat) (m : nat) : nat := fold_right Nat.add 0 (map f (seq 0 m)).

Lemma sumf_S f m : sumf f (S m) = sumf f m + f m.
Proof.
  unfold sumf. rewrite seq_S, map_app. cbn [map]. rewrite Nat.add_0_l. generalize (map f (seq 0 m)) as l.
  induction l as [|a l IH]; cbn [app fold_right]; [lia|]. rewrite IH. lia.
Qed.

Lemma sumf_ext f g m : (forall k, k < m -> f k = g k) -> sumf f m = sumf g m.
Proof.
  induction m as [|m IH]; intros H; [reflexivity|]. rewrite !sumf_S, IH, (H m) by (intros; auto with arith). reflexivity.
Qed.

Lemma sumf_add f g m : sumf (fun k => f k + g k) m = sumf f m + sumf g m.
Proof. induction m as [|m IH]; [reflexivity|]. rewrite !sumf_S, IH. lia. Qed.

Lemma sumf_indicator c m : sumf (fun k => if c =? k then 1 else 0) m = if c <? m then 1 else 0.
Proof.
  induction m as [|m IH]; [reflexivity|]. rewrite sumf_S, IH.
  destruct (Nat.ltb_spec c m); destruct (Nat.eqb_spec c m); destruct (Nat.ltb_spec c (S m)); lia.
Qed.

(* ---------------------------------------------------------------- Python's sorted *)
Section SortFacts.
  Context {X : Type} (lt : X -> X -> bool).

  Lemma merge_nil_l b : merge lt [] b = b.
  Proof. destruct b; reflexivity. Qed.
  Lemma merge_nil_r a : merge lt a [] = a.
  Proof. destruct a; reflexivity. Qed.
  Lemma merge_cons x a y b :
    merge lt (x :: a) (y :: b) = if lt y x then y :: merge lt (x :: a) b else x :: merge lt a (y :: b).
  Proof. reflexivity. Qed.

  Lemma merge_perm a b : Permutation (merge lt a b) (a ++ b).
  Proof.
    revert b. induction a as [|x a IHa]; intro b.
    - rewrite merge_nil_l. reflexivity.
    - induction b as [|y b IHb].
      + rewrite merge_nil_r, app_nil_r. reflexivity.
      + rewrite merge_cons. destruct (lt y x).
        * etransitivity; [apply perm_skip; exact IHb|]. apply Permutation_middle.
        * cbn. apply perm_skip. apply IHa.
  Qed.

  Lemma msort_fuel_perm fuel l : Permutation (msort_fuel lt fuel l) l.
  Proof.
    revert l. induction fuel as [|f IH]; intro l; [reflexivity|].
    destruct l as [|x [|y t]]; [reflexivity|reflexivity|].
    cbn [msort_fuel]. etransitivity; [apply merge_perm|].
    etransitivity; [apply Permutation_app; apply IH|]. rewrite firstn_skipn. reflexivity.
  Qed.

  Lemma py_sorted_perm l : Permutation (py_sorted lt l) l.
  Proof. apply msort_fuel_perm. Qed.

  Lemma py_sorted_In l x : In x (py_sorted lt l) <-> In x l.
  Proof.
    split; apply Permutation_in; [apply py_sorted_perm | apply Permutation_sym, py_sorted_perm].
  Qed.
End SortFacts.

(* ---------------------------------------------------------------- partitions *)
Section PartProofs.
  Variable A : Type.
  Implicit Types (p q : list (list A)) (x y : A) (r l : list A).

  Lemma In_add_to_each x p p' :
    In p' (add_to_each x p) <-> exists pre b post, p = pre ++ b :: post /\ p' = pre ++ (b ++ [x]) :: post.
  Proof.
    revert p'. induction p as [|b0 p IH]; intro p'; cbn.
    - split; [contradiction|]. intros [pre [b [post [E _]]]]. destruct pre; discriminate.
    - split.
      + intros [H|H].
        * exists [], b0, p. subst. split; reflexivity.
        * apply in_map_iff in H. destruct H as [q0 [E Hq]]. apply IH in Hq.
          destruct Hq as [pre [b [post [E1 E2]]]]. exists (b0 :: pre), b, post. subst. split; reflexivity.
      + intros [pre [b [post [E1 E2]]]]. destruct pre as [|c pre]; cbn in *.
        * injection E1 as -> ->. left. symmetry. exact E2.
        * injection E1 as -> ->. right. apply in_map_iff. exists (pre ++ (b ++ [x]) :: post). split; [symmetry; exact E2|].
          apply IH. exists pre, b, post. split; reflexivity.
  Qed.

  Lemma In_extend x p p' :
    In p' (extend x p) <->
    p' = p ++ [[x]] \/ exists pre b post, p = pre ++ b :: post /\ p' = pre ++ (b ++ [x]) :: post.
  Proof.
    unfold extend. cbn. rewrite In_add_to_each. intuition.
  Qed.

  Lemma In_raw_cons x r p' :
    In p' (raw_rev (x :: r)) <-> exists q, In q (raw_rev r) /\ In p' (extend x q).
  Proof. cbn. apply in_flat_map. Qed.

  (* every generated block list is a partition of the input *)
  Lemma raw_rev_is_partition r p : In p (raw_rev r) -> is_partition p (rev r).
  Proof.
    revert p. induction r as [|x r IH]; intros p Hp.
    - cbn in Hp. destruct Hp as [<-|[]]. split; [constructor|reflexivity].
    - apply In_raw_cons in Hp. destruct Hp as [q [Hq Hp]]. destruct (IH q Hq) as [Hne Hperm].
      apply In_extend in Hp. cbn [rev]. destruct Hp as [->|[pre [b [post [-> ->]]]]].
      + split.
        * apply Forall_app. split; [exact Hne|]. constructor; [discriminate|constructor].
        * rewrite concat_app. cbn. try rewrite app_nil_r. apply Permutation_app_tail. exact Hperm.
      + split.
        * unfold nonempty_blocks in *. rewrite Forall_app in *. destruct Hne as [H1 H2]. split; [exact H1|].
          inversion H2; subst. constructor; [|assumption]. destruct b; discriminate.
        * rewrite concat_app in *. cbn in *. etransitivity; [|apply Permutation_app_tail; exact Hperm].
          rewrite <- !app_assoc. apply Permutation_app_head. apply Permutation_app_head.
          apply Permutation_app_comm.
  Qed.

  Lemma is_partition_In p l a : is_partition p l -> (In a (concat p) <-> In a l).
  Proof.
    intros [_ H]. split; apply Permutation_in; [exact H|apply Permutation_sym; exact H].
  Qed.

  Lemma In_concat_block p a : In a (concat p) <-> exists blk, In blk p /\ In a blk.
  Proof.
    rewrite in_concat. split; intros [b [H1 H2]]; exists b; split; assumption.
  Qed.

  Lemma same_block_In_l p a b : same_block p a b -> In a (concat p).
  Proof. intros [blk [H1 [H2 _]]]. apply In_concat_block. exists blk. split; assumption. Qed.
  Lemma same_block_In_r p a b : same_block p a b -> In b (concat p).
  Proof. intros [blk [H1 [_ H2]]]. apply In_concat_block. exists blk. split; assumption. Qed.

  (* blocks of a duplicate-free concatenation are disjoint *)
  Lemma blocks_disjoint p b1 b2 y :
    NoDup (concat p) -> In b1 p -> In b2 p -> In y b1 -> In y b2 -> b1 = b2.
  Proof.
    induction p as [|b p IH]; cbn; intros Hnd H1 H2 Hy1 Hy2; [contradiction|].
    destruct H1 as [->|H1]; destruct H2 as [->|H2]; [reflexivity| | |].
    - exfalso. apply (NoDup_app_disjoint _ _ y Hnd Hy1). apply In_concat_block. exists b2. split; assumption.
    - exfalso. apply (NoDup_app_disjoint _ _ y Hnd Hy2). apply In_concat_block. exists b1. split; assumption.
    - apply IH; auto. eapply NoDup_app_r. exact Hnd.
  Qed.

  (* a block of a duplicate-free block list occurs at one position only *)
  Lemma split_unique p pre b post pre' b' post' y :
    NoDup (concat p) -> p = pre ++ b :: post -> p = pre' ++ b' :: post' -> In y b -> In y b' ->
    pre = pre' /\ b = b' /\ post = post'.
  Proof.
    revert p pre'. induction pre as [|c pre IH]; intros p pre' Hnd E1 E2 Hy Hy'.
    - destruct pre' as [|c' pre']; cbn in *; subst.
      + injection E2 as -> ->. auto.
      + injection E2 as -> ->. exfalso. cbn in Hnd. apply (NoDup_app_disjoint _ _ y Hnd Hy).
        apply In_concat_block. exists b'. split; [apply in_elt|exact Hy'].
    - destruct pre' as [|c' pre']; cbn in *; subst.
      + injection E2 as Ea Eb; subst. exfalso. cbn in Hnd. apply (NoDup_app_disjoint _ _ y Hnd Hy').
        apply In_concat_block. exists b. split; [apply in_elt|exact Hy].
      + injection E2 as -> E2. cbn in Hnd.
        destruct (IH (pre ++ b :: post) pre' (NoDup_app_r _ _ Hnd) eq_refl E2 Hy Hy') as [-> [-> ->]]. auto.
  Qed.

  (* same_block after putting x into a new block / into block b *)
  Lemma same_block_new q x a b :
    same_block (q ++ [[x]]) a b <-> same_block q a b \/ (a = x /\ b = x).
  Proof.
    unfold same_block. split.
    - intros [blk [H1 [H2 H3]]]. apply in_app_iff in H1. destruct H1 as [H1|[<-|[]]].
      + left. exists blk. auto.
      + right. destruct H2 as [<-|[]]. destruct H3 as [<-|[]]. auto.
    - intros [[blk [H1 [H2 H3]]]|[-> ->]].
      + exists blk. rewrite in_app_iff. auto.
      + exists [x]. rewrite in_app_iff. cbn. auto.
  Qed.

  Lemma same_block_add pre blk post x a b :
    same_block (pre ++ (blk ++ [x]) :: post) a b <->
    same_block (pre ++ blk :: post) a b \/ (a = x /\ In b blk) \/ (In a blk /\ b = x) \/ (a = x /\ b = x).
  Proof.
    unfold same_block. split.
    - intros [c [H1 [H2 H3]]]. apply in_app_iff in H1. destruct H1 as [H1|[<-|H1]].
      + left. exists c. rewrite in_app_iff. auto.
      + apply in_app_iff in H2. apply in_app_iff in H3. cbn in H2, H3.
        destruct H2 as [H2|[<-|[]]]; destruct H3 as [H3|[<-|[]]]; auto.
        left. exists blk. rewrite in_app_iff. cbn. auto.
      + left. exists c. rewrite in_app_iff. cbn. auto.
    - intros [[c [H1 [H2 H3]]]|[[-> H]|[[H ->]|[-> ->]]]].
      + apply in_app_iff in H1. destruct H1 as [H1|[<-|H1]].
        * exists c. rewrite in_app_iff. auto.
        * exists (blk ++ [x]). rewrite !in_app_iff. cbn. auto.
        * exists c. rewrite in_app_iff. cbn. auto.
      + exists (blk ++ [x]). rewrite !in_app_iff. cbn. auto.
      + exists (blk ++ [x]). rewrite !in_app_iff. cbn. auto.
      + exists (blk ++ [x]). rewrite !in_app_iff. cbn. auto.
  Qed.

  (* for p in extend x q and elements other than x, the blocks are those of q *)
  Lemma same_block_extend_other x q p a b :
    In p (extend x q) -> a <> x -> b <> x -> (same_block p a b <-> same_block q a b).
  Proof.
    intros Hp Ha Hb. apply In_extend in Hp. destruct Hp as [->|[pre [blk [post [-> ->]]]]].
    - rewrite same_block_new. intuition.
    - rewrite same_block_add. intuition.
  Qed.

  (* ---- completeness: every equivalence relation on the elements is generated ---- *)
  Lemma raw_rev_complete (R : A -> A -> bool) r :
    NoDup r -> equiv_on r R -> exists p, In p (raw_rev r) /\ represents p r R.
  Proof.
    induction r as [|x r IH]; intros Hnd [Hrefl [Hsym Htrans]].
    - exists []. split; [left; reflexivity|]. intros a b [].
    - inversion Hnd as [|? ? Hx Hnd']; subst.
      destruct IH as [q [Hq Hrep]]; [exact Hnd'| |].
      { split; [|split].
        - intros a Ha. apply Hrefl. right. exact Ha.
        - intros a b Ha Hb. apply Hsym; right; assumption.
        - intros a b c Ha Hb Hc. apply Htrans; right; assumption. }
      pose proof (raw_rev_is_partition r q Hq) as Hpart.
      assert (Hin : forall a, In a (concat q) <-> In a r).
      { intro a. rewrite (is_partition_In q (rev r) a Hpart). symmetry. apply in_rev. }
      assert (Hndq : NoDup (concat q)).
      { destruct Hpart as [_ Hperm]. apply (Permutation_NoDup (Permutation_sym Hperm)).
        apply NoDup_rev. exact Hnd'. }
      assert (Hxq : ~ In x (concat q)) by (rewrite Hin; exact Hx).
      destruct (existsb (R x) r) eqn:Eex.
      + (* x joins the block of some y *)
        apply existsb_exists in Eex. destruct Eex as [y [Hy Rxy]].
        assert (Hyq : In y (concat q)) by (apply Hin; exact Hy).
        apply In_concat_block in Hyq. destruct Hyq as [blk [Hblk Hyb]].
        destruct (in_split _ _ Hblk) as [pre [post Eq]].
        exists (pre ++ (blk ++ [x]) :: post). split.
        { apply In_raw_cons. exists q. split; [exact Hq|]. apply In_extend. right.
          exists pre, blk, post. split; [exact Eq|reflexivity]. }
        assert (Hblk_R : forall b, In b r -> (In b blk <-> R x b = true)).
        { intros b Hb. split.
          - intro Hbb. assert (Ryb : R y b = true).
            { apply (Hrep y b Hy Hb). exists blk. auto. }
            apply (Htrans x y b); cbn; auto.
          - intro Rxb. assert (Ryb : R y b = true).
            { apply (Htrans y x b); cbn; auto. rewrite Hsym; cbn; auto. }
            apply (Hrep y b Hy Hb) in Ryb. destruct Ryb as [blk' [H1 [H2 H3]]].
            assert (blk' = blk) by (apply (blocks_disjoint q blk' blk y); auto). subst. exact H3. }
        intros a b Ha Hb. rewrite same_block_add. rewrite <- Eq.
        destruct Ha as [<-|Ha]; destruct Hb as [<-|Hb].
        * rewrite Hrefl by (left; reflexivity). intuition.
        * rewrite <- (Hblk_R b Hb). split; [|intuition].
          intros [H|[[_ H]|[[_ H]|[_ H]]]]; auto.
          -- exfalso. apply Hxq. eapply same_block_In_l. exact H.
          -- subst. contradiction.
          -- subst. contradiction.
        * rewrite (Hsym a x) by (cbn; auto). rewrite <- (Hblk_R a Ha). split; [|intuition].
          intros [H|[[H _]|[[H _]|[H _]]]]; auto.
          -- exfalso. apply Hxq. eapply same_block_In_r. exact H.
          -- subst. contradiction.
          -- subst. contradiction.
        * rewrite <- (Hrep a b Ha Hb). split; [|intuition].
          intros [H|[[H _]|[[_ H]|[H _]]]]; auto; subst; contradiction.
      + (* x alone *)
        assert (Hno : forall y, In y r -> R x y = false).
        { intros y Hy. destruct (R x y) eqn:E; [|reflexivity].
          assert (existsb (R x) r = true) by (apply existsb_exists; exists y; auto). congruence. }
        exists (q ++ [[x]]). split.
        { apply In_raw_cons. exists q. split; [exact Hq|]. apply In_extend. left. reflexivity. }
        intros a b Ha Hb. rewrite same_block_new.
        destruct Ha as [<-|Ha]; destruct Hb as [<-|Hb].
        * rewrite Hrefl by (left; reflexivity). intuition.
        * rewrite (Hno b Hb). split; [|discriminate].
          intros [H|[_ H]]; [exfalso; apply Hxq; eapply same_block_In_l; exact H|subst; contradiction].
        * rewrite (Hsym a x) by (cbn; auto). rewrite (Hno a Ha). split; [|discriminate].
          intros [H|[H _]]; [exfalso; apply Hxq; eapply same_block_In_r; exact H|subst; contradiction].
        * rewrite <- (Hrep a b Ha Hb). split; [|intuition].
          intros [H|[H _]]; [exact H|subst; contradiction].
  Qed.

  (* ---- no duplicates, syntactically and as set partitions ---- *)
  Lemma add_to_each_length x p p' : In p' (add_to_each x p) -> length p' = length p.
  Proof.
    intro H. apply In_add_to_each in H. destruct H as [pre [b [post [-> ->]]]].
    rewrite !app_length. reflexivity.
  Qed.

  Lemma length_add_to_each x p : length (add_to_each x p) = length p.
  Proof. induction p as [|b p IH]; cbn; [reflexivity|]. rewrite map_length, IH. reflexivity. Qed.

  Lemma NoDup_add_to_each x p : NoDup (add_to_each x p).
  Proof.
    induction p as [|b p IH]; cbn; constructor.
    - intro H. apply in_map_iff in H. destruct H as [q0 [E _]]. injection E as E _.
      apply (f_equal (@length A)) in E. rewrite app_length in E. cbn in E. lia.
    - apply Injective_map_NoDup; [|exact IH]. intros u v E. injection E. auto.
  Qed.

  Lemma NoDup_extend x p : NoDup (extend x p).
  Proof.
    unfold extend. constructor; [|apply NoDup_add_to_each].
    intro H. apply add_to_each_length in H. rewrite app_length in H. cbn in H. lia.
  Qed.

  Lemma extend_inj x q p p' :
    NoDup (concat q) -> ~ In x (concat q) -> nonempty_blocks q ->
    In p (extend x q) -> In p' (extend x q) -> part_equiv p p' -> p = p'.
  Proof.
    intros Hnd Hx Hne Hp Hp' Heq. apply In_extend in Hp. apply In_extend in Hp'.
    destruct Hp as [->|[pre [blk [post [Eq ->]]]]]; destruct Hp' as [->|[pre' [blk' [post' [Eq' ->]]]]].
    - reflexivity.
    - exfalso. (* x is alone on the left, together with some y on the right *)
      assert (Hb : blk' <> []).
      { unfold nonempty_blocks in Hne. rewrite Forall_forall in Hne. apply Hne. subst. apply in_elt. }
      destruct blk' as [|y blk']; [congruence|].
      assert (H : same_block (pre' ++ ((y :: blk') ++ [x]) :: post') x y).
      { apply same_block_add. right. left. split; [reflexivity|left; reflexivity]. }
      apply Heq in H. apply same_block_new in H. destruct H as [H|[_ H]].
      + apply Hx. eapply same_block_In_l. exact H.
      + apply Hx. subst. apply In_concat_block. exists (x :: blk'). split; [apply in_elt|left; reflexivity].
    - exfalso.
      assert (Hb : blk <> []).
      { unfold nonempty_blocks in Hne. rewrite Forall_forall in Hne. apply Hne. subst. apply in_elt. }
      destruct blk as [|y blk]; [congruence|].
      assert (H : same_block (pre ++ ((y :: blk) ++ [x]) :: post) x y).
      { apply same_block_add. right. left. split; [reflexivity|left; reflexivity]. }
      apply Heq in H. apply same_block_new in H. destruct H as [H|[_ H]].
      + apply Hx. eapply same_block_In_l. exact H.
      + apply Hx. subst. apply In_concat_block. exists (x :: blk). split; [apply in_elt|left; reflexivity].
    - assert (Hb : blk <> []).
      { unfold nonempty_blocks in Hne. rewrite Forall_forall in Hne. apply Hne. subst. apply in_elt. }
      destruct blk as [|y blk]; [congruence|].
      assert (H : same_block (pre ++ ((y :: blk) ++ [x]) :: post) x y).
      { apply same_block_add. right. left. split; [reflexivity|left; reflexivity]. }
      apply Heq in H. apply same_block_add in H. rewrite <- Eq' in H.
      assert (Hy' : In y blk').
      { destruct H as [H|[[_ H]|[[_ H]|[_ H]]]].
        - exfalso. apply Hx. eapply same_block_In_l. exact H.
        - exact H.
        - exfalso. apply Hx. subst. apply In_concat_block. exists (x :: blk). split; [apply in_elt|left; reflexivity].
        - exfalso. apply Hx. subst. apply In_concat_block. exists (x :: blk). split; [apply in_elt|left; reflexivity]. }
      destruct (split_unique q pre (y :: blk) post pre' blk' post' y Hnd Eq Eq' (or_introl eq_refl) Hy') as [-> [<- ->]].
      reflexivity.
  Qed.

  Lemma raw_rev_nodup r :
    NoDup r ->
    NoDup (raw_rev r) /\
    (forall p p', In p (raw_rev r) -> In p' (raw_rev r) -> part_equiv p p' -> p = p').
  Proof.
    induction r as [|x r IH]; intro Hnd.
    - split; [repeat constructor; intros []|]. intros p p' [<-|[]] [<-|[]] _. reflexivity.
    - inversion Hnd as [|? ? Hx Hnd']; subst. destruct (IH Hnd') as [IH1 IH2].
      assert (Hfacts : forall q, In q (raw_rev r) ->
                NoDup (concat q) /\ ~ In x (concat q) /\ nonempty_blocks q /\ forall a, In a (concat q) -> a <> x).
      { intros q Hq. pose proof (raw_rev_is_partition r q Hq) as Hpart.
        assert (Hin : forall a, In a (concat q) <-> In a r).
        { intro a. rewrite (is_partition_In q (rev r) a Hpart). symmetry. apply in_rev. }
        split; [|split; [|split]].
        - destruct Hpart as [_ Hperm]. apply (Permutation_NoDup (Permutation_sym Hperm)). apply NoDup_rev. exact Hnd'.
        - rewrite Hin. exact Hx.
        - apply Hpart.
        - intros a Ha ->. apply Hx. apply Hin. exact Ha. }
      assert (Hrestrict : forall q q' p p', In q (raw_rev r) -> In q' (raw_rev r) ->
                 In p (extend x q) -> In p' (extend x q') -> part_equiv p p' -> q = q').
      { intros q q' p p' Hq Hq' Hp Hp' Heq. apply IH2; auto.
        destruct (Hfacts q Hq) as [_ [_ [_ Hqx]]]. destruct (Hfacts q' Hq') as [_ [_ [_ Hqx']]].
        intros a b. split; intro H.
        - assert (a <> x) by (apply Hqx; eapply same_block_In_l; exact H).
          assert (b <> x) by (apply Hqx; eapply same_block_In_r; exact H).
          apply (same_block_extend_other x q' p' a b); auto. apply Heq.
          apply (same_block_extend_other x q p a b); auto.
        - assert (a <> x) by (apply Hqx'; eapply same_block_In_l; exact H).
          assert (b <> x) by (apply Hqx'; eapply same_block_In_r; exact H).
          apply (same_block_extend_other x q p a b); auto. apply Heq.
          apply (same_block_extend_other x q' p' a b); auto. }
      split.
      + cbn [raw_rev]. apply NoDup_flat_map; [exact IH1| |].
        * intros q _. apply NoDup_extend.
        * intros q q' p Hq Hq' Hp Hp'. apply (Hrestrict q q' p p); auto. intros a b. reflexivity.
      + intros p p' Hp Hp' Heq. apply In_raw_cons in Hp. apply In_raw_cons in Hp'.
        destruct Hp as [q [Hq Hp]]. destruct Hp' as [q' [Hq' Hp']].
        assert (q = q') by (apply (Hrestrict q q' p p'); auto). subst q'.
        destruct (Hfacts q Hq) as [H1 [H2 [H3 _]]]. apply (extend_inj x q p p'); auto.
  Qed.

  (* ---- counting: Bell numbers ---- *)
  Definition cnt (k : nat) (L : list (list (list A))) : nat :=
    length (filter (fun p => length p =? k) L).

  Lemma cnt_app k L1 L2 : cnt k (L1 ++ L2) = cnt k L1 + cnt k L2.
  Proof. unfold cnt. rewrite filter_app, app_length. reflexivity. Qed.

  Lemma cnt_extend k x p :
    cnt k (extend x p) = (if S (length p) =? k then 1 else 0) + (if length p =? k then length p else 0).
  Proof.
    unfold cnt, extend. cbn [filter]. rewrite app_length. cbn [length]. rewrite Nat.add_1_r.
    assert (HF : length (filter (fun p0 => length p0 =? k) (add_to_each x p)) = if length p =? k then length p else 0).
    { rewrite (length_filter_const _ (length p =? k)).
      - rewrite length_add_to_each. reflexivity.
      - intros p' Hp'. rewrite (add_to_each_length x p p' Hp'). reflexivity. }
    destruct (S (length p) =? k); cbn [length]; rewrite HF; reflexivity.
  Qed.

  Lemma cnt_flat_map_extend k x L :
    cnt (S k) (flat_map (extend x) L) = cnt k L + S k * cnt (S k) L.
  Proof.
    induction L as [|p L IH]; cbn [flat_map]; [unfold cnt; cbn; lia|].
    rewrite cnt_app, IH, cnt_extend.
    change (p :: L) with ([p] ++ L). rewrite !cnt_app. unfold cnt at 3 5. cbn [filter].
    change (S (length p) =? S k) with (length p =? k).
    destruct (length p =? k) eqn:E1; destruct (length p =? S k) eqn:E2; cbn [length];
      try apply Nat.eqb_eq in E1; try apply Nat.eqb_eq in E2; try lia.
  Qed.

  Lemma cnt_flat_map_extend_0 x L : cnt 0 (flat_map (extend x) L) = 0.
  Proof.
    induction L as [|p L IH]; cbn [flat_map]; [reflexivity|].
    rewrite cnt_app, IH, cnt_extend. cbn. destruct (length p) eqn:E; reflexivity.
  Qed.

  Lemma cnt_raw_rev r k : cnt k (raw_rev r) = stirling2 (length r) k.
  Proof.
    revert k. induction r as [|x r IH]; intro k.
    - destruct k; reflexivity.
    - cbn [raw_rev length]. destruct k.
      + rewrite cnt_flat_map_extend_0. reflexivity.
      + rewrite cnt_flat_map_extend, !IH. reflexivity.
  Qed.

  Lemma length_as_sum n (L : list (list (list A))) :
    (forall p, In p L -> length p <= n) -> length L = sumf (fun k => cnt k L) (S n).
  Proof.
    induction L as [|p L IH]; intro H.
    - unfold cnt. cbn [filter length]. clear. induction (S n) as [|m IHm]; [reflexivity|]. rewrite sumf_S, <- IHm. reflexivity.
    - cbn [length]. rewrite IH by (intros; apply H; right; assumption).
      transitivity (sumf (fun k => (if length p =? k then 1 else 0) + cnt k L) (S n)).
      + rewrite sumf_add, sumf_indicator.
        assert (length p <? S n = true) by (apply Nat.ltb_lt; specialize (H p (or_introl eq_refl)); lia).
        rewrite H0. reflexivity.
      + apply sumf_ext. intros k _. change (p :: L) with ([p] ++ L). rewrite cnt_app. unfold cnt at 2. cbn [filter].
        destruct (length p =? k); reflexivity.
  Qed.

  Lemma nonempty_blocks_length p : nonempty_blocks p -> length p <= length (concat p).
  Proof.
    induction 1 as [|b p Hb _ IH]; cbn; [lia|]. rewrite app_length. destruct b; [congruence|cbn; lia].
  Qed.

  Lemma length_raw_rev r : length (raw_rev r) = bell (length r).
  Proof.
    rewrite (length_as_sum (length r)).
    - unfold bell, sumf. f_equal. apply map_ext. intro k. apply cnt_raw_rev.
    - intros p Hp. destruct (raw_rev_is_partition r p Hp) as [Hne Hperm].
      pose proof (nonempty_blocks_length p Hne). apply Permutation_length in Hperm. rewrite rev_length in Hperm. lia.
  Qed.

  (* ---- transfer through the two sorts ---- *)
  Variable cmp : A -> A -> comparison.

  Lemma shortlexsorted_perm p : Permutation (shortlexsorted cmp p) p.
  Proof. apply py_sorted_perm. Qed.

  Lemma same_block_perm p q a b : Permutation p q -> same_block p a b -> same_block q a b.
  Proof. intros H [blk [H1 H2]]. exists blk. split; [eapply Permutation_in; eassumption|exact H2]. Qed.

  Lemma shortlexsorted_equiv p : part_equiv (shortlexsorted cmp p) p.
  Proof.
    intros a b. split; apply same_block_perm; [apply shortlexsorted_perm|apply Permutation_sym, shortlexsorted_perm].
  Qed.

  Lemma In_partitions l p :
    In p (partitions cmp l) <-> exists q, In q (raw_rev (rev l)) /\ p = shortlexsorted cmp q.
  Proof.
    unfold partitions, raw_partitions. rewrite py_sorted_In, in_map_iff. split; intros [q [H1 H2]]; exists q; auto.
  Qed.

  Lemma partitions_are_partitions_lemma l p : In p (partitions cmp l) -> is_partition p l.
  Proof.
    intro H. apply In_partitions in H. destruct H as [q [Hq ->]].
    destruct (raw_rev_is_partition _ _ Hq) as [Hne Hperm]. rewrite rev_involutive in Hperm. split.
    - unfold nonempty_blocks in *. rewrite Forall_forall in *. intros b Hb. apply Hne.
      eapply Permutation_in; [apply shortlexsorted_perm|exact Hb].
    - etransitivity; [apply Permutation_concat, shortlexsorted_perm|exact Hperm].
  Qed.

  Lemma partitions_complete_lemma l (R : A -> A -> bool) :
    NoDup l -> equiv_on l R -> exists p, In p (partitions cmp l) /\ represents p l R.
  Proof.
    intros Hnd [H1 [H2 H3]].
    destruct (raw_rev_complete R (rev l)) as [q [Hq Hrep]].
    - apply NoDup_rev. exact Hnd.
    - split; [|split].
      + intros a Ha. apply H1. apply in_rev. exact Ha.
      + intros a b Ha Hb. apply H2; apply in_rev; assumption.
      + intros a b c Ha Hb Hc. apply H3; apply in_rev; assumption.
    - exists (shortlexsorted cmp q). split; [apply In_partitions; exists q; auto|].
      intros a b Ha Hb. rewrite (shortlexsorted_equiv q a b). apply Hrep; apply -> in_rev; assumption.
  Qed.

  Lemma partitions_nodup_lemma l :
    NoDup l ->
    NoDup (partitions cmp l) /\
    (forall p p', In p (partitions cmp l) -> In p' (partitions cmp l) -> part_equiv p p' -> p = p').
  Proof.
    intro Hnd. destruct (raw_rev_nodup (rev l) (NoDup_rev Hnd)) as [N1 N2].
    assert (Hinj : forall q q', In q (raw_rev (rev l)) -> In q' (raw_rev (rev l)) ->
                     part_equiv (shortlexsorted cmp q) (shortlexsorted cmp q') -> q = q').
    { intros q q' Hq Hq' Heq. apply N2; auto. intros a b.
      rewrite <- (shortlexsorted_equiv q a b), <- (shortlexsorted_equiv q' a b). apply Heq. }
    split.
    - unfold partitions, raw_partitions. eapply Permutation_NoDup; [apply Permutation_sym, py_sorted_perm|].
      apply NoDup_map_inj_in; [exact N1|]. intros q q' Hq Hq' E. apply Hinj; auto. rewrite E. intros a b. reflexivity.
    - intros p p' Hp Hp' Heq. apply In_partitions in Hp. apply In_partitions in Hp'.
      destruct Hp as [q [Hq ->]]. destruct Hp' as [q' [Hq' ->]]. f_equal. apply Hinj; auto.
  Qed.

  Lemma partitions_count_lemma l : length (partitions cmp l) = bell (length l).
  Proof.
    unfold partitions, raw_partitions. rewrite (Permutation_length (py_sorted_perm _ _)), map_length, length_raw_rev, rev_length.
    reflexivity.
  Qed.

  (* a given partition (as a block list) is found, when membership in it is decidable *)
  Lemma partitions_complete_given (eq_dec : forall a b : A, {a = b} + {a <> b}) l p0 :
    NoDup l -> is_partition p0 l ->
    exists p, In p (partitions cmp l) /\ part_equiv p p0.
  Proof.
    intros Hnd [Hne Hperm].
    set (R := fun a b => existsb (fun blk => if in_dec eq_dec a blk then if in_dec eq_dec b blk then true else false else false) p0).
    assert (HR : forall a b, R a b = true <-> same_block p0 a b).
    { intros a b. unfold R. rewrite existsb_exists. split.
      - intros [blk [H1 H2]]. exists blk. destruct (in_dec eq_dec a blk); [|discriminate].
        destruct (in_dec eq_dec b blk); [|discriminate]. auto.
      - intros [blk [H1 [H2 H3]]]. exists blk. split; [exact H1|].
        destruct (in_dec eq_dec a blk); [|contradiction]. destruct (in_dec eq_dec b blk); [reflexivity|contradiction]. }
    assert (Hndp : NoDup (concat p0)) by (apply (Permutation_NoDup (Permutation_sym Hperm)); exact Hnd).
    assert (Hinl : forall a, In a l <-> In a (concat p0)).
    { intro a. split; apply Permutation_in; [apply Permutation_sym; exact Hperm|exact Hperm]. }
    destruct (partitions_complete_lemma l R Hnd) as [p [Hp Hrep]].
    - split; [|split].
      + intros a Ha. apply HR. apply Hinl in Ha. apply In_concat_block in Ha. destruct Ha as [blk [H1 H2]]. exists blk. auto.
      + intros a b _ _. destruct (R a b) eqn:E1; destruct (R b a) eqn:E2; try reflexivity.
        * apply HR in E1. destruct E1 as [blk [H1 [H2 H3]]]. assert (R b a = true) by (apply HR; exists blk; auto). congruence.
        * apply HR in E2. destruct E2 as [blk [H1 [H2 H3]]]. assert (R a b = true) by (apply HR; exists blk; auto). congruence.
      + intros a b c _ _ _ Hab Hbc. apply HR in Hab. apply HR in Hbc. apply HR.
        destruct Hab as [b1 [H1 [H2 H3]]]. destruct Hbc as [b2 [H4 [H5 H6]]].
        assert (b1 = b2) by (apply (blocks_disjoint p0 b1 b2 b); auto). subst. exists b2. auto.
    - exists p. split; [exact Hp|]. intros a b.
      pose proof (partitions_are_partitions_lemma l p Hp) as Hpp.
      split; intro H.
      + assert (Ha : In a l) by (apply (is_partition_In p l a Hpp); eapply same_block_In_l; exact H).
        assert (Hb : In b l) by (apply (is_partition_In p l b Hpp); eapply same_block_In_r; exact H).
        apply HR. apply (Hrep a b Ha Hb). exact H.
      + assert (Ha : In a l) by (apply Hinl; eapply same_block_In_l; exact H).
        assert (Hb : In b l) by (apply Hinl; eapply same_block_In_r; exact H).
        apply (Hrep a b Ha Hb). apply HR. exact H.
  Qed.
End PartProofs.

(* ---------------------------------------------------------------- subsets *)
Section SubsetProofs.
  Variable A : Type.
  Implicit Types (s l : list A).

  Lemma Subseq_nil_l l : Subseq [] l.
  Proof. induction l; constructor; assumption. Qed.

  Lemma Subseq_nil_r s : Subseq s [] -> s = [].
  Proof. inversion 1. reflexivity. Qed.

  Lemma Subseq_In s l x : Subseq s l -> In x s -> In x l.
  Proof.
    induction 1 as [|s y l Hs IH|s y l Hs IH]; intro Hin; [exact Hin|right; auto|].
    destruct Hin as [<-|Hin]; [left; reflexivity|right; auto].
  Qed.

  Lemma Subseq_length s l : Subseq s l -> length s <= length l.
  Proof. induction 1; cbn; lia. Qed.

  Lemma Subseq_NoDup s l : Subseq s l -> NoDup l -> NoDup s.
  Proof.
    induction 1 as [|s x l Hs IH|s x l Hs IH]; intro Hnd; [constructor| |]; inversion Hnd as [|? ? Hx Hnd']; subst; auto.
    constructor; auto. intro Hin. apply Hx. eapply Subseq_In; eassumption.
  Qed.

  Lemma combinations_0 l : combinations l 0 = [[]].
  Proof. destruct l; reflexivity. Qed.

  Lemma combinations_spec l : forall r s, In s (combinations l r) <-> Subseq s l /\ length s = r.
  Proof.
    induction l as [|x l IH]; intros r s.
    - destruct r; cbn.
      + split.
        * intros [<-|[]]. split; [constructor|reflexivity].
        * intros [H _]. apply Subseq_nil_r in H. auto.
      + split; [contradiction|]. intros [H E]. apply Subseq_nil_r in H. subst. discriminate.
    - destruct r.
      + rewrite combinations_0. cbn. split.
        * intros [<-|[]]. split; [apply Subseq_nil_l|reflexivity].
        * intros [_ E]. destruct s; [auto|discriminate].
      + cbn [combinations]. rewrite in_app_iff, in_map_iff. split.
        * intros [[s' [<- Hs']]|H].
          -- apply IH in Hs'. destruct Hs' as [H1 H2]. split; [constructor; exact H1|cbn; lia].
          -- apply IH in H. destruct H as [H1 H2]. split; [constructor; exact H1|exact H2].
        * intros [H E]. inversion H; subst.
          -- right. apply IH. auto.
          -- left. exists s0. split; [reflexivity|]. apply IH. cbn in E. split; [assumption|lia].
  Qed.

  Lemma combinations_nodup l : NoDup l -> forall r, NoDup (combinations l r).
  Proof.
    induction l as [|x l IH]; intros Hnd r.
    - destruct r; cbn; repeat constructor. intros [].
    - inversion Hnd as [|? ? Hx Hnd']; subst. destruct r.
      + rewrite combinations_0. repeat constructor. intros [].
      + cbn [combinations]. apply NoDup_app_intro.
        * apply Injective_map_NoDup; [|apply IH; exact Hnd']. intros u v E. injection E. auto.
        * apply IH. exact Hnd'.
        * intros s H1 H2. apply in_map_iff in H1. destruct H1 as [s' [<- _]].
          apply combinations_spec in H2. destruct H2 as [H2 _]. apply Hx. eapply Subseq_In; [exact H2|left; reflexivity].
  Qed.

  Lemma combinations_length l : forall r, length (combinations l r) = binom (length l) r.
  Proof.
    induction l as [|x l IH]; intro r; destruct r; try reflexivity.
    cbn [combinations length binom]. rewrite app_length, map_length, !IH. reflexivity.
  Qed.

  Lemma In_size_range mn mx k :
    In k (size_range mn mx) <-> mn <= k /\ (Z.of_nat k <= mx)%Z.
  Proof. unfold size_range. rewrite in_seq. lia. Qed.

  Lemma subsets_spec l mn mx s :
    In s (subsets l mn mx) <->
    Subseq s l /\ mn <= length s /\ (Z.of_nat (length s) <= eff_max (length l) mx)%Z.
  Proof.
    unfold subsets. rewrite in_flat_map. split.
    - intros [k [Hk Hs]]. apply In_size_range in Hk. apply combinations_spec in Hs. destruct Hs as [H1 <-]. tauto.
    - intros [H1 [H2 H3]]. exists (length s). split; [apply In_size_range; auto|apply combinations_spec; auto].
  Qed.

  Lemma subsets_nodup l mn mx : NoDup l -> NoDup (subsets l mn mx).
  Proof.
    intro Hnd. unfold subsets. apply NoDup_flat_map.
    - apply seq_NoDup.
    - intros k _. apply combinations_nodup. exact Hnd.
    - intros a b s _ _ Ha Hb. apply combinations_spec in Ha. apply combinations_spec in Hb. lia.
  Qed.

  Lemma length_flat_map {X Y} (f : X -> list Y) (l : list X) :
    length (flat_map f l) = fold_right Nat.add 0 (map (fun x => length (f x)) l).
  Proof. induction l as [|a l IH]; cbn; [reflexivity|]. rewrite app_length, IH. reflexivity. Qed.

  Lemma subsets_length l mn mx :
    length (subsets l mn mx) =
    fold_right Nat.add 0 (map (binom (length l)) (size_range mn (eff_max (length l) mx))).
  Proof.
    unfold subsets. rewrite length_flat_map. f_equal. apply map_ext. intro k. apply combinations_length.
  Qed.

  Lemma binom_gt n : forall k, n < k -> binom n k = 0.
  Proof.
    induction n as [|n IH]; intros k H; destruct k; try lia; [reflexivity|].
    cbn [binom]. rewrite !IH by lia. reflexivity.
  Qed.

  Lemma sumf_binom_S n m : sumf (binom (S n)) (S m) = sumf (binom n) (S m) + sumf (binom n) m.
  Proof.
    induction m as [|m IH]; [unfold sumf; cbn; destruct n; reflexivity|].
    rewrite (sumf_S _ (S m)), IH, (sumf_S (binom n) (S m)), (sumf_S (binom n) m). cbn [binom]. lia.
  Qed.

  Lemma sumf_binom_pow n : sumf (binom n) (S n) = 2 ^ n.
  Proof.
    induction n as [|n IH]; [reflexivity|].
    rewrite sumf_binom_S, (sumf_S _ (S n)), IH, binom_gt by lia. cbn [Nat.pow]. lia.
  Qed.

  Lemma non_empty_subsets_length l : length (non_empty_subsets l) = 2 ^ length l - 1.
  Proof.
    unfold non_empty_subsets. rewrite subsets_length. unfold eff_max, size_range. cbn [Z.ltb Z.compare].
    replace (Z.to_nat (Z.of_nat (length l) + -1 + 1 + 1) - 1) with (length l) by lia.
    rewrite <- sumf_binom_pow. unfold sumf. cbn [seq map fold_right].
    replace (binom (length l) 0) with 1 by (destruct (length l); reflexivity). lia.
  Qed.

  (* every duplicate-free sub-list of l (a subset, in any order) has exactly one listed arrangement *)
  Lemma subset_has_subseq (eq_dec : forall a b : A, {a = b} + {a <> b}) l s :
    NoDup l -> NoDup s -> incl s l -> exists s', Subseq s' l /\ Permutation s s'.
  Proof.
    intros Hl Hs Hincl. exists (filter (fun a => if in_dec eq_dec a s then true else false) l). split.
    - clear. induction l as [|x l IH]; cbn; [constructor|]. destruct (in_dec eq_dec x s); constructor; exact IH.
    - apply NoDup_Permutation; [exact Hs|apply NoDup_filter; exact Hl|].
      intro a. rewrite filter_In. split.
      + intro Ha. split; [apply Hincl; exact Ha|]. destruct (in_dec eq_dec a s); [reflexivity|contradiction].
      + intros [_ Ha]. destruct (in_dec eq_dec a s); [assumption|discriminate].
  Qed.
End SubsetProofs.

(* ---------------------------------------------------------------- all_combinations *)
Section ComboProofs.
  Variables K C : Type.
  Variable cat : K -> C.
  Variable ceqb : C -> C -> bool.
  Hypothesis ceqb_spec : forall a b, ceqb a b = true <-> a = b.

  Definition group_ok (ck : C * list K) : Prop :=
    snd ck <> [] /\ Forall (fun k => cat k = fst ck) (snd ck).
  Definition ginv (g : list (C * list K)) : Prop := NoDup (map fst g) /\ Forall group_ok g.

  Lemma ginsert_fst k g c : In c (map fst (ginsert cat ceqb k g)) <-> c = cat k \/ In c (map fst g).
  Proof.
    induction g as [|[c0 ks] g IH]; cbn.
    - intuition.
    - destruct (ceqb c0 (cat k)) eqn:E; cbn.
      + apply ceqb_spec in E. subst. intuition.
      + rewrite IH. intuition.
  Qed.

  Lemma ginsert_inv k g : ginv g -> ginv (ginsert cat ceqb k g).
  Proof.
    intros [Hnd Hok]. induction g as [|[c0 ks] g IH]; cbn.
    - split; [repeat constructor; intros []|]. constructor; [|constructor]. split; cbn; [discriminate|repeat constructor].
    - cbn in Hnd. inversion Hnd as [|? ? Hc0 Hnd']; subst. inversion Hok as [|? ? [Hne Hcat] Hok']; subst. cbn in *.
      destruct (ceqb c0 (cat k)) eqn:E.
      + apply ceqb_spec in E. split; cbn; [constructor; assumption|]. constructor; [|assumption]. split; cbn.
        * destruct ks; discriminate.
        * apply Forall_app. split; [assumption|]. constructor; [symmetry; exact E|constructor].
      + destruct (IH Hnd' Hok') as [I1 I2]. split; cbn.
        * constructor; [|exact I1]. rewrite ginsert_fst. intros [H|H]; [|contradiction].
          subst. assert (ceqb (cat k) (cat k) = true) by (apply ceqb_spec; reflexivity). congruence.
        * constructor; [split; assumption|exact I2].
  Qed.

  Lemma ginsert_perm k g : Permutation (concat (map snd (ginsert cat ceqb k g))) (k :: concat (map snd g)).
  Proof.
    induction g as [|[c0 ks] g IH]; cbn; [reflexivity|].
    destruct (ceqb c0 (cat k)); cbn.
    - rewrite <- app_assoc. cbn. symmetry. apply Permutation_middle.
    - etransitivity; [apply Permutation_app_head; exact IH|]. symmetry. apply Permutation_middle.
  Qed.

  Lemma fold_ginsert_spec keys : forall g, ginv g ->
    ginv (fold_left (fun g k => ginsert cat ceqb k g) keys g) /\
    Permutation (concat (map snd (fold_left (fun g k => ginsert cat ceqb k g) keys g))) (concat (map snd g) ++ keys).
  Proof.
    induction keys as [|k keys IH]; intros g Hg; cbn.
    - split; [exact Hg|]. rewrite app_nil_r. reflexivity.
    - destruct (IH (ginsert cat ceqb k g) (ginsert_inv k g Hg)) as [I1 I2]. split; [exact I1|].
      etransitivity; [exact I2|]. etransitivity; [apply Permutation_app_tail, ginsert_perm|].
      cbn. apply Permutation_middle.
  Qed.

  Lemma grouped_assoc_inv keys : ginv (grouped_assoc cat ceqb keys).
  Proof. apply fold_ginsert_spec. split; constructor. Qed.

  Lemma grouped_perm keys : Permutation (concat (grouped cat ceqb keys)) keys.
  Proof.
    unfold grouped, grouped_assoc. destruct (fold_ginsert_spec keys []) as [_ H]; [split; constructor|exact H].
  Qed.

  (* ---- itertools.product ---- *)
  Lemma In_product {X} (ls : list (list X)) : forall t, In t (product ls) <-> Forall2 (fun x l => In x l) t ls.
  Proof.
    induction ls as [|l ls IH]; intro t; cbn.
    - split; [intros [<-|[]]; constructor|]. inversion 1. auto.
    - rewrite in_flat_map. split.
      + intros [x [Hx Ht]]. apply in_map_iff in Ht. destruct Ht as [t' [<- Ht']]. constructor; [exact Hx|apply IH; exact Ht'].
      + inversion 1 as [|x ? t' ? Hx Ht']; subst. exists x. split; [exact Hx|]. apply in_map_iff. exists t'. split; [reflexivity|apply IH; exact Ht'].
  Qed.

  Lemma product_nodup {X} (ls : list (list X)) : Forall (@NoDup X) ls -> NoDup (product ls).
  Proof.
    induction 1 as [|l ls Hl _ IH]; cbn; [repeat constructor; intros []|].
    apply NoDup_flat_map; [exact Hl| |].
    - intros x _. apply Injective_map_NoDup; [|exact IH]. intros u v E. injection E. auto.
    - intros a b t _ _ Ha Hb. apply in_map_iff in Ha. apply in_map_iff in Hb.
      destruct Ha as [u [<- _]]. destruct Hb as [v [E _]]. injection E. auto.
  Qed.

  Lemma product_length {X} (ls : list (list X)) :
    length (product ls) = fold_right Nat.mul 1 (map (@length X) ls).
  Proof.
    induction ls as [|l ls IH]; cbn; [reflexivity|]. rewrite <- IH. clear IH.
    induction l as [|x l IHl]; cbn; [reflexivity|]. rewrite app_length, map_length, IHl. reflexivity.
  Qed.

  (* ---- choices aligned with the groups ---- *)
  Definition optg (g : list K) : list (option K) := None :: map Some g.
  Definition aligned (t : list (option K)) (G : list (C * list K)) : Prop :=
    Forall2 (fun o ck => In o (optg (snd ck))) t G.

  Lemma Subseq_app_skip (a s l : list K) : Subseq s l -> Subseq s (a ++ l).
  Proof. intro H. induction a; cbn; [exact H|constructor; exact IHa]. Qed.

  Lemma Subseq_single_app (a : list K) k s l : In k a -> Subseq s l -> Subseq (k :: s) (a ++ l).
  Proof.
    intros Hk H. induction a as [|x a IH]; [contradiction|]. cbn. destruct Hk as [->|Hk].
    - apply Subseq_take. apply Subseq_app_skip. exact H.
    - apply Subseq_skip. apply IH. exact Hk.
  Qed.

  Lemma Subseq_app_inv (a b c : list K) :
    Subseq c (a ++ b) -> exists c1 c2, c = c1 ++ c2 /\ Subseq c1 a /\ Subseq c2 b.
  Proof.
    revert c. induction a as [|x a IH]; intros c H; cbn in H.
    - exists [], c. split; [reflexivity|]. split; [constructor|exact H].
    - inversion H as [|s ? ? Hs|s ? ? Hs]; subst.
      + destruct (IH c Hs) as [c1 [c2 [-> [H1 H2]]]]. exists c1, c2. split; [reflexivity|]. split; [apply Subseq_skip; exact H1|exact H2].
      + destruct (IH s Hs) as [c1 [c2 [-> [H1 H2]]]]. exists (x :: c1), c2. split; [reflexivity|]. split; [apply Subseq_take; exact H1|exact H2].
  Qed.

  Lemma aligned_sound t G :
    ginv G -> aligned t G ->
    Subseq (somes t) (concat (map snd G)) /\ NoDup (map cat (somes t)) /\
    (forall k, In k (somes t) -> In (cat k) (map fst G)).
  Proof.
    intros Hinv Hal. revert Hinv. induction Hal as [|o [c g] t G Ho Hal IH]; intros [Hnd Hok].
    - cbn. split; [constructor|]. split; [constructor|]. intros k [].
    - cbn in Hnd. inversion Hnd as [|? ? Hc Hnd']; subst. inversion Hok as [|? ? [Hne Hcat] Hok']; subst. cbn in *.
      destruct (IH (conj Hnd' Hok')) as [I1 [I2 I3]].
      destruct Ho as [<-|Ho].
      + cbn. split; [apply Subseq_app_skip; exact I1|]. split; [exact I2|]. intros k Hk. right. apply I3. exact Hk.
      + apply in_map_iff in Ho. destruct Ho as [k0 [<- Hk0]]. cbn.
        assert (Ek0 : cat k0 = c) by (rewrite Forall_forall in Hcat; apply Hcat; exact Hk0).
        split; [apply Subseq_single_app; assumption|]. split.
        * constructor; [|exact I2]. intro Hin. apply in_map_iff in Hin. destruct Hin as [k1 [E1 Hk1]].
          apply Hc. rewrite <- Ek0, <- E1. apply I3. exact Hk1.
        * intros k [<-|Hk]; [left; symmetry; exact Ek0|right; apply I3; exact Hk].
  Qed.

  Lemma aligned_complete G : ginv G -> forall c,
    Subseq c (concat (map snd G)) -> NoDup (map cat c) -> exists t, aligned t G /\ somes t = c.
  Proof.
    induction G as [|[c0 g] G IH]; intros [Hnd Hok] c Hsub Hc.
    - cbn in Hsub. apply Subseq_nil_r in Hsub. subst. exists []. split; [constructor|reflexivity].
    - cbn in Hnd. inversion Hnd as [|? ? Hc0 Hnd']; subst. inversion Hok as [|? ? [Hne Hcat] Hok']; subst. cbn in *.
      destruct (Subseq_app_inv g _ c Hsub) as [c1 [c2 [-> [H1 H2]]]].
      rewrite map_app in Hc. pose proof (NoDup_app_r _ _ Hc) as Hc2.
      destruct (IH (conj Hnd' Hok') c2 H2 Hc2) as [t [Ht Et]].
      destruct c1 as [|k1 [|k2 c1]].
      + exists (None :: t). split; [constructor; [left; reflexivity|exact Ht]|exact Et].
      + exists (Some k1 :: t). split.
        * constructor; [|exact Ht]. right. apply in_map. eapply Subseq_In; [exact H1|left; reflexivity].
        * cbn. rewrite Et. reflexivity.
      + exfalso. rewrite Forall_forall in Hcat.
        assert (E1 : cat k1 = c0) by (apply Hcat; eapply Subseq_In; [exact H1|left; reflexivity]).
        assert (E2 : cat k2 = c0) by (apply Hcat; eapply Subseq_In; [exact H1|right; left; reflexivity]).
        cbn in Hc. inversion Hc as [|? ? Hn _]; subst. apply Hn. left. congruence.
  Qed.

  Lemma aligned_somes_inj G : ginv G -> forall t t', aligned t G -> aligned t' G -> somes t = somes t' -> t = t'.
  Proof.
    induction G as [|[c0 g] G IH]; intros [Hnd Hok] t t' Ht Ht' E.
    - inversion Ht. inversion Ht'. reflexivity.
    - inversion Ht as [|o ? t1 ? Ho Ht1]; subst. inversion Ht' as [|o' ? t1' ? Ho' Ht1']; subst.
      cbn in Hnd. inversion Hnd as [|? ? Hc0 Hnd']; subst. inversion Hok as [|? ? [Hne Hcat] Hok']; subst. cbn in *.
      rewrite Forall_forall in Hcat.
      assert (Hlater : forall u, aligned u G -> forall k, In k g -> ~ In k (somes u)).
      { intros u Hu k Hk Hin. destruct (aligned_sound u G (conj Hnd' Hok') Hu) as [_ [_ H3]].
        apply Hc0. rewrite <- (Hcat k Hk). apply H3. exact Hin. }
      destruct Ho as [<-|Ho]; destruct Ho' as [<-|Ho']; cbn in E.
      + f_equal. apply IH; auto. split; assumption.
      + apply in_map_iff in Ho'. destruct Ho' as [k [<- Hk]]. cbn in E. exfalso.
        apply (Hlater t1 Ht1 k Hk). rewrite E. left. reflexivity.
      + apply in_map_iff in Ho. destruct Ho as [k [<- Hk]]. cbn in E. exfalso.
        apply (Hlater t1' Ht1' k Hk). rewrite <- E. left. reflexivity.
      + apply in_map_iff in Ho. destruct Ho as [k [<- Hk]]. apply in_map_iff in Ho'. destruct Ho' as [k' [<- Hk']].
        cbn in E. injection E as -> E. f_equal. apply IH; auto. split; assumption.
  Qed.

  Lemma nonempty_true {X} (l : list X) : nonempty l = true <-> l <> [].
  Proof. destruct l; cbn; split; congruence. Qed.

  Lemma In_all_combinations keys c :
    In c (all_combinations cat ceqb keys) <->
    c <> [] /\ Subseq c (concat (grouped cat ceqb keys)) /\ NoDup (map cat c).
  Proof.
    unfold all_combinations, grouped. rewrite filter_In, nonempty_true, in_map_iff.
    pose proof (grouped_assoc_inv keys) as Hinv. set (G := grouped_assoc cat ceqb keys) in *.
    assert (Hal : forall t, In t (product (map (fun g => None :: map Some g) (map snd G))) <-> aligned t G).
    { intro t. rewrite In_product. unfold aligned. rewrite map_map. clear. generalize G. clear G. intro G. split.
      - revert t. induction G as [|ck G IH]; intros t H; inversion H; subst; constructor; auto.
      - revert t. induction G as [|ck G IH]; intros t H; inversion H; subst; constructor; auto. }
    split.
    - intros [[t [<- Ht]] Hne]. apply Hal in Ht. destruct (aligned_sound t G Hinv Ht) as [H1 [H2 _]]. auto.
    - intros [Hne [H1 H2]]. destruct (aligned_complete G Hinv c H1 H2) as [t [Ht <-]].
      split; [|exact Hne]. exists t. split; [reflexivity|apply Hal; exact Ht].
  Qed.

  Lemma all_combinations_nodup keys : NoDup keys -> NoDup (all_combinations cat ceqb keys).
  Proof.
    intro Hnd. unfold all_combinations, grouped. apply NoDup_filter.
    pose proof (grouped_assoc_inv keys) as Hinv.
    pose proof (grouped_perm keys) as Hperm. unfold grouped in Hperm. set (G := grouped_assoc cat ceqb keys) in *.
    assert (Hndc : NoDup (concat (map snd G))) by (apply (Permutation_NoDup (Permutation_sym Hperm)); exact Hnd).
    assert (Hal : forall t, In t (product (map (fun g => None :: map Some g) (map snd G))) -> aligned t G).
    { intro t. rewrite In_product. unfold aligned. rewrite map_map. clear. generalize G. clear G. intro G.
      revert t. induction G as [|ck G IH]; intros t H; inversion H; subst; constructor; auto. }
    apply NoDup_map_inj_in.
    - apply product_nodup. rewrite Forall_forall. intros l Hl. apply in_map_iff in Hl. destruct Hl as [g [<- Hg]].
      assert (NoDup g).
      { clear - Hndc Hg. induction (map snd G) as [|g0 GG IH]; [contradiction|]. cbn in Hndc. destruct Hg as [->|Hg].
        - eapply NoDup_app_l. exact Hndc.
        - apply IH; [eapply NoDup_app_r; exact Hndc|exact Hg]. }
      constructor.
      + intro Hin. apply in_map_iff in Hin. destruct Hin as [? [? _]]. discriminate.
      + apply Injective_map_NoDup; [|assumption]. intros u v E. injection E. auto.
    - intros t t' Ht Ht' E. apply (aligned_somes_inj G Hinv); auto.
  Qed.

  Lemma product_opt_length (Gs : list (list K)) :
    length (product (map (fun g => None :: map Some g) Gs)) = fold_right Nat.mul 1 (map (fun g => S (length g)) Gs).
  Proof.
    rewrite product_length, map_map. f_equal. apply map_ext. intro g. cbn [length]. rewrite map_length. reflexivity.
  Qed.

  Lemma filter_somes_cons_some (k : K) (P : list (list (option K))) :
    length (filter nonempty (map somes (map (cons (Some k)) P))) = length P.
  Proof.
    rewrite (length_filter_const _ true).
    - rewrite !map_length. reflexivity.
    - intros y Hy. apply in_map_iff in Hy. destruct Hy as [t [<- Ht]]. apply in_map_iff in Ht. destruct Ht as [u [<- _]]. reflexivity.
  Qed.

  Lemma filter_somes_cons_none (P : list (list (option K))) :
    filter nonempty (map somes (map (cons None) P)) = filter nonempty (map somes P).
  Proof. rewrite map_map. reflexivity. Qed.

  Lemma all_combinations_count_aux (Gs : list (list K)) :
    S (length (filter nonempty (map somes (product (map (fun g => None :: map Some g) Gs))))) =
    length (product (map (fun g => None :: map Some g) Gs)).
  Proof.
    induction Gs as [|g Gs IH]; [reflexivity|].
    cbn [map product flat_map]. set (P := product (map (fun g0 => None :: map Some g0) Gs)) in *.
    rewrite map_app, filter_app, !app_length, filter_somes_cons_none, map_length.
    assert (Hrest : forall gs : list K,
      length (filter nonempty (map somes (flat_map (fun x => map (cons x) P) (map Some gs)))) =
      length (flat_map (fun x => map (cons x) P) (map Some gs))).
    { induction gs as [|k gs IHg]; [reflexivity|]. cbn [map flat_map].
      rewrite map_app, filter_app, !app_length, IHg, filter_somes_cons_some, map_length. reflexivity. }
    rewrite Hrest. lia.
  Qed.

  Lemma all_combinations_count keys :
    S (length (all_combinations cat ceqb keys)) =
    fold_right Nat.mul 1 (map (fun g => S (length g)) (grouped cat ceqb keys)).
  Proof. unfold all_combinations. rewrite all_combinations_count_aux. apply product_opt_length. Qed.

  Lemma combine_fst_snd {X Y} (a : list X) (b : list Y) :
    length a = length b -> map fst (combine a b) = a /\ map snd (combine a b) = b.
  Proof.
    revert b. induction a as [|x a IH]; intros [|y b] E; cbn in *; try discriminate; [auto|].
    destruct (IH b) as [H1 H2]; [lia|]. rewrite H1, H2. auto.
  Qed.

  Lemma grouped_is_grouping_lemma keys :
    Permutation (concat (grouped cat ceqb keys)) keys /\ ginv (grouped_assoc cat ceqb keys).
  Proof. split; [apply grouped_perm | apply grouped_assoc_inv]. Qed.

  Lemma exhaustive_names keys :
    map fst (exhaustive cat ceqb keys) = seq 1 (length (all_combinations cat ceqb keys)) /\
    map snd (exhaustive cat ceqb keys) = all_combinations cat ceqb keys.
  Proof. unfold exhaustive. apply combine_fst_snd. apply seq_length. Qed.
End ComboProofs.

(* ---------------------------------------------------------------- exhaustive(): zip(combo, list of functions) *)
Lemma combine_self_aligned {K} (c : list K) : Forall (fun kf => fst kf = snd kf) (combine c c).
Proof. induction c as [|k c IH]; cbn; constructor; auto. Qed.

Lemma exhaustive_pairs_aligned {K C} (cat : K -> C) (ceqb : C -> C -> bool) (keys : list K) :
  forall pairs, In pairs (exhaustive_pairs cat ceqb keys) ->
    Forall (fun kf => fst kf = snd kf) pairs /\ In (map fst pairs) (all_combinations cat ceqb keys).
Proof.
  intros pairs Hin. unfold exhaustive_pairs in Hin. apply in_map_iff in Hin. destruct Hin as [combo [<- Hc]].
  split; [apply combine_self_aligned|].
  destruct (combine_fst_snd combo combo eq_refl) as [E _]. rewrite E. exact Hc.
Qed.

(* ---------------------------------------------------------------- py_sorted sorts *)
Section SortSorted.
  Context {X : Type} (lt : X -> X -> bool).
  (* the key order is asymmetric: key(a) < key(b) excludes key(b) < key(a) *)
  Hypothesis lt_asym : forall a b, lt a b = true -> lt b a = false.
  (* "not descending": the later element's key is not smaller *)
  Definition ndesc (a b : X) : Prop := lt b a = false.

  Lemma merge_sorted a : forall b,
    LocallySorted ndesc a -> LocallySorted ndesc b -> LocallySorted ndesc (merge lt a b).
  Proof.
    induction a as [|x a IHa]; intros b Ha Hb.
    - rewrite merge_nil_l. exact Hb.
    - induction b as [|y b IHb].
      + rewrite merge_nil_r. exact Ha.
      + rewrite merge_cons. destruct (lt y x) eqn:E.
        * (* y first *)
          assert (Hb' : LocallySorted ndesc b) by (inversion Hb; [constructor|assumption]).
          specialize (IHb Hb').
          destruct b as [|y' b'].
          -- rewrite merge_nil_r in *. constructor; [exact Ha|]. unfold ndesc. apply lt_asym. exact E.
          -- rewrite merge_cons in *. destruct (lt y' x) eqn:E'.
             ++ constructor; [exact IHb|]. inversion Hb; assumption.
             ++ constructor; [exact IHb|]. unfold ndesc. apply lt_asym. exact E.
        * (* x first *)
          assert (Ha' : LocallySorted ndesc a) by (inversion Ha; [constructor|assumption]).
          specialize (IHa (y :: b) Ha' Hb).
          destruct a as [|x' a'].
          -- rewrite merge_nil_l in *. constructor; [exact Hb|exact E].
          -- rewrite merge_cons in *. destruct (lt y x') eqn:E'.
             ++ constructor; [exact IHa|exact E].
             ++ constructor; [exact IHa|]. inversion Ha; assumption.
  Qed.

  Lemma msort_fuel_sorted fuel : forall l, length l <= fuel -> LocallySorted ndesc (msort_fuel lt fuel l).
  Proof.
    induction fuel as [|f IH]; intros l Hl.
    - destruct l; [constructor|cbn in Hl; lia].
    - destruct l as [|x [|y t]]; [constructor|constructor|].
      cbn [msort_fuel]. set (l := x :: y :: t) in *. set (h := Nat.div2 (length l)).
      assert (Hh : 1 <= h < length l).
      { unfold h. assert (2 <= length l) by (unfold l; cbn; lia). rewrite Nat.div2_div.
        split; [apply Nat.div_le_lower_bound; lia|apply Nat.div_lt; lia]. }
      apply merge_sorted; apply IH.
      + rewrite firstn_length. lia.
      + rewrite skipn_length. lia.
  Qed.

  Lemma py_sorted_sorted l : LocallySorted ndesc (py_sorted lt l).
  Proof. apply msort_fuel_sorted. apply le_n. Qed.
End SortSorted.

(* ---------------------------------------------------------------- the documented order of partitions *)
Section PartOrder.
  Variable A : Type.
  Variable cmp : A -> A -> comparison.
  Hypothesis cmp_opp : forall a b, cmp b a = CompOpp (cmp a b).

  Lemma lex_cmp_opp {X} (c : X -> X -> comparison) :
    (forall a b, c b a = CompOpp (c a b)) -> forall l1 l2, lex_cmp c l2 l1 = CompOpp (lex_cmp c l1 l2).
  Proof.
    intros H l1. induction l1 as [|x l1 IH]; intros [|y l2]; cbn; try reflexivity.
    rewrite (H x y). destruct (c x y); cbn; auto.
  Qed.

  Lemma nat_compare_opp a b : Nat.compare b a = CompOpp (Nat.compare a b).
  Proof. apply Nat.compare_antisym. Qed.

  Lemma shortlex_cmp_opp a b : shortlex_cmp cmp b a = CompOpp (shortlex_cmp cmp a b).
  Proof.
    unfold shortlex_cmp. rewrite (nat_compare_opp (length a) (length b)).
    destruct (Nat.compare (length a) (length b)); cbn; auto. apply lex_cmp_opp. exact cmp_opp.
  Qed.

  Lemma partitionkey_cmp_opp p q : partitionkey_cmp cmp q p = CompOpp (partitionkey_cmp cmp p q).
  Proof.
    unfold partitionkey_cmp. rewrite (nat_compare_opp (length p) (length q)).
    destruct (Nat.compare (length p) (length q)); cbn; auto.
    rewrite (lex_cmp_opp Nat.compare nat_compare_opp (map (@length A) p) (map (@length A) q)).
    destruct (lex_cmp Nat.compare (map (@length A) p) (map (@length A) q)); cbn; auto.
    apply lex_cmp_opp. apply lex_cmp_opp. exact cmp_opp.
  Qed.

  Lemma is_lt_opp c : is_lt c = true -> is_lt (CompOpp c) = false.
  Proof. destruct c; cbn; congruence. Qed.

  Lemma partitions_sorted_lemma l :
    LocallySorted (fun p q => is_lt (partitionkey_cmp cmp q p) = false) (partitions cmp l) /\
    forall p, In p (partitions cmp l) -> LocallySorted (fun a b => is_lt (shortlex_cmp cmp b a) = false) p.
  Proof.
    split.
    - unfold partitions. apply (py_sorted_sorted (fun p q => is_lt (partitionkey_cmp cmp p q))).
      intros p q H. rewrite partitionkey_cmp_opp. apply is_lt_opp. exact H.
    - intros p Hp. apply In_partitions in Hp. destruct Hp as [q [_ ->]]. unfold shortlexsorted.
      apply (py_sorted_sorted (fun a b => is_lt (shortlex_cmp cmp a b))).
      intros a b H. rewrite shortlex_cmp_opp. apply is_lt_opp. exact H.
  Qed.
End PartOrder.
