(* PV.C18.ProofsStep — lemmas about the stepwise search model (_is_allowed, exhaustive_stepwise). *)
From Coq Require Import List Bool Arith ZArith NArith Lia Permutation FinFun.
From PV Require Import C18.Model C18.Spec C18.Proofs.
Import ListNotations.
Local Open Scope nat_scope.

Lemma atom_eqb_spec a b : atom_eqb a b = true <-> a = b.
Proof.
  destruct a as [x|x], b as [y|y]; cbn; split; try discriminate.
  - intro H. apply N.eqb_eq in H. congruence.
  - intro H. injection H as ->. apply N.eqb_refl.
  - intro H. apply Z.eqb_eq in H. congruence.
  - intro H. injection H as ->. apply Z.eqb_refl.
Qed.

Lemma key_eqb_spec a : forall b, key_eqb a b = true <-> a = b.
Proof.
  induction a as [|x a IH]; intros [|y b]; cbn; split; try discriminate; try reflexivity.
  - intro H. apply andb_true_iff in H. destruct H as [H1 H2]. apply atom_eqb_spec in H1. apply IH in H2. congruence.
  - intro H. injection H as -> ->. apply andb_true_iff. split; [apply atom_eqb_spec|apply IH]; reflexivity.
Qed.

Lemma memk_In k l : memk k l = true <-> In k l.
Proof.
  unfold memk. rewrite existsb_exists. split.
  - intros [y [Hy E]]. apply key_eqb_spec in E. subst. exact Hy.
  - intro H. exists k. split; [exact H|apply key_eqb_spec; reflexivity].
Qed.

Lemma memk_false k l : memk k l = false <-> ~ In k l.
Proof. rewrite <- memk_In. destruct (memk k l); split; congruence. Qed.

Section StepProofs.
  Variable tbl : combo_table.
  Variable keys : list key.
  Notation Chain := (Chain tbl keys).
  Notation allowed := (allowed tbl keys).
  Notation actions := (actions tbl keys).
  Notation expand_leaf := (expand_leaf tbl keys).

  Lemma In_actions prev f : In f (actions prev) <-> In f keys /\ allowed f prev = true.
  Proof. unfold Model.actions. apply filter_In. Qed.

  Lemma allowed_not_in f prev : allowed f prev = true -> ~ In f prev.
  Proof.
    unfold Model.allowed. destruct (memk f prev) eqn:E; [discriminate|]. intros _. apply memk_false. exact E.
  Qed.

  (* ---- chains ---- *)
  Lemma Chain_snoc_inv p f : Chain (p ++ [f]) -> Chain p /\ In f keys /\ allowed f p = true.
  Proof.
    intro H. inversion H as [E|q g Hq Hg Ha E].
    - destruct p; discriminate.
    - apply app_inj_tail in E. destruct E as [-> ->]. auto.
  Qed.

  Lemma Chain_split pre f post : Chain (pre ++ f :: post) -> Chain pre /\ In f keys /\ allowed f pre = true.
  Proof.
    revert pre f. induction post as [|g post IH] using rev_ind; intros pre f H.
    - apply Chain_snoc_inv. exact H.
    - replace (pre ++ f :: post ++ [g]) with ((pre ++ f :: post) ++ [g]) in H by (rewrite <- app_assoc; reflexivity).
      apply Chain_snoc_inv in H. destruct H as [H _]. apply IH. exact H.
  Qed.

  Lemma Chain_prefix pre post : Chain (pre ++ post) -> Chain pre.
  Proof.
    destruct post as [|f post]; [rewrite app_nil_r; auto|]. intro H. apply Chain_split in H. tauto.
  Qed.

  Lemma Chain_incl p : Chain p -> incl p keys.
  Proof.
    induction 1 as [|p f Hp IH Hf Ha]; [intros x []|].
    intros x Hx. apply in_app_iff in Hx. destruct Hx as [Hx|[<-|[]]]; auto.
  Qed.

  Lemma Chain_NoDup p : Chain p -> NoDup p.
  Proof.
    induction 1 as [|p f Hp IH Hf Ha]; [constructor|].
    apply NoDup_app_intro; [exact IH|repeat constructor; intros []|].
    intros x Hx [<-|[]]. exact (allowed_not_in _ _ Ha Hx).
  Qed.

  Lemma Chain_length p : Chain p -> length p <= length keys.
  Proof. intro H. apply NoDup_incl_length; [apply Chain_NoDup|apply Chain_incl]; exact H. Qed.

  (* ---- levels of the search tree ---- *)
  Fixpoint level (i : nat) : list (list key) :=
    match i with 0 => [[]] | S j => flat_map expand_leaf (level j) end.

  Lemma In_expand_leaf q p : In p (expand_leaf q) <-> exists f, In f keys /\ allowed f q = true /\ p = q ++ [f].
  Proof.
    unfold Model.expand_leaf. rewrite in_map_iff. split.
    - intros [f [<- Hf]]. apply In_actions in Hf. exists f. tauto.
    - intros [f [H1 [H2 ->]]]. exists f. split; [reflexivity|apply In_actions; auto].
  Qed.

  Lemma In_level i p : In p (level i) <-> Chain p /\ length p = i.
  Proof.
    revert p. induction i as [|i IH]; intro p; cbn [level].
    - split.
      + intros [<-|[]]. split; [constructor|reflexivity].
      + intros [_ H]. destruct p; [left; reflexivity|discriminate].
    - rewrite in_flat_map. split.
      + intros [q [Hq Hp]]. apply IH in Hq. destruct Hq as [Hq <-]. apply In_expand_leaf in Hp.
        destruct Hp as [f [H1 [H2 ->]]]. split; [constructor; assumption|rewrite app_length; cbn; lia].
      + intros [Hc Hl]. destruct p as [|x p'] using rev_ind; [discriminate|]. clear IHp'.
        apply Chain_snoc_inv in Hc. destruct Hc as [Hq [Hf Ha]]. exists p'. split.
        * apply IH. split; [exact Hq|]. rewrite app_length in Hl. cbn in Hl. lia.
        * apply In_expand_leaf. exists x. auto.
  Qed.

  Lemma level_empty_beyond i : length keys < i -> level i = [].
  Proof.
    intro H. destruct (level i) as [|p l] eqn:E; [reflexivity|]. exfalso.
    assert (Hp : In p (level i)) by (rewrite E; left; reflexivity).
    apply In_level in Hp. destruct Hp as [Hc Hl]. apply Chain_length in Hc. lia.
  Qed.

  Lemma level_empty_S i : level i = [] -> level (S i) = [].
  Proof. intro H. cbn [level]. rewrite H. reflexivity. Qed.

  Lemma level_empty_mono i j : i <= j -> level i = [] -> level j = [].
  Proof. induction 1 as [|j Hle IH]; [auto|]. intro Hi. apply level_empty_S. auto. Qed.

  Hypothesis keys_nodup : NoDup keys.

  Lemma NoDup_expand_leaf q : NoDup (expand_leaf q).
  Proof.
    unfold Model.expand_leaf. apply NoDup_map_inj_in.
    - unfold Model.actions. apply NoDup_filter. exact keys_nodup.
    - intros a b _ _ E. apply app_inj_tail in E. tauto.
  Qed.

  Lemma NoDup_level i : NoDup (level i).
  Proof.
    induction i as [|i IH]; cbn [level]; [repeat constructor; intros []|].
    apply NoDup_flat_map; [exact IH|intros; apply NoDup_expand_leaf|].
    intros a b p _ _ Ha Hb. apply In_expand_leaf in Ha. apply In_expand_leaf in Hb.
    destruct Ha as [f [_ [_ ->]]]. destruct Hb as [g [_ [_ E]]]. apply app_inj_tail in E. tauto.
  Qed.

  (* ---- the loop ---- *)
  Definition all_stuck (stuck : list (list key)) : Prop := forall s, In s stuck -> actions s = [].

  Lemma expand_stuck stuck : all_stuck stuck -> flat_map expand_leaf stuck = [].
  Proof.
    induction stuck as [|s stuck IH]; intro H; [reflexivity|]. cbn. rewrite IH by (intros x Hx; apply H; right; exact Hx).
    unfold Model.expand_leaf. rewrite (H s (or_introl eq_refl)). reflexivity.
  Qed.

  Lemma filter_stuck stuck : all_stuck stuck -> filter (fun p => is_nil (actions p)) stuck = stuck.
  Proof.
    induction stuck as [|s stuck IH]; intro H; [reflexivity|]. cbn. rewrite (H s (or_introl eq_refl)). cbn.
    rewrite IH by (intros x Hx; apply H; right; exact Hx). reflexivity.
  Qed.

  Lemma sweep_level stuck i :
    all_stuck stuck ->
    sweep tbl keys (stuck ++ level i) = (stuck ++ filter (fun p => is_nil (actions p)) (level i), level (S i)).
  Proof.
    intro H. unfold sweep. rewrite filter_app, flat_map_app, expand_stuck, filter_stuck by exact H. reflexivity.
  Qed.

  Lemma all_stuck_app stuck l : all_stuck stuck -> all_stuck (stuck ++ filter (fun p => is_nil (actions p)) l).
  Proof.
    intros H s Hs. apply in_app_iff in Hs. destruct Hs as [Hs|Hs]; [apply H; exact Hs|].
    apply filter_In in Hs. destruct Hs as [_ Hs]. destruct (actions s); [reflexivity|discriminate].
  Qed.

  Definition levels_from (i m : nat) : list (list key) := concat (map level (seq i m)).

  Lemma loop_result fuel : forall i stuck created,
    all_stuck stuck -> level (i + fuel) = [] -> 1 <= fuel ->
    exists m, stepwise_loop tbl keys fuel (stuck ++ level i) created = (created ++ levels_from (S i) m, true)
              /\ level (S i + m) = [].
  Proof.
    induction fuel as [|f IH]; intros i stuck created Hst Hempty Hf; [lia|].
    cbn [stepwise_loop]. rewrite sweep_level by exact Hst.
    destruct (level (S i)) as [|p l] eqn:E.
    - exists 0. unfold levels_from. cbn. rewrite app_nil_r, Nat.add_0_r. auto.
    - rewrite <- E. destruct f as [|f'].
      + exfalso. rewrite Nat.add_1_r in Hempty. rewrite Hempty in E. discriminate.
      + destruct (IH (S i) (stuck ++ filter (fun p0 => is_nil (actions p0)) (level i)) (created ++ level (S i))) as [m [Hm1 Hm2]].
        * apply all_stuck_app. exact Hst.
        * replace (S i + S f') with (i + S (S f')) by lia. exact Hempty.
        * lia.
        * exists (S m). rewrite Hm1. unfold levels_from. cbn [seq map concat]. rewrite <- app_assoc.
          split; [reflexivity|]. replace (S i + S m) with (S (S i) + m) by lia. exact Hm2.
  Qed.

  Lemma exhaustive_stepwise_result :
    exists m, exhaustive_stepwise tbl keys = (levels_from 1 m, true) /\ level (S m) = [].
  Proof.
    unfold exhaustive_stepwise.
    destruct (loop_result (S (length keys)) 0 [] []) as [m [H1 H2]].
    - intros s [].
    - apply level_empty_beyond. lia.
    - lia.
    - exists m. cbn [app] in H1. change (level 0) with [[]: list key] in H1. split; [exact H1|exact H2].
  Qed.

  Lemma In_levels_from i m p : In p (levels_from i m) <-> exists j, i <= j < i + m /\ In p (level j).
  Proof.
    unfold levels_from. rewrite in_concat. split.
    - intros [l [Hl Hp]]. apply in_map_iff in Hl. destruct Hl as [j [<- Hj]]. apply in_seq in Hj. exists j. auto.
    - intros [j [Hj Hp]]. exists (level j). split; [apply in_map, in_seq; exact Hj|exact Hp].
  Qed.

  Lemma stepwise_terminates_lemma : snd (exhaustive_stepwise tbl keys) = true.
  Proof. destruct exhaustive_stepwise_result as [m [-> _]]. reflexivity. Qed.

  Lemma stepwise_paths_exact_lemma p :
    In p (fst (exhaustive_stepwise tbl keys)) <-> p <> [] /\ Chain p.
  Proof.
    destruct exhaustive_stepwise_result as [m [-> Hm]]. cbn [fst]. rewrite In_levels_from. split.
    - intros [j [Hj Hp]]. apply In_level in Hp. destruct Hp as [Hc Hl]. split; [|exact Hc]. intros ->. cbn in Hl. lia.
    - intros [Hne Hc]. exists (length p). split; [|apply In_level; auto].
      assert (length p <> 0) by (destruct p; [congruence|discriminate]).
      destruct (Nat.le_gt_cases (S m) (length p)) as [Hge|Hlt]; [|lia]. exfalso.
      assert (E : level (length p) = []) by (apply (level_empty_mono (S m)); auto).
      assert (Hin : In p (level (length p))) by (apply In_level; auto). rewrite E in Hin. exact Hin.
  Qed.

  Lemma stepwise_nodup_lemma : NoDup (fst (exhaustive_stepwise tbl keys)).
  Proof.
    destruct exhaustive_stepwise_result as [m [-> _]]. cbn [fst]. unfold levels_from.
    rewrite <- flat_map_concat_map. apply NoDup_flat_map; [apply seq_NoDup|intros; apply NoDup_level|].
    intros a b p _ _ Ha Hb. apply In_level in Ha. apply In_level in Hb. lia.
  Qed.
End StepProofs.

(* ---------------------------------------------------------------- properties of allowed paths *)
Section PathProps.
  Variable tbl : combo_table.
  Variable keys : list key.
  Notation Chain := (Chain tbl keys).
  Notation allowed := (allowed tbl keys).

  (* what _is_allowed guarantees for a non-peripheral feature *)
  Lemma allowed_nonperiph f prev :
    allowed f prev = true -> is_periph f = false ->
    f <> [AS s_TRANSITS; AI 0; AS s_NODEPOT] /\
    (forall g, In g prev -> kcat g <> kcat f) /\
    combo_hit tbl f prev = false.
  Proof.
    unfold Model.allowed. intros H Hp. rewrite Hp in H. destruct (memk f prev); [discriminate|].
    destruct (key_eqb f [AS s_TRANSITS; AI 0; AS s_NODEPOT]) eqn:E1; [discriminate|].
    destruct (existsb (fun f0 => atom_eqb (kcat f0) (kcat f)) prev) eqn:E2; [discriminate|].
    split; [|split].
    - intro E. rewrite E in E1. cbn in E1. discriminate.
    - intros g Hg Ec. assert (existsb (fun f0 => atom_eqb (kcat f0) (kcat f)) prev = true).
      { apply existsb_exists. exists g. split; [exact Hg|apply atom_eqb_spec; exact Ec]. }
      congruence.
    - destruct prev; [|apply negb_true_iff; exact H].
      unfold combo_hit. clear. induction tbl as [|[f1 f2] t IH]; [reflexivity|]. cbn. exact IH.
  Qed.

  (* two different features on a path: the later one was accepted after the earlier one *)
  Lemma Chain_two p a b :
    Chain p -> In a p -> In b p -> a <> b ->
    (exists pre, In a pre /\ allowed b pre = true) \/ (exists pre, In b pre /\ allowed a pre = true).
  Proof.
    intros Hc Ha Hb Hne. destruct (in_split _ _ Ha) as [l1 [l2 E]]. subst p.
    apply in_app_iff in Hb. destruct Hb as [Hb|[Hb|Hb]]; [| congruence |].
    - right. exists l1. split; [exact Hb|]. apply Chain_split in Hc. tauto.
    - left. destruct (in_split _ _ Hb) as [m1 [m2 E]]. subst l2. exists (l1 ++ a :: m1). split; [apply in_elt|].
      replace (l1 ++ a :: m1 ++ b :: m2) with ((l1 ++ a :: m1) ++ b :: m2) in Hc by (rewrite <- app_assoc; reflexivity).
      apply Chain_split in Hc. tauto.
  Qed.

  (* one feature per category (other than the peripherals, which are stepped through) *)
  Lemma Chain_category_once p a b :
    Chain p -> In a p -> In b p -> a <> b -> is_periph a = false -> kcat a <> kcat b.
  Proof.
    intros Hc Ha Hb Hne Hpa Ecat.
    assert (Hpb : is_periph b = false) by (unfold is_periph in *; rewrite <- Ecat; exact Hpa).
    destruct (Chain_two p a b Hc Ha Hb Hne) as [[pre [Hin Hal]]|[pre [Hin Hal]]].
    - destruct (allowed_nonperiph b pre Hal Hpb) as [_ [H _]]. exact (H a Hin Ecat).
    - destruct (allowed_nonperiph a pre Hal Hpa) as [_ [H _]]. apply (H b Hin). symmetry. exact Ecat.
  Qed.

  Lemma combo_hit_false f prev g f1 f2 :
    combo_hit tbl f prev = false -> In g prev -> In (f1, f2) tbl ->
    (is_prefix f1 f && is_prefix f2 g = false) /\ (is_prefix f2 f && is_prefix f1 g = false).
  Proof.
    unfold combo_hit. intros H Hg He.
    assert (H1 : existsb (fun feat => (is_prefix f1 f && is_prefix f2 feat) || (is_prefix f2 f && is_prefix f1 feat)) prev = false).
    { destruct (existsb (fun feat => (is_prefix f1 f && is_prefix f2 feat) || (is_prefix f2 f && is_prefix f1 feat)) prev) eqn:E; [|reflexivity].
      assert (existsb (fun e : key * key => let '(f1, f2) := e in
                existsb (fun feat => (is_prefix f1 f && is_prefix f2 feat) || (is_prefix f2 f && is_prefix f1 feat)) prev) tbl = true).
      { apply existsb_exists. exists (f1, f2). split; [exact He|exact E]. }
      congruence. }
    assert (H2 : (is_prefix f1 f && is_prefix f2 g) || (is_prefix f2 f && is_prefix f1 g) = false).
    { destruct ((is_prefix f1 f && is_prefix f2 g) || (is_prefix f2 f && is_prefix f1 g)) eqn:E; [|reflexivity].
      assert (existsb (fun feat => (is_prefix f1 f && is_prefix f2 feat) || (is_prefix f2 f && is_prefix f1 feat)) prev = true).
      { apply existsb_exists. exists g. split; [exact Hg|exact E]. }
      congruence. }
    apply orb_false_iff in H2. exact H2.
  Qed.

  (* excluded combinations never occur together on a path *)
  Lemma Chain_no_excluded p a b f1 f2 :
    Chain p -> In a p -> In b p -> a <> b -> is_periph a = false -> is_periph b = false -> In (f1, f2) tbl ->
    is_prefix f1 a && is_prefix f2 b = false.
  Proof.
    intros Hc Ha Hb Hne Hpa Hpb He.
    destruct (Chain_two p a b Hc Ha Hb Hne) as [[pre [Hin Hal]]|[pre [Hin Hal]]].
    - destruct (allowed_nonperiph b pre Hal Hpb) as [_ [_ H]].
      destruct (combo_hit_false b pre a f1 f2 H Hin He) as [_ H2]. rewrite andb_comm. exact H2.
    - destruct (allowed_nonperiph a pre Hal Hpa) as [_ [_ H]].
      destruct (combo_hit_false a pre b f1 f2 H Hin He) as [H1 _]. exact H1.
  Qed.

  Lemma Chain_never_t0n p : Chain p -> ~ In [AS s_TRANSITS; AI 0; AS s_NODEPOT] p.
  Proof.
    intros Hc Hin. destruct (in_split _ _ Hin) as [l1 [l2 E]]. subst p. apply Chain_split in Hc.
    destruct Hc as [_ [_ Hal]]. destruct (allowed_nonperiph _ _ Hal eq_refl) as [H _]. congruence.
  Qed.
End PathProps.

(* ---------------------------------------------------------------- reduced_stepwise terminates *)
Section ReducedProofs.
  Variable tbl : combo_table.
  Variable keys : list key.

  Lemma group_same_members fuel : forall leaves g,
    In g (group_same fuel leaves) -> g <> [] /\ forall l, In l g -> In l leaves.
  Proof.
    induction fuel as [|f IH]; intros leaves g Hg; [contradiction|].
    destruct leaves as [|x tl]; [contradiction|]. cbn [group_same] in Hg. destruct Hg as [<-|Hg].
    - split; [discriminate|]. intros l [<-|Hl]; [left; reflexivity|]. right. apply filter_In in Hl. tauto.
    - destruct (IH _ _ Hg) as [H1 H2]. split; [exact H1|]. intros l Hl. right. apply H2 in Hl. apply filter_In in Hl. tauto.
  Qed.

  Lemma collect_members ncoll leaves l :
    In l (fst (collect tbl keys ncoll leaves)) -> exists l0, In l0 leaves /\ snd l = snd l0.
  Proof.
    unfold collect. destruct (negb (is_nil (same_model_groups leaves))); cbn [fst].
    - rewrite in_app_iff. intros [H|H].
      + apply filter_In in H. exists l. tauto.
      + apply in_map_iff in H. destruct H as [[i g] [<- Hig]]. apply in_combine_r in Hig.
        apply filter_In in Hig. destruct Hig as [Hg _]. unfold same_model_groups in Hg. apply filter_In in Hg.
        destruct Hg as [Hg _]. apply group_same_members in Hg. destruct Hg as [Hne Hmem].
        destruct g as [|l0 g]; [exfalso; apply Hne; reflexivity|]. exists l0. split; [apply Hmem; left; reflexivity|reflexivity].
    - intro H. exists l. auto.
  Qed.

  Definition leaf_inv (i : nat) (l : leaf) : Prop :=
    NoDup (snd l) /\ incl (snd l) keys /\ (has_actions tbl keys l = true -> length (snd l) = i).

  Lemma has_actions_snd (l l0 : leaf) : snd l = snd l0 -> has_actions tbl keys l = has_actions tbl keys l0.
  Proof. unfold has_actions. intros ->. reflexivity. Qed.

  Lemma reduced_loop_terminates fuel : forall i leaves created colls,
    (forall l, In l leaves -> leaf_inv i l) -> 1 <= fuel -> length keys + 1 <= i + fuel ->
    snd (reduced_loop tbl keys fuel leaves created colls) = true.
  Proof.
    induction fuel as [|f IH]; intros i leaves created colls Hinv Hf Hbound; [lia|].
    cbn [reduced_loop].
    destruct (collect tbl keys (length colls) leaves) as [leaves1 newcolls] eqn:Ec.
    assert (Hinv1 : forall l, In l leaves1 -> leaf_inv i l).
    { intros l Hl. assert (Hl' : In l (fst (collect tbl keys (length colls) leaves))) by (rewrite Ec; exact Hl).
      apply collect_members in Hl'. destruct Hl' as [l0 [Hl0 E]]. destruct (Hinv l0 Hl0) as [H1 [H2 H3]].
      unfold leaf_inv. rewrite E, (has_actions_snd l l0 E). auto. }
    destruct (new_candidates tbl keys leaves1) as [|c news] eqn:En; [reflexivity|].
    rewrite <- En.
    (* some leaf still has an action: its feature set has i < |keys| elements *)
    assert (Hi : i + 1 <= length keys).
    { assert (Hc : In c (new_candidates tbl keys leaves1)) by (rewrite En; left; reflexivity).
      unfold new_candidates in Hc. apply in_flat_map in Hc. destruct Hc as [l [Hl Hc]].
      apply in_map_iff in Hc. destruct Hc as [g [_ Hg]]. destruct (Hinv1 l Hl) as [Hnd [Hincl Hlen]].
      assert (Hact : has_actions tbl keys l = true).
      { unfold has_actions. destruct (actions tbl keys (snd l)); [contradiction|reflexivity]. }
      apply In_actions in Hg. destruct Hg as [Hgk Hga]. apply allowed_not_in in Hga.
      assert (NoDup (g :: snd l)) by (constructor; assumption).
      assert (incl (g :: snd l) keys) by (intros y [<-|Hy]; auto).
      pose proof (NoDup_incl_length H H0) as Hl2. cbn in Hl2. rewrite (Hlen Hact) in Hl2. lia. }
    apply (IH (S i)); [|lia|lia].
    intros l Hl. apply in_app_iff in Hl. destruct Hl as [Hl|Hl].
    - apply filter_In in Hl. destruct Hl as [Hl Hna]. destruct (Hinv1 l Hl) as [H1 [H2 _]].
      split; [exact H1|]. split; [exact H2|]. intro Ha. rewrite Ha in Hna. discriminate.
    - apply in_map_iff in Hl. destruct Hl as [[n [l0 g]] [<- Hx]]. apply in_combine_r in Hx. cbn [fst snd].
      unfold new_candidates in Hx. apply in_flat_map in Hx. destruct Hx as [l1 [Hl1 Hx]].
      apply in_map_iff in Hx. destruct Hx as [g' [E Hg]]. injection E as -> ->.
      destruct (Hinv1 l0 Hl1) as [Hnd [Hincl Hlen]].
      assert (Hact : has_actions tbl keys l0 = true).
      { unfold has_actions. destruct (actions tbl keys (snd l0)); [contradiction|reflexivity]. }
      apply In_actions in Hg. destruct Hg as [Hgk Hga]. apply allowed_not_in in Hga.
      split; [|split].
      + apply NoDup_app_intro; [exact Hnd|repeat constructor; intros []|]. intros y Hy [<-|[]]. contradiction.
      + intros y Hy. apply in_app_iff in Hy. destruct Hy as [Hy|[<-|[]]]; auto.
      + intros _. cbn [fst snd]. rewrite app_length, (Hlen Hact). cbn. lia.
  Qed.

  Lemma reduced_terminates_lemma : snd (reduced_stepwise tbl keys) = true.
  Proof.
    unfold reduced_stepwise. apply (reduced_loop_terminates _ 0); [|lia|lia].
    intros l [<-|[]]. split; [constructor|]. split; [intros y []|]. reflexivity.
  Qed.
End ReducedProofs.

Lemma stepwise_named_lemma tbl keys :
  map fst (stepwise_named tbl keys) = seq 1 (length (fst (exhaustive_stepwise tbl keys))) /\
  map snd (stepwise_named tbl keys) = fst (exhaustive_stepwise tbl keys).
Proof. unfold stepwise_named. apply combine_fst_snd. apply seq_length. Qed.

Lemma Chain_nodup_incl tbl keys p : Chain tbl keys p -> NoDup p /\ incl p keys.
Proof. intro H. split; [eapply Chain_NoDup|eapply Chain_incl]; exact H. Qed.

(* ---------------------------------------------------------------- _is_allowed is the documented rule *)
Section DocRule.
  Local Open Scope Z_scope.

  Lemma zmin_spec l : forall d, l <> [] -> In (zmin l d) l /\ forall x, In x l -> zmin l d <= x.
  Proof.
    induction l as [|a l IH]; intros d Hne; [congruence|]. cbn [zmin]. destruct l as [|b l'].
    - cbn. rewrite Z.min_id. split; [auto|]. intros x [<-|[]]. lia.
    - destruct (IH a) as [H1 H2]; [discriminate|]. split.
      + destruct (Z.min_spec a (zmin (b :: l') a)) as [[_ E]|[_ E]]; rewrite E; [left; reflexivity|right; exact H1].
      + intros x [<-|Hx]; [apply Z.le_min_l|]. specialize (H2 x Hx). pose proof (Z.le_min_r a (zmin (b :: l') a)). lia.
  Qed.

  Lemma zmax_spec l : forall d, l <> [] -> In (zmax l d) l /\ forall x, In x l -> x <= zmax l d.
  Proof.
    induction l as [|a l IH]; intros d Hne; [congruence|]. cbn [zmax]. destruct l as [|b l'].
    - cbn. rewrite Z.max_id. split; [auto|]. intros x [<-|[]]. lia.
    - destruct (IH a) as [H1 H2]; [discriminate|]. split.
      + destruct (Z.max_spec a (zmax (b :: l') a)) as [[_ E]|[_ E]]; rewrite E; [right; exact H1|left; reflexivity].
      + intros x [<-|Hx]; [apply Z.le_max_l|]. specialize (H2 x Hx). pose proof (Z.le_max_r a (zmax (b :: l') a)). lia.
  Qed.

  (* the repaired peripheral test is the documented "next count" rule *)
  Lemma allowed_peripheral_is_next keys f prev :
    In (karg1 f) (n_all keys) ->
    allowed_peripheral keys f prev = next_count (n_all keys) (used_counts prev) (karg1 f).
  Proof.
    intro Hn. unfold allowed_peripheral, next_count, used_counts.
    set (na := n_all keys) in *. set (n := karg1 f) in *. set (used := map karg1 (filter is_periph prev)).
    assert (Hna : na <> []) by (intro E; rewrite E in Hn; contradiction).
    apply eq_true_iff_eq. destruct used as [|u us] eqn:Eu.
    - cbn [forallb andb existsb]. rewrite Z.eqb_eq, forallb_forall. destruct (zmin_spec na n Hna) as [H1 H2]. split.
      + intros E m Hm. rewrite orb_false_r. apply Z.leb_le. rewrite E. apply H2. exact Hm.
      + intro H. specialize (H (zmin na n) H1). rewrite orb_false_r in H. apply Z.leb_le in H. specialize (H2 n Hn). lia.
    - assert (Hu : u :: us <> []) by discriminate. destruct (zmax_spec (u :: us) u Hu) as [M1 M2].
      set (mx := zmax (u :: us) u) in *.
      rewrite andb_true_iff, !forallb_forall.
      destruct (filter (fun m => mx <? m) na) as [|x larger'] eqn:El.
      + split; [discriminate|]. intros [Hlt _]. exfalso.
        assert (Hin : In n (filter (fun m => mx <? m) na)).
        { apply filter_In. split; [exact Hn|]. apply Z.ltb_lt. specialize (Hlt mx M1). apply Z.ltb_lt in Hlt. exact Hlt. }
        rewrite El in Hin. exact Hin.
      + assert (Hl : x :: larger' <> []) by discriminate. destruct (zmin_spec (x :: larger') x Hl) as [L1 L2].
        assert (Hmem : forall m, In m (x :: larger') <-> In m na /\ mx < m).
        { intro m. rewrite <- El, filter_In, Z.ltb_lt. reflexivity. }
        rewrite Z.eqb_eq. split.
        * intro E. apply Hmem in L1. rewrite <- E in L1. destruct L1 as [_ Hgt]. split.
          -- intros u' Hu'. apply Z.ltb_lt. specialize (M2 u' Hu'). lia.
          -- intros m Hm. apply orb_true_iff. destruct (Z.ltb_spec mx m) as [Hlt|Hge].
             ++ left. apply Z.leb_le. rewrite E. apply L2. apply Hmem. auto.
             ++ right. apply existsb_exists. exists mx. split; [exact M1|apply Z.leb_le; exact Hge].
        * intros [Hlt Hall]. specialize (Hlt mx M1). apply Z.ltb_lt in Hlt.
          assert (Hnl : In n (x :: larger')) by (apply Hmem; auto).
          pose proof (L2 n Hnl) as Hle. apply Hmem in L1. destruct L1 as [Hz1 Hz2].
          specialize (Hall _ Hz1). apply orb_true_iff in Hall. destruct Hall as [H|H].
          -- apply Z.leb_le in H. lia.
          -- apply existsb_exists in H. destruct H as [u' [Hu' Hle']]. apply Z.leb_le in Hle'. specialize (M2 u' Hu'). lia.
  Qed.

  Lemma combo_hit_nil tbl f : combo_hit tbl f [] = false.
  Proof. unfold combo_hit. induction tbl as [|[f1 f2] t IH]; [reflexivity|]. cbn. exact IH. Qed.

  Lemma allowed_is_documented_lemma tbl keys f prev :
    In f keys -> allowed tbl keys f prev = doc_allowed tbl keys f prev.
  Proof.
    intros Hf. unfold allowed, doc_allowed. destruct (memk f prev) eqn:Emem; [reflexivity|]. cbn [negb andb].
    destruct (is_periph f) eqn:Ep.
    - apply allowed_peripheral_is_next. unfold n_all. apply in_map. apply filter_In. auto.
    - destruct (key_eqb f [AS s_TRANSITS; AI 0; AS s_NODEPOT]); [reflexivity|].
      destruct (existsb (fun f0 => atom_eqb (kcat f0) (kcat f)) prev); [reflexivity|].
      destruct prev; [rewrite combo_hit_nil; reflexivity|reflexivity].
  Qed.

  (* increasing lists *)
  Lemma increasing_snoc l n : increasing l -> (forall x, In x l -> x < n) -> increasing (l ++ [n]).
  Proof.
    induction l as [|a [|b l'] IH]; intros Hl Hn; cbn; auto.
    - split; [apply Hn; left; reflexivity|exact I].
    - destruct Hl as [Hab Hl]. split; [exact Hab|]. apply IH; [exact Hl|]. intros x Hx. apply Hn. right. exact Hx.
  Qed.

  (* peripheral compartments are added in increasing order on every accepted path *)
  Lemma periph_increasing_lemma tbl keys p :
    Chain tbl keys p -> increasing (map karg1 (filter is_periph p)).
  Proof.
    induction 1 as [|p f Hp IH Hf Ha]; [exact I|].
    rewrite filter_app, map_app. cbn [filter]. destruct (is_periph f) eqn:Ep; [|cbn; rewrite app_nil_r; exact IH].
    cbn [map]. apply increasing_snoc; [exact IH|]. intros x Hx.
    rewrite (allowed_is_documented_lemma tbl keys f p Hf) in Ha. unfold doc_allowed in Ha. rewrite Ep in Ha.
    apply andb_true_iff in Ha. destruct Ha as [_ Ha]. unfold next_count in Ha. apply andb_true_iff in Ha. destruct Ha as [Ha _].
    rewrite forallb_forall in Ha. apply Z.ltb_lt. apply Ha. exact Hx.
  Qed.
End DocRule.

Lemma DocChain_incl tbl keys p : DocChain tbl keys p -> incl p keys.
Proof.
  induction 1 as [|p f Hp IH Hf Ha]; [intros x []|].
  intros x Hx. apply in_app_iff in Hx. destruct Hx as [Hx|[<-|[]]]; auto.
Qed.

Lemma Chain_iff_DocChain tbl keys p : Chain tbl keys p <-> DocChain tbl keys p.
Proof.
  split.
  - induction 1 as [|p f Hp IH Hf Ha]; [constructor|]. constructor; auto.
    rewrite <- (allowed_is_documented_lemma tbl keys f p Hf). exact Ha.
  - induction 1 as [|p f Hp IH Hf Ha]; [constructor|]. constructor; auto.
    rewrite (allowed_is_documented_lemma tbl keys f p Hf). exact Ha.
Qed.

Lemma stepwise_paths_documented_lemma tbl keys p :
  In p (fst (exhaustive_stepwise tbl keys)) <-> p <> [] /\ DocChain tbl keys p.
Proof. rewrite stepwise_paths_exact_lemma, (Chain_iff_DocChain tbl keys p). reflexivity. Qed.

(* ---------------------------------------------------------------- reduced_stepwise: the collector step *)
Section CollectProofs.
  Variable tbl : combo_table.
  Variable keys : list key.

  Lemma same_set_refl a : same_set a a = true.
  Proof.
    unfold same_set. assert (forallb (fun k => memk k a) a = true) by (apply forallb_forall; intros x Hx; apply memk_In; exact Hx).
    rewrite H. reflexivity.
  Qed.

  (* every group starts with its first member and all members have the head's feature set *)
  Lemma group_same_head fuel : forall leaves g,
    In g (group_same fuel leaves) ->
    exists x rest, g = x :: rest /\ forall y, In y g -> same_set (snd x) (snd y) = true.
  Proof.
    induction fuel as [|f IH]; intros leaves g Hg; [contradiction|].
    destruct leaves as [|x tl]; [contradiction|]. cbn [group_same] in Hg. destruct Hg as [<-|Hg].
    - exists x, (filter (fun y => same_set (snd x) (snd y)) tl). split; [reflexivity|].
      intros y [<-|Hy]; [apply same_set_refl|]. apply filter_In in Hy. tauto.
    - eapply IH. exact Hg.
  Qed.

  Lemma In_combine_seq {X} (l : list X) x n : In x l -> exists i, In (i, x) (combine (seq n (length l)) l).
  Proof.
    revert n. induction l as [|a l IH]; intros n H; [contradiction|]. cbn. destruct H as [->|H].
    - exists n. left. reflexivity.
    - destruct (IH (S n) H) as [i Hi]. exists i. right. exact Hi.
  Qed.

  (* every expandable group of equal-feature output tasks gets its 'choose_best_model' task and its members
     stop being output tasks *)
  Lemma collect_merges_lemma ncoll leaves g :
    In g (same_model_groups leaves) -> forallb (has_actions tbl keys) g = true ->
    (exists i, In (PColl (ncoll + i), snd (hd (PRoot, []) g)) (fst (collect tbl keys ncoll leaves))) /\
    (forall l, In l g -> In l (fst (collect tbl keys ncoll leaves)) -> exists i, fst l = PColl (ncoll + i)).
  Proof.
    intros Hg Hact. unfold collect.
    assert (Hlen : negb (is_nil (same_model_groups leaves)) = true).
    { destruct (same_model_groups leaves); [contradiction|reflexivity]. }
    rewrite Hlen. cbn [fst].
    assert (Hchosen : In g (filter (forallb (has_actions tbl keys)) (same_model_groups leaves))) by (apply filter_In; auto).
    unfold same_model_groups in Hg. apply filter_In in Hg. destruct Hg as [Hg _].
    destruct (group_same_head _ _ _ Hg) as [x [rest [-> Hmem]]]. split.
    - destruct (In_combine_seq _ _ 0 Hchosen) as [i Hi]. exists i. apply in_app_iff. right.
      apply in_map_iff. exists (i, x :: rest). split; [reflexivity|exact Hi].
    - intros l Hl Hin. apply in_app_iff in Hin. destruct Hin as [Hin|Hin].
      + exfalso. apply filter_In in Hin. destruct Hin as [_ Hneg]. apply negb_true_iff in Hneg.
        assert (existsb (fun g0 => same_set (snd l) (snd (hd (PRoot, []) g0)))
                        (filter (forallb (has_actions tbl keys)) (filter (fun g0 => 1 <? length g0) (group_same (length leaves) leaves))) = true).
        { apply existsb_exists. exists (x :: rest). split; [exact Hchosen|]. cbn [hd].
          specialize (Hmem l Hl). unfold same_set in *. apply andb_true_iff in Hmem. apply andb_true_iff. tauto. }
        unfold same_model_groups in Hneg. congruence.
      + (* only a task carrying one of the new collector numbers could be listed again *)
        apply in_map_iff in Hin. destruct Hin as [[i g0] [E _]]. cbn in E. exists i. rewrite <- E. reflexivity.
  Qed.
End CollectProofs.
