(* PV.C18.MflSpec — what a search space DENOTES: per category the set of explicitly expanded features. *)
From Coq Require Import List Bool Arith ZArith NArith.
From PV Require Import C18.Model C18.MflModel.
Import ListNotations.
Local Open Scope N_scope.

(* expansion of an optional mode statement: wildcard = all modes, absent/None = nothing *)
Definition E_modes (w : list N) (o : option modes) : list N :=
  match o with
  | Some m => match eval_modes w m with MList l => l | _ => [] end
  | None => []
  end.
(* expansion of value x key statements (TRANSITS(counts, depot), PERIPHERALS(counts, mode), INDIRECTEFFECT(mode, production)) *)
Definition E_stmt (wv wk : list N) (s : pstmt) : list (N * N) :=
  match eval_modes wv (p_vals s), eval_modes wk (p_keys s) with
  | MList vs, MList ks => flat_map (fun v => map (fun k => (v, k)) ks) vs
  | _, _ => []
  end.
Definition E_pairs (wv wk : list N) (ss : list pstmt) : list (N * N) := flat_map (E_stmt wv wk) ss.
(* expansion of covariate statements: (parameter, covariate, effect, operation, optional) *)
Definition E_cov_stmt (c : cstmt) : list effect :=
  match eval_modes w_fp (c_fp c) with
  | MList fps => flat_map (fun p => flat_map (fun v => map (fun f => (p, v, f, c_op c, c_opt c)) fps) (c_cov c)) (c_par c)
  | _ => []
  end.
Definition E_cov (cs : list cstmt) : list effect := flat_map E_cov_stmt cs.
(* ... and without the optional flag: the candidate effects *)
Definition unflag (x : effect) : N * N * N * N := fst x.

Definition pair_eqb (x y : N * N) : bool := N.eqb (fst x) (fst y) && N.eqb (snd x) (snd y).
Definition eff4_eqb (x y : N * N * N * N) : bool :=
  let '(p, c, f, o) := x in let '(p', c', f', o') := y in N.eqb p p' && N.eqb c c' && N.eqb f f' && N.eqb o o'.

Section SetB.
  Context {X : Type} (eqb : X -> X -> bool).
  Definition memb (x : X) (l : list X) : bool := existsb (eqb x) l.
  Definition subsetb (a b : list X) : bool := forallb (fun x => memb x b) a.
  Definition seteqb (a b : list X) : bool := subsetb a b && subsetb b a.
  Definition diffb (a b : list X) : list X := filter (fun x => negb (memb x b)) a.
End SetB.

Definition modes_seteq (a b : modes) : bool :=
  match a, b with
  | MWild, MWild | MNone, MNone => true
  | MList l1, MList l2 => seteqN l1 l2
  | _, _ => false
  end.
Definition omodes_seteq (a b : option modes) : bool :=
  match a, b with None, None => true | Some x, Some y => modes_seteq x y | _, _ => false end.
Fixpoint list_rel2 {X Y} (r : X -> Y -> bool) (a : list X) (b : list Y) : bool :=
  match a, b with [], [] => true | x :: a', y :: b' => r x y && list_rel2 r a' b' | _, _ => false end.
Definition pstmts_eq (a b : list pstmt) : bool :=
  list_rel2 (fun p q => modes_seteq (p_vals p) (p_vals q) && modes_seteq (p_keys p) (p_keys q)) a b.


(* ---- the denotation of a space, category by category ---- *)
Definition Epk_transits (m : mf) := E_pairs [] w_depot (transits m).
Definition Epk_periph (m : mf) := E_pairs [] w_periph_modes (peripherals m).
Definition E_indirect (m : mf) := E_pairs w_indirect_modes w_production (indirect_effect m).
Definition E_cov4 (m : mf) := map unflag (E_cov (covariate m)).


(* ---- guard conjuncts (one per known defect of the algebra) ---- *)
Definition modes_plain (m : modes) : bool := match m with MList (_ :: _) => true | _ => false end.
Definition omodes_plain (o : option modes) : bool := match o with None => true | Some m => modes_plain m end.
(* g_no_wildcard: no `*` in ABSORPTION / ELIMINATION / LAGTIME / METABOLITE modes nor in PERIPHERALS modes *)
Definition g_no_wildcard (m : mf) : bool :=
  omodes_plain (absorption m) && omodes_plain (elimination m) && omodes_plain (lagtime m) && omodes_plain (metabolite m) &&
  forallb (fun p => modes_plain (p_keys p) && modes_plain (p_vals p)) (peripherals m).
(* g_tuples_canonical: equal peripheral / indirect-effect denotations are written as the same statement tuples *)
Definition g_tuples_canonical (a b : mf) : bool :=
  (negb (seteqb pair_eqb (Epk_periph a) (Epk_periph b)) || pstmts_eq (peripherals a) (peripherals b)) &&
  (negb (seteqb pair_eqb (E_indirect a) (E_indirect b)) || indirect_tuple_eq (indirect_effect a) (indirect_effect b)).
(* g_same_metabolite *)
Definition g_same_metabolite (a b : mf) : bool :=
  seteqN (E_modes w_metabolite (metabolite a)) (E_modes w_metabolite (metabolite b)).
(* g_transits_product: the transit features of the containing space are counts x depots *)
Definition g_transits_product (m : mf) : bool :=
  seteqb pair_eqb (Epk_transits m)
         (flat_map (fun c => map (fun d => (c, d)) (all_depots (transits m))) (all_counts (transits m))).
(* g_pd_difference: in DIRECTEFFECT / EFFECTCOMP / METABOLITE a difference is never empty unless both sides are equal *)
Definition pd_diff_ok (w : list N) (x y : option modes) : bool :=
  let ex := E_modes w x in let ey := E_modes w y in
  is_nil ex || is_nil ey || seteqN ex ey || negb (is_nil (diffN ex ey)).
Definition g_pd_difference (a b : mf) : bool :=
  pd_diff_ok w_direct_effect (direct_effect a) (direct_effect b) &&
  pd_diff_ok w_effect_comp (effect_comp a) (effect_comp b) &&
  pd_diff_ok w_metabolite (metabolite a) (metabolite b).


(* union law on the observed result *)
Definition law_add (a b r : mf) : bool :=
  seteqN (E_modes w_absorption (absorption r)) (E_modes w_absorption (absorption a) ++ E_modes w_absorption (absorption b)) &&
  seteqN (E_modes w_elimination (elimination r)) (E_modes w_elimination (elimination a) ++ E_modes w_elimination (elimination b)) &&
  seteqN (E_modes w_lagtime (lagtime r)) (E_modes w_lagtime (lagtime a) ++ E_modes w_lagtime (lagtime b)) &&
  seteqN (E_modes w_direct_effect (direct_effect r)) (E_modes w_direct_effect (direct_effect a) ++ E_modes w_direct_effect (direct_effect b)) &&
  seteqN (E_modes w_effect_comp (effect_comp r)) (E_modes w_effect_comp (effect_comp a) ++ E_modes w_effect_comp (effect_comp b)) &&
  seteqN (E_modes w_metabolite (metabolite r)) (E_modes w_metabolite (metabolite a) ++ E_modes w_metabolite (metabolite b)) &&
  seteqb pair_eqb (Epk_transits r) (Epk_transits a ++ Epk_transits b) &&
  seteqb pair_eqb (Epk_periph r) (Epk_periph a ++ Epk_periph b) &&
  seteqb pair_eqb (E_indirect r) (E_indirect a ++ E_indirect b) &&
  seteqb eff4_eqb (E_cov4 r) (E_cov4 a ++ E_cov4 b).

(* difference law: the set difference; where it is empty a PK category may carry its default feature
   (ModelFeatures.create completes a PK space), anything else must be empty *)
Definition diff_ok {X} (eqb : X -> X -> bool) (r a b dflt : list X) : bool :=
  let d := diffb eqb a b in
  if is_nil d then subsetb eqb r dflt else seteqb eqb r d.
Definition law_sub (a b r : mf) : bool :=
  diff_ok N.eqb (E_modes w_absorption (absorption r)) (E_modes w_absorption (absorption a)) (E_modes w_absorption (absorption b)) [s_INST] &&
  diff_ok N.eqb (E_modes w_elimination (elimination r)) (E_modes w_elimination (elimination a)) (E_modes w_elimination (elimination b)) [s_FO] &&
  diff_ok N.eqb (E_modes w_lagtime (lagtime r)) (E_modes w_lagtime (lagtime a)) (E_modes w_lagtime (lagtime b)) [s_OFF] &&
  diff_ok N.eqb (E_modes w_direct_effect (direct_effect r)) (E_modes w_direct_effect (direct_effect a)) (E_modes w_direct_effect (direct_effect b)) [] &&
  diff_ok N.eqb (E_modes w_effect_comp (effect_comp r)) (E_modes w_effect_comp (effect_comp a)) (E_modes w_effect_comp (effect_comp b)) [] &&
  diff_ok N.eqb (E_modes w_metabolite (metabolite r)) (E_modes w_metabolite (metabolite a)) (E_modes w_metabolite (metabolite b)) [] &&
  diff_ok pair_eqb (Epk_transits r) (Epk_transits a) (Epk_transits b) [(0%N, s_DEPOT)] &&
  diff_ok pair_eqb (Epk_periph r) (Epk_periph a) (Epk_periph b) [(0%N, s_DRUG)] &&
  diff_ok pair_eqb (E_indirect r) (E_indirect a) (E_indirect b) [] &&
  diff_ok eff4_eqb (E_cov4 r) (E_cov4 a) (E_cov4 b) [].

(* equality of denotations (covariates with their optional flag) *)
Definition spaces_equal (a b : mf) : bool :=
  seteqN (E_modes w_absorption (absorption a)) (E_modes w_absorption (absorption b)) &&
  seteqN (E_modes w_elimination (elimination a)) (E_modes w_elimination (elimination b)) &&
  seteqN (E_modes w_lagtime (lagtime a)) (E_modes w_lagtime (lagtime b)) &&
  seteqN (E_modes w_direct_effect (direct_effect a)) (E_modes w_direct_effect (direct_effect b)) &&
  seteqN (E_modes w_effect_comp (effect_comp a)) (E_modes w_effect_comp (effect_comp b)) &&
  seteqN (E_modes w_metabolite (metabolite a)) (E_modes w_metabolite (metabolite b)) &&
  seteqb pair_eqb (Epk_transits a) (Epk_transits b) &&
  seteqb pair_eqb (Epk_periph a) (Epk_periph b) &&
  seteqb pair_eqb (E_indirect a) (E_indirect b) &&
  seteqb effect_eqb (E_cov (covariate a)) (E_cov (covariate b)).

(* inclusion of the PK denotations as contain_subset(tool=None) is used by modelsearch: DRUG peripherals only *)
Definition drug_only (l : list (N * N)) : list (N * N) := filter (fun x => N.eqb (snd x) s_DRUG) l.
Definition space_includes (a b : mf) : bool :=
  subsetN (E_modes w_absorption (absorption b)) (E_modes w_absorption (absorption a)) &&
  subsetN (E_modes w_elimination (elimination b)) (E_modes w_elimination (elimination a)) &&
  subsetN (E_modes w_lagtime (lagtime b)) (E_modes w_lagtime (lagtime a)) &&
  subsetb pair_eqb (Epk_transits b) (Epk_transits a) &&
  subsetb pair_eqb (drug_only (Epk_periph b)) (drug_only (Epk_periph a)).


(* a result object is usable: no X(None) statement inside *)
Definition wf_modes (o : option modes) : bool := match o with Some MNone => false | _ => true end.
Definition wf_result (r : mf) : bool :=
  wf_modes (absorption r) && wf_modes (elimination r) && wf_modes (lagtime r) && wf_modes (direct_effect r) &&
  wf_modes (effect_comp r) && wf_modes (metabolite r).
Definition is_pk (m : mf) : bool :=
  match absorption m, elimination m, lagtime m with Some _, Some _, Some _ => true | _, _, _ => false end.

