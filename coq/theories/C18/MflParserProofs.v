(* PV.C18.MflParserProofs — parse_ref (stringify ss) = Some ss for canonical statement lists. *)
From Coq Require Import List Bool Arith NArith Lia Decimal DecimalN DecimalPos.
From PV Require Import C18.MflParser.
Import ListNotations.
Local Open Scope N_scope.

(* ---------------------------------------------------------------- numbers *)
Lemma chars_uint_chars u : chars_uint (uint_chars u) = u.
Proof. induction u; cbn [uint_chars chars_uint]; rewrite ?IHu; reflexivity. Qed.

Lemma uint_chars_digits u : forallb is_digit (uint_chars u) = true.
Proof. induction u; cbn [uint_chars forallb]; rewrite ?IHu; reflexivity. Qed.

Lemma chars_num_chars n : chars_num (num_chars n) = n.
Proof. unfold chars_num, num_chars. rewrite chars_uint_chars. apply DecimalN.Unsigned.of_to. Qed.

Lemma num_chars_nonempty n : num_chars n <> [].
Proof.
  unfold num_chars. destruct n as [|p]; cbn; [discriminate|].
  pose proof (DecimalPos.Unsigned.to_uint_nonnil p) as H. destruct (Pos.to_uint p); [congruence|..]; discriminate.
Qed.

Lemma digit_wordchar c : is_digit c = true -> is_wordchar c = true.
Proof. unfold is_wordchar. intros ->. reflexivity. Qed.

Lemma digits_wordchars l : forallb is_digit l = true -> forallb is_wordchar l = true.
Proof.
  induction l as [|c l IH]; cbn; [reflexivity|]. intro H. apply andb_true_iff in H. destruct H as [H1 H2].
  rewrite (digit_wordchar c H1), (IH H2). reflexivity.
Qed.

(* ---------------------------------------------------------------- lexer *)
Lemma lex_go_word w : forall acc rest,
  forallb is_wordchar w = true -> lex_go acc (w ++ rest) = lex_go (List.rev w ++ acc) rest.
Proof.
  induction w as [|c w IH]; intros acc rest H; [reflexivity|].
  cbn in H. apply andb_true_iff in H. destruct H as [Hc Hw]. cbn [List.app lex_go]. rewrite Hc, (IH _ _ Hw).
  cbn [List.rev]. rewrite <- app_assoc. reflexivity.
Qed.

Definition wordlike (t : token) : bool := match t with TNum _ | TWord _ | TDec _ => true | _ => false end.
(* the printer never emits a decimal token *)
Definition tok_ok (t : token) : bool := match t with TWord w => word_ok w | TDec _ => false | _ => true end.
Fixpoint sep_ok (ts : list token) : bool :=
  match ts with
  | [] => true
  | t :: tl => tok_ok t && negb (wordlike t && match tl with t' :: _ => wordlike t' | [] => false end) && sep_ok tl
  end.

(* what a pending word turns into *)
Definition pending_ok (acc : list N) (t : token) : Prop := acc <> [] /\ flush acc = [t].

Lemma wordchars_no_dot w : forallb is_wordchar w = true -> has_dot w = false.
Proof.
  unfold has_dot. induction w as [|c w IH]; cbn; [reflexivity|]. intro H. apply andb_true_iff in H. destruct H as [Hc Hw].
  rewrite (IH Hw), orb_false_r. destruct (N.eqb_spec c 46) as [->|]; [discriminate|reflexivity].
Qed.

Lemma flush_word w : word_ok w = true -> flush (List.rev w) = [TWord w].
Proof.
  unfold word_ok, flush. intro H. apply andb_true_iff in H. destruct H as [H Hd]. apply andb_true_iff in H. destruct H as [Hne Hwc].
  destruct w as [|c w]; [discriminate|]. rewrite rev_involutive.
  destruct (List.rev (c :: w)) eqn:E.
  - apply (f_equal (@length N)) in E. rewrite rev_length in E. discriminate.
  - apply negb_true_iff in Hd. rewrite Hd, (wordchars_no_dot _ Hwc). reflexivity.
Qed.

Lemma flush_num n : flush (List.rev (num_chars n)) = [TNum n].
Proof.
  unfold flush. rewrite rev_involutive. destruct (List.rev (num_chars n)) eqn:E.
  - exfalso. apply (num_chars_nonempty n). apply (f_equal (@List.rev N)) in E. rewrite rev_involutive in E. exact E.
  - unfold num_chars at 1. rewrite uint_chars_digits, chars_num_chars. reflexivity.
Qed.

Definition head_not_wordlike (ts : list token) : Prop :=
  match ts with t' :: _ => wordlike t' = false | [] => True end.

Lemma lex_go_general ts : forall acc,
  sep_ok ts = true -> (acc = [] \/ head_not_wordlike ts) ->
  lex_go acc (render ts) = Some (flush acc ++ ts).
Proof.
  induction ts as [|t tl IH]; intros acc H Hacc.
  - cbn. rewrite app_nil_r. reflexivity.
  - cbn [sep_ok] in H. apply andb_true_iff in H. destruct H as [H Htl]. apply andb_true_iff in H. destruct H as [Hok Hadj].
    assert (Hpunct : forall c, is_wordchar c = false -> (c =? c_space) = false -> (c =? c_dot) = false -> punct c = Some t ->
              render_token t = [c] -> lex_go acc (render (t :: tl)) = Some (flush acc ++ t :: tl)).
    { intros c H1 H2 H3 H4 H5. cbn [render flat_map]. rewrite H5. cbn [List.app lex_go]. rewrite H1, H2, H3, H4.
      fold (render tl). rewrite (IH [] Htl (or_introl eq_refl)). reflexivity. }
    destruct t.
    + apply (Hpunct c_semi); reflexivity.
    + apply (Hpunct c_comma); reflexivity.
    + apply (Hpunct c_lp); reflexivity.
    + apply (Hpunct c_rp); reflexivity.
    + apply (Hpunct c_lb); reflexivity.
    + apply (Hpunct c_rb); reflexivity.
    + apply (Hpunct c_at); reflexivity.
    + apply (Hpunct c_star); reflexivity.
    + apply (Hpunct c_q); reflexivity.
    + cbn [render flat_map render_token List.app lex_go]. cbn. fold (render tl).
      rewrite (IH [] Htl (or_introl eq_refl)). reflexivity.
    + (* a number: nothing can be pending *)
      destruct Hacc as [->|Hh]; [|cbn in Hh; discriminate].
      cbn [render flat_map render_token]. fold (render tl).
      rewrite lex_go_word by (apply digits_wordchars, uint_chars_digits). rewrite app_nil_r.
      rewrite IH; [rewrite flush_num; reflexivity|exact Htl|].
      right. cbn [wordlike andb] in Hadj. destruct tl as [|t' tl']; [exact I|]. apply negb_true_iff in Hadj. exact Hadj.
    + destruct Hacc as [->|Hh]; [|cbn in Hh; discriminate].
      cbn [tok_ok] in Hok. cbn [render flat_map render_token]. fold (render tl).
      assert (Hwc : forallb is_wordchar w = true).
      { unfold word_ok in Hok. apply andb_true_iff in Hok. destruct Hok as [Hok _]. apply andb_true_iff in Hok. tauto. }
      rewrite lex_go_word by exact Hwc. rewrite app_nil_r.
      rewrite IH; [rewrite (flush_word w Hok); reflexivity|exact Htl|].
      right. cbn [wordlike andb] in Hadj. destruct tl as [|t' tl']; [exact I|]. apply negb_true_iff in Hadj. exact Hadj.
    + cbn in Hok. discriminate.
Qed.

Lemma lex_render ts : sep_ok ts = true -> lex (render ts) = Some ts.
Proof. intro H. unfold lex. rewrite (lex_go_general ts [] H (or_introl eq_refl)). reflexivity. Qed.

(* ---------------------------------------------------------------- parser on the printed tokens *)
Lemma item_eqb_eq a b : item_eqb a b = true -> a = b.
Proof.
  destruct a as [x|x], b as [y|y]; cbn; try discriminate.
  - intro H. apply N.eqb_eq in H. congruence.
  - revert y. induction x as [|p x IH]; intros [|q y] H; try discriminate; [reflexivity|].
    apply andb_true_iff in H. destruct H as [H1 H2]. apply N.eqb_eq in H1. subst. specialize (IH y H2). congruence.
Qed.
Lemma items_eqb_eq a : forall b, items_eqb a b = true -> a = b.
Proof.
  induction a as [|x a IH]; intros [|y b] H; try discriminate; [reflexivity|].
  cbn in H. apply andb_true_iff in H. destruct H as [H1 H2]. apply item_eqb_eq in H1. rewrite H1, (IH b H2). reflexivity.
Qed.

Notation item_toks l := (sep_tokens TComma (map (fun i => [item_token i]) l)).

Lemma parse_items_spec l : forall acc rest,
  l <> [] -> parse_items acc (item_toks l ++ TRB :: rest) = Some (acc ++ l, rest).
Proof.
  induction l as [|i l IH]; intros acc rest Hne; [congruence|].
  destruct l as [|i2 l'].
  - cbn. destruct i; reflexivity.
  - change (item_toks (i :: i2 :: l')) with ([item_token i] ++ TComma :: item_toks (i2 :: l')).
    cbn [List.app]. specialize (IH (acc ++ [i]) rest ltac:(discriminate)).
    destruct i; cbn [item_token parse_items]; rewrite IH, <- app_assoc; reflexivity.
Qed.

Definition arg_follow (rest : list token) : Prop := exists r, rest = TComma :: r \/ rest = TRP :: r.

Lemma parse_arg_spec a rest : arg_follow rest -> parse_arg (arg_tokens a ++ rest) = Some (a, rest).
Proof.
  intros [r Hr].
  assert (Hbr : forall l, parse_arg ((TLB :: item_toks l ++ [TRB]) ++ rest) = Some (AVals l, rest)).
  { intro l. cbn [List.app parse_arg]. rewrite <- app_assoc. cbn [List.app]. destruct l as [|i l].
    - reflexivity.
    - rewrite parse_items_spec by discriminate. reflexivity. }
  destruct a as [| w | l].
  - reflexivity.
  - reflexivity.
  - destruct l as [|i [|i2 l']].
    + apply (Hbr []).
    + cbn [arg_tokens List.app]. destruct i; destruct Hr as [-> | ->]; reflexivity.
    + unfold arg_tokens. destruct i as [a|w]; [|apply Hbr].
      destruct (last (INum a :: i2 :: l') (INum 0)) as [b|w] eqn:El; [|apply Hbr].
      destruct ((a <=? b) && items_eqb (INum a :: i2 :: l') (nrange a b)) eqn:Ec; [|apply Hbr].
      apply andb_true_iff in Ec. destruct Ec as [Hab Heq]. apply items_eqb_eq in Heq.
      cbn [List.app parse_arg]. rewrite Hab, <- Heq. reflexivity.
Qed.

Notation arg_toks args := (sep_tokens TComma (map arg_tokens args)).

Lemma parse_args_spec args : forall fuel acc rest,
  args <> [] -> (length args <= fuel)%nat ->
  parse_args fuel acc (arg_toks args ++ TRP :: rest) = Some (acc ++ args, rest).
Proof.
  induction args as [|a args IH]; intros fuel acc rest Hne Hf; [congruence|].
  destruct fuel as [|f]; [cbn in Hf; lia|]. destruct args as [|a2 args'].
  - cbn [map sep_tokens parse_args]. rewrite parse_arg_spec by (exists rest; auto). reflexivity.
  - change (arg_toks (a :: a2 :: args')) with (arg_tokens a ++ TComma :: arg_toks (a2 :: args')).
    rewrite <- app_assoc. cbn [List.app parse_args].
    rewrite parse_arg_spec by (eexists; left; reflexivity).
    rewrite IH; [rewrite <- app_assoc; reflexivity|discriminate|cbn in *; lia].
Qed.

Lemma parse_stmt_spec s fuel rest :
  s_args s <> [] -> (length (s_args s) <= fuel)%nat ->
  parse_stmt fuel (stmt_tokens s ++ rest) = Some (s, rest).
Proof.
  intros Hne Hf. destruct s as [name opt args]. unfold stmt_tokens. cbn [s_name s_opt s_args] in *.
  destruct opt; cbn [List.app parse_stmt]; rewrite <- app_assoc; cbn [List.app];
    rewrite parse_args_spec by assumption; reflexivity.
Qed.

Lemma arg_tokens_nonempty a : arg_tokens a <> [].
Proof.
  destruct a as [| w | l]; try discriminate. destruct l as [|i [|i2 l']]; try discriminate.
  unfold arg_tokens. destruct i; try discriminate. destruct (last _ _); try discriminate. destruct (_ && _); discriminate.
Qed.

Lemma sep_tokens_length sep (parts : list (list token)) :
  Forall (fun p => p <> []) parts -> (length parts <= length (sep_tokens sep parts))%nat.
Proof.
  induction 1 as [|p parts Hp _ IH]; [cbn; lia|]. destruct parts as [|p2 parts'].
  - cbn. destruct p; [congruence|cbn; lia].
  - change (sep_tokens sep (p :: p2 :: parts')) with (p ++ sep :: sep_tokens sep (p2 :: parts')).
    rewrite app_length. cbn [length] in *. destruct p; [congruence|cbn [length]; lia].
Qed.

Lemma stmt_tokens_length s : (length (s_args s) < length (stmt_tokens s))%nat.
Proof.
  unfold stmt_tokens. cbn [length]. rewrite !app_length. cbn [length]. rewrite app_length. cbn [length].
  assert (length (s_args s) <= length (arg_toks (s_args s)))%nat.
  { rewrite <- (map_length arg_tokens). apply sep_tokens_length. apply Forall_forall. intros p Hp.
    apply in_map_iff in Hp. destruct Hp as [a [<- _]]. apply arg_tokens_nonempty. }
  lia.
Qed.

Lemma parse_stmts_spec ss : forall fuel acc,
  ss <> [] -> Forall (fun s => s_args s <> []) ss -> (length (stmts_tokens ss) < fuel)%nat ->
  parse_stmts fuel acc (stmts_tokens ss) = Some (acc ++ ss).
Proof.
  induction ss as [|s ss IH]; intros fuel acc Hne Hok Hf; [congruence|].
  inversion Hok as [|? ? Hs Hok']; subst. destruct fuel as [|f]; [lia|]. destruct ss as [|s2 ss'].
  - unfold stmts_tokens in *. cbn [map sep_tokens] in *. cbn [parse_stmts].
    rewrite <- (app_nil_r (stmt_tokens s)), parse_stmt_spec; [reflexivity|exact Hs|].
    pose proof (stmt_tokens_length s). lia.
  - unfold stmts_tokens in *. change (sep_tokens TSemi (map stmt_tokens (s :: s2 :: ss')))
      with (stmt_tokens s ++ TSemi :: sep_tokens TSemi (map stmt_tokens (s2 :: ss'))) in *.
    cbn [parse_stmts]. rewrite parse_stmt_spec; [|exact Hs|].
    + rewrite IH; [rewrite <- app_assoc; reflexivity|discriminate|exact Hok'|].
      rewrite app_length in Hf. cbn [length] in Hf. lia.
    + pose proof (stmt_tokens_length s). rewrite app_length in Hf. lia.
Qed.

(* ---------------------------------------------------------------- the printed tokens lex back *)
Definition first_wl (ts : list token) : bool := match ts with t :: _ => wordlike t | [] => false end.

Lemma sep_ok_app a : forall b,
  sep_ok a = true -> sep_ok b = true -> first_wl b = false -> sep_ok (a ++ b) = true.
Proof.
  induction a as [|t a IH]; intros b Ha Hb Hf; [exact Hb|].
  cbn [sep_ok] in Ha. apply andb_true_iff in Ha. destruct Ha as [Ha Ha2]. apply andb_true_iff in Ha. destruct Ha as [Hok Hadj].
  cbn [List.app sep_ok]. rewrite Hok, (IH b Ha2 Hb Hf). destruct a as [|t2 a'].
  - cbn [List.app]. destruct b as [|tb b']; [destruct (wordlike t); reflexivity|]. cbn in Hf. rewrite Hf, andb_false_r. reflexivity.
  - cbn [List.app]. rewrite Hadj. reflexivity.
Qed.

Lemma sep_ok_items l rest :
  forallb item_ok l = true -> l <> [] -> sep_ok (TRB :: rest) = true -> sep_ok (item_toks l ++ TRB :: rest) = true.
Proof.
  intros Hl Hne Hrest. induction l as [|i l IH]; [congruence|].
  cbn in Hl. apply andb_true_iff in Hl. destruct Hl as [Hi Hl]. destruct l as [|i2 l'].
  - cbn [map sep_tokens List.app]. cbn [sep_ok]. cbn [sep_ok] in Hrest. rewrite Hrest.
    destruct i; cbn in *; rewrite ?Hi; reflexivity.
  - change (item_toks (i :: i2 :: l')) with ([item_token i] ++ TComma :: item_toks (i2 :: l')).
    cbn [List.app]. specialize (IH Hl ltac:(discriminate)). cbn [sep_ok]. rewrite IH.
    destruct i; cbn in *; rewrite ?Hi; reflexivity.
Qed.

Lemma sep_ok_arg a rest :
  arg_ok a = true -> sep_ok rest = true -> first_wl rest = false -> sep_ok (arg_tokens a ++ rest) = true.
Proof.
  intros Ha Hrest Hf.
  assert (Hbr : forall l, forallb item_ok l = true -> sep_ok ((TLB :: item_toks l ++ [TRB]) ++ rest) = true).
  { intros l Hl. cbn [List.app]. rewrite <- app_assoc. cbn [List.app sep_ok]. destruct l as [|i l].
    - cbn [map sep_tokens List.app sep_ok]. rewrite Hrest. reflexivity.
    - cbn [tok_ok wordlike andb negb]. apply sep_ok_items; [exact Hl|discriminate|]. cbn [sep_ok]. rewrite Hrest. reflexivity. }
  destruct a as [| w | l]; cbn [arg_ok] in Ha.
  - cbn. exact Hrest.
  - cbn [arg_tokens List.app sep_ok tok_ok wordlike andb negb]. rewrite Ha, Hrest.
    destruct rest as [|t r]; [reflexivity|]. cbn in Hf. rewrite Hf. reflexivity.
  - destruct l as [|i [|i2 l']].
    + apply (Hbr []). reflexivity.
    + cbn in Ha. rewrite andb_true_r in Ha. cbn [arg_tokens List.app sep_ok]. rewrite Hrest.
      destruct rest as [|t r]; [destruct i; cbn in *; rewrite ?Ha; reflexivity|]. cbn in Hf.
      destruct i; cbn in *; rewrite ?Ha, Hf; reflexivity.
    + unfold arg_tokens. destruct i as [a|w]; [|apply Hbr; exact Ha].
      destruct (last (INum a :: i2 :: l') (INum 0)) as [b|w] eqn:El; [|apply Hbr; exact Ha].
      destruct ((a <=? b) && items_eqb (INum a :: i2 :: l') (nrange a b)) eqn:Ec; [|apply Hbr; exact Ha].
      cbn [List.app sep_ok tok_ok wordlike andb negb]. rewrite Hrest.
      destruct rest as [|t r]; [reflexivity|]. cbn in Hf. rewrite Hf. reflexivity.
Qed.

Lemma sep_ok_args args rest :
  forallb arg_ok args = true -> args <> [] -> sep_ok rest = true ->
  sep_ok (arg_toks args ++ TRP :: rest) = true.
Proof.
  intros Hl Hne Hrest. induction args as [|a args IH]; [congruence|].
  cbn in Hl. apply andb_true_iff in Hl. destruct Hl as [Ha Hl]. destruct args as [|a2 args'].
  - cbn [map sep_tokens]. apply sep_ok_arg; [exact Ha| |reflexivity]. cbn [sep_ok]. rewrite Hrest. reflexivity.
  - change (arg_toks (a :: a2 :: args')) with (arg_tokens a ++ TComma :: arg_toks (a2 :: args')).
    rewrite <- app_assoc. cbn [List.app]. apply sep_ok_arg; [exact Ha| |reflexivity].
    cbn [sep_ok tok_ok wordlike andb negb]. apply IH; [exact Hl|discriminate].
Qed.

Lemma sep_ok_stmt s rest :
  stmt_ok s = true -> sep_ok rest = true -> sep_ok (stmt_tokens s ++ rest) = true.
Proof.
  intros Hs Hrest. unfold stmt_ok in Hs. apply andb_true_iff in Hs. destruct Hs as [Hs Hargs].
  apply andb_true_iff in Hs. destruct Hs as [Hname Hne].
  assert (Hne' : s_args s <> []) by (destruct (s_args s); [discriminate|discriminate]).
  unfold stmt_tokens. destruct (s_opt s); cbn [List.app]; rewrite <- app_assoc; cbn [List.app sep_ok tok_ok wordlike andb negb];
    rewrite Hname; cbn [andb]; apply sep_ok_args; assumption.
Qed.

Lemma sep_ok_stmts ss : forallb stmt_ok ss = true -> sep_ok (stmts_tokens ss) = true.
Proof.
  induction ss as [|s ss IH]; intro H; [reflexivity|].
  cbn in H. apply andb_true_iff in H. destruct H as [Hs Hss]. unfold stmts_tokens in *. destruct ss as [|s2 ss'].
  - cbn [map sep_tokens]. rewrite <- (app_nil_r (stmt_tokens s)). apply sep_ok_stmt; [exact Hs|reflexivity].
  - change (sep_tokens TSemi (map stmt_tokens (s :: s2 :: ss')))
      with (stmt_tokens s ++ TSemi :: sep_tokens TSemi (map stmt_tokens (s2 :: ss'))).
    apply sep_ok_stmt; [exact Hs|]. cbn [sep_ok tok_ok wordlike andb negb]. apply IH. exact Hss.
Qed.

(* ---------------------------------------------------------------- the round trip *)
Theorem mfl_parse_print_lemma ss : canonical ss = true -> parse_ref (stringify ss) = Some ss.
Proof.
  unfold canonical. intro H. apply andb_true_iff in H. destruct H as [Hne Hok].
  unfold parse_ref, stringify. rewrite (lex_render _ (sep_ok_stmts ss Hok)). unfold parse_tokens.
  rewrite parse_stmts_spec; [reflexivity| | |lia].
  - destruct ss; [discriminate|discriminate].
  - apply Forall_forall. intros s Hs. rewrite forallb_forall in Hok. specialize (Hok s Hs).
    unfold stmt_ok in Hok. apply andb_true_iff in Hok. destruct Hok as [Hok _]. apply andb_true_iff in Hok.
    destruct Hok as [_ Hok]. destruct (s_args s); [discriminate|discriminate].
Qed.

(* the elaborated reading of a printed canonical statement list is the elaboration of the list itself *)
Corollary parse_mfl_print_lemma ss :
  canonical ss = true ->
  parse_mfl (stringify ss) =
  if allometry_bracketed false (stmts_tokens ss) then Rejected else
  match elaborate_all ss with Some ss' => Accepted ss' | None => Rejected end.
Proof.
  intro H. unfold parse_mfl. rewrite (mfl_parse_print_lemma ss H).
  unfold canonical in H. apply andb_true_iff in H. destruct H as [_ Hok].
  unfold stringify. rewrite (lex_render _ (sep_ok_stmts ss Hok)). reflexivity.
Qed.

(* no text is answered with an internal error: it is read or refused *)
Lemma parse_mfl_never_internal text : parse_mfl text <> InternalError.
Proof.
  unfold parse_mfl. destruct (lex text) as [ts|]; [|discriminate]. destruct (allometry_bracketed false ts); [discriminate|].
  destruct (parse_ref text) as [ss|]; [|discriminate]. destruct (elaborate_all ss); discriminate.
Qed.
