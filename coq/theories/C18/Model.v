(* PV.C18.Model — executable model of the enumeration code behind pharmpy's search tools:
     pharmpy/internals/set/partitions.py   partitions, _partitions, _shortlexsorted, _partitionkey
     pharmpy/internals/set/subsets.py      subsets, non_empty_subsets, non_empty_proper_subsets
     pharmpy/tools/mfl/helpers.py          _group_incompatible_features, all_combinations
     pharmpy/tools/modelsearch/algorithms.py  exhaustive (candidate numbering)
   mirroring the Python statement by statement (same generator order).  No proofs here. *)
From Coq Require Import List Bool Arith ZArith NArith Lia.
Import ListNotations.
Local Open Scope nat_scope.

(* ------------------------------------------------------------------------------------------ *)
(* Python's sorted(iterable, key=...) : a stable sort that only asks `key(b) < key(a)`.        *)
(* Any stable sort gives the same list; the model is a top-down merge sort (fuel = length).    *)
Section Sorting.
  Context {X : Type}.
  Variable lt : X -> X -> bool.            (* key(a) < key(b) *)

  Fixpoint merge (a : list X) : list X -> list X :=
    fix merge_a (b : list X) : list X :=
      match a, b with
      | [], _ => b
      | _, [] => a
      | x :: a', y :: b' => if lt y x then y :: merge_a b' else x :: merge a' b
      end.

  Fixpoint msort_fuel (fuel : nat) (l : list X) : list X :=
    match fuel with
    | 0 => l
    | S f =>
        match l with
        | [] => []
        | [x] => [x]
        | _ => let h := Nat.div2 (length l) in
               merge (msort_fuel f (firstn h l)) (msort_fuel f (skipn h l))
        end
    end.
  Definition py_sorted (l : list X) : list X := msort_fuel (length l) l.
End Sorting.

(* ------------------------------------------------------------------------------------------ *)
(* Python tuple comparison: first differing position decides, a proper prefix is smaller.       *)
Section Lex.
  Context {X : Type}.
  Variable cmp : X -> X -> comparison.
  Fixpoint lex_cmp (a b : list X) : comparison :=
    match a, b with
    | [], [] => Eq
    | [], _ :: _ => Lt
    | _ :: _, [] => Gt
    | x :: a', y :: b' => match cmp x y with Eq => lex_cmp a' b' | c => c end
    end.
End Lex.

Definition is_lt (c : comparison) : bool := match c with Lt => true | _ => false end.

(* ------------------------------------------------------------------------------------------ *)
Section Partitions.
  Variable A : Type.
  Variable cmp : A -> A -> comparison.      (* the order Python uses on the elements *)

  (* for i, part in enumerate(partition): yield partition[:i] + (part + suffix,) + partition[i+1:] *)
  Fixpoint add_to_each (x : A) (p : list (list A)) : list (list (list A)) :=
    match p with
    | [] => []
    | b :: p' => ((b ++ [x]) :: p') :: map (cons b) (add_to_each x p')
    end.
  (* yield partition + (suffix,)  and then the loop above *)
  Definition extend (x : A) (p : list (list A)) : list (list (list A)) :=
    (p ++ [[x]]) :: add_to_each x p.
  (* _partitions(elements, n) on the reversed prefix: r = elements[n-1], ..., elements[0] *)
  Fixpoint raw_rev (r : list A) : list (list (list A)) :=
    match r with
    | [] => [[]]
    | x :: r' => flat_map (extend x) (raw_rev r')
    end.
  Definition raw_partitions (l : list A) : list (list (list A)) := raw_rev (rev l).

  (* _shortlexkey(x) = (len(x), x) *)
  Definition shortlex_cmp (a b : list A) : comparison :=
    match Nat.compare (length a) (length b) with Eq => lex_cmp cmp a b | c => c end.
  Definition shortlexsorted (p : list (list A)) : list (list A) :=
    py_sorted (fun a b => is_lt (shortlex_cmp a b)) p.

  (* _partitionkey(x) = (len(x), tuple(map(len, x)), x) *)
  Definition partitionkey_cmp (p q : list (list A)) : comparison :=
    match Nat.compare (length p) (length q) with
    | Eq => match lex_cmp Nat.compare (map (@length A) p) (map (@length A) q) with
            | Eq => lex_cmp (lex_cmp cmp) p q
            | c => c
            end
    | c => c
    end.

  Definition partitions (l : list A) : list (list (list A)) :=
    py_sorted (fun p q => is_lt (partitionkey_cmp p q)) (map shortlexsorted (raw_partitions l)).

  (* ---- subsets.py ---- *)
  (* itertools.combinations(s, r): r-length subsequences in lexicographic index order *)
  Fixpoint combinations (l : list A) (r : nat) {struct l} : list (list A) :=
    match l, r with
    | _, 0 => [[]]
    | [], S _ => []
    | x :: l', S r' => map (cons x) (combinations l' r') ++ combinations l' r
    end.

  (* max_size = len(s) + max_size + 1 if max_size < 0 else max_size *)
  Definition eff_max (n : nat) (max_size : Z) : Z :=
    if (max_size <? 0)%Z then (Z.of_nat n + max_size + 1)%Z else max_size.
  (* range(min_size, max_size + 1) for min_size >= 0 *)
  Definition size_range (min_size : nat) (mx : Z) : list nat :=
    seq min_size (Z.to_nat (mx + 1) - min_size).
  Definition subsets (l : list A) (min_size : nat) (max_size : Z) : list (list A) :=
    flat_map (combinations l) (size_range min_size (eff_max (length l) max_size)).
  Definition non_empty_subsets (l : list A) : list (list A) := subsets l 1 (-1)%Z.
  Definition non_empty_proper_subsets (l : list A) : list (list A) := subsets l 1 (-2)%Z.
End Partitions.

Arguments add_to_each {A}. Arguments extend {A}. Arguments raw_rev {A}. Arguments raw_partitions {A}.
Arguments shortlex_cmp {A}. Arguments shortlexsorted {A}. Arguments partitionkey_cmp {A}.
Arguments partitions {A}. Arguments combinations {A}. Arguments subsets {A}.
Arguments non_empty_subsets {A}. Arguments non_empty_proper_subsets {A}.

(* Stirling numbers of the second kind and Bell numbers (the specification of the count) *)
Fixpoint stirling2 (n k : nat) : nat :=
  match n, k with
  | 0, 0 => 1
  | 0, S _ => 0
  | S n', 0 => 0
  | S n', S k' => stirling2 n' k' + S k' * stirling2 n' (S k')
  end.
Definition bell (n : nat) : nat := fold_right Nat.add 0 (map (stirling2 n) (seq 0 (S n))).

Fixpoint binom (n k : nat) : nat :=
  match n, k with
  | _, 0 => 1
  | 0, S _ => 0
  | S n', S k' => binom n' k' + binom n' (S k')
  end.

(* ------------------------------------------------------------------------------------------ *)
(* all_combinations (mfl/helpers.py) over an arbitrary key type with a category projection.   *)
Section Combos.
  Variable K C : Type.
  Variable cat : K -> C.                    (* key[0] *)
  Variable ceqb : C -> C -> bool.

  (* grouped = defaultdict(list); grouped[key[0]].append(key)   (dict keeps insertion order) *)
  Fixpoint ginsert (k : K) (g : list (C * list K)) : list (C * list K) :=
    match g with
    | [] => [(cat k, [k])]
    | (c, ks) :: g' => if ceqb c (cat k) then (c, ks ++ [k]) :: g' else (c, ks) :: ginsert k g'
    end.
  Definition grouped_assoc (keys : list K) : list (C * list K) :=
    fold_left (fun g k => ginsert k g) keys [].
  Definition grouped (keys : list K) : list (list K) := map snd (grouped_assoc keys).

  (* itertools.product( *lists ): the leftmost position varies slowest *)
  Fixpoint product {X : Type} (ls : list (list X)) : list (list X) :=
    match ls with
    | [] => [[]]
    | l :: ls' => flat_map (fun x => map (cons x) (product ls')) l
    end.

  Fixpoint somes {X : Type} (t : list (option X)) : list X :=
    match t with
    | [] => []
    | Some x :: t' => x :: somes t'
    | None :: t' => somes t'
    end.
  Definition nonempty {X : Type} (l : list X) : bool := match l with [] => false | _ => true end.

  (* feats = ((None, *group) for group in grouped); for t in product( *feats ): a = non-None; if a: yield a *)
  Definition all_combinations (keys : list K) : list (list K) :=
    filter nonempty (map somes (product (map (fun g => None :: map Some g) (grouped keys)))).

  (* exhaustive: for i, combo in enumerate(combinations, 1): model_name = f'modelsearch_run{i}' *)
  Definition exhaustive (keys : list K) : list (nat * list K) :=
    let cs := all_combinations keys in combine (seq 1 (length cs)) cs.
End Combos.

Arguments ginsert {K C}. Arguments grouped_assoc {K C}. Arguments grouped {K C}.
Arguments product {X}. Arguments somes {X}. Arguments nonempty {X}.
Arguments all_combinations {K C}. Arguments exhaustive {K C}.

(* ------------------------------------------------------------------------------------------ *)
(* Feature keys as pharmpy builds them: tuples of strings and integers, e.g.
   ('ABSORPTION', 'FO'), ('TRANSITS', 1, 'DEPOT'), ('PERIPHERALS', 2).  Strings are exported as
   numeric codes (the fixed table below for the names the algorithms inspect, fresh codes >= 1000
   for anything else). *)
Inductive atom := AS (s : N) | AI (z : Z).
Definition atom_eqb (a b : atom) : bool :=
  match a, b with
  | AS x, AS y => N.eqb x y
  | AI x, AI y => Z.eqb x y
  | _, _ => false
  end.
Definition key := list atom.
Fixpoint key_eqb (a b : key) : bool :=
  match a, b with
  | [], [] => true
  | x :: a', y :: b' => atom_eqb x y && key_eqb a' b'
  | _, _ => false
  end.
Definition kcat (k : key) : atom := hd (AS 0) k.      (* key[0] *)

Definition s_ABSORPTION : N := 1.   Definition s_ELIMINATION : N := 2.  Definition s_TRANSITS : N := 3.
Definition s_PERIPHERALS : N := 4.  Definition s_LAGTIME : N := 5.      Definition s_COVARIATE : N := 6.
Definition s_DIRECT : N := 7.       Definition s_EFFECTCOMP : N := 8.   Definition s_INDIRECT : N := 9.
Definition s_METABOLITE : N := 10.  Definition s_ALLOMETRY : N := 11.
Definition s_FO : N := 20.          Definition s_ZO : N := 21.          Definition s_SEQ_ZO_FO : N := 22.
Definition s_INST : N := 23.        Definition s_MM : N := 24.          Definition s_MIX_FO_MM : N := 25.
Definition s_DEPOT : N := 26.       Definition s_NODEPOT : N := 27.     Definition s_ON : N := 28.
Definition s_OFF : N := 29.         Definition s_DRUG : N := 30.        Definition s_MET : N := 31.

(* ------------------------------------------------------------------------------------------ *)
(* modelsearch/algorithms.py: _is_allowed, _is_allowed_peripheral, _get_possible_actions,
   exhaustive_stepwise, reduced_stepwise.  mfl_funcs is a dict: `keys` below is its key list in
   dict order.  The function objects are only compared by identity (`mfl_funcs[feat] in func_type`)
   and every key has its own function object, so "a function of the same type was used" is
   "a previous feature has the same key[0]".  func.keywords['n'] of a PERIPHERALS key is key[1]. *)
Definition memk (k : key) (l : list key) : bool := existsb (key_eqb k) l.

(* feat[:len(pat)] == pat *)
Fixpoint is_prefix (pat k : key) : bool :=
  match pat, k with
  | [], _ => true
  | _ :: _, [] => false
  | a :: pat', b :: k' => atom_eqb a b && is_prefix pat' k'
  end.

Definition combo_table := list (key * key).

(* the literal not_supported_combo of _is_allowed (regenerated from source and compared at check time) *)
Definition not_supported_combo : combo_table :=
  [ ([AS s_ABSORPTION; AS s_FO], [AS s_TRANSITS; AI 1; AS s_NODEPOT]);
    ([AS s_ABSORPTION; AS s_ZO], [AS s_TRANSITS]);
    ([AS s_ABSORPTION; AS s_SEQ_ZO_FO], [AS s_TRANSITS]);
    ([AS s_ABSORPTION; AS s_SEQ_ZO_FO], [AS s_LAGTIME; AS s_ON]);
    ([AS s_ABSORPTION; AS s_INST], [AS s_LAGTIME; AS s_ON]);
    ([AS s_ABSORPTION; AS s_INST], [AS s_TRANSITS]);
    ([AS s_LAGTIME; AS s_ON], [AS s_TRANSITS]) ].

Definition is_periph (k : key) : bool := atom_eqb (kcat k) (AS s_PERIPHERALS).
Definition karg1 (k : key) : Z := match k with _ :: AI z :: _ => z | _ => 0%Z end.

Fixpoint zmin (l : list Z) (d : Z) : Z :=
  match l with [] => d | x :: tl => Z.min x (zmin tl x) end.
(* list.index *)
Fixpoint zindex (n : Z) (l : list Z) : option nat :=
  match l with
  | [] => None
  | x :: tl => if Z.eqb x n then Some 0 else option_map S (zindex n tl)
  end.

Definition n_all (keys : list key) : list Z := map karg1 (filter is_periph keys).

Fixpoint zmax (l : list Z) (d : Z) : Z :=
  match l with [] => d | x :: tl => Z.max x (zmax tl x) end.

(* _is_allowed_peripheral(func_current, peripheral_previous, mfl_funcs)  (after fix c2f5172):
     if not n_prev: return n == min(n_all)
     n_larger = [m for m in n_all if m > max(n_prev)]; return bool(n_larger) and n == min(n_larger) *)
Definition allowed_peripheral (keys : list key) (cur : key) (prev : list key) : bool :=
  let na := n_all keys in
  let n := karg1 cur in
  match map karg1 (filter is_periph prev) with
  | [] => Z.eqb n (zmin na n)
  | (u :: _) as used =>
      match filter (fun m => Z.ltb (zmax used u) m) na with
      | [] => false
      | (x :: _) as larger => Z.eqb n (zmin larger x)
      end
  end.

Definition combo_hit (tbl : combo_table) (cur : key) (prev : list key) : bool :=
  existsb (fun e => let '(f1, f2) := e in
             existsb (fun feat => (is_prefix f1 cur && is_prefix f2 feat) || (is_prefix f2 cur && is_prefix f1 feat)) prev)
          tbl.

(* _is_allowed(feat_current, func_current, feat_previous, mfl_funcs) *)
Definition allowed (tbl : combo_table) (keys : list key) (cur : key) (prev : list key) : bool :=
  if memk cur prev then false
  else if is_periph cur then allowed_peripheral keys cur prev
  else if key_eqb cur [AS s_TRANSITS; AI 0; AS s_NODEPOT] then false
  else if existsb (fun f => atom_eqb (kcat f) (kcat cur)) prev then false
  else match prev with
       | [] => true
       | _ => negb (combo_hit tbl cur prev)
       end.

(* _get_possible_actions for one task: [feat for feat in mfl_funcs if _is_allowed(...)] *)
Definition actions (tbl : combo_table) (keys : list key) (prev : list key) : list key :=
  filter (fun f => allowed tbl keys f prev) keys.

Definition is_nil {X} (l : list X) : bool := match l with [] => true | _ => false end.

(* one pass of the `while True` body of exhaustive_stepwise over the current output tasks (leaves,
   each given by its feature path from the root): leaves without action stay output tasks, the new
   candidates are appended in creation order *)
Definition expand_leaf (tbl : combo_table) (keys : list key) (path : list key) : list (list key) :=
  map (fun f => path ++ [f]) (actions tbl keys path).
Definition sweep (tbl : combo_table) (keys : list key) (leaves : list (list key)) : list (list key) * list (list key) :=
  (filter (fun p => is_nil (actions tbl keys p)) leaves, flat_map (expand_leaf tbl keys) leaves).

(* returns (candidates in creation order = model_tasks order, true iff the loop reached `break`) *)
Fixpoint stepwise_loop (tbl : combo_table) (keys : list key) (fuel : nat)
         (leaves created : list (list key)) : list (list key) * bool :=
  match fuel with
  | 0 => (created, false)
  | S f =>
      let '(stuck, new) := sweep tbl keys leaves in
      match new with
      | [] => (created, true)
      | _ => stepwise_loop tbl keys f (stuck ++ new) (created ++ new)
      end
  end.

(* exhaustive_stepwise(mfl_funcs, ...) with an empty workflow: the pseudo task '' has no features *)
Definition exhaustive_stepwise (tbl : combo_table) (keys : list key) : list (list key) * bool :=
  stepwise_loop tbl keys (S (length keys)) [[]] [].
(* candidate i (1-based position) is named f'{tool_name}_run{i}' *)
Definition stepwise_named (tbl : combo_table) (keys : list key) : list (nat * list key) :=
  let cs := fst (exhaustive_stepwise tbl keys) in combine (seq 1 (length cs)) cs.

(* ---- reduced_stepwise ---- *)
(* An output task of the search workflow: which task it is (the fit task of candidate n, or the n-th
   'choose_best_model' collector, or the pseudo task '' of the empty workflow) and the features upstream
   of it (as a set: _is_allowed and _find_same_model_groups only use membership). *)
Inductive pref := PRoot | PCand (n : nat) | PColl (n : nat).
Definition leaf := (pref * list key)%type.

Definition same_set (a b : list key) : bool :=
  forallb (fun k => memk k b) a && forallb (fun k => memk k a) b.

(* _find_same_model_groups: group the output tasks by equal feature set, first occurrence first,
   keep the groups with more than one member *)
Fixpoint group_same (fuel : nat) (leaves : list leaf) : list (list leaf) :=
  match fuel with
  | 0 => []
  | S f =>
      match leaves with
      | [] => []
      | x :: tl => (x :: filter (fun y => same_set (snd x) (snd y)) tl)
                   :: group_same f (filter (fun y => negb (same_set (snd x) (snd y))) tl)
      end
  end.
Definition same_model_groups (leaves : list leaf) : list (list leaf) :=
  filter (fun g => Nat.ltb 1 (length g)) (group_same (length leaves) leaves).

Definition leaf_set (l : leaf) : list key := snd l.
Definition has_actions (tbl : combo_table) (keys : list key) (l : leaf) : bool :=
  negb (is_nil (actions tbl keys (snd l))).

(* if groups (fix e9380e6; it was `if len(groups) > 1`): every group all of whose members still have actions gets a
   'choose_best_model' task (appended to the node list; its members stop being output tasks) *)
Definition collect (tbl : combo_table) (keys : list key) (ncoll : nat) (leaves : list leaf)
  : list leaf * list (list pref) :=
  let groups := same_model_groups leaves in
  if negb (is_nil groups) then
    let chosen := filter (forallb (has_actions tbl keys)) groups in
    (filter (fun l => negb (existsb (fun g => same_set (snd l) (snd (hd (PRoot, []) g))) chosen)) leaves
       ++ map (fun ig => (PColl (ncoll + fst ig), snd (hd (PRoot, []) (snd ig)))) (combine (seq 0 (length chosen)) chosen),
     map (map fst) chosen)
  else (leaves, []).

(* the candidate-creating double loop: for task_parent, feat_new in actions.items(): for feat in feat_new *)
Definition new_candidates (tbl : combo_table) (keys : list key) (leaves : list leaf) : list (leaf * key) :=
  flat_map (fun l => map (fun f => (l, f)) (actions tbl keys (snd l))) leaves.

(* state: output tasks, created candidates (parent task, parent feature set, new feature) in creation
   order (candidate i is the i-th), collectors (their member tasks) *)
Fixpoint reduced_loop (tbl : combo_table) (keys : list key) (fuel : nat)
         (leaves : list leaf) (created : list (pref * list key * key)) (colls : list (list pref))
  : list (pref * list key * key) * list (list pref) * bool :=
  match fuel with
  | 0 => (created, colls, false)
  | S f =>
      let '(leaves1, newcolls) := collect tbl keys (length colls) leaves in
      let news := new_candidates tbl keys leaves1 in
      match news with
      | [] => (created, colls ++ newcolls, true)
      | _ =>
          let numbered := combine (seq (S (length created)) (length news)) news in
          reduced_loop tbl keys f
            (filter (fun l => negb (has_actions tbl keys l)) leaves1
               ++ map (fun x => (PCand (fst x), snd (fst (snd x)) ++ [snd (snd x)])) numbered)
            (created ++ map (fun x => (fst (fst x), snd (fst x), snd x)) news)
            (colls ++ newcolls)
      end
  end.
Definition reduced_stepwise (tbl : combo_table) (keys : list key)
  : list (pref * list key * key) * list (list pref) * bool :=
  reduced_loop tbl keys (S (length keys)) [(PRoot, [])] [] [].

(* ------------------------------------------------------------------------------------------ *)
(* iivsearch/algorithms.py: the brute-force candidate lists.
   td_exhaustive_no_of_etas: for i, to_remove in enumerate(non_empty_subsets(iiv_names), 1): name run{i+offset}
   td_exhaustive_block_structure: every partition of iiv_names except the base model's own structure
   (_is_rv_block_structure: every block of the base model is a block of the partition), numbered from 1+offset *)
Fixpoint list_eqb_g {X} (eqb : X -> X -> bool) (a b : list X) : bool :=
  match a, b with
  | [], [] => true
  | x :: a', y :: b' => eqb x y && list_eqb_g eqb a' b'
  | _, _ => false
  end.

Section IivSearch.
  Variable A : Type.
  Variable cmp : A -> A -> comparison.
  Definition elt_eqb (a b : A) : bool := match cmp a b with Eq => true | _ => false end.

  Definition is_rv_block_structure (base p : list (list A)) : bool :=
    forallb (fun d => existsb (list_eqb_g elt_eqb d) p) base.
  Definition block_structure_candidates (names : list A) (base : list (list A)) (offset : nat)
    : list (nat * list (list A)) :=
    let ps := filter (fun p => negb (is_rv_block_structure base p)) (partitions cmp names) in
    combine (seq (1 + offset) (length ps)) ps.
  Definition no_of_etas_candidates (names : list A) (offset : nat) : list (nat * list A) :=
    let ss := non_empty_subsets names in combine (seq (1 + offset) (length ss)) ss.
End IivSearch.
Arguments is_rv_block_structure {A}. Arguments block_structure_candidates {A}. Arguments no_of_etas_candidates {A}.

(* ------------------------------------------------------------------------------------------ *)
(* exhaustive(): `funcs = [mfl_funcs[feat] for feat in combo]` (fix 16091ea; it was a set, whose iteration order
   is unspecified) and create_candidate_exhaustive's `for feat, func in zip(combo, funcs)`.  Function objects are
   identified with the key they belong to. *)
Definition exhaustive_pairs {K C : Type} (cat : K -> C) (ceqb : C -> C -> bool) (keys : list K) : list (list (K * K)) :=
  map (fun combo => combine combo combo) (all_combinations cat ceqb keys).

(* iovsearch/tool.py wf_etas_removal(remove, model_entry, etas_subsets, i): one candidate per subset, numbered i, i+1, ...
   (called with non_empty_proper_subsets of the IOV parameters and non_empty_subsets of the IIV parameters) *)
Definition removal_candidates {A} (subsets : list (list A)) (i : nat) : list (nat * list A) :=
  combine (seq i (length subsets)) subsets.

(* ------------------------------------------------------------------------------------------ *)
(* covsearch/tool.py perform_step_procedure (adaptive_scope_reduction=False): the greedy forward / backward loop.
   `winners` is the oracle for the fits: per step the position of the candidate lrt_best_of_many picks (None = the
   parent stays best).  Recorded per step: the candidate effects handed to handle_effects and the index offset
   len(all_candidates_so_far) - 1.  An effect is (parameter, covariate, fp, operation). *)
Definition ceff := (N * N * N * N)%type.
Definition same_pc (e x : ceff) : bool :=
  N.eqb (fst (fst (fst e))) (fst (fst (fst x))) && N.eqb (snd (fst (fst e))) (snd (fst (fst x))).
Fixpoint covsearch_steps (fuel : nat) (cands : list ceff) (winners : list (option nat)) (n_all : nat)
  : list (list ceff * nat) :=
  match fuel with
  | 0 => []
  | S f =>
      match cands with
      | [] => []                                            (* if not candidate_effect_funcs: break *)
      | _ =>
          (cands, n_all - 1) ::
          match winners with
          | Some i :: ws =>
              match nth_error cands i with
              | Some e =>      (* keep the effects with another parameter or another covariate *)
                  covsearch_steps f (filter (fun x => negb (same_pc e x)) cands) ws (n_all + length cands)
              | None => []
              end
          | _ => []                                         (* best_model_so_far is parent_modelentry: break *)
          end
      end
  end.
(* steps = range(1, max_steps + 1) if max_steps >= 0 else count(1) *)
Definition covsearch_procedure (cands : list ceff) (winners : list (option nat)) (n_all : nat) (max_steps : Z) :=
  covsearch_steps (if (max_steps <? 0)%Z then S (length cands) else Z.to_nat max_steps) cands winners n_all.
