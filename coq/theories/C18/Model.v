(* PV.C18.Model — executable model of the enumeration code behind pharmpy's search tools:
     pharmpy/internals/set/partitions.py   partitions, _partitions, _shortlexsorted, _partitionkey
     pharmpy/internals/set/subsets.py      subsets, non_empty_subsets, non_empty_proper_subsets
     pharmpy/tools/mfl/helpers.py          _group_incompatible_features, all_combinations
     pharmpy/tools/modelsearch/algorithms.py  exhaustive (candidate numbering)
   mirroring the Python statement by statement (same generator order).  No proofs here. *)
From Coq Require Import List Bool Arith ZArith NArith Lia.
Import ListNotations.
Local Open Scope nat_scope.

(* ------------------------------------------------------------------------------------------ *)
(* Python's sorted(iterable, key=...) : a stable sort that only asks `key(b) < key(a)`.        *)
(* Any stable sort gives the same list; the model is a top-down merge sort (fuel = length).    *)
Section Sorting.
  Context {X : Type}.
  Variable lt : X -> X -> bool.            (* key(a) < key(b) *)

  Fixpoint merge (a : list X) : list X -> list X :=
    fix merge_a (b : list X) : list X :=
      match a, b with
      | [], _ => b
      | _, [] => a
      | x :: a', y :: b' => if lt y x then y :: merge_a b' else x :: merge a' b
      end.

  Fixpoint msort_fuel (fuel : nat) (l : list X) : list X :=
    match fuel with
    | 0 => l
    | S f =>
        match l with
        | [] => []
        | [x] => [x]
        | _ => let h := Nat.div2 (length l) in
               merge (msort_fuel f (firstn h l)) (msort_fuel f (skipn h l))
        end
    end.
  Definition py_sorted (l : list X) : list X := msort_fuel (length l) l.
End Sorting.

(* ------------------------------------------------------------------------------------------ *)
(* Python tuple comparison: first differing position decides, a proper prefix is smaller.       *)
Section Lex.
  Context {X : Type}.
  Variable cmp : X -> X -> comparison.
  Fixpoint lex_cmp (a b : list X) : comparison :=
    match a, b with
    | [], [] => Eq
    | [], _ :: _ => Lt
    | _ :: _, [] => Gt
    | x :: a', y :: b' => match cmp x y with Eq => lex_cmp a' b' | c => c end
    end.
End Lex.

Definition is_lt (c : comparison) : bool := match c with Lt => true | _ => false end.

(* ------------------------------------------------------------------------------------------ *)
Section Partitions.
  Variable A : Type.
  Variable cmp : A -> A -> comparison.      (* the order Python uses on the elements *)

  (* for i, part in enumerate(partition): yield partition[:i] + (part + suffix,) + partition[i+1:] *)
  Fixpoint add_to_each (x : A) (p : list (list A)) : list (list (list A)) :=
    match p with
    | [] => []
    | b :: p' => ((b ++ [x]) :: p') :: map (cons b) (add_to_each x p')
    end.
  (* yield partition + (suffix,)  and then the loop above *)
  Definition extend (x : A) (p : list (list A)) : list (list (list A)) :=
    (p ++ [[x]]) :: add_to_each x p.
  (* _partitions(elements, n) on the reversed prefix: r = elements[n-1], ..., elements[0] *)
  Fixpoint raw_rev (r : list A) : list (list (list A)) :=
    match r with
    | [] => [[]]
    | x :: r' => flat_map (extend x) (raw_rev r')
    end.
  Definition raw_partitions (l : list A) : list (list (list A)) := raw_rev (rev l).

  (* _shortlexkey(x) = (len(x), x) *)
  Definition shortlex_cmp (a b : list A) : comparison :=
    match Nat.compare (length a) (length b) with Eq => lex_cmp cmp a b | c => c end.
  Definition shortlexsorted (p : list (list A)) : list (list A) :=
    py_sorted (fun a b => is_lt (shortlex_cmp a b)) p.

  (* _partitionkey(x) = (len(x), tuple(map(len, x)), x) *)
  Definition partitionkey_cmp (p q : list (list A)) : comparison :=
    match Nat.compare (length p) (length q) with
    | Eq => match lex_cmp Nat.compare (map (@length A) p) (map (@length A) q) with
            | Eq => lex_cmp (lex_cmp cmp) p q
            | c => c
            end
    | c => c
    end.

  Definition partitions (l : list A) : list (list (list A)) :=
    py_sorted (fun p q => is_lt (partitionkey_cmp p q)) (map shortlexsorted (raw_partitions l)).

  (* ---- subsets.py ---- *)
  (* itertools.combinations(s, r): r-length subsequences in lexicographic index order *)
  Fixpoint combinations (l : list A) (r : nat) {struct l} : list (list A) :=
    match l, r with
    | _, 0 => [[]]
    | [], S _ => []
    | x :: l', S r' => map (cons x) (combinations l' r') ++ combinations l' r
    end.

  (* max_size = len(s) + max_size + 1 if max_size < 0 else max_size *)
  Definition eff_max (n : nat) (max_size : Z) : Z :=
    if (max_size <? 0)%Z then (Z.of_nat n + max_size + 1)%Z else max_size.
  (* range(min_size, max_size + 1) for min_size >= 0 *)
  Definition size_range (min_size : nat) (mx : Z) : list nat :=
    seq min_size (Z.to_nat (mx + 1) - min_size).
  Definition subsets (l : list A) (min_size : nat) (max_size : Z) : list (list A) :=
    flat_map (combinations l) (size_range min_size (eff_max (length l) max_size)).
  Definition non_empty_subsets (l : list A) : list (list A) := subsets l 1 (-1)%Z.
  Definition non_empty_proper_subsets (l : list A) : list (list A) := subsets l 1 (-2)%Z.
End Partitions.

Arguments add_to_each {A}. Arguments extend {A}. Arguments raw_rev {A}. Arguments raw_partitions {A}.
Arguments shortlex_cmp {A}. Arguments shortlexsorted {A}. Arguments partitionkey_cmp {A}.
Arguments partitions {A}. Arguments combinations {A}. Arguments subsets {A}.
Arguments non_empty_subsets {A}. Arguments non_empty_proper_subsets {A}.

(* Stirling numbers of the second kind and Bell numbers (the specification of the count) *)
Fixpoint stirling2 (n k : nat) : nat :=
  match n, k with
  | 0, 0 => 1
  | 0, S _ => 0
  | S n', 0 => 0
  | S n', S k' => stirling2 n' k' + S k' * stirling2 n' (S k')
  end.
Definition bell (n : nat) : nat := fold_right Nat.add 0 (map (stirling2 n) (seq 0 (S n))).

Fixpoint binom (n k : nat) : nat :=
  match n, k with
  | _, 0 => 1
  | 0, S _ => 0
  | S n', S k' => binom n' k' + binom n' (S k')
  end.

(* ------------------------------------------------------------------------------------------ *)
(* all_combinations (mfl/helpers.py) over an arbitrary key type with a category projection.   *)
Section Combos.
  Variable K C : Type.
  Variable cat : K -> C.                    (* key[0] *)
  Variable ceqb : C -> C -> bool.

  (* grouped = defaultdict(list); grouped[key[0]].append(key)   (dict keeps insertion order) *)
  Fixpoint ginsert (k : K) (g : list (C * list K)) : list (C * list K) :=
    match g with
    | [] => [(cat k, [k])]
    | (c, ks) :: g' => if ceqb c (cat k) then (c, ks ++ [k]) :: g' else (c, ks) :: ginsert k g'
    end.
  Definition grouped_assoc (keys : list K) : list (C * list K) :=
    fold_left (fun g k => ginsert k g) keys [].
  Definition grouped (keys : list K) : list (list K) := map snd (grouped_assoc keys).

  (* itertools.product( *lists ): the leftmost position varies slowest *)
  Fixpoint product {X : Type} (ls : list (list X)) : list (list X) :=
    match ls with
    | [] => [[]]
    | l :: ls' => flat_map (fun x => map (cons x) (product ls')) l
    end.

  Fixpoint somes {X : Type} (t : list (option X)) : list X :=
    match t with
    | [] => []
    | Some x :: t' => x :: somes t'
    | None :: t' => somes t'
    end.
  Definition nonempty {X : Type} (l : list X) : bool := match l with [] => false | _ => true end.

  (* feats = ((None, *group) for group in grouped); for t in product( *feats ): a = non-None; if a: yield a *)
  Definition all_combinations (keys : list K) : list (list K) :=
    filter nonempty (map somes (product (map (fun g => None :: map Some g) (grouped keys)))).

  (* exhaustive: for i, combo in enumerate(combinations, 1): model_name = f'modelsearch_run{i}' *)
  Definition exhaustive (keys : list K) : list (nat * list K) :=
    let cs := all_combinations keys in combine (seq 1 (length cs)) cs.
End Combos.

Arguments ginsert {K C}. Arguments grouped_assoc {K C}. Arguments grouped {K C}.
Arguments product {X}. Arguments somes {X}. Arguments nonempty {X}.
Arguments all_combinations {K C}. Arguments exhaustive {K C}.
