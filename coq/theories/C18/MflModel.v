(* PV.C18.MflModel — executable model of the search-space algebra of pharmpy/tools/mfl/parse.py
   (ModelFeatures.create / __add__ / __sub__ / __eq__ / contain_subset and the helpers _add_helper,
   _extract_peripherals, _extract_covariates, _add_sub_*, _eq_transits, _eq_covariate, _subset_transits)
   together with the statement classes' __add__/__sub__/__eq__/__len__/eval they call.
   Python sets are modelled as duplicate-free lists; results are compared as sets.  No proofs here. *)
From Coq Require Import List Bool Arith ZArith NArith.
From PV Require Import C18.Model.
Import ListNotations.
Local Open Scope N_scope.

(* further names *)
Definition s_LINEAR : N := 32.  Definition s_EMAX : N := 33.  Definition s_SIGMOID : N := 34.
Definition s_PSC : N := 35.     Definition s_BASIC : N := 36. Definition s_DEGRADATION : N := 37.
Definition s_PRODUCTION : N := 38.
Definition s_LIN : N := 40. Definition s_PIECE_LIN : N := 41. Definition s_EXP : N := 42. Definition s_POW : N := 43.

(* the *_WILDCARD tuples of mfl/statement/feature/*.py (regenerated from source and compared at check time) *)
Definition w_absorption : list N := [s_FO; s_ZO; s_SEQ_ZO_FO; s_INST].
Definition w_elimination : list N := [s_FO; s_ZO; s_MM; s_MIX_FO_MM].
Definition w_lagtime : list N := [s_ON; s_OFF].
Definition w_direct_effect : list N := [s_LINEAR; s_EMAX; s_SIGMOID].
Definition w_effect_comp : list N := [s_LINEAR; s_EMAX; s_SIGMOID].
Definition w_metabolite : list N := [s_PSC; s_BASIC].
Definition w_depot : list N := [s_DEPOT; s_NODEPOT].
Definition w_periph_modes : list N := [s_DRUG; s_MET].
Definition w_indirect_modes : list N := [s_LINEAR; s_EMAX; s_SIGMOID].
Definition w_production : list N := [s_DEGRADATION; s_PRODUCTION].
Definition w_fp : list N := [s_LIN; s_PIECE_LIN; s_EXP; s_POW].     (* Covariate.eval: EffectFunctionWildcard *)

(* ---- results ---- *)
Inductive res (A : Type) : Type := Ok (a : A) | TypeError | AttributeError.
Arguments Ok {A}. Arguments TypeError {A}. Arguments AttributeError {A}.
Definition bind {A B} (r : res A) (f : A -> res B) : res B :=
  match r with Ok a => f a | TypeError => TypeError | AttributeError => AttributeError end.
Notation "'do' x <- r ; k" := (bind r (fun x => k)) (at level 200, x pattern, r at level 100, k at level 200).

(* ---- list-sets of N ---- *)
Definition memN (x : N) (l : list N) : bool := existsb (N.eqb x) l.
Fixpoint dedupN (l : list N) : list N :=
  match l with [] => [] | x :: tl => if memN x tl then dedupN tl else x :: dedupN tl end.
Definition diffN (a b : list N) : list N := filter (fun x => negb (memN x b)) a.
Definition interN (a b : list N) : list N := filter (fun x => memN x b) a.
Definition subsetN (a b : list N) : bool := forallb (fun x => memN x b) a.
Definition seteqN (a b : list N) : bool := subsetN a b && subsetN b a.

(* ---- statements ---- *)
(* the `modes` attribute: a tuple of names, Wildcard(), or None (DirectEffect(None) etc., see __sub__) *)
Inductive modes := MWild | MList (l : list N) | MNone.
(* Transits(counts, depot) / Peripherals(counts, modes) / IndirectEffect(modes, production): values x keys *)
Record pstmt := mkP { p_vals : modes; p_keys : modes }.
(* Covariate(parameter, covariate, fp, op, optional) with explicit parameter / covariate tuples *)
Record cstmt := mkC { c_par : list N; c_cov : list N; c_fp : modes; c_op : N; c_opt : bool }.

Record mf := mkMF {
  absorption : option modes; elimination : option modes; transits : list pstmt; peripherals : list pstmt;
  lagtime : option modes; covariate : list cstmt; direct_effect : option modes; effect_comp : option modes;
  indirect_effect : list pstmt; metabolite : option modes }.

(* x.eval.modes *)
Definition eval_modes (w : list N) (m : modes) : modes := match m with MWild => MList w | _ => m end.
(* len(x) = len(x.eval.modes) *)
Definition len_modes (w : list N) (m : modes) : res nat :=
  match eval_modes w m with MList l => Ok (length l) | _ => TypeError end.
(* truth value of an optional statement *)
Definition truthy (w : list N) (o : option modes) : res bool :=
  match o with None => Ok false | Some m => do n <- len_modes w m; Ok (negb (Nat.eqb n 0)) end.

(* ---- the mode statement classes ---- *)
(* X.__add__ *)
Definition modes_add (a b : modes) : res modes :=
  match a, b with
  | MWild, _ | _, MWild => Ok MWild
  | MList l1, MList l2 => Ok (MList (dedupN (l1 ++ filter (fun x => negb (memN x l1)) l2)))
  | _, _ => TypeError
  end.
(* X.__eq__ : set(self.modes) == set(other.modes)   (Absorption, Elimination, LagTime, Metabolite) *)
Definition modes_eq_raw (a b : modes) : res bool :=
  match a, b with MList l1, MList l2 => Ok (seteqN l1 l2) | _, _ => TypeError end.
(* X.__eq__ : set(self.eval.modes) == set(other.eval.modes)   (DirectEffect, EffectComp) *)
Definition modes_eq_eval (w : list N) (a b : modes) : res bool :=
  modes_eq_raw (eval_modes w a) (eval_modes w b).
(* X.__sub__ for Absorption / Elimination / LagTime: an empty difference becomes the default mode.
   (The wildcard branches cannot be reached from ModelFeatures.__sub__: `lhs == rhs` raises first.) *)
Definition modes_sub_default (w : list N) (dflt : N) (a b : modes) : res modes :=
  match a, b with
  | MList l1, MList l2 => let d := diffN l1 l2 in Ok (MList (match d with [] => [dflt] | _ => dedupN d end))
  | MWild, MList l2 => let d := diffN w l2 in Ok (MList (match d with [] => [dflt] | _ => d end))
  | _, _ => TypeError
  end.
(* X.__sub__ for DirectEffect / EffectComp / Metabolite: returns None (no statement) when the other side is
   a wildcard, and X(None) when the difference is empty *)
Definition modes_sub_none (w : list N) (a b : modes) : res (option modes) :=
  match a, b with
  | _, MWild => Ok None
  | MWild, MList l2 => let d := diffN w l2 in Ok (Some (match d with [] => MNone | _ => MList d end))
  | MList l1, MList l2 => let d := diffN l1 l2 in Ok (Some (match d with [] => MNone | _ => MList (dedupN d) end))
  | _, _ => TypeError
  end.

Inductive eqstyle := EqRaw | EqEval.
Inductive substyle := SubDefault (dflt : N) | SubNone.
Record catdesc := mkCat { cd_wild : list N; cd_eq : eqstyle; cd_sub : substyle }.
Definition cat_absorption := mkCat w_absorption EqRaw (SubDefault s_INST).
Definition cat_elimination := mkCat w_elimination EqRaw (SubDefault s_FO).
Definition cat_lagtime := mkCat w_lagtime EqRaw (SubDefault s_OFF).
Definition cat_direct_effect := mkCat w_direct_effect EqEval SubNone.
Definition cat_effect_comp := mkCat w_effect_comp EqEval SubNone.
Definition cat_metabolite := mkCat w_metabolite EqRaw SubNone.

Definition stmt_eq (c : catdesc) (a b : modes) : res bool :=
  match cd_eq c with EqRaw => modes_eq_raw a b | EqEval => modes_eq_eval (cd_wild c) a b end.
(* `lhs == rhs` for Optional statements *)
Definition opt_eq (c : catdesc) (a b : option modes) : res bool :=
  match a, b with
  | None, None => Ok true
  | Some x, Some y => stmt_eq c x y
  | _, _ => Ok false
  end.

(* ModelFeatures.__add__.add *)
Definition opt_add (c : catdesc) (lhs rhs : option modes) : res (option modes) :=
  do tl <- truthy (cd_wild c) lhs;
  if tl then
    do tr <- truthy (cd_wild c) rhs;
    if tr then match lhs, rhs with Some a, Some b => do m <- modes_add a b; Ok (Some m) | _, _ => Ok lhs end
    else Ok lhs
  else
    do tr <- truthy (cd_wild c) rhs;
    if tr then Ok rhs else Ok lhs.

(* ModelFeatures.__sub__.sub *)
Definition opt_sub (c : catdesc) (lhs rhs : option modes) : res (option modes) :=
  do tl <- truthy (cd_wild c) lhs;
  if tl then
    do tr <- truthy (cd_wild c) rhs;
    if tr then
      match lhs, rhs with
      | Some a, Some b =>
          do e <- stmt_eq c a b;
          if e then Ok None
          else match cd_sub c with
               | SubDefault d => do m <- modes_sub_default (cd_wild c) d a b; Ok (Some m)
               | SubNone => modes_sub_none (cd_wild c) a b
               end
      | _, _ => Ok lhs
      end
    else Ok lhs
  else Ok lhs.

(* ---- _add_helper(s1, s2, value_name, join_name) ---- *)
Definition dict := list (N * list N).          (* insertion ordered; values accumulate *)
Fixpoint dict_extend (d : dict) (k : N) (vs : list N) : dict :=
  match d with
  | [] => [(k, vs)]
  | (k', v) :: tl => if N.eqb k' k then (k', v ++ vs) :: tl else (k', v) :: dict_extend tl k vs
  end.
Definition dict_get (d : dict) (k : N) : list N :=
  match find (fun kv => N.eqb (fst kv) k) d with Some kv => snd kv | None => [] end.
Definition list_of (m : modes) : res (list N) := match m with MList l => Ok l | _ => TypeError end.

(* s = s.eval; for a in getattr(s, join_name): d[a].extend(getattr(s, value_name)) *)
Fixpoint join_dict (wv wk : list N) (ss : list pstmt) (d : dict) : res dict :=
  match ss with
  | [] => Ok d
  | s :: tl =>
      do vals <- list_of (eval_modes wv (p_vals s));
      do ks <- list_of (eval_modes wk (p_keys s));
      join_dict wv wk tl (fold_left (fun d a => dict_extend d a vals) ks d)
  end.
Definition remove_empty (d : dict) : dict := filter (fun kv => negb (is_nil (snd kv))) d.
(* (s1_unique, s2_unique, s12_joined) *)
Definition add_helper (wv wk : list N) (s1 s2 : list pstmt) : res (dict * dict * dict) :=
  do d1 <- join_dict wv wk s1 [];
  do d2 <- join_dict wv wk s2 [];
  Ok (remove_empty (map (fun kv => (fst kv, diffN (dedupN (snd kv)) (dict_get d2 (fst kv)))) d1),
      remove_empty (map (fun kv => (fst kv, diffN (dedupN (snd kv)) (dict_get d1 (fst kv)))) d2),
      remove_empty (map (fun kv => (fst kv, interN (dedupN (snd kv)) (dict_get d2 (fst kv)))) d1)).
Definition dict_stmts (d : dict) : list pstmt := map (fun kv => mkP (MList (snd kv)) (MList [fst kv])) d.
(* _add_sub_transits / _add_sub_indirect_effect *)
Definition add_sub_pairs (wv wk : list N) (s1 s2 : list pstmt) (add : bool) : res (list pstmt) :=
  do r <- add_helper wv wk s1 s2;
  let '(u1, u2, j) := r in
  Ok (if add then dict_stmts u1 ++ dict_stmts u2 ++ dict_stmts j else dict_stmts u1).

(* ---- peripherals ---- *)
(* _extract_peripherals: {"MET": set, "DRUG": set}; `for m in p.modes` raises on a wildcard *)
Fixpoint extract_peripherals (ps : list pstmt) (met drug : list N) : res (list N * list N) :=
  match ps with
  | [] => Ok (met, drug)
  | p :: tl =>
      do ms <- list_of (p_keys p);
      do cs <- list_of (p_vals p);
      let met' := if memN s_MET ms then dedupN (met ++ cs) else met in
      let drug' := if memN s_DRUG ms then dedupN (drug ++ cs) else drug in
      extract_peripherals tl met' drug'
  end.
Definition add_sub_peripherals (a b : list pstmt) (add : bool) : res (list pstmt) :=
  do l <- extract_peripherals a [] [];
  do r <- extract_peripherals b [] [];
  let met := if add then dedupN (fst l ++ fst r) else diffN (fst l) (fst r) in
  let drug := if add then dedupN (snd l ++ snd r) else diffN (snd l) (snd r) in
  Ok ((if is_nil met then [] else [mkP (MList met) (MList [s_MET])]) ++
      (if is_nil drug then [] else [mkP (MList drug) (MList [s_DRUG])])).

(* ---- covariates: sets of (parameter, covariate, fp, op, optional) ---- *)
Definition effect := (N * N * N * N * bool)%type.
Definition effect_eqb (x y : effect) : bool :=
  let '(p, c, f, o, t) := x in let '(p', c', f', o', t') := y in
  N.eqb p p' && N.eqb c c' && N.eqb f f' && N.eqb o o' && Bool.eqb t t'.
Definition memE (x : effect) (l : list effect) : bool := existsb (effect_eqb x) l.
Fixpoint dedupE (l : list effect) : list effect :=
  match l with [] => [] | x :: tl => if memE x tl then dedupE tl else x :: dedupE tl end.
Definition flip (x : effect) : effect := let '(p, c, f, o, t) := x in (p, c, f, o, negb t).
Definition set_opt (x : effect) (t : bool) : effect := let '(p, c, f, o, _) := x in (p, c, f, o, t).
Definition is_opt (x : effect) : bool := snd x.

(* _extract_covariates: product(parameter, covariate, cov.eval().fp, (op,), (optional,)) *)
Fixpoint extract_covariates (cs : list cstmt) : res (list effect) :=
  match cs with
  | [] => Ok []
  | c :: tl =>
      do fps <- list_of (eval_modes w_fp (c_fp c));
      do rest <- extract_covariates tl;
      match c_par c, c_cov c with
      | [], _ | _, [] => AttributeError          (* cov.eval() is None *)
      | _, _ =>
        Ok (dedupE (flat_map (fun p => flat_map (fun v => map (fun f => (p, v, f, c_op c, c_opt c)) fps) (c_cov c)) (c_par c)
                    ++ rest))
      end
  end.
(* _add_sub_covariates, before _reduce_covariate regroups the set into statements *)
Definition add_sub_covariates (a b : list cstmt) (add : bool) : res (list effect) :=
  do lhs <- extract_covariates a;
  do rhs <- extract_covariates b;
  match lhs, rhs with
  | _ :: _, _ :: _ =>
      if add then
        let combined := dedupE (lhs ++ rhs) in
        (* an optional effect discards its forced twin *)
        Ok (filter (fun x => is_opt x || negb (memE (set_opt x true) combined)) combined)
      else
        let combined := filter (fun x => negb (memE x rhs)) lhs in
        (* subtracting an effect also removes its twin with the other optional flag *)
        Ok (filter (fun x => negb (memE (flip x) rhs)) combined)
  | [], _ :: _ => Ok (if add then rhs else [])
  | _ :: _, [] => Ok lhs
  | [], [] => Ok []
  end.
(* _eq_covariate: lhs == rhs on the two effect sets (fix 0aa11f5; it was all(c in rhs for c in lhs)) *)
Definition eq_covariate (a b : list cstmt) : res bool :=
  do lhs <- extract_covariates a;
  do rhs <- extract_covariates b;
  Ok (forallb (fun x => memE x rhs) lhs && forallb (fun x => memE x lhs) rhs).

(* ---- ModelFeatures.create: a PK space gets its default features ---- *)
Definition default_transits : pstmt := mkP (MList [0]) (MList [s_DEPOT]).
Definition default_peripherals : pstmt := mkP (MList [0]) (MList [s_DRUG]).
Definition create (m : mf) : res mf :=
  (* any(x for x in [absorption, elimination, transits, peripherals, lagtime, metabolite]) *)
  do t1 <- truthy w_absorption (absorption m);
  do pk <- (if t1 then Ok true else
            do t2 <- truthy w_elimination (elimination m);
            if t2 then Ok true else
            if negb (is_nil (transits m)) then Ok true else
            if negb (is_nil (peripherals m)) then Ok true else
            do t5 <- truthy w_lagtime (lagtime m);
            if t5 then Ok true else truthy w_metabolite (metabolite m));
  if pk then
    Ok (mkMF (match absorption m with None => Some (MList [s_INST]) | x => x end)
             (match elimination m with None => Some (MList [s_FO]) | x => x end)
             (match transits m with [] => [default_transits] | x => x end)
             (match peripherals m with [] => [default_peripherals] | x => x end)
             (match lagtime m with None => Some (MList [s_OFF]) | x => x end)
             (covariate m) (direct_effect m) (effect_comp m) (indirect_effect m) (metabolite m))
  else Ok m.

(* the covariate component of a result is kept as its effect set (see add_sub_covariates) *)
Record mfres := mkR { r_mf : mf; r_cov : list effect }.

(* ModelFeatures.__add__ / __sub__ : the helper calls come first, then the keyword arguments in order *)
Definition mf_addsub (add : bool) (a b : mf) : res mfres :=
  do tr <- add_sub_pairs [] w_depot (transits a) (transits b) add;
  do pe <- add_sub_peripherals (peripherals a) (peripherals b) add;
  do cv <- add_sub_covariates (covariate a) (covariate b) add;
  do ie <- add_sub_pairs w_indirect_modes w_production (indirect_effect a) (indirect_effect b) add;
  let op := if add then opt_add else opt_sub in
  do ab <- op cat_absorption (absorption a) (absorption b);
  do el <- op cat_elimination (elimination a) (elimination b);
  do lg <- op cat_lagtime (lagtime a) (lagtime b);
  do de <- op cat_direct_effect (direct_effect a) (direct_effect b);
  do ec <- op cat_effect_comp (effect_comp a) (effect_comp b);
  do me <- op cat_metabolite (metabolite a) (metabolite b);
  do m <- create (mkMF ab el tr pe lg [] de ec ie me);
  Ok (mkR m cv).
Definition mf_add := mf_addsub true.
Definition mf_sub := mf_addsub false.

(* ---- __eq__ ---- *)
(* _eq_transits: counts of the statements whose (evaluated) depot contains DEPOT / NODEPOT *)
Definition counts_with (d : N) (ts : list pstmt) : list N :=
  flat_map (fun t => match eval_modes w_depot (p_keys t), p_vals t with
                     | MList ks, MList cs => if memN d ks then cs else []
                     | _, _ => []
                     end) ts.
Definition eq_transits (a b : list pstmt) : bool :=
  seteqN (counts_with s_DEPOT a) (counts_with s_DEPOT b) && seteqN (counts_with s_NODEPOT a) (counts_with s_NODEPOT b).
(* Peripherals.__eq__ *)
Definition periph_eq (p q : pstmt) : res bool :=
  do c1 <- list_of (p_vals p); do c2 <- list_of (p_vals q);
  if seteqN c1 c2 then (do m1 <- list_of (p_keys p); do m2 <- list_of (p_keys q); Ok (seteqN m1 m2)) else Ok false.
(* tuple.__eq__ on tuples of Peripherals: same length, elementwise, stops at the first difference *)
Fixpoint periph_tuple_eq (a b : list pstmt) : res bool :=
  match a, b with
  | [], [] => Ok true
  | p :: a', q :: b' => do e <- periph_eq p q; if e then periph_tuple_eq a' b' else Ok false
  | _, _ => Ok false
  end.
Definition modes_struct_eqb (a b : modes) : bool :=
  match a, b with
  | MWild, MWild | MNone, MNone => true
  | MList l1, MList l2 => list_eqb_g N.eqb l1 l2
  | _, _ => false
  end.
(* dataclass equality of IndirectEffect tuples *)
Definition indirect_tuple_eq (a b : list pstmt) : bool :=
  list_eqb_g (fun p q => modes_struct_eqb (p_vals p) (p_vals q) && modes_struct_eqb (p_keys p) (p_keys q)) a b.

Definition mf_eq (a b : mf) : res bool :=
  let tr := eq_transits (transits a) (transits b) in
  do e1 <- opt_eq cat_absorption (absorption a) (absorption b); if negb e1 then Ok false else
  do e2 <- opt_eq cat_elimination (elimination a) (elimination b); if negb e2 then Ok false else
  if negb tr then Ok false else
  do e4 <- periph_tuple_eq (peripherals a) (peripherals b);
  if negb e4 then Ok false else
  do e5 <- opt_eq cat_lagtime (lagtime a) (lagtime b); if negb e5 then Ok false else
  do e6 <- eq_covariate (covariate a) (covariate b); if negb e6 then Ok false else
  do e7 <- opt_eq cat_direct_effect (direct_effect a) (direct_effect b); if negb e7 then Ok false else
  do e8 <- opt_eq cat_effect_comp (effect_comp a) (effect_comp b); if negb e8 then Ok false else
  Ok (indirect_tuple_eq (indirect_effect a) (indirect_effect b)).

(* ---- contain_subset(mfl) with tool=None ---- *)
Definition all_counts (ts : list pstmt) : list N :=
  flat_map (fun t => match p_vals t with MList cs => cs | _ => [] end) ts.
Definition all_depots (ts : list pstmt) : list N :=
  flat_map (fun t => match eval_modes w_depot (p_keys t) with MList ks => ks | _ => [] end) ts.
Definition subset_transits (a b : list pstmt) : bool :=
  subsetN (all_counts b) (all_counts a) && subsetN (all_depots b) (all_depots a).
Definition eval_list (w : list N) (o : option modes) : res (list N) :=
  match o with None => AttributeError | Some m => list_of (eval_modes w m) end.
Definition contain_subset (a b : mf) : res bool :=
  let tr := subset_transits (transits a) (transits b) in
  do pl <- extract_peripherals (peripherals a) [] [];
  do pr <- extract_peripherals (peripherals b) [] [];
  do aa <- eval_list w_absorption (absorption a); do ab <- eval_list w_absorption (absorption b);
  if negb (subsetN ab aa) then Ok false else
  do ea <- eval_list w_elimination (elimination a); do eb <- eval_list w_elimination (elimination b);
  if negb (subsetN eb ea) then Ok false else
  if negb tr then Ok false else
  do la <- eval_list w_lagtime (lagtime a); do lb <- eval_list w_lagtime (lagtime b);
  if negb (subsetN lb la) then Ok false else
  Ok (subsetN (snd pr) (snd pl)).

(* ---- validate_mfl_list (parse.py): a covariate effect may be forced by one statement only -- but the
   statements that use a LET/@ reference are skipped, and create_from_mfl_statement_list substitutes the
   LET values afterwards.  A statement here: does it use a reference, is it forced (not optional), and the
   (parameter, covariate) pairs it stands for after the LET substitution. ---- *)
Record vstmt := mkV { v_ref : bool; v_forced : bool; v_pairs : list (N * N) }.
Definition memP (x : N * N) (l : list (N * N)) : bool :=
  existsb (fun y => N.eqb (fst x) (fst y) && N.eqb (snd x) (snd y)) l.
Fixpoint validate_from (mand : list (N * N)) (l : list vstmt) : bool :=
  match l with
  | [] => true
  | s :: tl =>
      if v_ref s || negb (v_forced s) then validate_from mand tl
      else if existsb (fun e => memP e mand) (v_pairs s) then false
      else validate_from (mand ++ v_pairs s) tl
  end.
Definition validate (l : list vstmt) : bool := validate_from [] l.
(* what repr prints: the substituted, explicit statements in the same order *)
Definition printed (l : list vstmt) : list vstmt := map (fun s => mkV false (v_forced s) (v_pairs s)) l.
(* guard: no forced statement goes through a LET reference *)
Definition g_let_not_forced (l : list vstmt) : bool := forallb (fun s => negb (v_ref s && v_forced s)) l.

(* ---- Transits.__eq__ (fix 67f03bc: the conjunction; it was the pair of the two tests):
   set(self.counts) == set(other.counts) and lhs_depot == rhs_depot, a Wildcard depot only equals a Wildcard ---- *)
Definition transits_stmt_eq (a b : pstmt) : option bool :=
  match p_vals a, p_vals b with
  | MList c1, MList c2 =>
      Some (seteqN c1 c2 &&
            match p_keys a, p_keys b with
            | MWild, MWild => true
            | MList d1, MList d2 => seteqN d1 d2
            | _, _ => false
            end)
  | _, _ => None
  end.

(* ---- least_number_of_transformations(other, tool='modelsearch') : the keys of the returned dict ----
   For TRANSITS the count is `rhs[key][0]`, the first element of a tuple(set(...)): any element of that set;
   the model returns the depot and the candidate counts. *)
Inductive lnt_item :=
| LKey (k : key)                                   (* a definite feature key *)
| LTransits (depot : N) (candidates : list N).     (* ('TRANSITS', c, depot) for some c among the candidates *)

(* _lnt_helper *)
Definition lnt_modes (catname : N) (w : list N) (lhs rhs : option modes) : res (list lnt_item) :=
  match lhs, rhs with
  | None, None => Ok []
  | Some a, Some b =>
      do la <- list_of (eval_modes w a);
      do lb <- list_of (eval_modes w b);
      if existsb (fun x => memN x lb) la then Ok []
      else match lb with
           | m :: _ => Ok [LKey [AS catname; AS m]]       (* list(other.convert_to_funcs([name]).items())[0] *)
           | [] => TypeError                                (* IndexError on an empty mode list: not reachable from the grammar's statements *)
           end
  | _, _ => AttributeError                                   (* raises ValueError('... only part of one of the MFLs') *)
  end.
(* _lnt_transits *)
Definition lnt_transits (a b : list pstmt) : res (list lnt_item) :=
  do r <- add_helper [] w_depot a b;
  let '(u1, u2, j) := r in
  if is_nil j && negb (is_nil u2) then
    match find (fun kv => existsb (fun kv2 => N.eqb (fst kv) (fst kv2)) u2) u1 with
    | Some kv => Ok [LTransits (fst kv) (dict_get u2 (fst kv))]
    | None => match u2 with kv :: _ => Ok [LTransits (fst kv) (snd kv)] | [] => Ok [] end
    end
  else Ok [].
Fixpoint minN (l : list N) (d : N) : N := match l with [] => d | x :: tl => N.min x (minN tl x) end.
(* _lnt_peripherals(other, lnt, "pk"): keys = ["DRUG"] (fix 78f8b1d made the second test an elif) *)
Definition lnt_peripherals (a b : list pstmt) : res (list lnt_item) :=
  do l <- extract_peripherals a [] [];
  do r <- extract_peripherals b [] [];
  Ok (if existsb (fun c => memN c (snd r)) (snd l) then []
      else match snd r with [] => [] | x :: _ => [LKey [AS s_PERIPHERALS; AI (Z.of_N (minN (snd r) x))]] end).
Definition lnt_modelsearch (a b : mf) : res (list lnt_item) :=
  do k1 <- lnt_modes s_ABSORPTION w_absorption (absorption a) (absorption b);
  do k2 <- lnt_modes s_ELIMINATION w_elimination (elimination a) (elimination b);
  do k3 <- lnt_transits (transits a) (transits b);
  do k4 <- lnt_peripherals (peripherals a) (peripherals b);
  do k5 <- lnt_modes s_LAGTIME w_lagtime (lagtime a) (lagtime b);
  Ok (k1 ++ k2 ++ k3 ++ k4 ++ k5).
