(* PV.C14.Proofs — lemmas about the C14 model. *)
From Coq Require Import ZArith List Bool Lia Permutation Sorted.
From PV Require Import C14.Model.
Import ListNotations.
Local Open Scope Z_scope.

(* ================================================================== generic list facts ======= *)
Lemma scan_app {A B} (f : list A -> A -> B) l1 : forall rp l2,
  scan f rp (l1 ++ l2) = scan f rp l1 ++ scan f (rev l1 ++ rp) l2.
Proof.
  induction l1 as [|x l1 IH]; intros rp l2; cbn [scan app rev]; [reflexivity|].
  rewrite IH. rewrite <- app_assoc. reflexivity.
Qed.

Lemma scan_length {A B} (f : list A -> A -> B) l : forall rp, length (scan f rp l) = length l.
Proof. induction l as [|x l IH]; intros rp; cbn [scan length]; [reflexivity | rewrite IH; reflexivity]. Qed.

(* pointwise equality of two scans, each element seen in its context *)
Lemma scan_ext_ctx {A B} (f g : list A -> A -> B) l : forall rp,
  (forall pre x post, l = pre ++ x :: post -> f (rev pre ++ rp) x = g (rev pre ++ rp) x) ->
  scan f rp l = scan g rp l.
Proof.
  induction l as [|x l IH]; intros rp H; cbn [scan]; [reflexivity|].
  f_equal.
  - apply (H [] x l). reflexivity.
  - apply IH. intros pre y post E. specialize (H (x :: pre) y post).
    cbn [rev app] in H. rewrite <- app_assoc in H. cbn [app] in H. apply H. rewrite E. reflexivity.
Qed.

Lemma scan_map_out {A B C} (h : B -> C) (f : list A -> A -> B) l : forall rp,
  map h (scan f rp l) = scan (fun rp x => h (f rp x)) rp l.
Proof. induction l as [|x l IH]; intros rp; cbn [scan map]; [reflexivity | rewrite IH; reflexivity]. Qed.

Lemma combine_scan {A B} (f : list A -> A -> B) l : forall rp,
  combine l (scan f rp l) = scan (fun rp x => (x, f rp x)) rp l.
Proof. induction l as [|x l IH]; intros rp; cbn [scan combine]; [reflexivity | rewrite IH; reflexivity]. Qed.

Lemma map_as_scan {A B} (h : A -> B) l : forall rp, map h l = scan (fun _ x => h x) rp l.
Proof. induction l as [|x l IH]; intros rp; cbn [scan map]; [reflexivity | rewrite <- IH; reflexivity]. Qed.

Lemma forall_ctx_spec {A} (P : list A -> A -> list A -> bool) l :
  forall_ctx P l = true ->
  forall pre x post, l = pre ++ x :: post -> P (rev pre) x post = true.
Proof.
  unfold forall_ctx.
  assert (G : forall l rp, forall_ctx_from P rp l = true ->
    forall pre x post, l = pre ++ x :: post -> P (rev pre ++ rp) x post = true).
  { clear l. induction l as [|y l IH]; intros rp H pre x post E.
    - destruct pre; discriminate.
    - cbn [forall_ctx_from] in H. apply andb_prop in H. destruct H as [H1 H2]. destruct pre as [|z pre]; cbn [app] in E.
      + injection E as -> ->. exact H1.
      + injection E as -> E. specialize (IH _ H2 pre x post E).
        cbn [rev]. rewrite <- app_assoc. exact IH. }
  intros H pre x post E. specialize (G l [] H pre x post E). rewrite app_nil_r in G. exact G.
Qed.

Lemma zsum_cons x a : zsum (x :: a) = x + zsum a.
Proof. reflexivity. Qed.

Lemma zsum_app a b : zsum (a ++ b) = zsum a + zsum b.
Proof.
  induction a as [|x a IH]; cbn [app]; [change (zsum []) with 0; lia|].
  rewrite !zsum_cons, IH. lia.
Qed.

Lemma zsum_rev a : zsum (rev a) = zsum a.
Proof. induction a as [|x a IH]; [reflexivity|]. cbn [rev]. rewrite zsum_app, IH, !zsum_cons. cbn. lia. Qed.

Lemma zsum_perm a b : Permutation a b -> zsum a = zsum b.
Proof. induction 1; rewrite ?zsum_cons in *; lia. Qed.

Lemma filter_rev {A} (p : A -> bool) l : filter p (rev l) = rev (filter p l).
Proof.
  induction l as [|x l IH]; [reflexivity|]. cbn [rev filter]. rewrite filter_app, IH. cbn [filter].
  destruct (p x); [reflexivity | rewrite app_nil_r; reflexivity].
Qed.

Lemma zsum_map_filter_nonneg {A} (f : A -> Z) (p q : A -> bool) l :
  (forall x, 0 <= f x) -> (forall x, In x l -> p x = true -> q x = true) ->
  zsum (map f (filter p l)) <= zsum (map f (filter q l)).
Proof.
  intros Hf. induction l as [|x l IH]; intros H; [cbn; lia|].
  assert (IH' := IH (fun y Hy => H y (or_intror Hy))). clear IH.
  cbn [filter]. destruct (p x) eqn:Ep.
  - rewrite (H x (or_introl eq_refl) Ep). cbn [map]. rewrite !zsum_cons. lia.
  - destruct (q x); cbn [map]; rewrite ?zsum_cons; specialize (Hf x); lia.
Qed.

Lemma zsum_map_nonneg {A} (f : A -> Z) l : (forall x, 0 <= f x) -> 0 <= zsum (map f l).
Proof. intros Hf. induction l as [|x l IH]; cbn [map]; rewrite ?zsum_cons; [cbn; lia | specialize (Hf x); lia]. Qed.

(* ================================================================== MDV / EVID =============== *)
Lemma mdv_spec_lemma d : map snd (mdv_impl d) = mdv_walk d.
Proof.
  unfold mdv_impl, mdv_walk, mdv_col, rec_mdv.
  destruct (has_mdv (ds_sch d)); [rewrite map_map; reflexivity|].
  destruct (has_evid (ds_sch d)); [rewrite map_map; reflexivity|].
  destruct (has_dose (ds_sch d)); [rewrite map_map; reflexivity|].
  generalize 0 at 1. induction (ds_rows d) as [|r l IH]; intros k; cbn [length zseq map combine]; [reflexivity|].
  rewrite IH. reflexivity.
Qed.

(* the Series keeps the frame's labels whenever one of the three columns exists *)
Lemma mdv_labels_lemma d : mdv_col (ds_sch d) <> None -> map fst (mdv_impl d) = map r_lab (ds_rows d).
Proof.
  unfold mdv_impl. destruct (mdv_col (ds_sch d)); [|congruence]. intros _. rewrite map_map. reflexivity.
Qed.

Lemma evid_spec_lemma d : guard_evid d = true -> map snd (evid_impl d) = evid_walk d.
Proof.
  unfold guard_evid, evid_impl, evid_walk, rec_evid. intros G.
  destruct (has_evid (ds_sch d)) eqn:He; [rewrite map_map; reflexivity|].
  rewrite mdv_spec_lemma. unfold mdv_walk, rec_mdv. rewrite He.
  destruct (has_mdv (ds_sch d)) eqn:Hm; cbn [orb negb] in G.
  - rewrite forallb_forall in G. apply map_ext_in. intros r Hr. specialize (G r Hr).
    unfold nonzero. destruct (has_dose (ds_sch d)); cbn [andb] in *;
      destruct (r_mdv r =? 0); destruct (r_amt r =? 0); cbn in *; congruence.
  - apply map_ext. intros r. unfold nonzero. destruct (has_dose (ds_sch d)); cbn [andb]; [|reflexivity].
    destruct (r_amt r =? 0); reflexivity.
Qed.

(* ================================================================== observations / doses ===== *)
Lemma obs_walk_filter s rows :
  obs_walk s rows = map (fun r => (r_id r, r_time r, r_dv r)) (obs_rows s rows).
Proof.
  unfold obs_rows, rec_mdv, mdv_col.
  induction rows as [|r l IH]; cbn [obs_walk].
  - destruct (has_mdv s); [reflexivity|]. destruct (has_evid s); [reflexivity|]. destruct (has_dose s); reflexivity.
  - rewrite IH. unfold rec_mdv, nonzero.
    destruct (has_mdv s); [cbn [filter]; destruct (r_mdv r =? 0); reflexivity|].
    destruct (has_evid s); [cbn [filter]; destruct (r_evid r =? 0); reflexivity|].
    destruct (has_dose s); [cbn [filter]; destruct (r_amt r =? 0); reflexivity|]. reflexivity.
Qed.

Lemma obs_spec_lemma d : obs_impl d = Series (obs_walk (ds_sch d) (ds_rows d)).
Proof. unfold obs_impl, squeeze. rewrite obs_walk_filter. reflexivity. Qed.

Lemma nobs_spec_lemma d : nobs_impl d = Ok (Z.of_nat (length (obs_walk (ds_sch d) (ds_rows d)))).
Proof. unfold nobs_impl. rewrite (obs_spec_lemma d). reflexivity. Qed.

Lemma doses_walk_filter rows :
  doses_walk rows = map (fun r => (r_id r, r_time r, r_amt r)) (filter (fun r => negb (r_amt r =? 0)) rows).
Proof. induction rows as [|r l IH]; cbn [doses_walk filter]; [reflexivity|]. rewrite IH. destruct (r_amt r =? 0); reflexivity. Qed.

Lemma doses_spec_lemma d : has_dose (ds_sch d) = true ->
  doses_impl d = Ok (Series (doses_walk (ds_rows d))).
Proof. unfold doses_impl, squeeze. intros Hd. rewrite Hd, doses_walk_filter. reflexivity. Qed.

(* ================================================================== baselines ================ *)
Lemma baselines_spec_gen rows : forall rp seen,
  (forall r, existsb (same_id r) rp = existsb (Z.eqb (r_id r)) seen) ->
  flat_map (fun x => x) (scan (fun rpre r => if existsb (same_id r) rpre then [] else [r]) rp rows)
  = baselines_walk seen rows.
Proof.
  induction rows as [|r l IH]; intros rp seen H; cbn [scan flat_map baselines_walk]; [reflexivity|].
  rewrite H. destruct (existsb (Z.eqb (r_id r)) seen) eqn:E; cbn [app].
  - apply IH. intros r'. cbn [existsb]. rewrite H. unfold same_id.
    destruct (r_id r' =? r_id r) eqn:E2; [|reflexivity]. apply Z.eqb_eq in E2. rewrite E2, E. reflexivity.
  - f_equal. apply IH. intros r'. cbn [existsb]. rewrite H. reflexivity.
Qed.

Lemma baselines_spec_lemma d : baselines_impl d = baselines_walk [] (ds_rows d).
Proof. unfold baselines_impl. apply baselines_spec_gen. reflexivity. Qed.
