(* PV.C14.ProofsExpand — expand_additional_doses: the expanded frame is a rearrangement of the
   exploded records (nothing lost, nothing invented), hence the total amount; and the original
   records stay in their order when the individuals are in ascending order and chronological. *)
From Coq Require Import ZArith List Bool Lia Permutation.
From PV Require Import C14.Model C14.Proofs C14.ProofsDoseid.
Import ListNotations.
Local Open Scope Z_scope.

(* ------------------------------------------------------------------ sorted distinct keys *)
Lemma In_insz x y l : In y (insz x l) <-> y = x \/ In y l.
Proof.
  induction l as [|z l IH]; cbn [insz]; [cbn; intuition|].
  destruct (Z.compare_spec x z) as [E|E|E]; cbn [In]; try rewrite IH; subst; intuition.
Qed.

Lemma In_skeys y l : In y (skeys l) <-> In y l.
Proof.
  induction l as [|x l IH]; cbn [skeys fold_right]; [tauto|]. fold (skeys l).
  rewrite In_insz, IH. cbn [In]. intuition.
Qed.

(* strictly ascending *)
Fixpoint asc (l : list Z) : Prop :=
  match l with
  | [] => True
  | x :: tl => (forall y, In y tl -> x < y) /\ asc tl
  end.

Lemma asc_insz x l : asc l -> asc (insz x l).
Proof.
  induction l as [|z l IH]; intros H; cbn [insz]; [cbn; intuition|].
  destruct H as [Hz Hl]. destruct (Z.compare_spec x z) as [E|E|E].
  - cbn [asc]. auto.
  - cbn [asc]. split; [|split; assumption]. intros y [<-|Hy]; [lia | specialize (Hz y Hy); lia].
  - cbn [asc]. split; [|apply IH; exact Hl]. intros y Hy. apply In_insz in Hy. destruct Hy as [->|Hy]; [lia | auto].
Qed.

Lemma asc_skeys l : asc (skeys l).
Proof. induction l as [|x l IH]; cbn [skeys fold_right]; [exact I|]. apply asc_insz. exact IH. Qed.

Lemma asc_NoDup l : asc l -> NoDup l.
Proof.
  induction l as [|x l IH]; intros H; [constructor|]. destruct H as [H1 H2]. constructor; [|auto].
  intro Hx. specialize (H1 x Hx). lia.
Qed.

(* ------------------------------------------------------------------ partition by key *)
Lemma concat_nil {A B} (f : B -> list A) ks : (forall k, In k ks -> f k = []) -> concat (map f ks) = [].
Proof.
  induction ks as [|k ks IH]; intros H; [reflexivity|]. cbn [map concat].
  rewrite (H k (or_introl eq_refl)), IH; [reflexivity|]. intros k' Hk. apply H. right. exact Hk.
Qed.

Lemma partition_cons {A} (key : A -> Z) x l ks : NoDup ks -> In (key x) ks ->
  Permutation (concat (map (fun k => filter (fun y => key y =? k) (x :: l)) ks))
              (x :: concat (map (fun k => filter (fun y => key y =? k) l) ks)).
Proof.
  induction 1 as [|k ks Hn Hnd IH]; intros Hin; [destruct Hin|].
  cbn [map concat].
  change (filter (fun y => key y =? k) (x :: l))
    with (if key x =? k then x :: filter (fun y => key y =? k) l else filter (fun y => key y =? k) l).
  destruct (key x =? k) eqn:E.
  - apply Z.eqb_eq in E. cbn [app]. constructor. apply Permutation_app_head.
    assert (map (fun k0 => filter (fun y => key y =? k0) (x :: l)) ks
            = map (fun k0 => filter (fun y => key y =? k0) l) ks) as ->; [|reflexivity].
    apply map_ext_in. intros k' Hk'. cbn [filter].
    assert (key x =? k' = false) as ->; [|reflexivity]. apply Z.eqb_neq. intro. subst. contradiction.
  - destruct Hin as [Hin|Hin]; [apply Z.eqb_neq in E; congruence|].
    eapply Permutation_trans; [apply Permutation_app_head; apply IH; exact Hin|].
    apply Permutation_sym. apply Permutation_middle.
Qed.

Lemma partition_perm {A} (key : A -> Z) ks : NoDup ks -> forall l, (forall x, In x l -> In (key x) ks) ->
  Permutation (concat (map (fun k => filter (fun y => key y =? k) l) ks)) l.
Proof.
  intros Hnd. induction l as [|x l IH]; intros H.
  - rewrite concat_nil; [constructor | reflexivity].
  - eapply Permutation_trans; [apply partition_cons; [exact Hnd | apply H; left; reflexivity]|].
    constructor. apply IH. intros y Hy. apply H. right. exact Hy.
Qed.

Lemma groups_perm {A} (key : A -> Z) (l : list A) : Permutation (concat (groups_of key l)) l.
Proof.
  unfold groups_of. apply partition_perm.
  - apply asc_NoDup. apply asc_skeys.
  - intros x Hx. apply In_skeys. apply in_map. exact Hx.
Qed.

Lemma insert_perm {A} (key : A -> Z) x l : Permutation (insert_by key x l) (x :: l).
Proof.
  induction l as [|y l IH]; cbn [insert_by]; [reflexivity|].
  destruct (key x <=? key y); [reflexivity|].
  eapply Permutation_trans; [constructor; exact IH|]. constructor.
Qed.

Lemma isort_perm {A} (key : A -> Z) l : Permutation (isort_by key l) l.
Proof.
  induction l as [|x l IH]; [constructor|]. cbn [isort_by fold_right]. fold (isort_by key l).
  eapply Permutation_trans; [apply insert_perm|]. constructor. exact IH.
Qed.

Lemma concat_map_perm {A} (f : list A -> list A) gs :
  (forall g, Permutation (f g) g) -> Permutation (concat (map f gs)) (concat gs).
Proof.
  intros H. induction gs as [|g gs IH]; [constructor|]. cbn [map concat]. apply Permutation_app; auto.
Qed.

Lemma concat_flat_map {A B} (f : B -> list (list A)) l :
  concat (flat_map f l) = concat (map (fun b => concat (f b)) l).
Proof.
  induction l as [|b l IH]; [reflexivity|]. cbn [flat_map map concat]. rewrite concat_app, IH. reflexivity.
Qed.

(* ------------------------------------------------------------------ unique1d *)
Lemma uniq_from_spec l : forall seen,
  NoDup (uniq_from seen l)
  /\ forall y, In y (uniq_from seen l) <-> In y l /\ ~ In y seen.
Proof.
  induction l as [|x l IH]; intros seen; cbn [uniq_from].
  - split; [constructor | intros y; cbn; tauto].
  - destruct (existsb (Z.eqb x) seen) eqn:E.
    + destruct (IH seen) as [H1 H2]. split; [exact H1|]. intros y. rewrite H2. cbn [In].
      apply existsb_exists in E. destruct E as [z [Hz Ez]]. apply Z.eqb_eq in Ez. subst z.
      split; [tauto|]. intros [[<-|Hy] Hn]; [contradiction | tauto].
    + assert (Hx : ~ In x seen).
      { intro Hx. assert (existsb (Z.eqb x) seen = true); [|congruence].
        apply existsb_exists. exists x. split; [exact Hx | apply Z.eqb_refl]. }
      destruct (IH (x :: seen)) as [H1 H2]. split.
      * constructor; [|exact H1]. rewrite H2. cbn [In]. tauto.
      * intros y. cbn [In]. rewrite H2. cbn [In].
        destruct (Z.eq_dec x y) as [->|Hne]; [tauto|]. tauto.
Qed.

(* ------------------------------------------------------------------ the expanded frame *)
Definition cat_of (s : schema) (rows : list row) : list erow :=
  concat (map (isort_by e_time) (flat_map (groups_of e_rg) (groups_of e_id (exploded s rows)))).

Lemma cat_perm s rows : Permutation (cat_of s rows) (exploded s rows).
Proof.
  unfold cat_of.
  eapply Permutation_trans; [apply concat_map_perm; intros g; apply isort_perm|].
  rewrite concat_flat_map.
  eapply Permutation_trans; [|apply (groups_perm e_id)].
  apply concat_map_perm. intros g. apply groups_perm.
Qed.

Lemma expand_core_perm s rows : Permutation (expand_core s rows) (map fst (exploded s rows)).
Proof.
  unfold expand_core. fold (cat_of s rows). apply Permutation_map.
  destruct (existsb _ _); [apply cat_perm|].
  eapply Permutation_trans; [|apply cat_perm].
  rewrite flat_map_concat_map. apply partition_perm.
  - apply (uniq_from_spec _ []).
  - intros x Hx. apply (uniq_from_spec _ []). split; [|intros []].
    apply in_map. apply (Permutation_in _ (cat_perm s rows)). exact Hx.
Qed.

(* ------------------------------------------------------------------ amounts *)
Lemma ann_fst s rows : map fst (ann s rows) = rows.
Proof.
  unfold ann. assert (length (resetgroups s rows) = length rows) as H.
  { unfold resetgroups. destruct (has_evid s); [apply scan_length | apply map_length]. }
  revert H. generalize (resetgroups s rows). induction rows as [|r l IH]; intros [|g gs] H; cbn in *; try reflexivity; try discriminate.
  f_equal. apply IH. lia.
Qed.

Lemma explode_amounts r : 0 <= r_addl r ->
  zsum (map (fun e : row * bool => r_amt (fst e)) (explode_row r)) = (r_addl r + 1) * r_amt r.
Proof.
  intros H. unfold explode_row. destruct (r_addl r =? 0) eqn:E.
  - apply Z.eqb_eq in E. rewrite E. cbn [map fst]. rewrite zsum_cons. change (zsum []) with 0. lia.
  - rewrite map_map. cbn [fst]. unfold set_time. cbn [r_amt].
    assert (forall n k, zsum (map (fun _ : nat => r_amt r) (seq k n)) = Z.of_nat n * r_amt r) as K.
    { induction n as [|n IH]; intros k; [reflexivity|]. cbn [seq map]. rewrite zsum_cons, IH. lia. }
    rewrite K. rewrite Nat2Z.inj_succ, Z2Nat.id by lia. lia.
Qed.

Lemma exploded_amounts s rows : g_addl_nonneg rows = true ->
  zsum (map (fun e : row * bool => r_amt (fst e)) (map fst (exploded s rows)))
  = zsum (map (fun r => (r_addl r + 1) * r_amt r) rows).
Proof.
  intros G. unfold g_addl_nonneg in G. rewrite forallb_forall in G.
  rewrite <- (ann_fst s rows) at 2. unfold exploded.
  assert (forall an : list (row * Z), (forall x, In x an -> 0 <= r_addl (fst x)) ->
    zsum (map (fun e : row * bool => r_amt (fst e))
              (map fst (flat_map (fun x => map (fun e => (e, snd x)) (explode_row (fst x))) an)))
    = zsum (map (fun r => (r_addl r + 1) * r_amt r) (map fst an))) as K.
  { induction an as [|a an IH]; intros H; [reflexivity|].
    cbn [flat_map]. rewrite !map_app, zsum_app.
    rewrite IH by (intros x Hx; apply H; right; exact Hx).
    cbn [map]. rewrite zsum_cons. rewrite !map_map. cbn [fst].
    rewrite explode_amounts by (apply H; left; reflexivity). reflexivity. }
  apply K. intros x Hx. apply Z.leb_le. apply G. rewrite <- (ann_fst s rows). apply in_map. exact Hx.
Qed.

Lemma relabel_amounts {B} (l : list (row * B)) :
  map (fun p : row * B => r_amt (fst p)) (relabel l) = map (fun p => r_amt (fst p)) l.
Proof.
  unfold relabel. rewrite map_map. cbn [fst]. generalize 0.
  induction l as [|p l IH]; intros k; cbn [length zseq combine map]; [reflexivity|].
  rewrite IH. reflexivity.
Qed.

Lemma expand_total_amount_lemma d l :
  has_addl (ds_sch d) && has_ii (ds_sch d) = true -> g_addl_nonneg (ds_rows d) = true ->
  expand_impl d = Ok l ->
  zsum (map (fun p : row * bool => r_amt (fst p)) l)
  = zsum (map (fun r => (r_addl r + 1) * r_amt r) (ds_rows d)).
Proof.
  intros Ha G. unfold expand_impl. rewrite Ha. cbn [negb].
  intros H. injection H as <-. rewrite relabel_amounts.
  rewrite (zsum_perm _ _ (Permutation_map _ (expand_core_perm (ds_sch d) (relab_from 0 (ds_rows d))))).
  rewrite exploded_amounts.
  - f_equal. clear. generalize 0. induction (ds_rows d) as [|r l IH]; intros k; [reflexivity|].
    cbn [relab_from map]. rewrite IH. reflexivity.
  - unfold g_addl_nonneg in *. rewrite forallb_forall in *. intros r Hr.
    assert (In (r_addl r) (map r_addl (relab_from 0 (ds_rows d)))) by (apply in_map; exact Hr).
    assert (E : forall l k, map r_addl (relab_from k l) = map r_addl l).
    { induction l as [|x l IH]; intros k; [reflexivity|]. cbn [relab_from map]. rewrite IH. reflexivity. }
    rewrite E in H. apply in_map_iff in H. destruct H as [r' [<- Hr']]. apply G. exact Hr'.
Qed.

(* without an ADDL / II pair the model is returned as it is *)
Lemma expand_noop_lemma d :
  has_addl (ds_sch d) && has_ii (ds_sch d) = false -> expand_impl d = Ok (map (fun r => (r, false)) (ds_rows d)).
Proof. intros H. unfold expand_impl. rewrite H. reflexivity. Qed.

(* ------------------------------------------------------------------ reset_index(drop=True) *)
Definition unlab (r : row) : row := set_lab r 0.

Lemma cons_inj {A} (x y : A) a b : x :: a = y :: b -> x = y /\ a = b.
Proof. intros H. injection H as H1 H2. auto. Qed.

Lemma unlab_set_lab r k : unlab (set_lab r k) = unlab r.
Proof. reflexivity. Qed.

Lemma relab_unlab rows : forall k, map unlab (relab_from k rows) = map unlab rows.
Proof. induction rows as [|r l IH]; intros k; [reflexivity|]. cbn [relab_from map]. rewrite IH. reflexivity. Qed.

Lemma relab_map {B} (f : row -> B) rows : (forall r k, f (set_lab r k) = f r) ->
  forall k, map f (relab_from k rows) = map f rows.
Proof. intros H. induction rows as [|r l IH]; intros k; [reflexivity|]. cbn [relab_from map]. rewrite H, IH. reflexivity. Qed.

Lemma relab_labels rows : forall k, labels_from k (relab_from k rows) = true.
Proof.
  induction rows as [|r l IH]; intros k; [reflexivity|]. cbn [relab_from labels_from]. cbn [set_lab r_lab].
  rewrite Z.eqb_refl, IH. reflexivity.
Qed.

Lemma unlab_id r r' : unlab r = unlab r' -> r_id r = r_id r'.
Proof. intros H. apply (f_equal r_id) in H. exact H. Qed.
Lemma unlab_time r r' : unlab r = unlab r' -> r_time r = r_time r'.
Proof. intros H. apply (f_equal r_time) in H. exact H. Qed.
Lemma unlab_evid r r' : unlab r = unlab r' -> r_evid r = r_evid r'.
Proof. intros H. apply (f_equal r_evid) in H. exact H. Qed.

Lemma sum_filter_unlab (f : row -> Z) (p p' : row -> bool) l : forall l',
  map unlab l = map unlab l' ->
  (forall r r', unlab r = unlab r' -> p r = p' r' /\ f r = f r') ->
  zsum (map f (filter p l)) = zsum (map f (filter p' l')).
Proof.
  induction l as [|r l IH]; intros [|r' l'] E H; try discriminate; [reflexivity|].
  cbn [map] in E. apply cons_inj in E. destruct E as [E1 E2]. destruct (H r r' E1) as [Hp Hf]. cbn [filter]. rewrite Hp.
  destruct (p' r'); cbn [map]; rewrite ?zsum_cons, ?Hf; rewrite (IH l' E2 H); reflexivity.
Qed.

Lemma resetgroups_relab s rows k : resetgroups s (relab_from k rows) = resetgroups s rows.
Proof.
  unfold resetgroups. destruct (has_evid s).
  - unfold group_cumsum.
    assert (G : forall l k rp rp', map unlab rp = map unlab rp' ->
      scan (fun rpre x => zsum (map reset_flag (filter (same_id x) rpre)) + reset_flag x) rp (relab_from k l)
      = scan (fun rpre x => zsum (map reset_flag (filter (same_id x) rpre)) + reset_flag x) rp' l).
    { induction l as [|r l IH]; intros k0 rp rp' E; [reflexivity|]. cbn [relab_from scan]. f_equal.
      - f_equal. apply sum_filter_unlab; [exact E|]. intros a a' Ha. unfold same_id, reset_flag.
        cbn [set_lab r_id]. rewrite (unlab_id a a' Ha), (unlab_evid a a' Ha). auto.
      - apply IH. cbn [map]. rewrite E. reflexivity. }
    apply G. reflexivity.
  - clear. revert k. induction rows as [|r l IH]; intros k; [reflexivity|]. cbn [relab_from map]. rewrite IH. reflexivity.
Qed.

Definition unlabA (a : row * Z) : row * Z := (unlab (fst a), snd a).

Lemma forallb_unlabA (Q Q' : row * Z -> bool) l : forall l',
  map unlabA l = map unlabA l' -> (forall a a', unlabA a = unlabA a' -> Q a = Q' a') -> forallb Q l = forallb Q' l'.
Proof.
  induction l as [|a l IH]; intros [|a' l'] E H; try discriminate; [reflexivity|].
  cbn [map] in E. apply cons_inj in E. destruct E as [E1 E3]. cbn [forallb].
  rewrite (H a a' E1). rewrite (IH l' E3 H). reflexivity.
Qed.

Lemma unlabA_fields a a' : unlabA a = unlabA a' -> a_id a = a_id a' /\ a_time a = a_time a' /\ snd a = snd a'.
Proof.
  unfold unlabA, a_id, a_time. intros H. assert (H1 := f_equal fst H). assert (H2 := f_equal snd H). cbn [fst snd] in H1, H2.
  repeat split; [apply unlab_id | apply unlab_time |]; assumption.
Qed.

Lemma chrono_relab s rows k : g_chrono (ann s (relab_from k rows)) = g_chrono (ann s rows).
Proof.
  unfold g_chrono, forall_ctx, ann. rewrite resetgroups_relab. generalize (resetgroups s rows) as rgs.
  assert (G : forall l k rgs rp rp', map unlabA rp = map unlabA rp' ->
    forall_ctx_from (fun rpre x _ => forallb (fun y => negb (a_same x y && (snd x =? snd y)) || (a_time y <=? a_time x)) rpre)
                    rp (combine (relab_from k l) rgs)
    = forall_ctx_from (fun rpre x _ => forallb (fun y => negb (a_same x y && (snd x =? snd y)) || (a_time y <=? a_time x)) rpre)
                      rp' (combine l rgs)).
  { induction l as [|r l IH]; intros k0 [|g rgs] rp rp' E; try reflexivity.
    cbn [relab_from combine forall_ctx_from]. f_equal.
    - apply forallb_unlabA; [exact E|]. intros a a' Ha. destruct (unlabA_fields a a' Ha) as [H1 [H2 H3]].
      unfold a_same. unfold a_id at 1 3, a_time at 2 4. cbn [fst snd set_lab r_id r_time]. rewrite H1, H2, H3. reflexivity.
    - apply IH. cbn [map]. rewrite E. reflexivity. }
  intros rgs. apply G. reflexivity.
Qed.

(* ================================================================== order of the original records *)
(* nondecreasing, in the strong (pairwise) form *)
Fixpoint ssorted (l : list Z) : Prop :=
  match l with
  | [] => True
  | x :: tl => (forall y, In y tl -> x <= y) /\ ssorted tl
  end.

Lemma sortedz_ssorted l : sortedz l = true -> ssorted l.
Proof.
  induction l as [|x l IH]; intros H; [exact I|]. cbn [sortedz] in H. destruct l as [|y l].
  - split; [intros y []|exact I].
  - apply andb_prop in H. destruct H as [H1 H2]. apply Z.leb_le in H1. specialize (IH H2).
    split; [|exact IH]. intros z [<-|Hz]; [exact H1|]. destruct IH as [IH1 _]. specialize (IH1 z Hz). lia.
Qed.

Lemma ssorted_filter {A} (key : A -> Z) (p : A -> bool) l :
  ssorted (map key l) -> ssorted (map key (filter p l)).
Proof.
  induction l as [|x l IH]; intros H; [exact I|]. destruct H as [H1 H2]. cbn [filter].
  destruct (p x); [|auto]. cbn [map ssorted]. split; [|auto].
  intros y Hy. apply H1. apply in_map_iff in Hy. destruct Hy as [z [<- Hz]]. apply in_map.
  apply filter_In in Hz. tauto.
Qed.

Lemma filter_true {A} (p : A -> bool) l : (forall y, In y l -> p y = true) -> filter p l = l.
Proof.
  induction l as [|x l IH]; intros H; [reflexivity|]. cbn [filter].
  rewrite (H x (or_introl eq_refl)). f_equal. apply IH. intros y Hy. apply H. right. exact Hy.
Qed.

Lemma sorted_split_head {A} (key : A -> Z) k l :
  ssorted (map key l) -> (forall x, In x l -> k <= key x) ->
  l = filter (fun x => key x =? k) l ++ filter (fun x => negb (key x =? k)) l.
Proof.
  induction l as [|x l IH]; intros Hs Hk; [reflexivity|]. destruct Hs as [H1 H2]. cbn [filter].
  destruct (key x =? k) eqn:E; cbn [negb app].
  - f_equal. apply IH; [exact H2 | intros y Hy; apply Hk; right; exact Hy].
  - apply Z.eqb_neq in E. assert (k < key x) by (specialize (Hk x (or_introl eq_refl)); lia).
    rewrite (filter_false (fun y => key y =? k) l).
    + cbn [app]. f_equal. symmetry. apply filter_true. intros y Hy. apply negb_true_iff. apply Z.eqb_neq.
      specialize (H1 (key y) (in_map key _ _ Hy)). lia.
    + intros y Hy. apply Z.eqb_neq. specialize (H1 (key y) (in_map key _ _ Hy)). lia.
Qed.

(* a list whose keys never decrease is the concatenation of its key groups in ascending key order *)
Lemma blocks_identity {A} (key : A -> Z) ks : asc ks -> forall l,
  ssorted (map key l) -> (forall x, In x l -> In (key x) ks) ->
  concat (map (fun k => filter (fun x => key x =? k) l) ks) = l.
Proof.
  induction ks as [|k ks IH]; intros Hasc l Hs Hin.
  - destruct l as [|x l]; [reflexivity|]. destruct (Hin x (or_introl eq_refl)).
  - destruct Hasc as [Hk Hasc]. cbn [map concat].
    assert (Hmin : forall x, In x l -> k <= key x).
    { intros x Hx. destruct (Hin x Hx) as [<-|H]; [lia | specialize (Hk _ H); lia]. }
    transitivity (filter (fun x => key x =? k) l ++ filter (fun x => negb (key x =? k)) l);
      [|symmetry; apply sorted_split_head; assumption]. f_equal.
    set (B := filter (fun x => negb (key x =? k)) l).
    rewrite <- (IH Hasc B).
    + f_equal. apply map_ext_in. intros k' Hk'. unfold B. clear B.
      assert (k <> k') by (specialize (Hk _ Hk'); lia).
      induction l as [|x l IHl]; [reflexivity|]. cbn [filter].
      destruct (key x =? k) eqn:E1; cbn [negb filter].
      * apply Z.eqb_eq in E1. assert (key x =? k' = false) as -> by (apply Z.eqb_neq; lia).
        apply IHl.
        -- destruct Hs; assumption.
        -- intros y Hy. apply Hin. right. exact Hy.
        -- intros y Hy. apply Hmin. right. exact Hy.
      * destruct (key x =? k'); [f_equal|]; apply IHl; try (destruct Hs; assumption);
          try (intros y Hy; apply Hin; right; exact Hy); intros y Hy; apply Hmin; right; exact Hy.
    + apply ssorted_filter. exact Hs.
    + intros x Hx. unfold B in Hx. apply filter_In in Hx. destruct Hx as [Hx Hne].
      apply negb_true_iff in Hne. apply Z.eqb_neq in Hne.
      destruct (Hin x Hx) as [E|H]; [congruence | exact H].
Qed.

Lemma insert_head {A} (key : A -> Z) x l : (forall y, In y l -> key x <= key y) -> insert_by key x l = x :: l.
Proof.
  destruct l as [|y l]; intros H; [reflexivity|]. cbn [insert_by].
  assert (key x <=? key y = true) as -> by (apply Z.leb_le; apply H; left; reflexivity). reflexivity.
Qed.

Lemma isort_sorted_id {A} (key : A -> Z) l : ssorted (map key l) -> isort_by key l = l.
Proof.
  induction l as [|x l IH]; intros H; [reflexivity|]. destruct H as [H1 H2].
  cbn [isort_by fold_right]. fold (isort_by key l). rewrite (IH H2). apply insert_head.
  intros y Hy. apply H1. apply in_map. exact Hy.
Qed.

Lemma ssorted_insert {A} (key : A -> Z) x l : ssorted (map key l) -> ssorted (map key (insert_by key x l)).
Proof.
  induction l as [|y l IH]; intros H; [cbn; intuition|]. destruct H as [H1 H2]. cbn [insert_by].
  destruct (key x <=? key y) eqn:E.
  - apply Z.leb_le in E. cbn [map ssorted]. split; [|split; assumption].
    intros z [<-|Hz]; [exact E | specialize (H1 z Hz); lia].
  - apply Z.leb_gt in E. cbn [map ssorted]. split; [|apply IH; exact H2].
    intros z Hz. apply in_map_iff in Hz. destruct Hz as [w [<- Hw]].
    apply (Permutation_in _ (insert_perm key x l)) in Hw. destruct Hw as [<-|Hw]; [lia|].
    apply H1. apply in_map. exact Hw.
Qed.

Lemma isort_ssorted {A} (key : A -> Z) l : ssorted (map key (isort_by key l)).
Proof.
  induction l as [|x l IH]; [exact I|]. cbn [isort_by fold_right]. fold (isort_by key l).
  apply ssorted_insert. exact IH.
Qed.

Lemma filter_insert_sorted {A} (key : A -> Z) (p : A -> bool) x l : ssorted (map key l) ->
  filter p (insert_by key x l) = if p x then insert_by key x (filter p l) else filter p l.
Proof.
  induction l as [|y l IH]; intros H; [cbn; destruct (p x); reflexivity|]. destruct H as [H1 H2].
  cbn [insert_by]. destruct (key x <=? key y) eqn:E.
  - apply Z.leb_le in E. cbn [filter]. destruct (p x); [|reflexivity].
    symmetry. apply insert_head. intros z Hz.
    assert (In z (y :: l)) by (destruct (p y); [destruct Hz as [<-|Hz]; [left; reflexivity | right; apply filter_In in Hz; tauto]
                                              | right; apply filter_In in Hz; tauto]).
    destruct H as [<-|H]; [exact E|]. specialize (H1 (key z) (in_map key _ _ H)). lia.
  - cbn [filter]. rewrite (IH H2). destruct (p y) eqn:Ey; destruct (p x); try reflexivity.
    cbn [insert_by]. rewrite E. reflexivity.
Qed.

Lemma filter_isort {A} (key : A -> Z) (p : A -> bool) l :
  filter p (isort_by key l) = isort_by key (filter p l).
Proof.
  induction l as [|x l IH]; [reflexivity|]. cbn [isort_by fold_right]. fold (isort_by key l).
  rewrite filter_insert_sorted by apply isort_ssorted. rewrite IH. cbn [filter].
  destruct (p x); reflexivity.
Qed.

Lemma filter_concat {A} (p : A -> bool) Ls : filter p (concat Ls) = concat (map (filter p) Ls).
Proof. induction Ls as [|L Ls IH]; [reflexivity|]. cbn [concat map]. rewrite filter_app, IH. reflexivity. Qed.

Lemma filter_comm {A} (p q : A -> bool) l : filter p (filter q l) = filter q (filter p l).
Proof.
  induction l as [|x l IH]; [reflexivity|]. cbn [filter].
  destruct (q x) eqn:Eq; destruct (p x) eqn:Ep; cbn [filter]; rewrite ?Eq, ?Ep, IH; reflexivity.
Qed.

(* per-group pairwise order from a context guard *)
Lemma pairwise_ssorted {A} (val : A -> Z) (p : A -> bool) l :
  (forall pre x post, l = pre ++ x :: post -> p x = true -> forall y, In y pre -> p y = true -> val y <= val x) ->
  ssorted (map val (filter p l)).
Proof.
  induction l as [|x l IH]; intros H; [exact I|].
  assert (IH' : ssorted (map val (filter p l))).
  { apply IH. intros pre z post E Hz y Hy Hpy. apply (H (x :: pre) z post); [rewrite E; reflexivity | exact Hz | right; exact Hy | exact Hpy]. }
  cbn [filter]. destruct (p x) eqn:Ex; [|exact IH']. cbn [map ssorted]. split; [|exact IH'].
  intros v Hv. apply in_map_iff in Hv. destruct Hv as [y [<- Hy]]. apply filter_In in Hy. destruct Hy as [Hy Hpy].
  apply in_split in Hy. destruct Hy as [a [b ->]].
  apply (H (x :: a) y b); [reflexivity | exact Hpy | left; reflexivity | exact Ex].
Qed.

Definition notexp_e (e : erow) : bool := negb (snd (fst e)).

Lemma set_time_same r : set_time r (r_time r) = r.
Proof. destruct r. reflexivity. Qed.

Lemma explode_originals r g :
  filter notexp_e (map (fun e => (e, g)) (explode_row r)) = [((r, false), g)].
Proof.
  unfold explode_row. destruct (r_addl r =? 0); [reflexivity|].
  cbn [seq map filter]. unfold notexp_e at 1. cbn [fst snd Nat.eqb negb].
  replace (r_ii r * Z.of_nat 0 + r_time r) with (r_time r) by lia. rewrite set_time_same. f_equal.
  apply filter_false. intros e He. rewrite map_map in He. apply in_map_iff in He. destruct He as [x [<- Hx]].
  apply in_seq in Hx. unfold notexp_e. cbn [fst snd]. destruct x; [lia | reflexivity].
Qed.

Definition originals_e (s : schema) (rows : list row) : list erow :=
  map (fun a => ((fst a, false), snd a)) (ann s rows).

Lemma exploded_originals s rows : filter notexp_e (exploded s rows) = originals_e s rows.
Proof.
  unfold exploded, originals_e. induction (ann s rows) as [|a an IH]; [reflexivity|].
  cbn [flat_map]. rewrite filter_app, explode_originals. cbn [app map]. f_equal. exact IH.
Qed.

Lemma originals_e_rows s rows : map (fun e : erow => fst (fst e)) (originals_e s rows) = rows.
Proof. unfold originals_e. rewrite map_map. cbn [fst]. apply ann_fst. Qed.

Lemma concat_map_flat_map {A B C} (F : list A -> list C) (G : B -> list (list A)) L :
  concat (map F (flat_map G L)) = concat (map (fun b => concat (map F (G b))) L).
Proof.
  induction L as [|b L IH]; [reflexivity|]. cbn [flat_map map concat]. rewrite map_app, concat_app, IH. reflexivity.
Qed.

Section Order.
  Variable s : schema.
  Variable rows : list row.
  Hypothesis Hlab : g_labels_range rows = true.
  Hypothesis Hids : g_ids_ascending rows = true.
  Hypothesis Hchr : g_chrono (ann s rows) = true.

  Let O := originals_e s rows.

  Lemma O_closed : O = map (fun x => ((x, false), rgf s rows x)) rows.
  Proof. unfold O, originals_e. rewrite (ann_closed s rows Hlab), map_map. reflexivity. Qed.

  Lemma O_split pre e post : O = pre ++ e :: post ->
    exists p x q, rows = p ++ x :: q /\ e = ((x, false), rgf s rows x)
                  /\ pre = map (fun x => ((x, false), rgf s rows x)) p.
  Proof.
    rewrite O_closed. intros E. apply map_eq_app in E. destruct E as [p [xq [Er [Ep Exq]]]].
    apply map_eq_cons in Exq. destruct Exq as [x [q [-> [Ex Eq]]]]. exists p, x, q. auto.
  Qed.

  Lemma O_ids_sorted : ssorted (map e_id O).
  Proof.
    rewrite O_closed, map_map. unfold e_id. cbn [fst]. apply sortedz_ssorted. exact Hids.
  Qed.

  Lemma O_rg_sorted k : ssorted (map e_rg (filter (fun e => e_id e =? k) O)).
  Proof.
    apply pairwise_ssorted. intros pre e post E He y Hy Hyk.
    destruct (O_split pre e post E) as [p [x [q [Er [-> ->]]]]].
    apply in_map_iff in Hy. destruct Hy as [z [<- Hz]]. unfold e_rg, e_id in *. cbn [fst snd] in *.
    apply Z.eqb_eq in He, Hyk.
    destruct (split_lab rows Hlab p x q Er) as [Hp _].
    apply (rgf_mono s rows Hlab); try congruence.
    - specialize (Hp z Hz). lia.
    - rewrite Er. apply in_or_app. right. left. reflexivity.
    - rewrite Er. apply in_or_app. left. exact Hz.
  Qed.

  Lemma O_time_sorted k k2 :
    ssorted (map e_time (filter (fun e => e_rg e =? k2) (filter (fun e => e_id e =? k) O))).
  Proof.
    apply pairwise_ssorted. intros pre e post E He y Hy Hy2.
    apply filter_eq_split in E. destruct E as [a' [b' [EO [Ea' [_ Hek]]]]].
    assert (Hya : In y a' /\ e_id y =? k = true) by (rewrite <- Ea' in Hy; apply filter_In in Hy; exact Hy).
    destruct Hya as [Hya Hyk].
    destruct (O_split a' e b' EO) as [p [x [q [Er [-> ->]]]]].
    apply in_map_iff in Hya. destruct Hya as [z [<- Hz]]. unfold e_rg, e_id, e_time in *. cbn [fst snd] in *.
    apply Z.eqb_eq in He, Hy2, Hek, Hyk.
    destruct (split_lab rows Hlab p x q Er) as [Hp _].
    apply (derive_chrono s rows Hlab Hchr); try congruence.
    - rewrite Er. apply in_or_app. right. left. reflexivity.
    - rewrite Er. apply in_or_app. left. exact Hz.
    - apply Hp. exact Hz.
  Qed.

  Lemma O_in_ex e : In e O -> In e (exploded s rows).
  Proof. unfold O. rewrite <- exploded_originals. intros H. apply filter_In in H. tauto. Qed.

  (* the originals inside the time-sorted groups, group after group, are the originals in row order *)
  Lemma cat_originals : filter notexp_e (cat_of s rows) = O.
  Proof.
    unfold cat_of. rewrite filter_concat, map_map.
    rewrite (map_ext _ (fun g => isort_by e_time (filter notexp_e g))) by (intros g; apply filter_isort).
    rewrite (concat_map_flat_map (fun g => isort_by e_time (filter notexp_e g)) (groups_of e_rg)).
    unfold groups_of at 2. rewrite map_map.
    transitivity (concat (map (fun k => filter (fun e => e_id e =? k) O) (skeys (map e_id (exploded s rows))))).
    - f_equal. apply map_ext_in. intros k Hk. unfold groups_of. rewrite map_map.
      set (b := filter (fun x => e_id x =? k) (exploded s rows)).
      transitivity (concat (map (fun k2 => filter (fun e => e_rg e =? k2) (filter (fun e => e_id e =? k) O))
                                (skeys (map e_rg b)))).
      + f_equal. apply map_ext. intros k2. unfold b.
        rewrite (filter_comm notexp_e), (filter_comm notexp_e), exploded_originals. fold O.
        apply isort_sorted_id. apply O_time_sorted.
      + apply blocks_identity; [apply asc_skeys | apply O_rg_sorted |].
        intros e He. apply filter_In in He. destruct He as [He Hek]. apply In_skeys. apply in_map.
        unfold b. apply filter_In. split; [apply O_in_ex; exact He | exact Hek].
    - apply blocks_identity; [apply asc_skeys | apply O_ids_sorted |].
      intros e He. apply In_skeys. apply in_map. apply O_in_ex. exact He.
  Qed.

  Lemma ssorted_app l1 l2 : ssorted l1 -> ssorted l2 -> (forall x y, In x l1 -> In y l2 -> x <= y) -> ssorted (l1 ++ l2).
  Proof.
    induction l1 as [|a l1 IH]; intros H1 H2 H; [exact H2|]. destruct H1 as [Ha H1]. cbn [app ssorted]. split.
    - intros y Hy. apply in_app_or in Hy. destruct Hy as [Hy|Hy]; [auto | apply H; [left; reflexivity | exact Hy]].
    - apply IH; auto. intros x y Hx Hy. apply H; [right; exact Hx | exact Hy].
  Qed.

  Lemma explode_labels r g e : In e (map (fun e => (e, g)) (explode_row r)) -> e_lab e = r_lab r.
  Proof.
    intros H. apply in_map_iff in H. destruct H as [e0 [<- H]]. unfold e_lab. cbn [fst].
    unfold explode_row in H. destruct (r_addl r =? 0).
    - destruct H as [<-|[]]. reflexivity.
    - apply in_map_iff in H. destruct H as [x [<- _]]. reflexivity.
  Qed.

  Lemma ssorted_const (l : list Z) c : (forall x, In x l -> x = c) -> ssorted l.
  Proof.
    induction l as [|a l IH]; intros H; [exact I|]. split; [|apply IH; intros x Hx; apply H; right; exact Hx].
    intros y Hy. rewrite (H a (or_introl eq_refl)), (H y (or_intror Hy)). lia.
  Qed.

  Lemma exploded_labels_sorted_gen (an : list (row * Z)) : ssorted (map (fun a => r_lab (fst a)) an) ->
    ssorted (map e_lab (flat_map (fun x => map (fun e => (e, snd x)) (explode_row (fst x))) an)).
  Proof.
    induction an as [|a an IH]; intros H; [exact I|]. destruct H as [Ha H]. cbn [flat_map].
    rewrite map_app. apply ssorted_app.
    - apply (ssorted_const _ (r_lab (fst a))). intros x Hx. apply in_map_iff in Hx. destruct Hx as [e [<- He]].
      apply (explode_labels _ _ _ He).
    - apply IH. exact H.
    - intros x y Hx Hy. apply in_map_iff in Hx. destruct Hx as [e [<- He]].
      rewrite (explode_labels _ _ _ He). apply in_map_iff in Hy. destruct Hy as [e' [<- He']].
      apply in_flat_map in He'. destruct He' as [a' [Ha' He']]. rewrite (explode_labels _ _ _ He').
      apply Ha. apply (in_map (fun a => r_lab (fst a))). exact Ha'.
  Qed.

  Lemma labels_ssorted l : forall k, labels_from k l = true -> ssorted (map r_lab l) /\ forall y, In y l -> k <= r_lab y.
  Proof.
    induction l as [|r l IH]; intros k H; [split; [exact I | intros y []]|].
    cbn [labels_from] in H. apply andb_prop in H. destruct H as [H1 H2]. apply Z.eqb_eq in H1.
    destruct (IH _ H2) as [I1 I2]. split.
    - cbn [map ssorted]. split; [|exact I1]. intros y Hy. apply in_map_iff in Hy. destruct Hy as [z [<- Hz]].
      specialize (I2 z Hz). lia.
    - intros y [<-|Hy]; [lia | specialize (I2 y Hy); lia].
  Qed.

  Lemma exploded_labels_sorted : ssorted (map e_lab (exploded s rows)).
  Proof.
    unfold exploded. apply exploded_labels_sorted_gen.
    rewrite <- (map_map fst r_lab), ann_fst. apply (labels_ssorted rows 0 Hlab).
  Qed.

  Lemma uniq_asc l : ssorted l -> forall seen, asc (uniq_from seen l).
  Proof.
    induction l as [|x l IH]; intros H seen; [exact I|]. destruct H as [Hx H]. cbn [uniq_from].
    destruct (existsb (Z.eqb x) seen); [apply IH; exact H|]. cbn [asc]. split; [|apply IH; exact H].
    intros y Hy. apply (uniq_from_spec l (x :: seen)) in Hy. destruct Hy as [Hy Hn].
    specialize (Hx y Hy). cbn [In] in Hn. assert (x <> y) by tauto. lia.
  Qed.

  Lemma filter_flat_map {A B} (p : A -> bool) (f : B -> list A) l :
    filter p (flat_map f l) = flat_map (fun b => filter p (f b)) l.
  Proof. induction l as [|b l IH]; [reflexivity|]. cbn [flat_map]. rewrite filter_app, IH. reflexivity. Qed.

  Lemma filter_map_fst (R : list erow) :
    filter (fun p : row * bool => negb (snd p)) (map fst R) = map fst (filter notexp_e R).
  Proof.
    induction R as [|e R IH]; [reflexivity|]. cbn [map filter]. unfold notexp_e at 1.
    destruct (negb (snd (fst e))); cbn [map]; rewrite IH; reflexivity.
  Qed.

  Lemma expand_core_originals :
    map fst (filter (fun p : row * bool => negb (snd p)) (expand_core s rows)) = rows.
  Proof.
    unfold expand_core. fold (cat_of s rows). rewrite filter_map_fst, map_map.
    transitivity (map (fun e : erow => fst (fst e)) O); [|apply originals_e_rows].
    apply (f_equal (map (fun e : erow => fst (fst e)))).
    destruct (existsb _ _); [apply cat_originals|].
    rewrite filter_flat_map.
    rewrite (flat_map_ext _ (fun l => filter (fun e => e_lab e =? l) O)).
    2:{ intros l. rewrite filter_comm, cat_originals. reflexivity. }
    rewrite flat_map_concat_map. apply blocks_identity.
    - apply uniq_asc. apply exploded_labels_sorted.
    - unfold O. rewrite <- exploded_originals. apply ssorted_filter. apply exploded_labels_sorted.
    - intros e He. apply (uniq_from_spec _ []). split; [|intros []]. apply in_map. apply O_in_ex. exact He.
  Qed.
End Order.

Lemma relabel_originals (X : list (row * bool)) :
  map (fun p : row * bool => set_lab (fst p) 0) (filter (fun p => negb (snd p)) (relabel X))
  = map (fun p : row * bool => set_lab (fst p) 0) (filter (fun p => negb (snd p)) X).
Proof.
  unfold relabel. generalize 0 at 2. induction X as [|p X IH]; intros k; [reflexivity|].
  cbn [length zseq combine map filter fst snd]. destruct (negb (snd p)); cbn [map fst]; rewrite IH; reflexivity.
Qed.

Lemma noop_originals (rows : list row) :
  map (fun p : row * bool => set_lab (fst p) 0) (filter (fun p => negb (snd p)) (map (fun r => (r, false)) rows))
  = map (fun r => set_lab r 0) rows.
Proof. induction rows as [|r rs IH]; [reflexivity|]. cbn [map filter snd negb fst]. f_equal. exact IH. Qed.

Lemma expand_keeps_originals_lemma d l : guard_expand_order d = true -> expand_impl d = Ok l ->
  map (fun p : row * bool => set_lab (fst p) 0) (filter (fun p => negb (snd p)) l)
  = map (fun r => set_lab r 0) (ds_rows d).
Proof.
  unfold guard_expand_order. intros G. apply andb_prop in G. destruct G as [Gids Gchr].
  unfold expand_impl. destruct (negb (has_addl (ds_sch d) && has_ii (ds_sch d))).
  - intros H. injection H as <-. apply noop_originals.
  - intros H. injection H as <-. rewrite relabel_originals.
    set (rows' := relab_from 0 (ds_rows d)).
    assert (Glab : g_labels_range rows' = true) by apply relab_labels.
    assert (Gids' : g_ids_ascending rows' = true).
    { unfold g_ids_ascending, rows'. rewrite (relab_map r_id) by reflexivity. exact Gids. }
    assert (Gchr' : g_chrono (ann (ds_sch d) rows') = true) by (unfold rows'; rewrite chrono_relab; exact Gchr).
    transitivity (map (fun r => set_lab r 0) rows'); [|apply (relab_unlab (ds_rows d) 0)].
    rewrite <- (expand_core_originals (ds_sch d) rows' Glab Gids' Gchr') at 2.
    rewrite map_map. reflexivity.
Qed.
