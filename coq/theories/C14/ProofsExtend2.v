(* PV.C14.ProofsExtend2 — second extension round: time after dose = the walk over the working frame with
   NO order hypothesis (observations counted towards the preceding dose, also at implied doses, included),
   exactness of list_time_varying_covariates, get_observations(keep_index=True). *)
From Coq Require Import ZArith List Bool Lia Permutation.
From PV Require Import C14.Model C14.Proofs C14.ProofsDoseid C14.ProofsExpand C14.ProofsTad C14.ProofsMisc C14.ProofsTadWalk C14.ProofsExtend.
Import ListNotations.
Local Open Scope Z_scope.


(* list_time_varying_covariates is exact: covariate j is listed iff some individual has two records
   with different values of it *)
Lemma tvc_exact_lemma ncov d l : tvc_impl ncov d = Ok l ->
  length l = ncov /\ forall j, (j < ncov)%nat -> (nth j l false = true <-> varies j (ds_rows d)).
Proof.
  unfold tvc_impl. destruct ncov as [|n].
  - intros H. injection H as <-. split; [reflexivity|]. intros j Hj. lia.
  - set (F := fun j => existsb (fun k => Nat.ltb 1 (length (distinctz (map (nth_cov j) (filter (fun r => r_id r =? k) (ds_rows d))))))
                               (skeys (map r_id (ds_rows d)))).
    set (L := map F (seq 0 (S n))). intros H. assert (E : L = l) by congruence. subst l. unfold L.
    split; [rewrite map_length, seq_length; reflexivity|].
    intros j Hj. rewrite (nth_indep _ false (F O)) by (rewrite map_length, seq_length; exact Hj).
    rewrite (map_nth F (seq 0 (S n)) O j). rewrite seq_nth by exact Hj. cbn [Nat.add]. apply tvc_impl_varies.
Qed.

(* get_observations(keep_index=True) = the DV of the records the walk classifies as observations,
   under their index labels *)
Lemma obs_keep_spec_lemma d : obs_keep_impl d = obs_keep_walk (ds_sch d) (ds_rows d).
Proof.
  unfold obs_keep_impl, obs_rows, mdv_col. set (s := ds_sch d).
  induction (ds_rows d) as [|r l IH]; cbn [obs_keep_walk].
  - destruct (has_mdv s); [reflexivity|]. destruct (has_evid s); [reflexivity|]. destruct (has_dose s); reflexivity.
  - rewrite <- IH. unfold rec_mdv, nonzero.
    destruct (has_mdv s); [cbn [filter]; destruct (r_mdv r =? 0); reflexivity|].
    destruct (has_evid s); [cbn [filter]; destruct (r_evid r =? 0); reflexivity|].
    destruct (has_dose s); [cbn [filter]; destruct (r_amt r =? 0); reflexivity|]. reflexivity.
Qed.


Lemma filter_head {A} (p : A -> bool) a y b : p y = true -> (forall z, In z a -> p z = false) ->
  filter p (a ++ y :: b) = y :: filter p b.
Proof. intros Hy Ha. rewrite filter_app, (filter_false p a Ha). cbn [filter app]. rewrite Hy. reflexivity. Qed.

Lemma last_app_single {A} (m : list A) z d : last (m ++ [z]) d = z.
Proof. induction m as [|a m IH]; [reflexivity|]. cbn [app]. destruct (m ++ [z]) eqn:E; [destruct m; discriminate|]. exact IH. Qed.

Section General.
  Variable s : schema.
  Variable rows : list row.
  Hypothesis Hlab : g_labels_range rows = true.

  (* the start of the preceding dose period, as the walk remembers it *)
  Fixpoint prevf (m : list row) : option Z :=
    match m with
    | [] => None
    | r :: tl => if 0 <? r_amt r then curf tl else prevf tl
    end.

  Lemma ts_prev_prevf m : ts_prev (tstate s m) = prevf m.
  Proof.
    induction m as [|r m IH]; [reflexivity|]. cbn [tstate fold_right prevf]. fold (tstate s m).
    unfold tad_rec. destruct (walk_rec s (ts_w (tstate s m)) r) as [w' v].
    destruct (0 <? r_amt r); [cbn [fst ts_prev]; apply ts_cur_curf|].
    destruct (v <? w_c w'); cbn [fst ts_prev]; exact IH.
  Qed.

  Lemma prevf_dose m1 L m2 : (forall y, In y m1 -> dose_flag y = 0) -> 0 < r_amt L ->
    prevf (m1 ++ L :: m2) = curf m2.
  Proof.
    intros H HL. induction m1 as [|r m1 IH]; cbn [app prevf].
    - apply Z.ltb_lt in HL. rewrite HL. reflexivity.
    - rewrite (flag0_nondose r (H r (or_introl eq_refl))). apply IH. intros y Hy. apply H. right. exact Hy.
  Qed.

  Lemma wf_bounds x : (0 <? r_amt x) = false -> c0 rows x - 1 <= wf s rows x <= c0 rows x.
  Proof. intros E. rewrite (wf_nondose s rows x E). destruct (tied s rows x && (2 <=? c0 rows x)); lia. Qed.

  Lemma wf_le_gen x : wf s rows x <= c0 rows x + dose_flag x.
  Proof.
    unfold dose_flag. destruct (0 <? r_amt x) eqn:E.
    - rewrite (wf_dose s rows x E). lia.
    - destruct (wf_bounds x E). lia.
  Qed.

  Definition Qx (x y : row) : bool := same_id x y && (wf s rows x =? wf s rows y).
  Definition first_same (x : row) : row := hd x (filter (Qx x) rows).

  (* an earlier record of H's individual has a DOSEID of at most the doses before H *)
  Lemma earlier_wf H y : In y rows -> r_id H = r_id y -> r_lab y < r_lab H -> In H rows -> wf s rows y <= c0 rows H.
  Proof.
    intros Hy Hi Hl HH. assert (Hm : In y (mine rows H)) by (apply in_mine; auto).
    assert (A := wf_le_gen y). assert (B := c0_earlier rows Hlab H y Hm). lia.
  Qed.

  Lemma first_same_is x H : In H rows -> Qx x H = true ->
    (forall y, In y rows -> r_lab y < r_lab H -> Qx x y = false) -> first_same x = H.
  Proof.
    intros HH HQ He. unfold first_same. apply in_split in HH. destruct HH as [A [B E]].
    destruct (split_lab rows Hlab A H B E) as [HA _].
    rewrite E at 1. rewrite (filter_head (Qx x) A H B HQ); [reflexivity|].
    intros z Hz. apply He; [rewrite E; apply in_or_app; left; exact Hz | apply HA; exact Hz].
  Qed.

  Lemma Qx_false_lt x y : r_id x = r_id y -> wf s rows y < wf s rows x -> Qx x y = false.
  Proof. intros _ H. unfold Qx. assert (wf s rows x =? wf s rows y = false) as -> by (apply Z.eqb_neq; lia). apply andb_false_r. Qed.

  Lemma Qx_false_id x y : r_id x <> r_id y -> Qx x y = false.
  Proof. intros H. unfold Qx, same_id. assert (r_id x =? r_id y = false) as -> by (apply Z.eqb_neq; exact H). reflexivity. Qed.

  (* the first record of x's (individual, DOSEID) period in the frame starts the period the walk measures from *)
  Lemma general_value x : In x rows -> r_time x - r_time (first_same x) = twf s rows x.
  Proof.
    intros Hx. unfold twf, tad_rec. rewrite tstate_w.
    destruct (walk_rec s (ind_state s (mine rows x)) x) as [w' v] eqn:Ew.
    assert (Ev : v = wf s rows x) by (unfold wf; rewrite Ew; reflexivity).
    assert (Ec : w_c w' = c0 rows x + dose_flag x).
    { assert (w' = fst (walk_rec s (ind_state s (mine rows x)) x)) as -> by (rewrite Ew; reflexivity).
      rewrite walk_rec_c, ind_c. reflexivity. }
    destruct (0 <? r_amt x) eqn:Ea; cbn [snd].
    - (* a dose record starts its own period *)
      rewrite (first_same_is x x Hx); [lia | |].
      + unfold Qx, same_id. rewrite !Z.eqb_refl. reflexivity.
      + intros y Hy Hl. destruct (Z.eq_dec (r_id x) (r_id y)) as [Hi|Hi]; [|apply Qx_false_id; exact Hi].
        apply Qx_false_lt; [exact Hi|]. assert (A := earlier_wf x y Hy Hi Hl Hx). rewrite (wf_dose s rows x Ea). lia.
    - destruct (wf_bounds x Ea) as [Blo Bhi].
      assert (Ec' : w_c w' = c0 rows x) by (rewrite Ec; unfold dose_flag; rewrite Ea; lia).
      rewrite ts_cur_curf, ts_prev_prevf, Ev, Ec'.
      destruct (wf s rows x <? c0 rows x) eqn:Esw; cbn [snd].
      + (* counted towards the preceding dose: the period starts with the dose before the latest one *)
        apply Z.ltb_lt in Esw.
        assert (Ht : tied s rows x && (2 <=? c0 rows x) = true).
        { destruct (tied s rows x && (2 <=? c0 rows x)) eqn:E; [reflexivity|]. rewrite (wf_nondose s rows x Ea), E in Esw. lia. }
        apply andb_prop in Ht. destruct Ht as [Ht Hc2]. apply Z.leb_le in Hc2.
        destruct (tied_inv s rows Hlab x Ht) as [L [m1 [Em [HLr [HLi [HLl [HLa [Hm1 _]]]]]]]].
        assert (C := c0_split rows x m1 L Em HLa Hm1).
        destruct (latest_dose (mine rows L)) as [Hno|[n1 [P [n2 [En [HPa Hn1]]]]]].
        { assert (c0 rows L = 0) by (apply zsum_flags_zero; exact Hno). lia. }
        destruct (mine_split rows Hlab L n1 P n2 En) as [-> [_ [HPr [HPi HPl]]]].
        assert (CP := c0_split rows L n1 P En HPa Hn1).
        rewrite Em, (prevf_dose m1 L _ Hm1 HLa), En, (curf_dose n1 P _ Hn1 HPa).
        assert (WP : wf s rows P = wf s rows x).
        { rewrite (wf_dose s rows P (proj2 (Z.ltb_lt _ _) HPa)). lia. }
        rewrite (first_same_is x P HPr); [reflexivity | |].
        * unfold Qx, same_id. rewrite HLi, HPi, Z.eqb_refl, WP, Z.eqb_refl. reflexivity.
        * intros y Hy Hl. destruct (Z.eq_dec (r_id x) (r_id y)) as [Hi|Hi]; [|apply Qx_false_id; exact Hi].
          apply Qx_false_lt; [exact Hi|]. assert (A := earlier_wf P y Hy ltac:(congruence) Hl HPr).
          rewrite (wf_dose s rows P (proj2 (Z.ltb_lt _ _) HPa)) in WP. lia.
      + apply Z.ltb_ge in Esw. assert (Wx : wf s rows x = c0 rows x) by lia.
        destruct (latest_dose (mine rows x)) as [Hno|[m1 [L [m2 [Em [HLa Hm1]]]]]].
        * (* before the first dose: the period starts with the individual's first record *)
          assert (Hc0 : c0 rows x = 0) by (apply zsum_flags_zero; exact Hno).
          rewrite (curf_nodose (mine rows x) x Hno). f_equal. f_equal.
          destruct (mine rows x) as [|a m] eqn:Em.
          { cbn [last]. apply (first_same_is x x Hx).
            - unfold Qx, same_id. rewrite !Z.eqb_refl. reflexivity.
            - intros y Hy Hl. destruct (Z.eq_dec (r_id x) (r_id y)) as [Hi|Hi]; [|apply Qx_false_id; exact Hi].
              exfalso. assert (In y (mine rows x)) by (apply in_mine; auto). rewrite Em in H. destruct H. }
          destruct (exists_last (l := a :: m) ltac:(discriminate)) as [m' [f0 Ef]].
          rewrite Ef, last_app_single.
          assert (Em' : mine rows x = m' ++ f0 :: []) by (rewrite Em, Ef; reflexivity).
          destruct (mine_split rows Hlab x m' f0 [] Em') as [Emf [_ [Hfr [Hfi Hfl]]]].
          assert (Hff : dose_flag f0 = 0) by (apply Hno; rewrite Ef; apply in_or_app; right; left; reflexivity).
          assert (Wf : wf s rows f0 = 0).
          { assert (c0 rows f0 = 0) by (change (c0 rows f0) with (zsum (map dose_flag (mine rows f0))); rewrite <- Emf; reflexivity).
            destruct (wf_bounds f0 (flag0_nondose f0 Hff)) as [B1 B2].
            rewrite (wf_nondose s rows f0 (flag0_nondose f0 Hff)), H.
            assert (2 <=? 0 = false) as -> by reflexivity. rewrite andb_false_r. reflexivity. }
          apply (first_same_is x f0 Hfr).
          -- unfold Qx, same_id. rewrite Hfi, Z.eqb_refl, Wf, Wx, Hc0. reflexivity.
          -- intros y Hy Hl. destruct (Z.eq_dec (r_id x) (r_id y)) as [Hi|Hi]; [|apply Qx_false_id; exact Hi].
             exfalso. assert (In y (mine rows f0)) by (apply in_mine; repeat split; auto; congruence).
             rewrite <- Emf in H. destruct H.
        * (* the period starts with the latest dose *)
          destruct (mine_split rows Hlab x m1 L m2 Em) as [-> [_ [HLr [HLi HLl]]]].
          assert (C := c0_split rows x m1 L Em HLa Hm1).
          rewrite Em, (curf_dose m1 L _ Hm1 HLa). f_equal. f_equal.
          apply (first_same_is x L HLr).
          -- unfold Qx, same_id. rewrite HLi, Z.eqb_refl. rewrite (wf_dose s rows L (proj2 (Z.ltb_lt _ _) HLa)).
             assert (wf s rows x =? c0 rows L + 1 = true) as -> by (apply Z.eqb_eq; lia). reflexivity.
          -- intros y Hy Hl. destruct (Z.eq_dec (r_id x) (r_id y)) as [Hi|Hi]; [|apply Qx_false_id; exact Hi].
             apply Qx_false_lt; [exact Hi|]. assert (A := earlier_wf L y Hy ltac:(congruence) Hl HLr). lia.
  Qed.
End General.

(* ------------------------------------------------------------------ stability of group-and-sort *)
Lemma concat_single {A} (f : Z -> list A) (a : Z) ks : NoDup ks -> (forall k, k <> a -> f k = []) ->
  concat (map f ks) = if existsb (Z.eqb a) ks then f a else [].
Proof.
  induction 1 as [|k ks Hn Hnd IH]; intros H; [reflexivity|]. cbn [map concat existsb].
  destruct (Z.eq_dec k a) as [->|Hne].
  - rewrite Z.eqb_refl. cbn [orb]. rewrite IH by exact H.
    assert (existsb (Z.eqb a) ks = false) as ->.
    { destruct (existsb (Z.eqb a) ks) eqn:E; [|reflexivity]. apply existsb_exists in E. destruct E as [z [Hz Ez]].
      apply Z.eqb_eq in Ez. subst z. contradiction. }
    apply app_nil_r.
  - rewrite (H k Hne). assert (a =? k = false) as -> by (apply Z.eqb_neq; congruence). cbn [orb app]. apply IH. exact H.
Qed.

Lemma gc_stable {A} (k1 k2 : A -> Z) (a b : Z) (F : list A) :
  filter (fun y => (k1 y =? a) && (k2 y =? b)) (group_concat k1 (isort_by k2) F)
  = filter (fun y => (k1 y =? a) && (k2 y =? b)) F.
Proof.
  unfold group_concat. rewrite flat_map_concat_map, filter_concat, map_map.
  rewrite (concat_single (fun k => filter (fun y => (k1 y =? a) && (k2 y =? b)) (isort_by k2 (filter (fun x => k1 x =? k) F))) a).
  - destruct (existsb (Z.eqb a) (skeys (map k1 F))) eqn:E.
    + rewrite (filter_ext_in (fun y => (k1 y =? a) && (k2 y =? b)) (fun y => k2 y =? b) (isort_by k2 (filter (fun x => k1 x =? a) F))).
      * rewrite isort_stable. rewrite <- filter_andb. reflexivity.
      * intros y Hy. apply in_isort in Hy. apply filter_In in Hy. destruct Hy as [_ Hy]. rewrite Hy. reflexivity.
    + symmetry. apply filter_false. intros y Hy. destruct (k1 y =? a) eqn:Ey; [|reflexivity]. exfalso.
      apply Z.eqb_eq in Ey. assert (existsb (Z.eqb a) (skeys (map k1 F)) = true); [|congruence].
      apply existsb_exists. exists a. split; [apply In_skeys; rewrite <- Ey; apply in_map; exact Hy | apply Z.eqb_refl].
  - apply asc_NoDup. apply asc_skeys.
  - intros k Hk. apply filter_false. intros y Hy. apply in_isort in Hy. apply filter_In in Hy. destruct Hy as [_ Hy].
    apply Z.eqb_eq in Hy. assert (k1 y =? a = false) as -> by (apply Z.eqb_neq; congruence). reflexivity.
Qed.

Lemma hd_rev_app {A} (m : list A) d d' : m <> [] -> forall l, hd d (rev m ++ l) = last m d'.
Proof.
  induction m as [|a m IH]; intros H l; [congruence|]. cbn [rev]. destruct m as [|b m].
  - reflexivity.
  - rewrite <- app_assoc. rewrite (IH ltac:(discriminate) ([a] ++ l)). reflexivity.
Qed.

Lemma oldest_hd {A} (same : A -> A -> bool) rp x post : same x x = true ->
  oldest A same rp x = hd x (filter (same x) (rev rp ++ x :: post)).
Proof.
  intros Hx. unfold oldest. rewrite filter_app, filter_rev. cbn [filter]. rewrite Hx.
  destruct (filter (same x) rp) as [|a m] eqn:E; [reflexivity|].
  symmetry. apply hd_rev_app. discriminate.
Qed.

Lemma list_graph {A B} (h : A -> B) (l : list (A * B)) : (forall p, In p l -> snd p = h (fst p)) ->
  l = map (fun a => (a, h a)) (map fst l).
Proof.
  induction l as [|[a b] l IH]; intros H; [reflexivity|]. cbn [map fst]. f_equal.
  - specialize (H (a, b) (or_introl eq_refl)). cbn in H. rewrite H. reflexivity.
  - apply IH. intros p Hp. apply H. right. exact Hp.
Qed.

Lemma same_period_refl x : same_period x x = true.
Proof. unfold same_period. rewrite !Z.eqb_refl. reflexivity. Qed.

(* the value attached to a record of the working frame: time since the first record of its
   (individual, DOSEID) period in the frame *)
Definition gval (F : list trow) (x : trow) : Z := t_time x - t_time (hd x (filter (same_period x) F)).

Lemma same_period_filter x F S' :
  (forall a b, filter (fun y : trow => (t_id y =? a) && (t_did y =? b)) S' = filter (fun y : trow => (t_id y =? a) && (t_did y =? b)) F) ->
  filter (same_period x) S' = filter (same_period x) F.
Proof.
  intros H. rewrite (filter_ext (same_period x) (fun y : trow => (t_id y =? t_id x) && (t_did y =? t_did x))).
  - rewrite H. apply filter_ext. intros y. unfold same_period. rewrite (Z.eqb_sym (t_id y)), (Z.eqb_sym (t_did y)). reflexivity.
  - intros y. unfold same_period. rewrite (Z.eqb_sym (t_id y)), (Z.eqb_sym (t_did y)). reflexivity.
Qed.

Lemma tad_pairs_gval fr dids p :
  In p (combine (tad_sorted_pos fr dids) (tad_values (map fst (tad_sorted_pos fr dids)))) ->
  snd p = gval (combine fr dids) (fst (fst p)).
Proof.
  intros He. rewrite tad_values_closed in He. change (@nil trow) with (map (@fst trow Z) []) in He.
  rewrite combine_scan_map in He.
  destruct (in_scan _ _ _ _ He) as [pre [x [post [E ->]]]]. rewrite app_nil_r. cbn [fst snd].
  unfold gval. f_equal. f_equal.
  etransitivity; [apply (oldest_hd same_period _ _ (map fst post) (same_period_refl _))|].
  f_equal. rewrite map_rev, rev_involutive.
  assert (ES : map fst pre ++ fst x :: map fst post = tad_sorted fr dids).
  { rewrite <- tad_sorted_pos_fst, E, map_app. reflexivity. }
  transitivity (filter (same_period (fst x)) (tad_sorted fr dids)); [f_equal; exact ES|].
  apply same_period_filter. intros a b. unfold tad_sorted. apply gc_stable.
Qed.

Lemma hd_map {A B} (g : A -> B) l d : hd (g d) (map g l) = g (hd d l).
Proof. destruct l; reflexivity. Qed.

Lemma tad_core_gval fr dids : length dids = length fr ->
  map snd (tad_core fr dids)
  = map (gval (combine fr dids)) (filter (fun x : trow => negb (snd (fst x))) (combine fr dids)).
Proof.
  intros Hl. unfold tad_core. rewrite relabel_snd, map_map. cbn [snd].
  set (F := combine fr dids).
  set (back := isort_by (fun x : prow * Z => p_pos (fst x))
                        (combine (tad_sorted_pos fr dids) (tad_values (map fst (tad_sorted_pos fr dids))))).
  assert (Hall : forall p, In p back -> snd p = (fun a : prow => gval F (fst a)) (fst p)).
  { intros p Hp. unfold back in Hp. apply in_isort in Hp. apply (tad_pairs_gval fr dids p Hp). }
  assert (Eb : back = map (fun a : prow => (a, gval F (fst a))) (map fst back)) by (apply list_graph; exact Hall).
  assert (Ef : map fst back = combine F (zseq 0 (length F))) by apply tad_back_fst.
  rewrite Ef in Eb. rewrite Eb.
  rewrite filter_map, map_map. cbn [fst snd].
  etransitivity; [apply (map_filter_fst (gval F) (fun x : trow => negb (snd (fst x))) (combine F (zseq 0 (length F))))|].
  rewrite map_fst_combine by apply zseq_length. reflexivity.
Qed.

(* the core of add_time_after_dose on ANY working frame whose DOSEIDs are the walk's: the TAD of every
   unexpanded record is the walk's value over the frame — observations counted towards the preceding
   dose (also those at the time of an implied dose) included *)
Lemma tad_core_walk_gen s (fr : list (row * bool)) :
  let rows := map fst fr in
  g_labels_range rows = true ->
  map snd (tad_core fr (map (wf s rows) rows))
  = map snd (filter (fun p : (row * bool) * Z => negb (snd (fst p))) (combine fr (tad_walk_from s [] rows))).
Proof.
  intros rows Glab. set (dids := map (wf s rows) rows).
  assert (Hlen : length dids = length fr) by (unfold dids, rows; rewrite !map_length; reflexivity).
  set (g := fun e : row * bool => (e, wf s rows (fst e)) : trow).
  assert (ES : combine fr dids = map g fr) by (unfold dids, rows, g; apply combine_map_fst2).
  rewrite (tad_core_gval fr dids Hlen), ES.
  rewrite (tad_walk_closed s rows Glab). change (map (twf s rows) rows) with (map (twf s rows) (map fst fr)).
  rewrite combine_map_fst2.
  rewrite !filter_map, !map_map. cbn [fst snd].
  apply map_ext_in. intros e He. apply filter_In in He. destruct He as [He _].
  unfold gval. rewrite filter_map, (hd_map g). unfold g at 1 3. unfold t_time. cbn [fst].
  rewrite <- (general_value s rows Glab (fst e)) by (unfold rows; apply in_map; exact He).
  f_equal. f_equal. unfold first_same, rows.
  rewrite <- (map_fst_filter (Qx s (map fst fr) (fst e)) fr), (hd_map fst). reflexivity.
Qed.

Lemma tad_refines_general_lemma d fr : tad_frame d = Ok fr ->
  guard_doseid (with_rows d (map fst fr) true) = true ->
  exists out, tad_impl d = Ok out
    /\ map snd out = map snd (filter (fun p : (row * bool) * Z => negb (snd (fst p)))
                                    (combine fr (tad_walk (with_rows d (map fst fr) true)))).
Proof.
  intros Ef Gd. set (dfr := with_rows d (map fst fr) true) in *.
  assert (R := doseid_refines_lemma dfr Gd).
  assert (Glab : g_labels_range (map fst fr) = true).
  { unfold guard_doseid in Gd.
    apply andb_prop in Gd. destruct Gd as [Gd _]. apply andb_prop in Gd. destruct Gd as [Gd _].
    apply andb_prop in Gd. destruct Gd as [Gd _]. apply andb_prop in Gd. destruct Gd as [_ Glab]. exact Glab. }
  set (s' := ds_sch dfr) in *.
  assert (Ew : doseid_walk dfr = map (wf s' (map fst fr)) (map fst fr)).
  { unfold doseid_walk. fold s'. change (ds_rows dfr) with (map fst fr). apply (walk_closed s' (map fst fr) Glab). }
  exists (tad_core fr (map (wf s' (map fst fr)) (map fst fr))). split.
  - unfold tad_impl. rewrite (tad_frame_ok_ii d fr Ef), Ef. fold dfr. rewrite R, Ew. reflexivity.
  - unfold tad_walk. fold s'. change (ds_rows dfr) with (map fst fr). apply (tad_core_walk_gen s' fr Glab).
Qed.

(* ------------------------------------------------------------------ without ADDL: the dataset itself *)
Lemma walk_rec_ext s1 s2 w r : has_evid s1 = has_evid s2 -> has_ss s1 = has_ss s2 -> walk_rec s1 w r = walk_rec s2 w r.
Proof. intros He Hs. unfold walk_rec. rewrite He, Hs. reflexivity. Qed.

Lemma tad_walk_from_ext s1 s2 rows : has_evid s1 = has_evid s2 -> has_ss s1 = has_ss s2 ->
  forall st, tad_walk_from s1 st rows = tad_walk_from s2 st rows.
Proof.
  intros He Hs. induction rows as [|r l IH]; intros st; [reflexivity|]. cbn [tad_walk_from].
  unfold tad_rec, w_init. rewrite He. rewrite (walk_rec_ext s1 s2 _ _ He Hs).
  destruct (walk_rec s2 _ r) as [w' v]. destruct (0 <? r_amt r); [rewrite IH; reflexivity|].
  destruct (v <? w_c w'); rewrite IH; reflexivity.
Qed.

Lemma guard_doseid_with_rows d b : guard_doseid (with_rows d (ds_rows d) b) = guard_doseid d.
Proof. destruct d as [s rows]. destruct s. reflexivity. Qed.

Lemma map_snd_all_kept (rows : list row) (vals : list Z) : length vals = length rows ->
  map snd (filter (fun p : (row * bool) * Z => negb (snd (fst p))) (combine (map (fun r => (r, false)) rows) vals)) = vals.
Proof.
  revert vals. induction rows as [|r l IH]; intros [|v vals] H; cbn in *; try reflexivity; try discriminate.
  rewrite IH by lia. reflexivity.
Qed.

Lemma tad_walk_from_length s rows : forall st, length (tad_walk_from s st rows) = length rows.
Proof.
  induction rows as [|r l IH]; intros st; [reflexivity|]. cbn [tad_walk_from].
  destruct (tad_rec s _ r) as [x' v]. cbn [length]. rewrite IH. reflexivity.
Qed.

Lemma tad_refines_noaddl_lemma d : has_addl (ds_sch d) = false -> guard_doseid d = true ->
  exists out, tad_impl d = Ok out /\ map snd out = tad_walk d.
Proof.
  intros Ha Gd. set (fr := map (fun r => (r, false)) (ds_rows d)).
  assert (Ef : tad_frame d = Ok fr) by (unfold tad_frame; rewrite Ha; reflexivity).
  assert (Em : map fst fr = ds_rows d) by (unfold fr; rewrite map_map; apply map_id).
  assert (Gd' : guard_doseid (with_rows d (map fst fr) true) = true) by (rewrite Em, guard_doseid_with_rows; exact Gd).
  destruct (tad_refines_general_lemma d fr Ef Gd') as [out [Eo Ev]]. exists out. split; [exact Eo|].
  rewrite Ev, Em. unfold tad_walk. change (ds_rows (with_rows d (ds_rows d) true)) with (ds_rows d).
  rewrite (tad_walk_from_ext (ds_sch (with_rows d (ds_rows d) true)) (ds_sch d)) by reflexivity.
  apply map_snd_all_kept. apply tad_walk_from_length.
Qed.

Lemma tad_refines_full_lemma d : guard_tad_walk d = true ->
  exists fr out, tad_frame d = Ok fr /\ tad_impl d = Ok out
    /\ map snd out = map snd (filter (fun p : (row * bool) * Z => negb (snd (fst p)))
                                    (combine fr (tad_walk (with_rows d (map fst fr) true)))).
Proof.
  unfold guard_tad_walk. destruct (tad_frame d) as [fr|e] eqn:Ef; [|discriminate]. intros G.
  destruct (tad_refines_general_lemma d fr Ef G) as [out [Eo Ev]]. exists fr, out. auto.
Qed.
