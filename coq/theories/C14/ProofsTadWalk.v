(* PV.C14.ProofsTadWalk — add_time_after_dose = the per-individual walk (datasets without ADDL). *)
From Coq Require Import ZArith List Bool Lia Permutation.
From PV Require Import C14.Model C14.Proofs C14.ProofsDoseid C14.ProofsExpand C14.ProofsTad.
Import ListNotations.
Local Open Scope Z_scope.

Lemma scan_map {A A' B} (g : A -> A') (f : list A' -> A' -> B) l : forall rp,
  scan f (map g rp) (map g l) = scan (fun rp x => f (map g rp) (g x)) rp l.
Proof. induction l as [|x l IH]; intros rp; cbn [map scan]; [reflexivity|]. f_equal. apply (IH (x :: rp)). Qed.

Lemma filter_map {A B} (g : A -> B) (p : B -> bool) l : filter p (map g l) = map g (filter (fun x => p (g x)) l).
Proof. induction l as [|x l IH]; [reflexivity|]. cbn [map filter]. destruct (p (g x)); cbn [map]; rewrite IH; reflexivity. Qed.

Lemma last_map {A B} (g : A -> B) l d : last (map g l) (g d) = g (last l d).
Proof. induction l as [|x l IH]; [reflexivity|]. cbn [map]. destruct l as [|y l]; [reflexivity|]. exact IH. Qed.

Lemma filter_andb {A} (p q : A -> bool) l : filter (fun x => p x && q x) l = filter q (filter p l).
Proof.
  induction l as [|x l IH]; [reflexivity|]. cbn [filter]. destruct (p x); cbn [andb filter]; [|exact IH].
  destruct (q x); rewrite IH; reflexivity.
Qed.

Section TadWalk.
  Variable s : schema.
  Variable rows : list row.
  Hypothesis Hlab : g_labels_range rows = true.
  (* no DOSEID out of order within an individual *)
  Hypothesis Hsorted : forall x y, In x rows -> In y rows -> r_id x = r_id y -> r_lab y < r_lab x ->
                                   wf s rows y <= wf s rows x.

  Definition t_init : tst := mkT (w_init s) None None.
  Definition tstate (m : list row) : tst := fold_right (fun r x => fst (tad_rec s x r)) t_init m.

  Lemma tad_rec_w x r : ts_w (fst (tad_rec s x r)) = fst (walk_rec s (ts_w x) r).
  Proof.
    unfold tad_rec. destruct (walk_rec s (ts_w x) r) as [w' v]. destruct (0 <? r_amt r); [reflexivity|].
    destruct (v <? w_c w'); reflexivity.
  Qed.

  Lemma tstate_w m : ts_w (tstate m) = ind_state s m.
  Proof.
    induction m as [|r m IH]; [reflexivity|]. cbn [tstate fold_right]. fold (tstate m).
    rewrite tad_rec_w, IH. reflexivity.
  Qed.

  Fixpoint curf (m : list row) : option Z :=
    match m with
    | [] => None
    | r :: tl => if 0 <? r_amt r then Some (r_time r)
                 else Some (match curf tl with Some t => t | None => r_time r end)
    end.

  Lemma ts_cur_curf m : ts_cur (tstate m) = curf m.
  Proof.
    induction m as [|r m IH]; [reflexivity|]. cbn [tstate fold_right curf]. fold (tstate m).
    unfold tad_rec. destruct (walk_rec s (ts_w (tstate m)) r) as [w' v].
    destruct (0 <? r_amt r); [reflexivity|]. rewrite IH. destruct (v <? w_c w'); reflexivity.
  Qed.

  Lemma tad_walk_scan l : forall st rp,
    (forall x, match lookup (r_id x) st with Some t => t | None => t_init end = tstate (filter (same_id x) rp)) ->
    tad_walk_from s st l = scan (fun rp x => snd (tad_rec s (tstate (filter (same_id x) rp)) x)) rp l.
  Proof.
    induction l as [|r l IH]; intros st rp H; cbn [tad_walk_from scan]; [reflexivity|].
    fold t_init. rewrite (H r). destruct (tad_rec s (tstate (filter (same_id r) rp)) r) as [x' v] eqn:Ew.
    cbn [snd]. f_equal. apply IH. intros x. cbn [lookup filter]. unfold same_id at 1.
    rewrite (Z.eqb_sym (r_id x) (r_id r)). destruct (r_id r =? r_id x) eqn:Ei.
    - apply Z.eqb_eq in Ei. cbn [tstate fold_right]. fold (tstate (filter (same_id x) rp)).
      assert (filter (same_id x) rp = filter (same_id r) rp) as ->.
      { apply filter_ext. intros y. unfold same_id. rewrite Ei. reflexivity. }
      rewrite Ew. reflexivity.
    - apply (H x).
  Qed.

  Definition twf (x : row) : Z := snd (tad_rec s (tstate (mine rows x)) x).

  Lemma tad_walk_closed : tad_walk_from s [] rows = map twf rows.
  Proof.
    rewrite (tad_walk_scan rows [] []) by (intros x; reflexivity).
    rewrite (map_as_scan twf rows []). apply scan_ext_ctx.
    intros pre x post E. rewrite app_nil_r. unfold twf. rewrite (mine_ctx rows Hlab pre x post E). reflexivity.
  Qed.

  (* DOSEIDs in order = no observation was moved to the preceding period *)
  Lemma c0_split x m1 L : mine rows x = m1 ++ L :: mine rows L -> 0 < r_amt L ->
    (forall y, In y m1 -> dose_flag y = 0) -> c0 rows x = 1 + c0 rows L.
  Proof.
    intros E HL Hm1. unfold c0. rewrite E, map_app, zsum_app. cbn [map]. rewrite zsum_cons.
    rewrite (zsum_flags_zero m1 Hm1), (dose_flag_pos L HL). lia.
  Qed.

  Lemma no_swap x : In x rows -> (0 <? r_amt x) = false -> wf s rows x = c0 rows x.
  Proof.
    intros Hx Ha. rewrite (wf_nondose s rows x Ha).
    destruct (tied s rows x && (2 <=? c0 rows x)) eqn:E; [|reflexivity]. exfalso.
    apply andb_prop in E. destruct E as [Ht Hc].
    destruct (tied_inv s rows Hlab x Ht) as [L [m1 [Em [HLr [HLi [HLl [HLa [Hm1 _]]]]]]]].
    assert (W : wf s rows L = c0 rows L + 1) by (apply wf_dose; apply Z.ltb_lt; exact HLa).
    assert (C := c0_split x m1 L Em HLa Hm1).
    assert (S := Hsorted x L Hx HLr HLi HLl).
    rewrite (wf_nondose s rows x Ha), Ht, Hc in S. cbn [andb] in S. lia.
  Qed.

  Lemma c0_nonneg x : 0 <= c0 rows x.
  Proof. apply zsum_map_nonneg. apply dose_flag_nonneg. Qed.

  Lemma wf_le x : In x rows -> wf s rows x <= c0 rows x + dose_flag x.
  Proof.
    intros Hx. unfold dose_flag. destruct (0 <? r_amt x) eqn:E.
    - rewrite (wf_dose s rows x E). lia.
    - rewrite (no_swap x Hx E). lia.
  Qed.

  (* an earlier record of the individual has not seen more doses *)
  Lemma c0_earlier x y : In y (mine rows x) -> c0 rows y + dose_flag y <= c0 rows x.
  Proof.
    intros Hy. apply in_split in Hy. destruct Hy as [n1 [n2 E]].
    destruct (mine_split rows Hlab x n1 y n2 E) as [-> _].
    unfold c0 at 2. rewrite E, map_app, zsum_app. cbn [map]. rewrite zsum_cons. fold (c0 rows y).
    assert (0 <= zsum (map dose_flag n1)) by (apply zsum_map_nonneg; apply dose_flag_nonneg). lia.
  Qed.

  Lemma latest_dose m : (forall y, In y m -> dose_flag y = 0)
    \/ exists m1 L m2, m = m1 ++ L :: m2 /\ 0 < r_amt L /\ forall y, In y m1 -> dose_flag y = 0.
  Proof.
    induction m as [|r m IH]; [left; intros y []|].
    destruct (0 <? r_amt r) eqn:E.
    - right. exists [], r, m. split; [reflexivity|]. split; [apply Z.ltb_lt; exact E | intros y []].
    - destruct IH as [IH|[m1 [L [m2 [-> [HL H1]]]]]].
      + left. intros y [<-|Hy]; [unfold dose_flag; rewrite E; reflexivity | apply IH; exact Hy].
      + right. exists (r :: m1), L, m2. split; [reflexivity|]. split; [exact HL|].
        intros y [<-|Hy]; [unfold dose_flag; rewrite E; reflexivity | apply H1; exact Hy].
  Qed.

  Lemma flag0_nondose y : dose_flag y = 0 -> (0 <? r_amt y) = false.
  Proof. unfold dose_flag. destruct (0 <? r_amt y); [lia | reflexivity]. Qed.

  Lemma curf_nodose m d : (forall y, In y m -> dose_flag y = 0) ->
    match curf m with Some t => t | None => r_time d end = r_time (last m d).
  Proof.
    induction m as [|r m IH]; intros H; [reflexivity|]. cbn [curf].
    rewrite (flag0_nondose r (H r (or_introl eq_refl))).
    destruct m as [|r2 m]; [reflexivity|].
    specialize (IH (fun y Hy => H y (or_intror Hy))). change (last (r :: r2 :: m) d) with (last (r2 :: m) d).
    rewrite <- IH. cbn [curf]. destruct (0 <? r_amt r2); reflexivity.
  Qed.

  Lemma curf_dose m1 L m2 : (forall y, In y m1 -> dose_flag y = 0) -> 0 < r_amt L ->
    curf (m1 ++ L :: m2) = Some (r_time L).
  Proof.
    intros H HL. induction m1 as [|r m1 IH]; cbn [app curf].
    - apply Z.ltb_lt in HL. rewrite HL. reflexivity.
    - rewrite (flag0_nondose r (H r (or_introl eq_refl))), IH; [reflexivity|].
      intros y Hy. apply H. right. exact Hy.
  Qed.

  (* the first record of x's (individual, DOSEID) period among the earlier records *)
  Definition period_start (x : row) : row :=
    last (filter (fun y => wf s rows x =? wf s rows y) (mine rows x)) x.

  Lemma mine_in_rows x y : In y (mine rows x) -> In y rows /\ r_id x = r_id y /\ r_lab y < r_lab x.
  Proof. apply in_mine. Qed.

  Lemma period_start_time x : In x rows ->
    r_time x - r_time (period_start x) = twf x.
  Proof.
    intros Hx. unfold twf, tad_rec. rewrite tstate_w.
    destruct (walk_rec s (ind_state s (mine rows x)) x) as [w' v] eqn:Ew.
    assert (Ev : v = wf s rows x) by (unfold wf; rewrite Ew; reflexivity).
    assert (Ec : w_c w' = c0 rows x + dose_flag x).
    { assert (w' = fst (walk_rec s (ind_state s (mine rows x)) x)) as -> by (rewrite Ew; reflexivity).
      rewrite walk_rec_c, ind_c. reflexivity. }
    destruct (0 <? r_amt x) eqn:Ea; cbn [snd].
    - (* a dose record starts its own period *)
      unfold period_start. rewrite (filter_false _ (mine rows x)); [cbn [last]; lia|].
      intros y Hy. apply Z.eqb_neq. destruct (mine_in_rows x y Hy) as [Hyr _].
      assert (A := wf_le y Hyr). assert (B := c0_earlier x y Hy). rewrite (wf_dose s rows x Ea). lia.
    - assert (Hns := no_swap x Hx Ea).
      assert (v <? w_c w' = false) as ->.
      { apply Z.ltb_ge. rewrite Ev, Ec, Hns. unfold dose_flag. rewrite Ea. lia. }
      cbn [snd]. rewrite ts_cur_curf. unfold period_start. f_equal.
      destruct (latest_dose (mine rows x)) as [Hno|[m1 [L [m2 [Em [HL Hm1]]]]]].
      + (* no dose so far: the period starts with the individual's first record *)
        assert (Hc0 : c0 rows x = 0) by (apply zsum_flags_zero; exact Hno).
        rewrite (filter_true _ (mine rows x)); [symmetry; apply curf_nodose; exact Hno|].
        intros y Hy. apply Z.eqb_eq. destruct (mine_in_rows x y Hy) as [Hyr _].
        rewrite Hns, (no_swap y Hyr (flag0_nondose y (Hno y Hy))).
        assert (B := c0_earlier x y Hy). assert (C := c0_nonneg y). assert (D := dose_flag_nonneg y). lia.
      + destruct (mine_split rows Hlab x m1 L m2 Em) as [-> [Hl1 [HLr [HLi HLl]]]].
        rewrite Em. rewrite (curf_dose m1 L (mine rows L) Hm1 HL).
        assert (C := c0_split x m1 L Em HL Hm1).
        assert (WL : wf s rows L = c0 rows x) by (rewrite (wf_dose s rows L (proj2 (Z.ltb_lt _ _) HL)); lia).
        rewrite filter_app. cbn [filter]. rewrite Hns, WL, Z.eqb_refl.
        rewrite (filter_true _ m1).
        * rewrite (filter_false _ (mine rows L)).
          -- clear. induction m1 as [|a m1 IH]; [reflexivity|]. cbn [app]. destruct (m1 ++ [L]) eqn:E; [destruct m1; discriminate|]. exact IH.
          -- intros y Hy. apply Z.eqb_neq. destruct (mine_in_rows L y Hy) as [Hyr _].
             assert (A := wf_le y Hyr). assert (B := c0_earlier L y Hy). lia.
        * intros y Hy. apply Z.eqb_eq.
          assert (Hym : In y (mine rows x)) by (rewrite Em; apply in_or_app; left; exact Hy).
          destruct (mine_in_rows x y Hym) as [Hyr [Hyi Hyl]].
          rewrite (no_swap y Hyr (flag0_nondose y (Hm1 y Hy))).
          assert (B := c0_earlier x y Hym). rewrite (Hm1 y Hy) in B.
          assert (HLy : In L (mine rows y)).
          { apply in_mine. split; [exact HLr|]. split; [congruence | apply Hl1; exact Hy]. }
          assert (B2 := c0_earlier y L HLy). rewrite (dose_flag_pos L HL) in B2. lia.
  Qed.
End TadWalk.

(* ------------------------------------------------------------------ assembling *)
Lemma fold_left_ext {A B} (f g : A -> B -> A) l : (forall a b, f a b = g a b) -> forall a, fold_left f l a = fold_left g l a.
Proof. intros H. induction l as [|b l IH]; intros a; [reflexivity|]. cbn [fold_left]. rewrite H. apply IH. Qed.

Lemma dec_of_ext s1 s2 rows k r : has_ss s1 = has_ss s2 -> dec_of s1 rows k r = dec_of s2 rows k r.
Proof. intros H. unfold dec_of. rewrite H. reflexivity. Qed.

Lemma doseid_core_ext s1 s2 rows : has_evid s1 = has_evid s2 -> has_ss s1 = has_ss s2 ->
  doseid_core s1 rows = doseid_core s2 rows.
Proof.
  intros He Hs. unfold doseid_core, ann, resetgroups. rewrite He. apply fold_left_ext.
  intros vals k. unfold doseid_step. apply map_ext. intros rv. unfold stepv.
  rewrite (dec_of_ext s1 s2 _ _ _ Hs). reflexivity.
Qed.

Lemma relabel_snd {B} (X : list (row * B)) : map snd (relabel X) = map snd X.
Proof.
  unfold relabel. generalize 0. induction X as [|p X IH]; intros k; [reflexivity|].
  cbn [length zseq combine map snd]. rewrite IH. reflexivity.
Qed.

Lemma combine_map2 {A B C} (f : A -> B) (h : A -> C) l : combine (map f l) (map h l) = map (fun r => (f r, h r)) l.
Proof. induction l as [|r l IH]; [reflexivity|]. cbn [map combine]. rewrite IH. reflexivity. Qed.

Lemma tad_refines_lemma d : has_addl (ds_sch d) = false -> guard_doseid d = true -> guard_tad_frame d = true ->
  exists out, tad_impl d = Ok out /\ map snd out = tad_walk d.
Proof.
  intros Ha Gd Gt. assert (R := doseid_refines_lemma d Gd).
  unfold guard_doseid in Gd.
  apply andb_prop in Gd. destruct Gd as [Gd _]. apply andb_prop in Gd. destruct Gd as [Gd _].
  apply andb_prop in Gd. destruct Gd as [Gd _]. apply andb_prop in Gd. destruct Gd as [Gd Glab].
  apply andb_prop in Gd. destruct Gd as [Gdose _].
  set (s := ds_sch d) in *. set (rows := ds_rows d) in *.
  set (fr := map (fun r => (r, false)) rows).
  assert (Efr : tad_frame d = Ok fr) by (unfold tad_frame; fold s; rewrite Ha; reflexivity).
  assert (Emf : map fst fr = rows) by (unfold fr; rewrite map_map; apply map_id).
  assert (Edid : doseid_impl (with_rows d (map fst fr) true) = Ok (map (wf s rows) rows)).
  { rewrite Emf. unfold doseid_impl, with_rows. cbn [ds_sch ds_rows has_dose has_evid id_named_ID]. fold s.
    rewrite Gdose. cbn [negb]. f_equal.
    rewrite (doseid_core_ext _ s rows) by reflexivity.
    unfold doseid_impl in R. fold s rows in R. rewrite Gdose in R. cbn [negb] in R.
    injection R as R. rewrite R. unfold doseid_walk. fold s rows. apply (walk_closed s rows Glab). }
  unfold guard_tad_frame in Gt. rewrite Efr, Edid in Gt. apply andb_prop in Gt. destruct Gt as [Gids Gsort].
  set (dids := map (wf s rows) rows) in *.
  assert (Hlen : length dids = length fr) by (unfold dids, fr; rewrite !map_length; reflexivity).
  exists (tad_core fr dids). split; [unfold tad_impl; fold s; rewrite Ha, Efr, Edid; reflexivity|].
  set (g := fun r : row => ((r, false), wf s rows r) : trow).
  assert (ES : combine fr dids = map g rows).
  { unfold fr, dids, g. apply combine_map2. }
  (* DOSEIDs in order *)
  assert (Hsorted : forall x y, In x rows -> In y rows -> r_id x = r_id y -> r_lab y < r_lab x ->
                                wf s rows y <= wf s rows x).
  { intros x y Hx Hy Hi Hl. apply in_split in Hx. destruct Hx as [pre [post E]].
    assert (E2 : combine fr dids = map g pre ++ g x :: map g post) by (rewrite ES, E, map_app; reflexivity).
    unfold g_sorted_within in Gsort. assert (Q := forall_ctx_spec _ _ Gsort _ _ _ E2). cbn beta in Q.
    rewrite forallb_forall in Q. specialize (Q (g y)).
    assert (In (g y) (rev (map g pre))) as Hin.
    { rewrite <- in_rev. apply in_map. apply (in_pre rows Glab pre x post y E Hy Hl). }
    specialize (Q Hin). unfold g, t_id, t_did in Q. cbn [fst snd] in Q. rewrite Hi, Z.eqb_refl in Q.
    cbn [negb orb] in Q. apply Z.leb_le. exact Q. }
  unfold tad_core. rewrite relabel_snd, map_map. cbn [snd].
  rewrite (tad_sorted_pos_identity fr dids Hlen Gids Gsort).
  set (F' := combine (combine fr dids) (zseq 0 (length (combine fr dids)))).
  assert (EF : @map (trow * Z) trow (@fst trow Z) F' = combine fr dids) by (apply map_fst_combine; apply zseq_length).
  rewrite EF.
  assert (Lv : length (tad_values (combine fr dids)) = length F').
  { rewrite tad_values_length. unfold F'. rewrite combine_length, zseq_length. symmetry. apply Nat.min_id. }
  rewrite (isort_sorted_id (fun x : prow * Z => p_pos (fst x))).
  2:{ rewrite <- (map_map fst p_pos), map_fst_combine by exact Lv.
      assert (E0 : map p_pos F' = zseq 0 (length (combine fr dids))).
      { exact (map_snd_combine_len (combine fr dids) (zseq 0 (length (combine fr dids))) (zseq_length _ _)). }
      rewrite E0. apply asc_ssorted. apply zseq_asc. }
  rewrite (filter_true _ (combine F' (tad_values (combine fr dids)))).
  2:{ intros [[tr pos] v] Hp. apply in_combine_l in Hp. cbn [fst].
      assert (In tr (combine fr dids)) by (rewrite <- EF; apply (in_map fst _ _ Hp)).
      rewrite ES in H. apply in_map_iff in H. destruct H as [r [E _]]. rewrite <- E. reflexivity. }
  etransitivity; [|clear Lv].
  1:{ etransitivity; [exact (map_snd_combine_len F' _ Lv)|]. reflexivity. }
  rewrite tad_values_closed, ES. unfold tad_walk. fold s rows.
  rewrite (tad_walk_closed s rows Glab).
  change (@nil trow) with (map g []). rewrite (scan_map g).
  rewrite (map_as_scan (twf s rows) rows []). apply scan_ext_ctx.
  intros pre x post E. rewrite app_nil_r.
  rewrite <- (period_start_time s rows Glab Hsorted x) by (rewrite E; apply in_or_app; right; left; reflexivity).
  unfold oldest. rewrite filter_map.
  change (g x) with (g x) at 1. rewrite (last_map g). unfold g at 1 2. unfold t_time. cbn [fst]. f_equal. f_equal.
  unfold period_start. rewrite <- (mine_ctx rows Glab pre x post E). rewrite <- filter_andb. f_equal.
Qed.
