(* PV.C14.ProofsDoseid — get_doseid: the vectorised algorithm refines the per-individual walk. *)
From Coq Require Import ZArith List Bool Lia Permutation.
From PV Require Import C14.Model C14.Proofs.
Import ListNotations.
Local Open Scope Z_scope.

(* ------------------------------------------------------------------ labels = positions *)
Lemma labels_from_split l : forall k pre x post,
  labels_from k l = true -> l = pre ++ x :: post ->
  r_lab x = k + Z.of_nat (length pre)
  /\ (forall y, In y pre -> k <= r_lab y < r_lab x)
  /\ (forall y, In y post -> r_lab x < r_lab y).
Proof.
  induction l as [|r l IH]; intros k pre x post H E.
  - destruct pre; discriminate.
  - cbn [labels_from] in H. apply andb_prop in H. destruct H as [H1 H2]. apply Z.eqb_eq in H1.
    destruct pre as [|z pre]; cbn [app] in E.
    + injection E as -> ->. cbn [length]. split; [lia|]. split; [intros y []|].
      intros y Hy. apply in_split in Hy. destruct Hy as [a [b ->]].
      destruct (IH (k + 1) a y b H2 eq_refl) as [Hy _]. lia.
    + injection E as -> E. destruct (IH (k + 1) pre x post H2 E) as [Hx [Hpre Hpost]].
      cbn [length]. split; [lia|]. split; [|exact Hpost].
      intros y [<-|Hy]; [lia|]. specialize (Hpre y Hy). lia.
Qed.

Lemma filter_false {A} (p : A -> bool) l : (forall y, In y l -> p y = false) -> filter p l = [].
Proof.
  induction l as [|x l IH]; intros H; [reflexivity|]. cbn [filter].
  rewrite (H x (or_introl eq_refl)). apply IH. intros y Hy. apply H. right. exact Hy.
Qed.

Lemma filter_eq_split {A} (p : A -> bool) l : forall a y b,
  filter p l = a ++ y :: b ->
  exists a' b', l = a' ++ y :: b' /\ filter p a' = a /\ filter p b' = b /\ p y = true.
Proof.
  induction l as [|x l IH]; intros a y b E; [destruct a; discriminate|].
  cbn [filter] in E. destruct (p x) eqn:Ep.
  - destruct a as [|a0 a]; cbn [app] in E.
    + injection E as -> E. exists [], l. cbn [filter app]. auto.
    + injection E as -> E. destruct (IH a y b E) as [a' [b' [-> [Ha [Hb Hy]]]]].
      exists (a0 :: a'), b'. cbn [filter app]. rewrite Ep, Ha. auto.
  - destruct (IH a y b E) as [a' [b' [-> [Ha [Hb Hy]]]]].
    exists (x :: a'), b'. cbn [filter app]. rewrite Ep. auto.
Qed.

Lemma combine_map_snd {A B C} (g : A * B -> C) (l1 : list A) : forall (l2 : list B),
  combine l1 (map g (combine l1 l2)) = map (fun p => (fst p, g p)) (combine l1 l2).
Proof.
  induction l1 as [|a l1 IH]; intros [|b l2]; cbn [combine map]; try reflexivity.
  rewrite IH. reflexivity.
Qed.

Lemma map_snd_combine {A B} (l1 : list A) : forall (l2 : list B),
  length l2 = length l1 -> map snd (combine l1 l2) = l2.
Proof.
  induction l1 as [|a l1 IH]; intros [|b l2] H; cbn [combine map length] in *; try reflexivity; try discriminate.
  rewrite IH by lia. reflexivity.
Qed.

(* the loop over the nonunique keys, seen from one row *)
Lemma fold_step_closed s rows ks : forall vals, length vals = length rows ->
  fold_left (doseid_step s rows) ks vals
  = map (fun rv => fold_left (stepv s rows (fst rv)) ks (snd rv)) (combine rows vals).
Proof.
  induction ks as [|k ks IH]; intros vals Hl.
  - cbn [fold_left]. rewrite <- (map_snd_combine rows vals Hl) at 1. reflexivity.
  - cbn [fold_left]. rewrite IH.
    + unfold doseid_step. rewrite combine_map_snd, map_map. apply map_ext. intros rv. reflexivity.
    + unfold doseid_step. rewrite map_length, combine_length. lia.
Qed.

Lemma combine_map_r {A B} (f : A -> B) l : combine l (map f l) = map (fun x => (x, f x)) l.
Proof. induction l as [|x l IH]; cbn [combine map]; [reflexivity | rewrite IH; reflexivity]. Qed.

Section Doseid.
  Variable s : schema.
  Variable rows : list row.
  Hypothesis Hlab : g_labels_range rows = true.

  Lemma split_lab pre x post : rows = pre ++ x :: post ->
    (forall y, In y pre -> r_lab y < r_lab x) /\ (forall y, In y post -> r_lab x < r_lab y).
  Proof.
    intros E. destruct (labels_from_split rows 0 pre x post Hlab E) as [_ [H1 H2]].
    split; [intros y Hy; apply H1 in Hy; lia | exact H2].
  Qed.

  Lemma lab_nonneg x : In x rows -> 0 <= r_lab x.
  Proof.
    intros H. apply in_split in H. destruct H as [a [b E]].
    destruct (labels_from_split rows 0 a x b Hlab E) as [H _]. lia.
  Qed.

  Lemma lab_unique x y : In x rows -> In y rows -> r_lab x = r_lab y -> x = y.
  Proof.
    intros Hx Hy E. apply in_split in Hx. destruct Hx as [a [b Hr]].
    destruct (split_lab a x b Hr) as [Ha Hb].
    rewrite Hr in Hy. apply in_app_or in Hy. destruct Hy as [Hy|[Hy|Hy]].
    - apply Ha in Hy. lia.
    - exact Hy.
    - apply Hb in Hy. lia.
  Qed.

  Lemma head_lab0 x : In x rows -> r_lab x = 0 -> exists tl, rows = x :: tl.
  Proof.
    intros Hx E. apply in_split in Hx. destruct Hx as [a [b Hr]].
    destruct (labels_from_split rows 0 a x b Hlab Hr) as [H _].
    destruct a as [|a0 a]; [exists b; exact Hr|]. cbn [length] in H. lia.
  Qed.

  (* the earlier records of x's individual, latest first *)
  Definition mine (x : row) : list row :=
    rev (filter (fun y => same_id x y && (r_lab y <? r_lab x)) rows).

  Lemma mine_bridge p pre x post : rows = pre ++ x :: post ->
    filter p (rev pre) = rev (filter (fun y => p y && (r_lab y <? r_lab x)) rows).
  Proof.
    intros E. destruct (split_lab pre x post E) as [Ha Hb]. rewrite filter_rev. f_equal.
    rewrite E. rewrite filter_app.
    rewrite (filter_false (fun y => p y && (r_lab y <? r_lab x)) (x :: post)).
    - rewrite app_nil_r. apply filter_ext_in. intros y Hy. apply Ha in Hy.
      assert (r_lab y <? r_lab x = true) as -> by (apply Z.ltb_lt; lia). rewrite andb_true_r. reflexivity.
    - intros y [<-|Hy].
      + rewrite Z.ltb_irrefl, andb_false_r. reflexivity.
      + apply Hb in Hy. assert (r_lab y <? r_lab x = false) as -> by (apply Z.ltb_ge; lia).
        rewrite andb_false_r. reflexivity.
  Qed.

  Lemma mine_ctx pre x post : rows = pre ++ x :: post -> filter (same_id x) (rev pre) = mine x.
  Proof. intros E. unfold mine. apply (mine_bridge (same_id x) pre x post E). Qed.

  Lemma in_mine x y : In y (mine x) <-> In y rows /\ r_id x = r_id y /\ r_lab y < r_lab x.
  Proof.
    unfold mine. rewrite <- in_rev, filter_In. unfold same_id. rewrite andb_true_iff, Z.eqb_eq, Z.ltb_lt. tauto.
  Qed.

  (* a decomposition of mine x at L: the part after L is mine L, the part before it is later than L *)
  Lemma mine_split x m1 L m2 : mine x = m1 ++ L :: m2 ->
    m2 = mine L /\ (forall y, In y m1 -> r_lab L < r_lab y) /\ In L rows /\ r_id x = r_id L /\ r_lab L < r_lab x.
  Proof.
    intros E. assert (HL : In L (mine x)) by (rewrite E; apply in_or_app; right; left; reflexivity).
    apply in_mine in HL. destruct HL as [HLr [HLi HLl]].
    unfold mine in E. apply (f_equal (@rev row)) in E. rewrite rev_involutive in E.
    rewrite rev_app_distr in E. cbn [rev] in E. rewrite <- app_assoc in E. cbn [app] in E.
    apply filter_eq_split in E. destruct E as [a' [b' [Hr [Ha [Hb _]]]]].
    destruct (split_lab a' L b' Hr) as [Hla Hlb].
    split; [|split; [|auto]].
    - apply (f_equal (@rev row)) in Ha. rewrite rev_involutive in Ha. rewrite <- Ha.
      assert (HmL : mine L = rev (filter (same_id L) a')).
      { unfold mine. rewrite <- (mine_bridge (same_id L) a' L b' Hr). apply filter_rev. }
      rewrite HmL. f_equal.
      apply filter_ext_in. intros y Hy. apply Hla in Hy. unfold same_id. rewrite HLi.
      assert (r_lab y <? r_lab x = true) as -> by (apply Z.ltb_lt; lia). rewrite andb_true_r. reflexivity.
    - intros y Hy. apply Hlb. apply in_rev in Hy. rewrite <- Hb in Hy. apply filter_In in Hy. tauto.
  Qed.

  Definition csf (x : row) : Z := zsum (map dose_flag (mine x)) + dose_flag x.
  Definition rgf (x : row) : Z :=
    if has_evid s then zsum (map reset_flag (mine x)) + reset_flag x else 1.

  Lemma cs_closed : group_cumsum same_id dose_flag rows = map csf rows.
  Proof.
    unfold group_cumsum. rewrite (map_as_scan csf rows []). apply scan_ext_ctx.
    intros pre x post E. rewrite app_nil_r. unfold csf. rewrite (mine_ctx pre x post E). reflexivity.
  Qed.

  Lemma rg_closed : resetgroups s rows = map rgf rows.
  Proof.
    unfold resetgroups, rgf. destruct (has_evid s); [|reflexivity].
    unfold group_cumsum. rewrite (map_as_scan (fun x => zsum (map reset_flag (mine x)) + reset_flag x) rows []).
    apply scan_ext_ctx. intros pre x post E. rewrite app_nil_r. rewrite (mine_ctx pre x post E). reflexivity.
  Qed.

  Lemma ann_closed : ann s rows = map (fun x => (x, rgf x)) rows.
  Proof. unfold ann. rewrite rg_closed. apply combine_map_r. Qed.

  Lemma dose_flag_nonneg x : 0 <= dose_flag x.
  Proof. unfold dose_flag. destruct (0 <? r_amt x); lia. Qed.
  Lemma reset_flag_nonneg x : 0 <= reset_flag x.
  Proof. unfold reset_flag. destruct (3 <=? r_evid x); lia. Qed.

  (* reset groups never decrease along the records of an individual *)
  Lemma rgf_mono x y : r_id x = r_id y -> r_lab y <= r_lab x -> In x rows -> In y rows -> rgf y <= rgf x.
  Proof.
    intros Hi Hl Hx Hy. unfold rgf. destruct (has_evid s); [|lia].
    destruct (Z.eq_dec (r_lab y) (r_lab x)) as [E|E].
    - rewrite (lab_unique y x Hy Hx E). lia.
    - (* y is one of the earlier records of x *)
      assert (Hm : In y (mine x)) by (apply in_mine; repeat split; auto; lia).
      apply in_split in Hm. destruct Hm as [m1 [m2 Em]].
      destruct (mine_split x m1 y m2 Em) as [-> _]. rewrite Em.
      rewrite map_app, zsum_app. cbn [map]. rewrite zsum_cons.
      assert (0 <= zsum (map reset_flag m1)) by (apply zsum_map_nonneg; apply reset_flag_nonneg).
      assert (0 <= reset_flag x) by apply reset_flag_nonneg. lia.
  Qed.


  (* ---------------------------------------------------------------- the walk in closed form *)
  Definition ind_state (m : list row) : wst :=
    fold_right (fun r w => fst (walk_rec s w r)) (w_init s) m.

  Fixpoint last_info (m : list row) : option (Z * Z * Z) :=
    match m with
    | [] => None
    | r :: tl => if 0 <? r_amt r then Some (r_time r, w_rg (ind_state (r :: tl)), r_ss r) else last_info tl
    end.

  Lemma ind_cons r m : ind_state (r :: m) = fst (walk_rec s (ind_state m) r).
  Proof. reflexivity. Qed.

  Lemma walk_rec_c w r : w_c (fst (walk_rec s w r)) = w_c w + dose_flag r.
  Proof. unfold walk_rec, dose_flag. destruct (0 <? r_amt r); cbn [fst w_c]; lia. Qed.

  Lemma walk_rec_rg w r :
    w_rg (fst (walk_rec s w r)) = if has_evid s then w_rg w + reset_flag r else w_rg w.
  Proof. unfold walk_rec. destruct (0 <? r_amt r); cbn [fst w_rg]; reflexivity. Qed.

  Lemma ind_c m : w_c (ind_state m) = zsum (map dose_flag m).
  Proof.
    induction m as [|r m IH]; [reflexivity|]. rewrite ind_cons, walk_rec_c, IH. cbn [map]. rewrite zsum_cons. lia.
  Qed.

  Lemma ind_rg m : w_rg (ind_state m) = if has_evid s then zsum (map reset_flag m) else 1.
  Proof.
    induction m as [|r m IH].
    - cbn. destruct (has_evid s); reflexivity.
    - rewrite ind_cons, walk_rec_rg, IH. destruct (has_evid s); [|reflexivity]. cbn [map]. rewrite zsum_cons. lia.
  Qed.

  Lemma ind_last m : w_last (ind_state m) = last_info m.
  Proof.
    induction m as [|r m IH]; [reflexivity|]. cbn [last_info]. rewrite ind_cons.
    destruct (0 <? r_amt r) eqn:E.
    - rewrite walk_rec_rg. unfold walk_rec. rewrite E. cbn [fst w_last]. reflexivity.
    - unfold walk_rec. rewrite E. cbn [fst w_last]. exact IH.
  Qed.

  Lemma walk_scan l : forall st rp,
    (forall x, st_get s (r_id x) st = ind_state (filter (same_id x) rp)) ->
    doseid_walk_from s st l
    = scan (fun rp x => snd (walk_rec s (ind_state (filter (same_id x) rp)) x)) rp l.
  Proof.
    induction l as [|r l IH]; intros st rp H; cbn [doseid_walk_from scan]; [reflexivity|].
    rewrite (H r). destruct (walk_rec s (ind_state (filter (same_id r) rp)) r) as [w' v] eqn:Ew.
    cbn [snd]. f_equal. apply IH. intros x. unfold st_get. cbn [lookup filter]. unfold same_id at 1.
    rewrite (Z.eqb_sym (r_id x) (r_id r)).
    destruct (r_id r =? r_id x) eqn:Ei.
    - apply Z.eqb_eq in Ei. rewrite ind_cons.
      assert (filter (same_id x) rp = filter (same_id r) rp) as ->.
      { apply filter_ext. intros y. unfold same_id. rewrite Ei. reflexivity. }
      rewrite Ew. reflexivity.
    - apply (H x).
  Qed.

  Definition wf (x : row) : Z := snd (walk_rec s (ind_state (mine x)) x).

  Lemma walk_closed : doseid_walk_from s [] rows = map wf rows.
  Proof.
    rewrite (walk_scan rows [] []) by (intros x; reflexivity).
    rewrite (map_as_scan wf rows []). apply scan_ext_ctx.
    intros pre x post E. rewrite app_nil_r. unfold wf. rewrite (mine_ctx pre x post E). reflexivity.
  Qed.

  (* what the walk knows about the latest dose before x *)
  Lemma last_info_some m t g v : last_info m = Some (t, g, v) ->
    exists m1 L m2, m = m1 ++ L :: m2 /\ 0 < r_amt L /\ (forall y, In y m1 -> dose_flag y = 0)
                    /\ t = r_time L /\ g = w_rg (ind_state (L :: m2)) /\ v = r_ss L.
  Proof.
    induction m as [|r m IH]; cbn [last_info]; [discriminate|].
    destruct (0 <? r_amt r) eqn:E.
    - intros H. injection H as <- <- <-. exists [], r, m. apply Z.ltb_lt in E.
      repeat split; auto. intros y [].
    - intros H. destruct (IH H) as [m1 [L [m2 [-> [HL [Hm1 [Ht [Hg Hv]]]]]]]].
      exists (r :: m1), L, m2. repeat split; auto.
      intros y [<-|Hy]; [unfold dose_flag; rewrite E; reflexivity | apply Hm1; exact Hy].
  Qed.

  Lemma last_info_none m : last_info m = None -> forall y, In y m -> dose_flag y = 0.
  Proof.
    induction m as [|r m IH]; cbn [last_info]; [intros _ y []|].
    destruct (0 <? r_amt r) eqn:E; [discriminate|].
    intros H y [<-|Hy]; [unfold dose_flag; rewrite E; reflexivity | apply IH; assumption].
  Qed.

  Lemma rgf_ind x : rgf x = w_rg (ind_state (x :: mine x)).
  Proof. rewrite ind_rg. unfold rgf. destruct (has_evid s); [|reflexivity]. cbn [map]. rewrite zsum_cons. lia. Qed.

  Lemma zsum_flags_zero m : (forall y, In y m -> dose_flag y = 0) -> zsum (map dose_flag m) = 0.
  Proof.
    induction m as [|r m IH]; intros H; [reflexivity|]. cbn [map]. rewrite zsum_cons.
    rewrite (H r (or_introl eq_refl)), IH; [lia|]. intros y Hy. apply H. right. exact Hy.
  Qed.

  Lemma zsum_flags_zero_inv m : zsum (map dose_flag m) = 0 -> forall y, In y m -> dose_flag y = 0.
  Proof.
    induction m as [|r m IH]; intros H y Hy; [destruct Hy|]. cbn [map] in H. rewrite zsum_cons in H.
    assert (0 <= dose_flag r) by apply dose_flag_nonneg.
    assert (0 <= zsum (map dose_flag m)) by (apply zsum_map_nonneg; apply dose_flag_nonneg).
    destruct Hy as [<-|Hy]; [lia | apply IH; [lia | exact Hy]].
  Qed.

  (* ---------------------------------------------------------------- the implementation in closed form *)
  Definition matches (x : row) (k : key3) : bool :=
    let '(i, t, _) := k in (i =? r_id x) && (t =? r_time x).
  Definition cond (x : row) : Z := dec_of s rows (r_id x, r_time x, 0) x.
  Definition kx (x : row) : key3 := (r_id x, r_time x, rgf x).
  Definition NU : list key3 := nonunique (map key_of (ann s rows)).

  Lemma in_tie_self x : in_tie (r_id x) (r_time x) x = true.
  Proof. unfold in_tie. rewrite !Z.eqb_refl. reflexivity. Qed.

  Lemma dec_match k x : dec_of s rows k x = if matches x k then cond x else 0.
  Proof.
    destruct k as [[i t] g]. unfold matches.
    destruct (i =? r_id x) eqn:Ei; [destruct (t =? r_time x) eqn:Et|]; cbn [andb].
    - apply Z.eqb_eq in Ei, Et. subst i t. reflexivity.
    - unfold dec_of. assert (in_tie i t x = false) as ->.
      { unfold in_tie. rewrite (Z.eqb_sym (r_time x) t), Et, andb_false_r. reflexivity. }
      cbn [andb negb]. destruct (filter _ (filter _ rows)); reflexivity.
    - unfold dec_of. assert (in_tie i t x = false) as ->.
      { unfold in_tie. rewrite (Z.eqb_sym (r_id x) i), Ei. reflexivity. }
      cbn [andb negb]. destruct (filter _ (filter _ rows)); reflexivity.
  Qed.

  (* keys of other tie groups leave the value alone *)
  Lemma fold_nomatch x ks : (forall k, In k ks -> matches x k = false) ->
    forall v, fold_left (stepv s rows x) ks v = v.
  Proof.
    induction ks as [|k ks IH]; intros H v; [reflexivity|]. cbn [fold_left].
    assert (stepv s rows x v k = v) as ->.
    { unfold stepv. rewrite dec_match, (H k (or_introl eq_refl)). destruct (1 <? v); lia. }
    apply IH. intros k' Hk'. apply H. right. exact Hk'.
  Qed.

  (* with at most one key of x's tie group the loop body runs at most once for x *)
  Lemma fold_le1 x ks : (length (filter (matches x) ks) <= 1)%nat -> forall v,
    fold_left (stepv s rows x) ks v
    = match filter (matches x) ks with [] => v | _ => if 1 <? v then v - cond x else v end.
  Proof.
    induction ks as [|k ks IH]; intros H v; [reflexivity|]. cbn [fold_left filter] in *.
    destruct (matches x k) eqn:Em.
    - cbn [length] in H. rewrite fold_nomatch.
      + unfold stepv. rewrite dec_match, Em. reflexivity.
      + intros k' Hk'. destruct (matches x k') eqn:E; [|reflexivity].
        assert (In k' (filter (matches x) ks)) by (apply filter_In; auto).
        destruct (filter (matches x) ks); [destruct H0 | cbn in H; lia].
    - assert (stepv s rows x v k = v) as ->.
      { unfold stepv. rewrite dec_match, Em. destruct (1 <? v); lia. }
      apply IH. exact H.
  Qed.

  Lemma impl_closed :
    doseid_core s rows = map (fun x => fold_left (stepv s rows x) NU (csf x)) rows.
  Proof.
    unfold doseid_core. fold NU. rewrite cs_closed.
    rewrite fold_step_closed by (rewrite map_length; reflexivity).
    rewrite combine_map_r, map_map. apply map_ext. intros x. reflexivity.
  Qed.

  Lemma keys_closed : map key_of (ann s rows) = map kx rows.
  Proof. rewrite ann_closed, map_map. reflexivity. Qed.

  Lemma NoDup_filter_le1 {A} (p : A -> bool) (k0 : A) l :
    NoDup l -> (forall k, In k l -> p k = true -> k = k0) -> (length (filter p l) <= 1)%nat.
  Proof.
    induction 1 as [|a l Hna Hnd IH]; intros H; [cbn; lia|].
    cbn [filter]. destruct (p a) eqn:Ea.
    - assert (a = k0) by (apply H; [left; reflexivity | exact Ea]). subst a.
      rewrite (filter_false p l); [cbn; lia|].
      intros y Hy. destruct (p y) eqn:Ey; [|reflexivity].
      assert (y = k0) by (apply H; [right; exact Hy | exact Ey]). subst y. contradiction.
    - apply IH. intros k Hk. apply H. right. exact Hk.
  Qed.

  Lemma count_two {A} (f : A -> key3) k p1 a p2 b p3 : f a = k -> f b = k ->
    (2 <= count_occ key3_eq_dec (map f (p1 ++ a :: p2 ++ b :: p3)) k)%nat.
  Proof.
    intros Ha Hb. rewrite map_app, count_occ_app. cbn [map]. rewrite count_occ_cons_eq by exact Ha.
    rewrite map_app, count_occ_app. cbn [map]. rewrite count_occ_cons_eq by exact Hb. lia.
  Qed.

  Section Guarded.
    Hypothesis Hnonneg : forall y, In y rows -> 0 <= r_amt y.
    Hypothesis Hd : forall x y, In x rows -> In y rows -> r_id x = r_id y -> r_time x = r_time y -> rgf x = rgf y.
    Hypothesis Hchrono : forall x y, In x rows -> In y rows -> r_id x = r_id y -> r_lab y < r_lab x ->
                                     rgf y = rgf x -> r_time y <= r_time x.
    Hypothesis Hg : forall x y z, In x rows -> In y rows -> In z rows -> r_amt x = 0 ->
      r_id x = r_id y -> r_time x = r_time y -> r_amt y <> 0 -> r_id x = r_id z -> r_time x = r_time z -> r_amt z <> 0 ->
      r_lab y < r_lab x -> r_lab x < r_lab z -> False.

    Lemma nm_le1 x : In x rows -> (length (filter (matches x) NU) <= 1)%nat.
    Proof.
      intros Hx. apply (NoDup_filter_le1 (matches x) (kx x)).
      - unfold NU, nonunique. apply NoDup_filter. apply NoDup_nodup.
      - intros k Hk Hm. unfold NU, nonunique in Hk. apply filter_In in Hk. destruct Hk as [Hk _].
        apply nodup_In in Hk. rewrite keys_closed in Hk. apply in_map_iff in Hk.
        destruct Hk as [y [<- Hy]]. unfold kx, matches in *. apply andb_prop in Hm. destruct Hm as [H1 H2].
        apply Z.eqb_eq in H1, H2. rewrite (Hd y x Hy Hx H1 H2). congruence.
    Qed.

    Lemma nm_ge1 x M : In x rows -> In M rows -> r_lab M <> r_lab x -> kx M = kx x ->
      (1 <= length (filter (matches x) NU))%nat.
    Proof.
      intros Hx HM Hne Hk.
      assert (Hin : In (kx x) (filter (matches x) NU)).
      { apply filter_In. split.
        - unfold NU, nonunique. apply filter_In. split.
          + apply nodup_In. rewrite keys_closed. apply in_map. exact Hx.
          + apply Nat.ltb_lt. rewrite keys_closed.
            apply in_split in Hx. destruct Hx as [a [b Hr]].
            assert (HM' := HM). rewrite Hr in HM'. apply in_app_or in HM'. destruct HM' as [HM'|[HM'|HM']].
            * apply in_split in HM'. destruct HM' as [a1 [a2 ->]]. rewrite Hr, <- app_assoc. cbn [app].
              apply count_two; [exact Hk | reflexivity].
            * subst M. contradiction Hne. reflexivity.
            * apply in_split in HM'. destruct HM' as [b1 [b2 ->]]. rewrite Hr.
              apply count_two; [reflexivity | exact Hk].
        - unfold matches, kx. rewrite !Z.eqb_refl. reflexivity. }
      destruct (filter (matches x) NU); [destruct Hin | cbn; lia].
    Qed.

    Definition Gx (x : row) : list row := filter (in_tie (r_id x) (r_time x)) rows.
    Definition Dx (x : row) : list row := filter (fun y => negb (r_amt y =? 0)) (Gx x).

    Lemma in_Gx x y : In y (Gx x) <-> In y rows /\ r_id y = r_id x /\ r_time y = r_time x.
    Proof. unfold Gx, in_tie. rewrite filter_In, andb_true_iff, !Z.eqb_eq. tauto. Qed.

    Lemma in_Dx x y : In y (Dx x) <-> In y rows /\ r_id y = r_id x /\ r_time y = r_time x /\ r_amt y <> 0.
    Proof. unfold Dx. rewrite filter_In, in_Gx, negb_true_iff, Z.eqb_neq. tauto. Qed.

    Lemma max_spec (d0 : row) dtl :
      (exists M, In M (d0 :: dtl) /\ r_lab M = fold_right Z.max (r_lab d0) (map r_lab dtl))
      /\ forall y, In y (d0 :: dtl) -> r_lab y <= fold_right Z.max (r_lab d0) (map r_lab dtl).
    Proof.
      induction dtl as [|d dtl [[M [HM EM]] IH]]; cbn [map fold_right].
      - split; [exists d0; split; [left; reflexivity | reflexivity]|]. intros y [E|[]]. subst y. lia.
      - split.
        + destruct (Z.max_spec (r_lab d) (fold_right Z.max (r_lab d0) (map r_lab dtl))) as [[_ ->]|[_ ->]].
          * exists M. split; [|exact EM]. destruct HM as [<-|HM]; [left; reflexivity | right; right; exact HM].
          * exists d. split; [right; left; reflexivity | reflexivity].
        + intros y [E|[E|Hy]].
          * specialize (IH y (or_introl E)). lia.
          * subst y. lia.
          * specialize (IH y (or_intror Hy)). lia.
    Qed.

    Lemma existsb_unique (M : row) (q : row -> bool) :
      In M rows -> existsb (fun y => (r_lab y =? r_lab M) && q y) rows = q M.
    Proof.
      intros HM. destruct (q M) eqn:E.
      - apply existsb_exists. exists M. rewrite Z.eqb_refl, E. auto.
      - destruct (existsb _ rows) eqn:Ex; [|reflexivity]. apply existsb_exists in Ex.
        destruct Ex as [y [Hy Hq]]. apply andb_prop in Hq. destruct Hq as [H1 H2]. apply Z.eqb_eq in H1.
        rewrite (lab_unique y M Hy HM H1) in H2. congruence.
    Qed.

    (* the ways of the loop body, for an observation record *)
    Lemma cond_cases x : In x rows -> r_amt x = 0 ->
      (cond x = 1 /\ exists M, In M (Dx x) /\ (forall y, In y (Dx x) -> r_lab y <= r_lab M) /\ r_lab M <= r_lab x
                               /\ has_ss s && (0 <? r_ss M) = false)
      \/ (cond x = 0 /\ (Dx x = []
                         \/ (exists M, In M (Dx x) /\ r_lab x < r_lab M)
                         \/ (exists M, In M (Dx x) /\ (forall y, In y (Dx x) -> r_lab y <= r_lab M)
                                       /\ has_ss s && (0 <? r_ss M) = true))).
    Proof.
      intros Hx Ha. unfold cond, dec_of. fold (Gx x). fold (Dx x).
      destruct (Dx x) as [|d0 dtl] eqn:ED; [right; split; [reflexivity | left; reflexivity]|].
      rewrite in_tie_self, Ha. cbn [Z.eqb andb negb].
      destruct (max_spec d0 dtl) as [[M [HM EM]] Hmax]. rewrite <- EM.
      destruct (r_lab x <? r_lab M) eqn:El.
      { right. split; [reflexivity|]. right. left. exists M. split; [exact HM | apply Z.ltb_lt; exact El]. }
      assert (HMr : In M rows) by (rewrite <- ED in HM; apply in_Dx in HM; tauto).
      rewrite (existsb_unique M (fun y => 0 <? r_ss y) HMr).
      destruct (has_ss s && (0 <? r_ss M)) eqn:Es.
      { right. split; [reflexivity|]. right. right. exists M. repeat split; auto.
        intros y Hy. rewrite EM. apply Hmax. exact Hy. }
      left. split; [reflexivity|]. exists M. repeat split; auto.
      - intros y Hy. rewrite EM. apply Hmax. exact Hy.
      - apply Z.ltb_ge in El. exact El.
    Qed.

    Lemma cond_dose x : r_amt x <> 0 -> cond x = 0.
    Proof.
      intros Ha. unfold cond, dec_of. rewrite in_tie_self. apply Z.eqb_neq in Ha. rewrite Ha. cbn [andb negb].
      destruct (filter _ (filter _ rows)); reflexivity.
    Qed.

    Definition c0 (x : row) : Z := zsum (map dose_flag (mine x)).
    Definition tied (x : row) : bool :=
      match last_info (mine x) with
      | Some (t, g, v) => (t =? r_time x) && (g =? rgf x) && negb (has_ss s && (0 <? v))
      | None => false
      end.

    Lemma wf_nondose x : (0 <? r_amt x) = false ->
      wf x = if tied x && (2 <=? c0 x) then c0 x - 1 else c0 x.
    Proof.
      intros E. unfold wf, walk_rec. rewrite E. cbn [snd]. rewrite ind_last, ind_c. unfold tied, c0.
      assert ((if has_evid s then w_rg (ind_state (mine x)) + reset_flag x else w_rg (ind_state (mine x))) = rgf x) as ->.
      { rewrite ind_rg. unfold rgf. destruct (has_evid s); reflexivity. }
      reflexivity.
    Qed.

    Lemma wf_dose x : (0 <? r_amt x) = true -> wf x = c0 x + 1.
    Proof. intros E. unfold wf, walk_rec. rewrite E. cbn [snd]. rewrite ind_c. reflexivity. Qed.

    Lemma dose_flag_pos y : 0 < r_amt y -> dose_flag y = 1.
    Proof. intros H. unfold dose_flag. apply Z.ltb_lt in H. rewrite H. reflexivity. Qed.

    (* the oldest dose in a list of records (latest first) *)
    Lemma oldest_dose m : 1 <= zsum (map dose_flag m) ->
      exists m1 F m2, m = m1 ++ F :: m2 /\ 0 < r_amt F /\ forall y, In y m2 -> dose_flag y = 0.
    Proof.
      induction m as [|r m IH]; intros H; [cbn in H; lia|].
      cbn [map] in H. rewrite zsum_cons in H.
      destruct (Z.eq_dec (zsum (map dose_flag m)) 0) as [E|E].
      - exists [], r, m. split; [reflexivity|]. split.
        + rewrite E in H. unfold dose_flag in H. destruct (0 <? r_amt r) eqn:Er; [apply Z.ltb_lt; exact Er | lia].
        + apply zsum_flags_zero_inv. exact E.
      - assert (0 <= zsum (map dose_flag m)) by (apply zsum_map_nonneg; apply dose_flag_nonneg).
        destruct IH as [m1 [F [m2 [-> [HF H2]]]]]; [lia|]. exists (r :: m1), F, m2. auto.
    Qed.

    (* the latest dose before x, as the walk remembers it *)
    Lemma tied_inv x : tied x = true ->
      exists L m1, mine x = m1 ++ L :: mine L /\ In L rows /\ r_id x = r_id L /\ r_lab L < r_lab x /\ 0 < r_amt L
                   /\ (forall y, In y m1 -> dose_flag y = 0) /\ (forall y, In y m1 -> r_lab L < r_lab y)
                   /\ r_time L = r_time x /\ rgf L = rgf x /\ has_ss s && (0 <? r_ss L) = false.
    Proof.
      unfold tied. destruct (last_info (mine x)) as [[[t g] v]|] eqn:El; [|discriminate].
      intros H. apply andb_prop in H. destruct H as [H H3]. apply andb_prop in H. destruct H as [H1 H2].
      apply Z.eqb_eq in H1, H2. apply negb_true_iff in H3.
      destruct (last_info_some _ _ _ _ El) as [m1 [L [m2 [Em [HL [Hm1 [-> [-> ->]]]]]]]].
      destruct (mine_split x m1 L m2 Em) as [-> [Hl1 [HLr [HLi HLl]]]].
      exists L, m1. rewrite <- rgf_ind in H2. repeat split; auto.
    Qed.

    Lemma first_dose_of_individual F x : In F rows -> r_id x = r_id F ->
      zsum (map dose_flag (mine F)) = 0 ->
      forall y, In y rows -> r_id x = r_id y -> 0 < r_amt y -> r_lab F <= r_lab y.
    Proof.
      intros HF Hi Hz y Hy Hiy Hay. destruct (Z.le_gt_cases (r_lab F) (r_lab y)) as [H|H]; [exact H|].
      assert (In y (mine F)) by (apply in_mine; repeat split; auto; congruence).
      assert (dose_flag y = 0) by (apply (zsum_flags_zero_inv _ Hz); assumption).
      rewrite (dose_flag_pos y Hay) in *. lia.
    Qed.

    Lemma pointwise x : In x rows -> fold_left (stepv s rows x) NU (csf x) = wf x.
    Proof.
      intros Hx. assert (Hx0 := Hnonneg x Hx). rewrite (fold_le1 x NU (nm_le1 x Hx)).
      destruct (Z.eq_dec (r_amt x) 0) as [Ha|Ha].
      2:{ (* a dose record *)
          rewrite cond_dose by exact Ha. rewrite wf_dose by (apply Z.ltb_lt; lia).
          unfold csf, c0. rewrite dose_flag_pos by lia.
          destruct (filter (matches x) NU); [reflexivity|]. destruct (1 <? _); lia. }
      assert (Hnd : (0 <? r_amt x) = false) by (apply Z.ltb_ge; lia).
      rewrite wf_nondose by exact Hnd.
      assert (Hcs : csf x = c0 x) by (unfold csf, c0, dose_flag; rewrite Hnd; lia). rewrite Hcs.
      assert (H12 : (1 <? c0 x) = (2 <=? c0 x)).
      { destruct (1 <? c0 x) eqn:E1; destruct (2 <=? c0 x) eqn:E2; try reflexivity;
          [apply Z.ltb_lt in E1; apply Z.leb_gt in E2 | apply Z.ltb_ge in E1; apply Z.leb_le in E2]; lia. }
      destruct (cond_cases x Hx Ha) as [[Hc [M [HMD [HMmax [HMle HMss]]]]]|[Hc Hwhy]]; rewrite Hc.
      - (* the loop body applies to x: the walk sees the same tie *)
        apply in_Dx in HMD. destruct HMD as [HMr [HMi [HMt HMa]]].
        assert (HMpos : 0 < r_amt M) by (specialize (Hnonneg M HMr); lia).
        assert (HMlt : r_lab M < r_lab x).
        { destruct (Z.eq_dec (r_lab M) (r_lab x)) as [E|E]; [|lia].
          rewrite (lab_unique M x HMr Hx E) in HMa. contradiction. }
        assert (HMm : In M (mine x)) by (apply in_mine; repeat split; auto).
        destruct (last_info (mine x)) as [[[t g] v]|] eqn:El.
        2:{ assert (dose_flag M = 0) by (apply (last_info_none _ El); exact HMm).
            rewrite dose_flag_pos in *; [lia | exact HMpos]. }
        destruct (last_info_some _ _ _ _ El) as [m1 [L [m2 [Em [HL [Hm1 [Et [Eg Ev]]]]]]]].
        destruct (mine_split x m1 L m2 Em) as [Em2 [Hl1 [HLr [HLi HLl]]]]. subst m2.
        rewrite <- rgf_ind in Eg.
        assert (HLM : L = M).
        { rewrite Em in HMm. apply in_app_or in HMm. destruct HMm as [HMm|[HMm|HMm]].
          - specialize (Hm1 M HMm). rewrite dose_flag_pos in Hm1; [lia | exact HMpos].
          - exact HMm.
          - exfalso. apply in_mine in HMm. destruct HMm as [_ [_ HML]].
            assert (R1 : rgf M <= rgf L) by (apply rgf_mono; auto; try lia; congruence).
            assert (R2 : rgf L <= rgf x) by (apply rgf_mono; auto; lia).
            assert (R3 : rgf M = rgf x) by (apply Hd; auto).
            assert (T1 : r_time M <= r_time L) by (apply Hchrono; auto; try lia; congruence).
            assert (T2 : r_time L <= r_time x) by (apply Hchrono; auto; lia).
            assert (In L (Dx x)) by (apply in_Dx; repeat split; auto; lia).
            specialize (HMmax L H). lia. }
        subst M.
        assert (Htied : tied x = true).
        { unfold tied. rewrite El. subst t g v. rewrite HMt, Z.eqb_refl.
          rewrite (Hd L x HLr Hx HMi HMt), Z.eqb_refl, HMss. reflexivity. }
        rewrite Htied. cbn [andb].
        assert (B := nm_ge1 x L Hx HLr ltac:(lia)
                       ltac:(unfold kx; rewrite HMi, HMt, (Hd L x HLr Hx HMi HMt); reflexivity)).
        destruct (filter (matches x) NU); [cbn in B; lia|]. rewrite H12. reflexivity.
      - (* the loop body leaves x alone: the walk sees no tie *)
        assert (Hnt : tied x = false).
        { destruct (tied x) eqn:Ht; [|reflexivity]. exfalso.
          destruct (tied_inv x Ht) as [L [m1 [Em [HLr [HLi [HLl [HLa [Hm1 [Hl1 [HLt [HLg HLs]]]]]]]]]]].
          assert (HLD : In L (Dx x)) by (apply in_Dx; repeat split; auto; lia).
          destruct Hwhy as [E|[[M [HM HMl]]|[M [HM [HMmax HMs]]]]].
          + rewrite E in HLD. destruct HLD.
          + apply in_Dx in HM. destruct HM as [HMr [HMi [HMt HMa]]].
            apply (Hg x L M); auto; try lia.
          + assert (HM' := HM). apply in_Dx in HM'. destruct HM' as [HMr [HMi [HMt HMa]]].
            assert (HMpos : 0 < r_amt M) by (specialize (Hnonneg M HMr); lia).
            assert (HLM := HMmax L HLD).
            destruct (Z.lt_trichotomy (r_lab M) (r_lab x)) as [Hlt|[Heq|Hgt]].
            * assert (HMm : In M (mine x)) by (apply in_mine; repeat split; auto).
              rewrite Em in HMm. apply in_app_or in HMm. destruct HMm as [HMm|[HMm|HMm]].
              -- specialize (Hm1 M HMm). rewrite dose_flag_pos in Hm1; [lia | exact HMpos].
              -- subst M. congruence.
              -- apply in_mine in HMm. lia.
            * rewrite (lab_unique M x HMr Hx Heq) in HMa. contradiction.
            * apply (Hg x L M); auto; lia. }
        rewrite Hnt. cbn [andb].
        destruct (filter (matches x) NU); [reflexivity|]. destruct (1 <? c0 x); lia.
    Qed.

    Lemma refines_core : doseid_core s rows = doseid_walk_from s [] rows.
    Proof.
      rewrite impl_closed, walk_closed. apply map_ext_in. intros x Hx. apply pointwise. exact Hx.
    Qed.
  End Guarded.

  (* ---------------------------------------------------------------- from the boolean guards *)
  Definition hh (x : row) : row * Z := (x, rgf x).

  Lemma in_pre pre x post y : rows = pre ++ x :: post -> In y rows -> r_lab y < r_lab x -> In y pre.
  Proof.
    intros E Hy Hl. destruct (split_lab pre x post E) as [_ Hb].
    rewrite E in Hy. apply in_app_or in Hy. destruct Hy as [Hy|[Hy|Hy]]; [exact Hy | subst y; lia | apply Hb in Hy; lia].
  Qed.

  Lemma in_post pre x post y : rows = pre ++ x :: post -> In y rows -> r_lab x < r_lab y -> In y post.
  Proof.
    intros E Hy Hl. destruct (split_lab pre x post E) as [Ha _].
    rewrite E in Hy. apply in_app_or in Hy. destruct Hy as [Hy|[Hy|Hy]]; [apply Ha in Hy; lia | subst y; lia | exact Hy].
  Qed.

  Lemma guard_pairs (Q : row * Z -> row * Z -> bool) :
    forall_ctx (fun rpre x _ => forallb (Q x) rpre) (ann s rows) = true ->
    forall x y, In x rows -> In y rows -> r_lab y < r_lab x -> Q (hh x) (hh y) = true.
  Proof.
    intros G x y Hx Hy Hl. apply in_split in Hx. destruct Hx as [pre [post E]].
    assert (Ea : ann s rows = map hh pre ++ hh x :: map hh post).
    { rewrite ann_closed. fold hh. change (map (fun x0 => hh x0) rows) with (map hh rows). rewrite E at 1. rewrite map_app. reflexivity. }
    assert (K := forall_ctx_spec _ _ G _ _ _ Ea). cbn beta in K. rewrite forallb_forall in K.
    apply K. rewrite <- in_rev. apply in_map. apply (in_pre pre x post y E Hy Hl).
  Qed.

  Lemma derive_nonneg : g_amt_nonneg rows = true -> forall y, In y rows -> 0 <= r_amt y.
  Proof. unfold g_amt_nonneg. rewrite forallb_forall. intros H y Hy. apply Z.leb_le. apply H. exact Hy. Qed.

  Lemma derive_chrono : g_chrono (ann s rows) = true ->
    forall x y, In x rows -> In y rows -> r_id x = r_id y -> r_lab y < r_lab x -> rgf y = rgf x -> r_time y <= r_time x.
  Proof.
    intros G x y Hx Hy Hi Hl Hr. assert (K := guard_pairs _ G x y Hx Hy Hl). cbn beta in K.
    unfold hh, a_same, a_id, a_time in K. cbn [fst snd] in K.
    rewrite Hi, Hr, !Z.eqb_refl in K. cbn [andb negb orb] in K. apply Z.leb_le. exact K.
  Qed.

  Lemma derive_tie : g_tie_one_reset_group (ann s rows) = true ->
    forall x y, In x rows -> In y rows -> r_id x = r_id y -> r_time x = r_time y -> rgf x = rgf y.
  Proof.
    intros G x y Hx Hy Hi Ht.
    destruct (Z.lt_trichotomy (r_lab y) (r_lab x)) as [Hl|[Hl|Hl]].
    - assert (K := guard_pairs _ G x y Hx Hy Hl). cbn beta in K.
      unfold hh, a_tie, a_id, a_time in K. cbn [fst snd] in K.
      rewrite Hi, Ht, !Z.eqb_refl in K. cbn [andb negb orb] in K. apply Z.eqb_eq. exact K.
    - rewrite (lab_unique y x Hy Hx Hl). reflexivity.
    - assert (K := guard_pairs _ G y x Hy Hx Hl). cbn beta in K.
      unfold hh, a_tie, a_id, a_time in K. cbn [fst snd] in K.
      rewrite Hi, Ht, !Z.eqb_refl in K. cbn [andb negb orb] in K. apply Z.eqb_eq in K. congruence.
  Qed.

  Lemma derive_between : g_no_obs_between_tied_doses (ann s rows) = true ->
    forall x y z, In x rows -> In y rows -> In z rows -> r_amt x = 0 ->
      r_id x = r_id y -> r_time x = r_time y -> r_amt y <> 0 -> r_id x = r_id z -> r_time x = r_time z -> r_amt z <> 0 ->
      r_lab y < r_lab x -> r_lab x < r_lab z -> False.
  Proof.
    intros G x y z Hx Hy Hz Ha Hiy Hty Hay Hiz Htz Haz Hly Hlz.
    assert (Hx' := Hx). apply in_split in Hx'. destruct Hx' as [pre [post E]].
    assert (Ea : ann s rows = map hh pre ++ hh x :: map hh post).
    { rewrite ann_closed. fold hh. change (map (fun x0 => hh x0) rows) with (map hh rows). rewrite E at 1. rewrite map_app. reflexivity. }
    assert (K := forall_ctx_spec _ _ G _ _ _ Ea). cbn beta in K.
    apply negb_true_iff in K.
    assert (a_amt (hh x) =? 0 = true) as K1 by (unfold a_amt, hh; cbn [fst]; rewrite Ha; reflexivity).
    assert (existsb (fun y0 => a_tie (hh x) y0 && negb (a_amt y0 =? 0)) (rev (map hh pre)) = true) as K2.
    { apply existsb_exists. exists (hh y). split.
      - rewrite <- in_rev. apply in_map. apply (in_pre pre x post y E Hy Hly).
      - unfold a_tie, a_id, a_time, a_amt, hh. cbn [fst]. rewrite Hiy, Hty, !Z.eqb_refl.
        apply Z.eqb_neq in Hay. rewrite Hay. reflexivity. }
    assert (existsb (fun y0 => a_tie (hh x) y0 && negb (a_amt y0 =? 0)) (map hh post) = true) as K3.
    { apply existsb_exists. exists (hh z). split.
      - apply in_map. apply (in_post pre x post z E Hz Hlz).
      - unfold a_tie, a_id, a_time, a_amt, hh. cbn [fst]. rewrite Hiz, Htz, !Z.eqb_refl.
        apply Z.eqb_neq in Haz. rewrite Haz. reflexivity. }
    rewrite K1, K2, K3 in K. discriminate.
  Qed.

End Doseid.

Lemma doseid_refines_lemma d : guard_doseid d = true -> doseid_impl d = Ok (doseid_walk d).
Proof.
  unfold guard_doseid. intros G.
  apply andb_prop in G. destruct G as [G Gbetween].
  apply andb_prop in G. destruct G as [G Gtie].
  apply andb_prop in G. destruct G as [G Gchrono].
  apply andb_prop in G. destruct G as [G Glab].
  apply andb_prop in G. destruct G as [Gdose Gnonneg].
  unfold doseid_impl, doseid_walk. rewrite Gdose. cbn [negb].
  f_equal. apply (refines_core (ds_sch d) (ds_rows d) Glab).
  - apply (derive_nonneg (ds_rows d)). exact Gnonneg.
  - apply (derive_tie (ds_sch d) (ds_rows d) Glab Gtie).
  - apply (derive_chrono (ds_sch d) (ds_rows d) Glab Gchrono).
  - apply (derive_between (ds_sch d) (ds_rows d) Glab Gbetween).
Qed.
