(* PV.C14.ProofsTad — add_time_after_dose: the diff/cumsum pair computes the time since the first
   record of the (individual, DOSEID) period; that record is the dose itself for every dose
   record; the value is never negative when each individual's records are chronological. *)
From Coq Require Import ZArith List Bool Lia Permutation.
From PV Require Import C14.Model C14.Proofs C14.ProofsDoseid C14.ProofsExpand.
Import ListNotations.
Local Open Scope Z_scope.

(* ------------------------------------------------------------------ decompositions *)
Lemma app_split {A} (l1 l2 a : list A) x c : l1 ++ l2 = a ++ x :: c ->
  (exists c1, l1 = a ++ x :: c1 /\ c = c1 ++ l2) \/ (exists a2, a = l1 ++ a2 /\ l2 = a2 ++ x :: c).
Proof.
  revert a. induction l1 as [|y l1 IH]; intros a E; cbn [app] in E.
  - right. exists a. auto.
  - destruct a as [|z a]; cbn [app] in E.
    + injection E as -> E. left. exists l1. auto.
    + injection E as -> E. destruct (IH a E) as [[c1 [-> ->]]|[a2 [-> ->]]].
      * left. exists c1. auto.
      * right. exists a2. auto.
Qed.

Lemma concat_split {A} (Ls : list (list A)) : forall a x c, concat Ls = a ++ x :: c ->
  exists L1 B L2 a1 c1, Ls = L1 ++ B :: L2 /\ B = a1 ++ x :: c1 /\ a = concat L1 ++ a1 /\ c = c1 ++ concat L2.
Proof.
  induction Ls as [|B Ls IH]; intros a x c E; [destruct a; discriminate|].
  cbn [concat] in E. destruct (app_split _ _ _ _ _ E) as [[c1 [-> ->]]|[a2 [-> E2]]].
  - exists [], (a ++ x :: c1), Ls, a, c1. auto.
  - destruct (IH _ _ _ E2) as [L1 [B' [L2 [a1 [c1 [-> [-> [-> ->]]]]]]]].
    exists (B :: L1), (a1 ++ x :: c1), L2, a1, c1. cbn [concat app]. rewrite app_assoc. auto.
Qed.

Lemma scan_split {A B} (f : list A -> A -> B) l : forall rp p e q, scan f rp l = p ++ e :: q ->
  exists pre x post, l = pre ++ x :: post /\ p = scan f rp pre /\ e = f (rev pre ++ rp) x
                     /\ q = scan f (x :: rev pre ++ rp) post.
Proof.
  induction l as [|y l IH]; intros rp p e q E; cbn [scan] in E; [destruct p; discriminate|].
  destruct p as [|p0 p]; cbn [app] in E.
  - injection E as <- <-. exists [], y, l. auto.
  - injection E as <- E. destruct (IH _ _ _ _ E) as [pre [x [post [-> [-> [-> ->]]]]]].
    exists (y :: pre), x, post. cbn [scan rev app]. rewrite <- !app_assoc. auto.
Qed.

Lemma in_scan {A B} (f : list A -> A -> B) l : forall rp e, In e (scan f rp l) ->
  exists pre x post, l = pre ++ x :: post /\ e = f (rev pre ++ rp) x.
Proof.
  intros rp e H. apply in_split in H. destruct H as [p [q E]].
  destruct (scan_split f l rp p e q E) as [pre [x [post [-> [_ [-> _]]]]]]. eauto.
Qed.

(* ------------------------------------------------------------------ diff + cumsum within groups *)
Section CumsumDiff.
  Variable A : Type.
  Variable same : A -> A -> bool.
  Variable val : A -> Z.
  Hypothesis same_sym : forall x y, same x y = same y x.
  Hypothesis same_trans : forall x y z, same x y = true -> same y z = true -> same x z = true.

  Definition oldest (rp : list A) (x : A) : A := last (filter (same x) rp) x.

  Lemma same_filter z x rp : same z x = true -> filter (same z) rp = filter (same x) rp.
  Proof.
    intros H. apply filter_ext. intros y. destruct (same x y) eqn:E.
    - apply (same_trans z x y H E).
    - destruct (same z y) eqn:E2; [|reflexivity].
      rewrite same_sym in H. rewrite (same_trans x z y H E2) in E. discriminate.
  Qed.

  Definition sum_snd (z : A) (rp2 : list (A * Z)) : Z :=
    zsum (map snd (filter (fun p => same z (fst p)) rp2)).

  Definition inv (rp : list A) (rp2 : list (A * Z)) : Prop :=
    forall z, sum_snd z rp2 = match filter (same z) rp with [] => 0 | y :: _ => val y - val (oldest rp z) end.

  Lemma cumsum_diff_gen l : forall rp rp2, inv rp rp2 ->
    scan (fun r2 p => zsum (map snd (filter (fun q => same (fst p) (fst q)) r2)) + snd p) rp2
         (combine l (scan (fun r x => match filter (same x) r with [] => 0 | y :: _ => val x - val y end) rp l))
    = scan (fun r x => val x - val (oldest r x)) rp l.
  Proof.
    induction l as [|x l IH]; intros rp rp2 Hinv; cbn [scan combine]; [reflexivity|].
    assert (Hx := Hinv x). unfold sum_snd in Hx. cbn [fst snd]. f_equal.
    - rewrite Hx. unfold oldest. destruct (filter (same x) rp) as [|y m]; cbn [last]; lia.
    - apply IH. intros z. unfold sum_snd, oldest. cbn [filter fst].
      destruct (same z x) eqn:Ez.
      + cbn [map snd]. rewrite zsum_cons. fold (sum_snd z rp2). rewrite (Hinv z). unfold oldest.
        rewrite <- (same_filter z x rp Ez).
        destruct (filter (same z) rp) as [|y m]; [cbn [last]; lia|].
        change (last (x :: y :: m) z) with (last (y :: m) z). lia.
      + fold (sum_snd z rp2). rewrite (Hinv z). reflexivity.
  Qed.

  Lemma cumsum_diff l :
    group_cumsum (fun a b : A * Z => same (fst a) (fst b)) snd (combine l (group_diff same val l))
    = scan (fun r x => val x - val (oldest r x)) [] l.
  Proof. unfold group_cumsum, group_diff. apply cumsum_diff_gen. intros z. reflexivity. Qed.

  Lemma oldest_cases rp x : oldest rp x = x \/ (In (oldest rp x) rp /\ same x (oldest rp x) = true).
  Proof.
    unfold oldest. destruct (filter (same x) rp) as [|y m] eqn:E; [left; reflexivity|]. right.
    assert (In (last (y :: m) x) (y :: m)).
    { clear E. generalize y. induction m as [|z m IH]; intros y0; [left; reflexivity|].
      right. apply (IH z). }
    rewrite <- E in H. apply filter_In in H. rewrite <- E. exact H.
  Qed.
End CumsumDiff.

(* ------------------------------------------------------------------ stable sort, group by group *)
Lemma insert_split {A} (key : A -> Z) x l :
  exists l1 l2, l = l1 ++ l2 /\ insert_by key x l = l1 ++ x :: l2 /\ forall y, In y l1 -> key y < key x.
Proof.
  induction l as [|y l IH]; [exists [], []; cbn; intuition|].
  cbn [insert_by]. destruct (key x <=? key y) eqn:E.
  - exists [], (y :: l). cbn. intuition.
  - destruct IH as [l1 [l2 [-> [-> H]]]]. exists (y :: l1), l2. cbn [app]. repeat split; auto.
    intros z [<-|Hz]; [apply Z.leb_gt in E; lia | auto].
Qed.

Lemma isort_stable {A} (key : A -> Z) c l :
  filter (fun y => key y =? c) (isort_by key l) = filter (fun y => key y =? c) l.
Proof.
  induction l as [|x l IH]; [reflexivity|]. cbn [isort_by fold_right]. fold (isort_by key l).
  destruct (insert_split key x (isort_by key l)) as [l1 [l2 [E1 [-> H]]]].
  rewrite filter_app. cbn [filter]. rewrite <- IH, E1, filter_app.
  destruct (key x =? c) eqn:Ec; [|reflexivity].
  apply Z.eqb_eq in Ec. rewrite (filter_false _ l1); [reflexivity|].
  intros y Hy. apply H in Hy. apply Z.eqb_neq. lia.
Qed.

Lemma in_isort {A} (key : A -> Z) l y : In y (isort_by key l) <-> In y l.
Proof.
  split; intros H.
  - apply (Permutation_in _ (isort_perm key l)). exact H.
  - apply (Permutation_in _ (Permutation_sym (isort_perm key l))). exact H.
Qed.

Lemma map_split_blocks {K A} (f : K -> list A) ks : forall L1 B L2, map f ks = L1 ++ B :: L2 ->
  exists k ks1 ks2, ks = ks1 ++ k :: ks2 /\ L1 = map f ks1 /\ B = f k.
Proof.
  induction ks as [|k0 ks IH]; intros L1 B L2 EL; [destruct L1; discriminate|].
  cbn [map] in EL. destruct L1 as [|l0 L1]; cbn [app] in EL.
  - injection EL as E1 E2. exists k0, [], ks. auto.
  - injection EL as E1 E2. destruct (IH L1 B L2 E2) as [k [ks1 [ks2 [-> [-> ->]]]]].
    exists k, (k0 :: ks1), ks2. cbn [map app]. rewrite E1. auto.
Qed.

(* a relation between an element and the EARLIER elements of its own (k1, k2) group survives
   "group by k1 in ascending order, stable sort each group by k2" *)
Lemma pairs_survive {A} (k1 k2 : A -> Z) (R : A -> A -> Prop) (F : list A) :
  (forall p x q, F = p ++ x :: q -> forall y, In y p -> k1 y = k1 x -> k2 y = k2 x -> R y x) ->
  forall a x c, group_concat k1 (isort_by k2) F = a ++ x :: c ->
  forall y, In y a -> k1 y = k1 x -> k2 y = k2 x -> R y x.
Proof.
  intros HF a x c E y Hy H1 H2. unfold group_concat in E. rewrite flat_map_concat_map in E.
  destruct (concat_split _ _ _ _ E) as [L1 [B [L2 [a1 [c1 [EL [EB [-> ->]]]]]]]].
  (* the block of x *)
  destruct (map_split_blocks _ _ _ _ _ EL) as [k [ks1 [ks2 [Ek [EL1 EB2]]]]].
  assert (Hxk : k1 x = k).
  { assert (In x B) by (rewrite EB; apply in_or_app; right; left; reflexivity).
    rewrite EB2 in H. apply in_isort in H. apply filter_In in H. apply Z.eqb_eq. tauto. }
  apply in_app_or in Hy. destruct Hy as [Hy|Hy].
  - (* an earlier block holds another key *)
    exfalso. rewrite EL1 in Hy. apply in_concat in Hy. destruct Hy as [g [Hg Hyg]].
    apply in_map_iff in Hg. destruct Hg as [k' [<- Hk']].
    apply in_isort in Hyg. apply filter_In in Hyg. destruct Hyg as [_ Hyk]. apply Z.eqb_eq in Hyk.
    assert (Hasc := asc_NoDup _ (asc_skeys (map k1 F))). rewrite Ek in Hasc.
    apply NoDup_remove_2 in Hasc. apply Hasc. apply in_or_app. left.
    assert (k' = k) by congruence. rewrite <- H. exact Hk'.
  - (* the same block: stability *)
    set (B0 := filter (fun z => k1 z =? k) F) in *.
    assert (Es := isort_stable k2 (k2 x) B0). rewrite <- EB2, EB in Es.
    rewrite filter_app in Es. cbn [filter] in Es. rewrite Z.eqb_refl in Es.
    symmetry in Es. apply filter_eq_split in Es. destruct Es as [a' [b' [EB0 [Ea' _]]]].
    assert (Hya' : In y a').
    { assert (In y (filter (fun y0 => k2 y0 =? k2 x) a1)) by (apply filter_In; split; [exact Hy | apply Z.eqb_eq; exact H2]).
      rewrite <- Ea' in H. apply filter_In in H. tauto. }
    unfold B0 in EB0. apply filter_eq_split in EB0. destruct EB0 as [p [q [EF [Ep _]]]].
    apply (HF p x q EF y); auto.
    rewrite <- Ep in Hya'. apply filter_In in Hya'. tauto.
Qed.

(* ------------------------------------------------------------------ DOSEIDs along the frame *)
Lemma dec_of_range s rows k r : 0 <= dec_of s rows k r <= 1.
Proof.
  unfold dec_of. destruct k as [[i t] g].
  destruct (filter _ (filter _ rows)); [lia|].
  destruct (negb _); [lia|]. destruct (_ <? _); [lia|].
  destruct (_ && _); lia.
Qed.

Lemma dec_of_dose s rows k r : r_amt r <> 0 -> dec_of s rows k r = 0.
Proof.
  intros H. unfold dec_of. destruct k as [[i t] g]. apply Z.eqb_neq in H. rewrite H, andb_false_r. cbn [negb].
  destruct (filter _ (filter _ rows)); reflexivity.
Qed.

(* the loop never raises a DOSEID and leaves dose records alone *)
Lemma fold_stepv_le s rows r ks : forall v, fold_left (stepv s rows r) ks v <= v.
Proof.
  induction ks as [|k ks IH]; intros v; [cbn; lia|]. cbn [fold_left]. specialize (IH (stepv s rows r v k)).
  assert (stepv s rows r v k <= v); [|lia]. unfold stepv. assert (H := dec_of_range s rows k r). destruct (1 <? v); lia.
Qed.

Lemma fold_stepv_dose s rows r ks : r_amt r <> 0 -> forall v, fold_left (stepv s rows r) ks v = v.
Proof.
  intros H. induction ks as [|k ks IH]; intros v; [reflexivity|]. cbn [fold_left].
  assert (stepv s rows r v k = v) as -> by (unfold stepv; rewrite dec_of_dose by exact H; destruct (1 <? v); lia).
  apply IH.
Qed.

Lemma doseid_core_scan s rows :
  combine rows (doseid_core s rows)
  = scan (fun rp x => (x, fold_left (stepv s rows x) (nonunique (map key_of (ann s rows)))
                            (zsum (map dose_flag (filter (same_id x) rp)) + dose_flag x))) [] rows.
Proof.
  unfold doseid_core. rewrite fold_step_closed by (unfold group_cumsum; apply scan_length).
  rewrite combine_map_snd. unfold group_cumsum. rewrite combine_scan, scan_map_out. reflexivity.
Qed.

(* before a dose record, every record of the same individual has a smaller DOSEID *)
Lemma doseid_before_dose s rows p x q :
  combine rows (doseid_core s rows) = p ++ x :: q -> 0 < r_amt (fst x) ->
  forall y, In y p -> r_id (fst y) = r_id (fst x) -> snd y < snd x.
Proof.
  rewrite doseid_core_scan. intros E Hx y Hy Hi.
  destruct (scan_split _ _ _ _ _ _ E) as [pre [r [post [Er [Ep [Ex _]]]]]]. rewrite app_nil_r in Ex.
  rewrite Ep in Hy. destruct (in_scan _ _ _ _ Hy) as [pre1 [r1 [post1 [Epre Ey]]]]. rewrite app_nil_r in Ey.
  subst x y. cbn [fst snd] in *.
  rewrite (fold_stepv_dose s rows r _ ltac:(lia)).
  eapply Z.le_lt_trans; [apply fold_stepv_le|].
  assert (E1 : rev pre = rev post1 ++ r1 :: rev pre1).
  { rewrite Epre, rev_app_distr. cbn [rev]. rewrite <- app_assoc. reflexivity. }
  assert (E2 : filter (same_id r) (r1 :: rev pre1) = r1 :: filter (same_id r1) (rev pre1)).
  { cbn [filter]. unfold same_id at 1. rewrite Hi, Z.eqb_refl. f_equal.
    apply filter_ext. intros z. unfold same_id. rewrite Hi. reflexivity. }
  rewrite E1, filter_app, E2, map_app, zsum_app. cbn [map]. rewrite zsum_cons.
  assert (0 <= zsum (map dose_flag (filter (same_id r) (rev post1)))) by (apply zsum_map_nonneg; apply dose_flag_nonneg).
  assert (dose_flag r = 1) by (unfold dose_flag; apply Z.ltb_lt in Hx; rewrite Hx; reflexivity).
  lia.
Qed.

(* ------------------------------------------------------------------ the TAD frame *)
Definition strip (e : trow) : row * Z := (fst (fst e), snd e).

Lemma strip_combine (fr : list (row * bool)) : forall dids,
  map strip (combine fr dids) = combine (map fst fr) dids.
Proof. induction fr as [|e fr IH]; intros [|z dids]; cbn [combine map]; try reflexivity. rewrite IH. reflexivity. Qed.

Lemma same_period_sym a b : same_period a b = same_period b a.
Proof. unfold same_period. rewrite (Z.eqb_sym (t_id a)), (Z.eqb_sym (t_did a)). reflexivity. Qed.

Lemma same_period_trans a b c : same_period a b = true -> same_period b c = true -> same_period a c = true.
Proof.
  unfold same_period. rewrite !andb_true_iff, !Z.eqb_eq. intros [H1 H2] [H3 H4]. split; congruence.
Qed.

Lemma same_period_iff a b : same_period a b = true <-> t_id a = t_id b /\ t_did a = t_did b.
Proof. unfold same_period. rewrite andb_true_iff, !Z.eqb_eq. tauto. Qed.

Lemma tad_values_closed S :
  tad_values S = scan (fun rp x => t_time x - t_time (oldest trow same_period rp x)) [] S.
Proof. unfold tad_values. apply cumsum_diff; [apply same_period_sym | apply same_period_trans]. Qed.

(* every entry of the result comes from an entry of the sorted frame with the same amount and value *)
Lemma in_relabel {B} (l : list (row * B)) p : In p (relabel l) ->
  exists q, In q l /\ snd p = snd q /\ r_amt (fst p) = r_amt (fst q).
Proof.
  unfold relabel. intros H. apply in_map_iff in H. destruct H as [[k q] [<- H]].
  apply in_combine_r in H. exists q. cbn. auto.
Qed.

(* ---- the frame with positions: forgetting the positions gives the frame sorted without them *)
Lemma map_fst_insert {A B} (k : A -> Z) (x : A * B) l :
  map fst (insert_by (fun y : A * B => k (fst y)) x l) = insert_by k (fst x) (map fst l).
Proof.
  induction l as [|y l IH]; [reflexivity|]. cbn [insert_by map].
  destruct (k (fst x) <=? k (fst y)); [reflexivity|]. cbn [map]. rewrite IH. reflexivity.
Qed.

Lemma map_fst_isort {A B} (k : A -> Z) (l : list (A * B)) :
  map fst (isort_by (fun y : A * B => k (fst y)) l) = isort_by k (map fst l).
Proof.
  induction l as [|x l IH]; [reflexivity|]. cbn [isort_by fold_right map].
  fold (isort_by (fun y : A * B => k (fst y)) l). fold (isort_by k (map fst l)).
  rewrite map_fst_insert, IH. reflexivity.
Qed.

Lemma map_fst_filter {A B} (p : A -> bool) (l : list (A * B)) :
  map fst (filter (fun y => p (fst y)) l) = filter p (map fst l).
Proof. induction l as [|x l IH]; [reflexivity|]. cbn [filter map]. destruct (p (fst x)); cbn [map]; rewrite IH; reflexivity. Qed.

Lemma gc_map_fst {A B} (k k2 : A -> Z) (X : list (A * B)) :
  map fst (group_concat (fun x : A * B => k (fst x)) (isort_by (fun x : A * B => k2 (fst x))) X)
  = group_concat k (isort_by k2) (map fst X).
Proof.
  unfold group_concat. rewrite !flat_map_concat_map, concat_map, map_map.
  rewrite <- (map_map fst k X). f_equal. apply map_ext. intros key.
  rewrite map_fst_isort. f_equal. apply (map_fst_filter (fun a => k a =? key)).
Qed.

Lemma group_concat_perm {A} (key : A -> Z) (f : list A -> list A) l :
  (forall g, Permutation (f g) g) -> Permutation (group_concat key f l) l.
Proof.
  intros H. unfold group_concat. rewrite flat_map_concat_map.
  eapply Permutation_trans; [|apply (groups_perm key l)]. unfold groups_of.
  rewrite <- (map_map (fun k => filter (fun x => key x =? k) l) f). apply concat_map_perm. exact H.
Qed.

Lemma map_fst_combine {A B} (l : list A) : forall (v : list B), length v = length l -> map fst (combine l v) = l.
Proof. induction l as [|a l IH]; intros [|b v] H; cbn in *; try reflexivity; try discriminate. rewrite IH by lia. reflexivity. Qed.

Lemma zseq_length k n : length (zseq k n) = n.
Proof. revert k. induction n as [|n IH]; intros k; [reflexivity|]. cbn. rewrite IH. reflexivity. Qed.

Lemma tad_sorted_pos_fst fr dids : map fst (tad_sorted_pos fr dids) = tad_sorted fr dids.
Proof.
  unfold tad_sorted_pos, tad_sorted.
  etransitivity; [apply (gc_map_fst t_id t_did (combine (combine fr dids) (zseq 0 (length (combine fr dids)))))|].
  rewrite map_fst_combine by apply zseq_length. reflexivity.
Qed.

Lemma combine_scan_map {A A' B} (g : A -> A') (f : list A' -> A' -> B) l : forall rp,
  combine l (scan f (map g rp) (map g l)) = scan (fun rp x => (x, f (map g rp) (g x))) rp l.
Proof. induction l as [|x l IH]; intros rp; cbn [map scan combine]; [reflexivity|]. f_equal. apply (IH (x :: rp)). Qed.

(* every entry of the result comes from an entry of the sorted frame with the same amount and value *)
Lemma in_tad_core fr dids p : In p (tad_core fr dids) ->
  exists pre x post, tad_sorted fr dids = pre ++ x :: post
    /\ snd p = t_time x - t_time (oldest trow same_period (rev pre) x)
    /\ r_amt (fst p) = r_amt (fst (fst x)).
Proof.
  unfold tad_core. intros H. apply in_relabel in H. destruct H as [q [Hq [Es Ea]]].
  apply in_map_iff in Hq. destruct Hq as [e [<- He]]. apply filter_In in He. destruct He as [He _].
  apply in_isort in He.
  rewrite tad_values_closed in He. change (@nil trow) with (map (@fst trow Z) []) in He.
  rewrite combine_scan_map in He.
  destruct (in_scan _ _ _ _ He) as [pre [x [post [E ->]]]]. rewrite app_nil_r in *.
  exists (map fst pre), (fst x), (map fst post). cbn [fst snd] in *.
  split; [rewrite <- tad_sorted_pos_fst, E, map_app; reflexivity|].
  rewrite <- map_rev. auto.
Qed.

Lemma tad_zero_core s fr p :
  In p (tad_core fr (doseid_core s (map fst fr))) -> 0 < r_amt (fst p) -> snd p = 0.
Proof.
  intros H Ha. destruct (in_tad_core _ _ _ H) as [pre [x [post [E [-> Eam]]]]]. rewrite Eam in Ha.
  destruct (oldest_cases trow same_period (rev pre) x) as [->|[Ho Hs]]; [lia|]. exfalso.
  apply in_rev in Ho. apply same_period_iff in Hs. destruct Hs as [Hi Hd].
  unfold tad_sorted in E.
  apply (pairs_survive t_id t_did (fun _ x => 0 < r_amt (fst (fst x)) -> False)
           (combine fr (doseid_core s (map fst fr)))) with (a := pre) (x := x) (c := post)
           (y := oldest trow same_period (rev pre) x); auto.
  intros p0 x0 q0 EF y0 Hy0 Hi0 Hd0 Hx0.
  apply (f_equal (map strip)) in EF. rewrite strip_combine, map_app in EF. cbn [map] in EF.
  assert (K := doseid_before_dose s (map fst fr) _ _ _ EF Hx0 (strip y0) (in_map strip _ _ Hy0) Hi0).
  unfold strip in K. cbn [snd] in K. unfold t_did in Hd0. lia.
Qed.

Lemma tad_nonneg_core (fr : list (row * bool)) dids p : length dids = length fr ->
  g_sorted_within r_id r_time (map fst fr) = true ->
  In p (tad_core fr dids) -> 0 <= snd p.
Proof.
  intros Hlen G H. destruct (in_tad_core _ _ _ H) as [pre [x [post [E [-> _]]]]].
  destruct (oldest_cases trow same_period (rev pre) x) as [->|[Ho Hs]]; [lia|].
  apply in_rev in Ho. apply same_period_iff in Hs. destruct Hs as [Hi Hd].
  assert (t_time (oldest trow same_period (rev pre) x) <= t_time x); [|lia].
  unfold tad_sorted in E.
  apply (pairs_survive t_id t_did (fun y x => t_time y <= t_time x) (combine fr dids))
    with (a := pre) (x := x) (c := post); auto.
  intros p0 x0 q0 EF y0 Hy0 Hi0 _.
  apply (f_equal (map (fun e : trow => fst (fst e)))) in EF.
  assert (map (fun e : trow => fst (fst e)) (combine fr dids) = map fst fr) as K.
  { clear -Hlen. revert dids Hlen. induction fr as [|e fr IH]; intros [|z dids] Hl; cbn in *; try reflexivity; try discriminate.
    rewrite IH by lia. reflexivity. }
  rewrite K, map_app in EF. cbn [map] in EF.
  unfold g_sorted_within in G. assert (Q := forall_ctx_spec _ _ G _ _ _ EF). cbn beta in Q.
  rewrite forallb_forall in Q. specialize (Q (fst (fst y0))).
  assert (In (fst (fst y0)) (rev (map (fun e : trow => fst (fst e)) p0))) as Hin.
  { rewrite <- in_rev. apply (in_map (fun e : trow => fst (fst e))). exact Hy0. }
  specialize (Q Hin). unfold t_id in Hi0. rewrite Hi0, Z.eqb_refl in Q. cbn [negb orb] in Q.
  apply Z.leb_le. exact Q.
Qed.

(* ------------------------------------------------------------------ wrappers *)
Lemma doseid_core_length s rows : length (doseid_core s rows) = length rows.
Proof.
  unfold doseid_core. rewrite fold_step_closed by (unfold group_cumsum; apply scan_length).
  rewrite map_length, combine_length. unfold group_cumsum. rewrite scan_length. lia.
Qed.

Lemma doseid_impl_core d dids : doseid_impl d = Ok dids -> dids = doseid_core (ds_sch d) (ds_rows d).
Proof.
  unfold doseid_impl. destruct (negb (has_dose (ds_sch d))); [discriminate|]. intros H. injection H as <-. reflexivity.
Qed.

Lemma tad_impl_inv d out : tad_impl d = Ok out ->
  exists fr, tad_frame d = Ok fr
    /\ out = tad_core fr (doseid_core (ds_sch (with_rows d (map fst fr) true)) (map fst fr)).
Proof.
  unfold tad_impl. destruct (has_addl (ds_sch d) && negb (has_ii (ds_sch d))); [destruct (doseid_impl d); discriminate|].
  destruct (tad_frame d) as [fr|e]; [|discriminate].
  destruct (doseid_impl (with_rows d (map fst fr) true)) as [dids|e] eqn:E; [|discriminate].
  intros H. injection H as <-. exists fr. split; [reflexivity|]. rewrite (doseid_impl_core _ _ E). reflexivity.
Qed.

Lemma tad_frame_ok_ii d fr : tad_frame d = Ok fr -> has_addl (ds_sch d) && negb (has_ii (ds_sch d)) = false.
Proof.
  unfold tad_frame. destruct (has_addl (ds_sch d)); [|reflexivity]. destruct (has_ii (ds_sch d)); [reflexivity | discriminate].
Qed.

Lemma tad_zero_at_dose_lemma d out : tad_impl d = Ok out ->
  forall p, In p out -> 0 < r_amt (fst p) -> snd p = 0.
Proof.
  intros H p Hp Ha. destruct (tad_impl_inv d out H) as [fr [_ ->]]. apply (tad_zero_core _ _ _ Hp Ha).
Qed.

Lemma tad_nonneg_lemma d out : guard_tad_chrono d = true -> tad_impl d = Ok out ->
  forall p, In p out -> 0 <= snd p.
Proof.
  unfold guard_tad_chrono. intros G H p Hp. destruct (tad_impl_inv d out H) as [fr [Ef ->]]. rewrite Ef in G.
  apply (tad_nonneg_core fr (doseid_core (ds_sch (with_rows d (map fst fr) true)) (map fst fr)) p); auto.
  rewrite doseid_core_length, map_length. reflexivity.
Qed.

(* ------------------------------------------------------------------ the frame is kept *)
Lemma combine_fst_filter_map {A B C} (g : A -> C) (p : A -> bool) (l : list A) : forall (v : list B),
  length v = length l ->
  map (fun x : A * B => g (fst x)) (filter (fun x => p (fst x)) (combine l v)) = map g (filter p l).
Proof.
  induction l as [|a l IH]; intros [|b v] H; cbn in *; try reflexivity; try discriminate.
  destruct (p a); cbn [map fst]; rewrite IH by lia; reflexivity.
Qed.

Lemma relabel_unlab {B} (X : list (row * B)) :
  map (fun p : row * B => set_lab (fst p) 0) (relabel X) = map (fun p => set_lab (fst p) 0) X.
Proof.
  unfold relabel. generalize 0 at 2. induction X as [|p X IH]; intros k; [reflexivity|].
  cbn [length zseq combine map fst snd]. rewrite IH. reflexivity.
Qed.

Lemma map_tid_combine (fr : list (row * bool)) : forall dids, length dids = length fr ->
  map t_id (combine fr dids) = map (fun e : row * bool => r_id (fst e)) fr.
Proof.
  induction fr as [|e fr IH]; intros [|z dids] H; cbn in *; try reflexivity; try discriminate.
  rewrite IH by lia. reflexivity.
Qed.

(* "group by k1 in ascending order, stable sort by k2" is the identity on a frame whose k1 never
   decreases and whose k2 never decreases within a k1 group *)
Lemma gc_identity {A} (k1 k2 : A -> Z) (F : list A) :
  ssorted (map k1 F) ->
  (forall pre x post, F = pre ++ x :: post -> forall y, In y pre -> k1 y = k1 x -> k2 y <= k2 x) ->
  group_concat k1 (isort_by k2) F = F.
Proof.
  intros Hs Hd. unfold group_concat. rewrite flat_map_concat_map.
  rewrite (map_ext_in _ (fun k => filter (fun x => k1 x =? k) F)).
  - apply blocks_identity; [apply asc_skeys | exact Hs | intros x Hx; apply In_skeys; apply in_map; exact Hx].
  - intros k _. apply isort_sorted_id. apply pairwise_ssorted.
    intros pre x post E Hx y Hy Hyk. apply Z.eqb_eq in Hx, Hyk. apply (Hd pre x post E y Hy). congruence.
Qed.

Lemma sorted_within_pairs fr dids : g_sorted_within t_id t_did (combine fr dids) = true ->
  forall pre x post, combine fr dids = pre ++ x :: post -> forall y, In y pre -> t_id y = t_id x -> t_did y <= t_did x.
Proof.
  intros Hd pre x post E y Hy Hi. unfold g_sorted_within in Hd.
  assert (Q := forall_ctx_spec _ _ Hd _ _ _ E). cbn beta in Q. rewrite forallb_forall in Q.
  specialize (Q y). rewrite <- in_rev in Q. specialize (Q Hy).
  rewrite Hi, Z.eqb_refl in Q. cbn [negb orb] in Q. apply Z.leb_le. exact Q.
Qed.

Lemma tad_sorted_identity fr dids : length dids = length fr ->
  sortedz (map (fun e : row * bool => r_id (fst e)) fr) = true ->
  g_sorted_within t_id t_did (combine fr dids) = true ->
  tad_sorted fr dids = combine fr dids.
Proof.
  intros Hl Hids Hd. unfold tad_sorted. apply gc_identity.
  - rewrite (map_tid_combine fr dids Hl). apply sortedz_ssorted. exact Hids.
  - apply sorted_within_pairs. exact Hd.
Qed.

Lemma tad_sorted_pos_identity fr dids : length dids = length fr ->
  sortedz (map (fun e : row * bool => r_id (fst e)) fr) = true ->
  g_sorted_within t_id t_did (combine fr dids) = true ->
  tad_sorted_pos fr dids = combine (combine fr dids) (zseq 0 (length (combine fr dids))).
Proof.
  intros Hl Hids Hd. unfold tad_sorted_pos. set (F := combine fr dids). apply gc_identity.
  - assert (E0 : map (fun x : prow => t_id (fst x)) (combine F (zseq 0 (length F))) = map t_id F).
    { rewrite <- (map_fst_combine F (zseq 0 (length F))) at 3 by apply zseq_length. rewrite map_map. reflexivity. }
    rewrite E0. unfold F. rewrite (map_tid_combine fr dids Hl). apply sortedz_ssorted. exact Hids.
  - intros pre x post E y Hy Hi. apply (f_equal (map fst)) in E.
    rewrite map_fst_combine, map_app in E by apply zseq_length. cbn [map] in E.
    apply (sorted_within_pairs fr dids Hd _ _ _ E (fst y)); [apply in_map; exact Hy | exact Hi].
Qed.

(* ---- sorting back by position *)
Lemma zseq_asc k n : asc (zseq k n).
Proof.
  revert k. induction n as [|n IH]; intros k; [exact I|]. cbn [zseq asc]. split; [|apply IH].
  intros y Hy. clear IH. revert k Hy. induction n as [|n IHn]; intros k Hy; [destruct Hy|].
  cbn [zseq] in Hy. destruct Hy as [<-|Hy]; [lia|]. specialize (IHn (k + 1) Hy). lia.
Qed.

Lemma asc_ssorted l : asc l -> ssorted l.
Proof.
  induction l as [|x l IH]; intros H; [exact I|]. destruct H as [H1 H2]. split; [|auto].
  intros y Hy. specialize (H1 y Hy). lia.
Qed.

(* a sorted list that is a rearrangement of a list with strictly ascending keys is that list *)
Lemma sorted_perm_unique {A} (key : A -> Z) (b : list A) : asc (map key b) ->
  forall a, ssorted (map key a) -> Permutation a b -> a = b.
Proof.
  induction b as [|x b IH]; intros Hb a Ha Hp.
  - apply Permutation_sym, Permutation_nil in Hp. exact Hp.
  - destruct a as [|y a]; [apply Permutation_nil in Hp; discriminate|].
    destruct Hb as [Hb1 Hb2]. destruct Ha as [Ha1 Ha2].
    assert (y = x).
    { assert (Hy : In y (x :: b)) by (apply (Permutation_in _ Hp); left; reflexivity).
      assert (Hx : In x (y :: a)) by (apply (Permutation_in _ (Permutation_sym Hp)); left; reflexivity).
      destruct Hy as [E|Hy]; [symmetry; exact E|]. destruct Hx as [E|Hx]; [exact E|]. exfalso.
      specialize (Hb1 (key y) (in_map key _ _ Hy)). specialize (Ha1 (key x) (in_map key _ _ Hx)). lia. }
    subst y. f_equal. apply IH; auto. apply (Permutation_cons_inv Hp).
Qed.

Lemma map_snd_combine_len {A B} (l : list A) : forall (v : list B), length v = length l -> map snd (combine l v) = v.
Proof. induction l as [|a l IH]; intros [|b v] H; cbn in *; try reflexivity; try discriminate. rewrite IH by lia. reflexivity. Qed.

Lemma tad_values_length S : length (tad_values S) = length S.
Proof. unfold tad_values, group_cumsum. rewrite scan_length, combine_length. unfold group_diff. rewrite scan_length. apply Nat.min_id. Qed.

(* sorted back by _POS, the (record, DOSEID, position) parts are the working frame again *)
Lemma tad_back_fst fr dids :
  map fst (isort_by (fun x : prow * Z => p_pos (fst x))
                    (combine (tad_sorted_pos fr dids) (tad_values (map fst (tad_sorted_pos fr dids)))))
  = combine (combine fr dids) (zseq 0 (length (combine fr dids))).
Proof.
  rewrite (map_fst_isort p_pos).
  rewrite map_fst_combine by (rewrite tad_values_length, map_length; reflexivity).
  set (F' := combine (combine fr dids) (zseq 0 (length (combine fr dids)))).
  apply (sorted_perm_unique p_pos F').
  - assert (E0 : map p_pos F' = zseq 0 (length (combine fr dids))).
    { exact (map_snd_combine_len (combine fr dids) (zseq 0 (length (combine fr dids))) (zseq_length _ _)). }
    rewrite E0. apply zseq_asc.
  - apply isort_ssorted.
  - eapply Permutation_trans; [apply isort_perm|]. unfold tad_sorted_pos. fold F'.
    apply group_concat_perm. intros g. apply isort_perm.
Qed.

Lemma map_filter_fst {A B C} (g : A -> C) (p : A -> bool) (X : list (A * B)) :
  map (fun x : A * B => g (fst x)) (filter (fun x : A * B => p (fst x)) X) = map g (filter p (map fst X)).
Proof. induction X as [|x X IH]; [reflexivity|]. cbn [filter map]. destruct (p (fst x)); cbn [map]; rewrite IH; reflexivity. Qed.

(* the records of the result are the unexpanded records of the working frame, in order — always *)
Lemma tad_core_rows fr dids : length dids = length fr ->
  map (fun p : row * Z => set_lab (fst p) 0) (tad_core fr dids)
  = map (fun p : row * bool => set_lab (fst p) 0) (filter (fun p => negb (snd p)) fr).
Proof.
  intros Hl. unfold tad_core. rewrite relabel_unlab, map_map. cbn [fst].
  rewrite (map_filter_fst (fun x : prow => set_lab (fst (fst (fst x))) 0) (fun x : prow => negb (snd (fst (fst x))))).
  rewrite tad_back_fst.
  etransitivity.
  - apply (combine_fst_filter_map (fun x : trow => set_lab (fst (fst x)) 0) (fun x : trow => negb (snd (fst x)))
             (combine fr dids) (zseq 0 (length (combine fr dids))) (zseq_length _ _)).
  - apply (combine_fst_filter_map (fun e : row * bool => set_lab (fst e) 0) (fun e : row * bool => negb (snd e)) fr dids Hl).
Qed.

Lemma tad_frame_kept_lemma d out : tad_impl d = Ok out ->
  exists fr, tad_frame d = Ok fr
    /\ map (fun p : row * Z => set_lab (fst p) 0) out
       = map (fun p : row * bool => set_lab (fst p) 0) (filter (fun p => negb (snd p)) fr).
Proof.
  intros H. destruct (tad_impl_inv d out H) as [fr [Ef ->]]. exists fr. split; [exact Ef|].
  apply tad_core_rows. rewrite doseid_core_length, map_length. reflexivity.
Qed.

(* the property as stated: the records of the input, in their order, with every field as it was *)
Lemma add_column_frame_lemma d out : tad_impl d = Ok out ->
  has_addl (ds_sch d) = false \/ guard_expand_order d = true ->
  map (fun p : row * Z => set_lab (fst p) 0) out = map (fun r => set_lab r 0) (ds_rows d).
Proof.
  intros Ho H. destruct (tad_frame_kept_lemma d out Ho) as [fr [Ef Er]].
  rewrite Er. unfold tad_frame in Ef. destruct (has_addl (ds_sch d)) eqn:Ha.
  - destruct H as [H|H]; [discriminate|]. destruct (negb (has_ii (ds_sch d))); [discriminate|].
    apply (expand_keeps_originals_lemma d fr H Ef).
  - injection Ef as <-. apply noop_originals.
Qed.
