(* PV.C14.Refuted — counter-models: for every guard conjunct that exists because the CODE fails, a
   concrete dataset (the stored witness of the known finding, reproduced on the real code by the
   check) on which the guard is false and the unguarded statement is false of the model.
   After the fix commits 0ec2f84 (first-dose test), f3d3785 ('ID' literal), 84913ce (squeeze),
   81d9761 (no covariates), 96db805 (explicit index), 53e373d (central_number), 1fa817f (EVID 4),
   64ec1fd (dtypes) and 8de2b00 (record order) the former witnesses of those defects are regression
   examples of the repaired behaviour; five defects remain (reset-group ties, observation between tied
   doses, EVID of other records, id order in expand_additional_doses, negative TAD after a reset). *)
From Coq Require Import ZArith List Bool.
From PV Require Import C14.Model.
Import ListNotations.
Local Open Scope Z_scope.

Definition w_doseid_first_dose : dataset :=
  (mkDs (mkSchema true false false false false false false false true true true) [
    (mkRow (0)%Z (1)%Z (0)%Z (40)%Z (0)%Z (0)%Z (0)%Z (0)%Z (0)%Z (0)%Z (0)%Z (0)%Z [(280)%Z] []); 
    (mkRow (1)%Z (1)%Z (0)%Z (0)%Z (4)%Z (0)%Z (0)%Z (0)%Z (0)%Z (0)%Z (0)%Z (0)%Z [(280)%Z] []); 
    (mkRow (2)%Z (2)%Z (0)%Z (40)%Z (0)%Z (0)%Z (0)%Z (0)%Z (0)%Z (0)%Z (0)%Z (0)%Z [(240)%Z] []); 
    (mkRow (3)%Z (2)%Z (0)%Z (0)%Z (4)%Z (0)%Z (0)%Z (0)%Z (0)%Z (0)%Z (0)%Z (0)%Z [(240)%Z] [])]).
Definition mi_doseid_first_dose : minfo := (mkMinfo [((1)%Z, (1)%Z, true)] 1).

Definition w_doseid_reset_group : dataset :=
  (mkDs (mkSchema true true false false false false false false true true true) [
    (mkRow (0)%Z (1)%Z (0)%Z (40)%Z (0)%Z (1)%Z (0)%Z (0)%Z (0)%Z (0)%Z (0)%Z (0)%Z [(280)%Z] []); 
    (mkRow (1)%Z (1)%Z (4)%Z (40)%Z (0)%Z (1)%Z (0)%Z (0)%Z (0)%Z (0)%Z (0)%Z (0)%Z [(280)%Z] []); 
    (mkRow (2)%Z (1)%Z (4)%Z (0)%Z (4)%Z (0)%Z (0)%Z (0)%Z (0)%Z (0)%Z (0)%Z (0)%Z [(280)%Z] []); 
    (mkRow (3)%Z (1)%Z (0)%Z (0)%Z (0)%Z (3)%Z (0)%Z (0)%Z (0)%Z (0)%Z (0)%Z (0)%Z [(280)%Z] []); 
    (mkRow (4)%Z (1)%Z (4)%Z (0)%Z (8)%Z (0)%Z (0)%Z (0)%Z (0)%Z (0)%Z (0)%Z (0)%Z [(280)%Z] [])]).
Definition mi_doseid_reset_group : minfo := (mkMinfo [((1)%Z, (1)%Z, true)] 1).

Definition w_doseid_obs_between_doses : dataset :=
  (mkDs (mkSchema true false false false false false false false true true true) [
    (mkRow (0)%Z (1)%Z (0)%Z (40)%Z (0)%Z (0)%Z (0)%Z (0)%Z (0)%Z (0)%Z (0)%Z (0)%Z [(280)%Z] []); 
    (mkRow (1)%Z (1)%Z (20)%Z (40)%Z (0)%Z (0)%Z (0)%Z (0)%Z (0)%Z (0)%Z (0)%Z (0)%Z [(280)%Z] []); 
    (mkRow (2)%Z (1)%Z (20)%Z (0)%Z (4)%Z (0)%Z (0)%Z (0)%Z (0)%Z (0)%Z (0)%Z (0)%Z [(280)%Z] []); 
    (mkRow (3)%Z (1)%Z (20)%Z (40)%Z (0)%Z (0)%Z (0)%Z (0)%Z (0)%Z (0)%Z (0)%Z (0)%Z [(280)%Z] []); 
    (mkRow (4)%Z (1)%Z (24)%Z (0)%Z (8)%Z (0)%Z (0)%Z (0)%Z (0)%Z (0)%Z (0)%Z (0)%Z [(280)%Z] [])]).
Definition mi_doseid_obs_between_doses : minfo := (mkMinfo [((1)%Z, (1)%Z, true)] 1).

Definition w_id_literal : dataset :=
  (mkDs (mkSchema true true false false false false false false false true true) [
    (mkRow (0)%Z (1)%Z (0)%Z (40)%Z (0)%Z (1)%Z (0)%Z (0)%Z (0)%Z (0)%Z (0)%Z (0)%Z [(280)%Z] []); 
    (mkRow (1)%Z (1)%Z (4)%Z (0)%Z (4)%Z (0)%Z (0)%Z (0)%Z (0)%Z (0)%Z (0)%Z (0)%Z [(280)%Z] []); 
    (mkRow (2)%Z (1)%Z (8)%Z (40)%Z (0)%Z (1)%Z (0)%Z (0)%Z (0)%Z (0)%Z (0)%Z (0)%Z [(280)%Z] []); 
    (mkRow (3)%Z (1)%Z (12)%Z (0)%Z (8)%Z (0)%Z (0)%Z (0)%Z (0)%Z (0)%Z (0)%Z (0)%Z [(280)%Z] [])]).
Definition mi_id_literal : minfo := (mkMinfo [((1)%Z, (1)%Z, true)] 1).

Definition w_evid_other_records : dataset :=
  (mkDs (mkSchema true false true false false false false false true true true) [
    (mkRow (0)%Z (1)%Z (0)%Z (40)%Z (0)%Z (0)%Z (1)%Z (0)%Z (0)%Z (0)%Z (0)%Z (0)%Z [(280)%Z] []); 
    (mkRow (1)%Z (1)%Z (4)%Z (0)%Z (12)%Z (0)%Z (0)%Z (0)%Z (0)%Z (0)%Z (0)%Z (0)%Z [(280)%Z] []); 
    (mkRow (2)%Z (1)%Z (8)%Z (0)%Z (0)%Z (0)%Z (1)%Z (0)%Z (0)%Z (0)%Z (0)%Z (0)%Z [(280)%Z] []); 
    (mkRow (3)%Z (1)%Z (12)%Z (0)%Z (16)%Z (0)%Z (0)%Z (0)%Z (0)%Z (0)%Z (0)%Z (0)%Z [(280)%Z] []); 
    (mkRow (4)%Z (1)%Z (16)%Z (40)%Z (0)%Z (0)%Z (1)%Z (0)%Z (0)%Z (0)%Z (0)%Z (0)%Z [(280)%Z] [])]).
Definition mi_evid_other_records : minfo := (mkMinfo [((1)%Z, (1)%Z, true)] 1).

Definition w_squeeze_single : dataset :=
  (mkDs (mkSchema true false false false false false false false true true true) [
    (mkRow (0)%Z (1)%Z (0)%Z (40)%Z (0)%Z (0)%Z (0)%Z (0)%Z (0)%Z (0)%Z (0)%Z (0)%Z [(280)%Z] []); 
    (mkRow (1)%Z (1)%Z (4)%Z (0)%Z (12)%Z (0)%Z (0)%Z (0)%Z (0)%Z (0)%Z (0)%Z (0)%Z [(280)%Z] []); 
    (mkRow (2)%Z (1)%Z (8)%Z (40)%Z (0)%Z (0)%Z (0)%Z (0)%Z (0)%Z (0)%Z (0)%Z (0)%Z [(280)%Z] [])]).
Definition mi_squeeze_single : minfo := (mkMinfo [((1)%Z, (1)%Z, true)] 1).

Definition w_expand_id_order : dataset :=
  (mkDs (mkSchema true false false false false false true true true true true) [
    (mkRow (0)%Z (2)%Z (0)%Z (40)%Z (0)%Z (0)%Z (0)%Z (0)%Z (0)%Z (0)%Z (1)%Z (48)%Z [(280)%Z] []); 
    (mkRow (1)%Z (2)%Z (20)%Z (0)%Z (12)%Z (0)%Z (0)%Z (0)%Z (0)%Z (0)%Z (0)%Z (0)%Z [(280)%Z] []); 
    (mkRow (2)%Z (1)%Z (0)%Z (40)%Z (0)%Z (0)%Z (0)%Z (0)%Z (0)%Z (0)%Z (0)%Z (0)%Z [(240)%Z] []); 
    (mkRow (3)%Z (1)%Z (4)%Z (0)%Z (16)%Z (0)%Z (0)%Z (0)%Z (0)%Z (0)%Z (0)%Z (0)%Z [(240)%Z] [])]).
Definition mi_expand_id_order : minfo := (mkMinfo [((1)%Z, (1)%Z, true)] 1).

Definition w_expand_explicit_index : dataset :=
  (mkDs (mkSchema true false false false false false true true true false true) [
    (mkRow (0)%Z (1)%Z (0)%Z (40)%Z (0)%Z (0)%Z (0)%Z (0)%Z (0)%Z (0)%Z (1)%Z (48)%Z [(280)%Z] []); 
    (mkRow (1)%Z (1)%Z (20)%Z (0)%Z (12)%Z (0)%Z (0)%Z (0)%Z (0)%Z (0)%Z (0)%Z (0)%Z [(280)%Z] []); 
    (mkRow (2)%Z (1)%Z (24)%Z (40)%Z (0)%Z (0)%Z (0)%Z (0)%Z (0)%Z (0)%Z (0)%Z (0)%Z [(280)%Z] []); 
    (mkRow (3)%Z (1)%Z (28)%Z (0)%Z (16)%Z (0)%Z (0)%Z (0)%Z (0)%Z (0)%Z (0)%Z (0)%Z [(280)%Z] [])]).
Definition mi_expand_explicit_index : minfo := (mkMinfo [((1)%Z, (1)%Z, true)] 1).

Definition w_tad_reorder_tie : dataset :=
  (mkDs (mkSchema true false false false false false false false true true true) [
    (mkRow (0)%Z (1)%Z (0)%Z (40)%Z (0)%Z (0)%Z (0)%Z (0)%Z (0)%Z (0)%Z (0)%Z (0)%Z [(280)%Z] []); 
    (mkRow (1)%Z (1)%Z (20)%Z (40)%Z (0)%Z (0)%Z (0)%Z (0)%Z (0)%Z (0)%Z (0)%Z (0)%Z [(280)%Z] []); 
    (mkRow (2)%Z (1)%Z (20)%Z (0)%Z (28)%Z (0)%Z (0)%Z (0)%Z (0)%Z (0)%Z (0)%Z (0)%Z [(280)%Z] []); 
    (mkRow (3)%Z (1)%Z (24)%Z (0)%Z (32)%Z (0)%Z (0)%Z (0)%Z (0)%Z (0)%Z (0)%Z (0)%Z [(280)%Z] [])]).
Definition mi_tad_reorder_tie : minfo := (mkMinfo [((1)%Z, (1)%Z, true)] 1).

Definition w_tad_reorder_id : dataset :=
  (mkDs (mkSchema true false false false false false false false true true true) [
    (mkRow (0)%Z (2)%Z (0)%Z (40)%Z (0)%Z (0)%Z (0)%Z (0)%Z (0)%Z (0)%Z (0)%Z (0)%Z [(280)%Z] []); 
    (mkRow (1)%Z (2)%Z (20)%Z (0)%Z (4)%Z (0)%Z (0)%Z (0)%Z (0)%Z (0)%Z (0)%Z (0)%Z [(280)%Z] []); 
    (mkRow (2)%Z (1)%Z (0)%Z (40)%Z (0)%Z (0)%Z (0)%Z (0)%Z (0)%Z (0)%Z (0)%Z (0)%Z [(240)%Z] []); 
    (mkRow (3)%Z (1)%Z (20)%Z (0)%Z (28)%Z (0)%Z (0)%Z (0)%Z (0)%Z (0)%Z (0)%Z (0)%Z [(240)%Z] [])]).
Definition mi_tad_reorder_id : minfo := (mkMinfo [((1)%Z, (1)%Z, true)] 1).

Definition w_tad_reset_negative : dataset :=
  (mkDs (mkSchema true true false false false false false false true true true) [
    (mkRow (0)%Z (1)%Z (0)%Z (40)%Z (0)%Z (1)%Z (0)%Z (0)%Z (0)%Z (0)%Z (0)%Z (0)%Z [(280)%Z] []); 
    (mkRow (1)%Z (1)%Z (40)%Z (40)%Z (0)%Z (1)%Z (0)%Z (0)%Z (0)%Z (0)%Z (0)%Z (0)%Z [(280)%Z] []); 
    (mkRow (2)%Z (1)%Z (4)%Z (0)%Z (0)%Z (3)%Z (0)%Z (0)%Z (0)%Z (0)%Z (0)%Z (0)%Z [(280)%Z] []); 
    (mkRow (3)%Z (1)%Z (8)%Z (0)%Z (20)%Z (0)%Z (0)%Z (0)%Z (0)%Z (0)%Z (0)%Z (0)%Z [(280)%Z] []); 
    (mkRow (4)%Z (1)%Z (12)%Z (0)%Z (24)%Z (0)%Z (0)%Z (0)%Z (0)%Z (0)%Z (0)%Z (0)%Z [(280)%Z] [])]).
Definition mi_tad_reset_negative : minfo := (mkMinfo [((1)%Z, (1)%Z, true)] 1).

Definition w_tad_id_dtype : dataset :=
  (mkDs (mkSchema true false false false false false true true true true true) [
    (mkRow (0)%Z (1)%Z (0)%Z (40)%Z (0)%Z (0)%Z (0)%Z (0)%Z (0)%Z (0)%Z (1)%Z (48)%Z [(280)%Z] []); 
    (mkRow (1)%Z (1)%Z (20)%Z (0)%Z (12)%Z (0)%Z (0)%Z (0)%Z (0)%Z (0)%Z (0)%Z (0)%Z [(280)%Z] []); 
    (mkRow (2)%Z (1)%Z (52)%Z (0)%Z (16)%Z (0)%Z (0)%Z (0)%Z (0)%Z (0)%Z (0)%Z (0)%Z [(280)%Z] []); 
    (mkRow (3)%Z (1)%Z (120)%Z (40)%Z (0)%Z (0)%Z (0)%Z (0)%Z (0)%Z (0)%Z (0)%Z (0)%Z [(280)%Z] [])]).
Definition mi_tad_id_dtype : minfo := (mkMinfo [((1)%Z, (1)%Z, true)] 1).

Definition w_tvc_no_covariates : dataset :=
  (mkDs (mkSchema true false false false false false false false true true true) [
    (mkRow (0)%Z (1)%Z (0)%Z (40)%Z (0)%Z (0)%Z (0)%Z (0)%Z (0)%Z (0)%Z (0)%Z (0)%Z [] []); 
    (mkRow (1)%Z (1)%Z (4)%Z (0)%Z (12)%Z (0)%Z (0)%Z (0)%Z (0)%Z (0)%Z (0)%Z (0)%Z [] []); 
    (mkRow (2)%Z (1)%Z (8)%Z (0)%Z (16)%Z (0)%Z (0)%Z (0)%Z (0)%Z (0)%Z (0)%Z (0)%Z [] []); 
    (mkRow (3)%Z (1)%Z (12)%Z (40)%Z (0)%Z (0)%Z (0)%Z (0)%Z (0)%Z (0)%Z (0)%Z (0)%Z [] [])]).
Definition mi_tvc_no_covariates : minfo := (mkMinfo [((1)%Z, (1)%Z, true)] 1).

Definition w_cmt_unbound : dataset :=
  (mkDs (mkSchema true false false false true false false false true true true) [
    (mkRow (0)%Z (1)%Z (0)%Z (40)%Z (0)%Z (0)%Z (0)%Z (0)%Z (1)%Z (0)%Z (0)%Z (0)%Z [(280)%Z] []); 
    (mkRow (1)%Z (1)%Z (4)%Z (0)%Z (12)%Z (0)%Z (0)%Z (0)%Z (1)%Z (0)%Z (0)%Z (0)%Z [(280)%Z] []); 
    (mkRow (2)%Z (1)%Z (8)%Z (0)%Z (16)%Z (0)%Z (0)%Z (0)%Z (1)%Z (0)%Z (0)%Z (0)%Z [(280)%Z] []); 
    (mkRow (3)%Z (1)%Z (12)%Z (40)%Z (0)%Z (0)%Z (0)%Z (0)%Z (1)%Z (0)%Z (0)%Z (0)%Z [(280)%Z] [])]).
Definition mi_cmt_unbound : minfo := (mkMinfo [((1)%Z, (1)%Z, false)] 2).

Definition w_admid_evid4 : dataset :=
  (mkDs (mkSchema true true false true false false false false true true true) [
    (mkRow (0)%Z (1)%Z (0)%Z (40)%Z (0)%Z (1)%Z (0)%Z (1)%Z (0)%Z (0)%Z (0)%Z (0)%Z [(280)%Z] []); 
    (mkRow (1)%Z (1)%Z (4)%Z (0)%Z (12)%Z (0)%Z (0)%Z (2)%Z (0)%Z (0)%Z (0)%Z (0)%Z [(280)%Z] []); 
    (mkRow (2)%Z (1)%Z (8)%Z (40)%Z (0)%Z (4)%Z (0)%Z (2)%Z (0)%Z (0)%Z (0)%Z (0)%Z [(280)%Z] []); 
    (mkRow (3)%Z (1)%Z (12)%Z (0)%Z (16)%Z (0)%Z (0)%Z (2)%Z (0)%Z (0)%Z (0)%Z (0)%Z [(280)%Z] [])]).
Definition mi_admid_evid4 : minfo := (mkMinfo [((1)%Z, (1)%Z, false); ((2)%Z, (2)%Z, true)] 2).

Definition ann_of (d : dataset) := ann (ds_sch d) (ds_rows d).

(* formerly [1; 1; 1; 0] (`if 0 in groupind`): every individual's observation at the time of its first
   dose stays in period 1, and the witness is inside guard_doseid now *)
Example doseid_first_dose_fixed :
  guard_doseid w_doseid_first_dose = true /\ doseid_impl w_doseid_first_dose = Ok [1; 1; 1; 1]
  /\ doseid_walk w_doseid_first_dose = [1; 1; 1; 1].
Proof. repeat split; vm_compute; reflexivity. Qed.

(* tie groups ignore the reset group *)
Theorem doseid_reset_group_refuted :
  exists d, guard_doseid d = false /\ g_tie_one_reset_group (ann_of d) = false
            /\ doseid_impl d = Ok [1; 2; 1; 2; 1] /\ doseid_walk d = [1; 2; 1; 2; 2].
Proof. exists w_doseid_reset_group. repeat split; vm_compute; reflexivity. Qed.

Example doseid_reset_group_only :
  let d := w_doseid_reset_group in
  g_amt_nonneg (ds_rows d) && g_labels_range (ds_rows d) && g_chrono (ann_of d)
  && g_no_obs_between_tied_doses (ann_of d) = true.
Proof. vm_compute. reflexivity. Qed.

(* an observation between two doses of its own time point *)
Theorem doseid_obs_between_refuted :
  exists d, guard_doseid d = false /\ g_no_obs_between_tied_doses (ann_of d) = false
            /\ doseid_impl d = Ok [1; 2; 2; 3; 3] /\ doseid_walk d = [1; 2; 1; 3; 3].
Proof. exists w_doseid_obs_between_doses. repeat split; vm_compute; reflexivity. Qed.

Example doseid_obs_between_only :
  let d := w_doseid_obs_between_doses in
  g_amt_nonneg (ds_rows d) && g_labels_range (ds_rows d) && g_chrono (ann_of d)
  && g_tie_one_reset_group (ann_of d) = true.
Proof. vm_compute. reflexivity. Qed.

(* formerly KeyError('ID'): an id column called SUBJ with an event column *)
Example id_literal_fixed :
  id_named_ID (ds_sch w_id_literal) = false /\ has_evid (ds_sch w_id_literal) = true
  /\ guard_doseid w_id_literal = true /\ doseid_impl w_id_literal = Ok [1; 1; 2; 2]
  /\ doseid_walk w_id_literal = [1; 1; 2; 2]
  /\ option_map (map snd) (match tad_impl w_id_literal with Ok l => Some l | Err _ => None end) = Some [0; 4; 0; 4].
Proof. repeat split; vm_compute; reflexivity. Qed.

(* MDV=1 on a non-dose record and no EVID column: EVID 1 instead of 2 *)
Theorem evid_refuted :
  exists d, guard_evid d = false /\ map snd (evid_impl d) = [1; 0; 1; 0; 1] /\ evid_walk d = [1; 0; 2; 0; 1].
Proof. exists w_evid_other_records. repeat split; vm_compute; reflexivity. Qed.

(* formerly Scalar 12 / TypeError / AttributeError: exactly one observation *)
Example obs_single_fixed :
  obs_impl w_squeeze_single = Series [(1, 4, 12)] /\ nobs_impl w_squeeze_single = Ok 1
  /\ nobs_per_impl w_squeeze_single = Ok [(1, 1)]
  /\ obs_walk (ds_sch w_squeeze_single) (ds_rows w_squeeze_single) = [(1, 4, 12)].
Proof. repeat split; vm_compute; reflexivity. Qed.

(* descending ids and a group that had to be re-sorted: the individuals come back in ascending order *)
Theorem expand_order_refuted :
  exists d l, guard_expand_order d = false /\ g_ids_ascending (ds_rows d) = false /\ expand_impl d = Ok l
    /\ map (fun p : row * bool => r_id (fst p)) (filter (fun p => negb (snd p)) l) = [1; 1; 2; 2]
    /\ map r_id (ds_rows d) = [2; 2; 1; 1].
Proof.
  exists w_expand_id_order. eexists. split; [vm_compute; reflexivity|]. split; [vm_compute; reflexivity|].
  split; [vm_compute; reflexivity|]. split; vm_compute; reflexivity.
Qed.

(* formerly ValueError: an explicit (non-Range) index and a record with ADDL > 0 (fix 96db805) *)
Example expand_index_fixed :
  range_index (ds_sch w_expand_explicit_index) = false
  /\ option_map (map (fun p : row * bool => (r_time (fst p), snd p)))
       (match expand_impl w_expand_explicit_index with Ok l => Some l | Err _ => None end)
     = Some [(0, false); (20, false); (24, false); (28, false); (48, true)]
  /\ option_map (map snd) (match tad_impl w_expand_explicit_index with Ok l => Some l | Err _ => None end)
     = Some [0; 20; 0; 4].
Proof. repeat split; vm_compute; reflexivity. Qed.

(* formerly the observation tied with the second dose was moved before it (fix 8de2b00): the records
   keep their order, the moved observation has the time since the PRECEDING dose *)
Example tad_reorder_tie_fixed :
  guard_tad_frame w_tad_reorder_tie = false
  /\ option_map (map (fun p : row * Z => (r_amt (fst p), snd p)))
       (match tad_impl w_tad_reorder_tie with Ok l => Some l | Err _ => None end)
     = Some [(40, 0); (40, 0); (0, 20); (0, 4)]
  /\ map r_amt (ds_rows w_tad_reorder_tie) = [40; 40; 0; 0]
  /\ tad_walk w_tad_reorder_tie = [0; 0; 20; 4].
Proof. repeat split; vm_compute; reflexivity. Qed.

(* formerly the individuals came back in ascending id order *)
Example tad_reorder_id_fixed :
  g_ids_ascending (ds_rows w_tad_reorder_id) = false
  /\ option_map (map (fun p : row * Z => (r_id (fst p), snd p)))
       (match tad_impl w_tad_reorder_id with Ok l => Some l | Err _ => None end)
     = Some [(2, 0); (2, 20); (1, 0); (1, 20)].
Proof. repeat split; vm_compute; reflexivity. Qed.

(* a reset event with restarted time: negative time after dose *)
Theorem tad_negative_refuted :
  exists d out, guard_tad_chrono d = false /\ tad_impl d = Ok out /\ map snd out = [0; 0; -36; -32; -28].
Proof. exists w_tad_reset_negative. eexists. split; [vm_compute; reflexivity|]. split; vm_compute; reflexivity. Qed.

(* formerly float64: with ADDL/II the id column keeps its dtype (fix 64ec1fd) *)
Example tad_id_dtype_fixed :
  id_is_int (ds_sch w_tad_id_dtype) = true /\ expand_id_is_int w_tad_id_dtype = true
  /\ match tad_impl w_tad_id_dtype with Ok _ => true | Err _ => false end = true.
Proof. repeat split; vm_compute; reflexivity. Qed.

(* formerly IndexError: no covariate column *)
Example tvc_no_covariates_fixed : tvc_impl 0 w_tvc_no_covariates = Ok [] /\ tvc_walk 0 w_tvc_no_covariates = [].
Proof. split; reflexivity. Qed.

(* formerly UnboundLocalError: admid column, central compartment without a dose (fix 53e373d) *)
Example cmt_unbound_fixed :
  existsb (fun c : Z * Z * bool => snd c) (mi_dosing mi_cmt_unbound) = false
  /\ option_map (map snd) (match cmt_impl mi_cmt_unbound w_cmt_unbound with Ok l => Some l | Err _ => None end)
     = Some [1; 2; 2; 1].
Proof. split; vm_compute; reflexivity. Qed.

(* formerly [1; 1; 1; 1]: EVID=4 (reset and dose) is a dose event (fix 1fa817f) *)
Example admid_evid4_fixed :
  existsb (fun v => v =? 4) (evid_walk w_admid_evid4) = true
  /\ option_map (map snd) (match admid_impl mi_admid_evid4 w_admid_evid4 with Ok l => Some l | Err _ => None end)
     = Some [1; 1; 2; 2]
  /\ admid_ref mi_admid_evid4 w_admid_evid4 = Ok [1; 1; 2; 2].
Proof. repeat split; vm_compute; reflexivity. Qed.
