(* PV.C14.ProofsMisc — time-varying covariates, observation counts per individual, administration ids. *)
From Coq Require Import ZArith List Bool Lia Permutation.
From PV Require Import C14.Model C14.Proofs C14.ProofsDoseid C14.ProofsExpand.
Import ListNotations.
Local Open Scope Z_scope.


(* ------------------------------------------------------------------ time varying covariates *)
Lemma in_distinctz x l : In x (distinctz l) <-> In x l.
Proof.
  induction l as [|y l IH]; [tauto|]. cbn [distinctz]. destruct (existsb (Z.eqb y) l) eqn:E.
  - rewrite IH. cbn [In]. split; [tauto|]. intros [<-|H]; [|exact H].
    apply existsb_exists in E. destruct E as [z [Hz Ez]]. apply Z.eqb_eq in Ez. subst. exact Hz.
  - cbn [In]. rewrite IH. tauto.
Qed.

Lemma distinctz_two l : Nat.ltb 1 (length (distinctz l)) = true <-> exists a b, In a l /\ In b l /\ a <> b.
Proof.
  split.
  - intros H. apply Nat.ltb_lt in H.
    assert (ND : NoDup (distinctz l)).
    { clear H. induction l as [|y l IH]; [constructor|]. cbn [distinctz]. destruct (existsb (Z.eqb y) l) eqn:E; [exact IH|].
      constructor; [|exact IH]. rewrite in_distinctz. intro Hy.
      assert (existsb (Z.eqb y) l = true); [|congruence]. apply existsb_exists. exists y. split; [exact Hy | apply Z.eqb_refl]. }
    destruct (distinctz l) as [|a [|b m]] eqn:E; cbn [length] in H; try lia.
    exists a, b. split; [apply in_distinctz; rewrite E; left; reflexivity|].
    split; [apply in_distinctz; rewrite E; right; left; reflexivity|].
    inversion ND as [|? ? Hn _]. subst. intro. subst. apply Hn. left. reflexivity.
  - intros [a [b [Ha [Hb Hne]]]]. apply Nat.ltb_lt.
    apply in_distinctz in Ha, Hb.
    destruct (distinctz l) as [|x [|y m]]; [destruct Ha | | cbn; lia].
    destruct Ha as [<-|[]]. destruct Hb as [<-|[]]. congruence.
Qed.

Definition varies (j : nat) (rows : list row) : Prop :=
  exists x y, In x rows /\ In y rows /\ r_id x = r_id y /\ nth_cov j x <> nth_cov j y.

Lemma tvc_impl_varies j rows :
  existsb (fun k => Nat.ltb 1 (length (distinctz (map (nth_cov j) (filter (fun r => r_id r =? k) rows)))))
          (skeys (map r_id rows)) = true <-> varies j rows.
Proof.
  rewrite existsb_exists. split.
  - intros [k [_ H]]. apply distinctz_two in H. destruct H as [a [b [Ha [Hb Hne]]]].
    apply in_map_iff in Ha, Hb. destruct Ha as [x [<- Hx]]. destruct Hb as [y [<- Hy]].
    apply filter_In in Hx, Hy. destruct Hx as [Hx Ex]. destruct Hy as [Hy Ey]. apply Z.eqb_eq in Ex, Ey.
    exists x, y. repeat split; auto. congruence.
  - intros [x [y [Hx [Hy [Hi Hne]]]]]. exists (r_id x). split; [apply In_skeys; apply in_map; exact Hx|].
    apply distinctz_two. exists (nth_cov j x), (nth_cov j y). repeat split; auto.
    + apply in_map. apply filter_In. split; [exact Hx | apply Z.eqb_refl].
    + apply in_map. apply filter_In. split; [exact Hy | apply Z.eqb_eq; congruence].
Qed.

(* the walk: st remembers the covariate value of the first record of every individual met so far,
   and every record met so far agrees with it *)
Lemma tvc_walk_varies j rows : forall st seen,
  (forall i v, lookup i st = Some v <-> exists x, In x seen /\ r_id x = i /\ nth_cov j x = v) ->
  (forall x y, In x seen -> In y seen -> r_id x = r_id y -> nth_cov j x = nth_cov j y) ->
  (tvc_walk_j j st rows = true <-> varies j (seen ++ rows)).
Proof.
  induction rows as [|r rows IH]; intros st seen Hst Hag.
  - cbn [tvc_walk_j]. rewrite app_nil_r. split; [discriminate|].
    intros [x [y [Hx [Hy [Hi Hne]]]]]. exfalso. apply Hne. apply Hag; assumption.
  - cbn [tvc_walk_j]. destruct (lookup (r_id r) st) as [v0|] eqn:El.
    + destruct (nth_cov j r =? v0) eqn:Ev; cbn [negb orb].
      * apply Z.eqb_eq in Ev.
        assert (K : tvc_walk_j j st rows = true <-> varies j ((seen ++ [r]) ++ rows)).
        { apply IH.
          - intros i v. rewrite Hst. split.
            + intros [x [Hx H]]. exists x. split; [apply in_or_app; left; exact Hx | exact H].
            + intros [x [Hx [Hi Hv]]]. apply in_app_or in Hx. destruct Hx as [Hx|[<-|[]]]; [exists x; auto|].
              subst i v. apply Hst. rewrite El, Ev. reflexivity.
          - apply Hst in El. destruct El as [z [Hz [Hzi Hzv]]].
            intros x y Hx Hy Hi. apply in_app_or in Hx, Hy.
            destruct Hx as [Hx|[<-|[]]]; destruct Hy as [Hy|[<-|[]]]; auto.
            + rewrite Ev, <- Hzv. apply Hag; auto. congruence.
            + rewrite Ev, <- Hzv. symmetry. apply Hag; auto. congruence. }
        rewrite <- app_assoc in K. exact K.
      * apply Z.eqb_neq in Ev. split; [intros _|reflexivity].
        apply Hst in El. destruct El as [z [Hz [Hzi Hzv]]].
        exists r, z. split; [apply in_or_app; right; left; reflexivity|].
        split; [apply in_or_app; left; exact Hz|]. split; [congruence | congruence].
    + assert (K : tvc_walk_j j ((r_id r, nth_cov j r) :: st) rows = true <-> varies j ((seen ++ [r]) ++ rows)).
      { apply IH.
        - intros i v. cbn [lookup]. destruct (r_id r =? i) eqn:Ei.
          + apply Z.eqb_eq in Ei. split.
            * intros H. injection H as <-. exists r. split; [apply in_or_app; right; left; reflexivity | auto].
            * intros [x [Hx [Hi Hv]]]. apply in_app_or in Hx. destruct Hx as [Hx|[<-|[]]]; [|congruence].
              exfalso. assert (lookup i st = Some v) by (apply Hst; exists x; auto). congruence.
          + apply Z.eqb_neq in Ei. rewrite Hst. split.
            * intros [x [Hx H]]. exists x. split; [apply in_or_app; left; exact Hx | exact H].
            * intros [x [Hx [Hi Hv]]]. apply in_app_or in Hx. destruct Hx as [Hx|[<-|[]]]; [exists x; auto | congruence].
        - intros x y Hx Hy Hi. apply in_app_or in Hx, Hy.
          destruct Hx as [Hx|[<-|[]]]; destruct Hy as [Hy|[<-|[]]]; auto.
          + exfalso. assert (lookup (r_id r) st = Some (nth_cov j x)) by (apply Hst; exists x; auto). congruence.
          + exfalso. assert (lookup (r_id r) st = Some (nth_cov j y)) by (apply Hst; exists y; auto). congruence. }
      rewrite <- app_assoc in K. exact K.
Qed.

Lemma bool_iff (a b : bool) : (a = true <-> b = true) -> a = b.
Proof. destruct a, b; intros [H1 H2]; try reflexivity; [symmetry; apply H1; reflexivity | apply H2; reflexivity]. Qed.

Lemma tvc_spec_lemma ncov d : tvc_impl ncov d = Ok (tvc_walk ncov d).
Proof.
  unfold tvc_impl, tvc_walk. destruct ncov as [|n]; [reflexivity|]. f_equal.
  apply map_ext. intros j. apply bool_iff. rewrite tvc_impl_varies.
  rewrite (tvc_walk_varies j (ds_rows d) [] []).
  - reflexivity.
  - intros i v. cbn [lookup]. split; [discriminate | intros [x [[] _]]].
  - intros x y [].
Qed.

(* ------------------------------------------------------------------ observation counts *)

Lemma asc_ext a : forall b, asc a -> asc b -> (forall x, In x a <-> In x b) -> a = b.
Proof.
  induction a as [|x a IH]; intros b Ha Hb H.
  - destruct b as [|y b]; [reflexivity|]. destruct (proj2 (H y) (or_introl eq_refl)).
  - destruct b as [|y b]; [destruct (proj1 (H x) (or_introl eq_refl))|].
    destruct Ha as [Ha1 Ha2]. destruct Hb as [Hb1 Hb2].
    assert (x = y).
    { destruct (proj1 (H x) (or_introl eq_refl)) as [E|Hx]; [congruence|].
      destruct (proj2 (H y) (or_introl eq_refl)) as [E|Hy]; [congruence|].
      specialize (Ha1 y Hy). specialize (Hb1 x Hx). lia. }
    subst y. f_equal. apply IH; auto. intros z. split; intros Hz.
    + destruct (proj1 (H z) (or_intror Hz)) as [E|Hz']; [|exact Hz']. subst z. specialize (Ha1 x Hz). lia.
    + destruct (proj2 (H z) (or_intror Hz)) as [E|Hz']; [|exact Hz']. subst z. specialize (Hb1 x Hz). lia.
Qed.

Definition is_obs (s : schema) (r : row) : bool := rec_mdv s r =? 0.
Definition nobs_of (s : schema) (k : Z) (rows : list row) : Z :=
  Z.of_nat (length (filter (fun r => is_obs s r && (r_id r =? k)) rows)).

Lemma nobs_of_nonneg s k rows : 0 <= nobs_of s k rows.
Proof. unfold nobs_of. lia. Qed.

Lemma nobs_of_cons s k r rows :
  nobs_of s k (r :: rows) = (if is_obs s r && (r_id r =? k) then 1 else 0) + nobs_of s k rows.
Proof. unfold nobs_of. cbn [filter]. destruct (is_obs s r && (r_id r =? k)); cbn [length]; lia. Qed.

Lemma count_walk_lookup s rows : forall st k,
  lookup k (count_walk s st rows)
  = if nobs_of s k rows =? 0 then lookup k st
    else Some (match lookup k st with Some n => n | None => 0 end + nobs_of s k rows).
Proof.
  induction rows as [|r rows IH]; intros st k; [reflexivity|].
  cbn [count_walk]. rewrite nobs_of_cons. unfold is_obs.
  assert (H := nobs_of_nonneg s k rows).
  destruct (rec_mdv s r =? 0) eqn:E; cbn [andb].
  - rewrite IH. cbn [lookup]. destruct (r_id r =? k) eqn:Ek.
    + apply Z.eqb_eq in Ek. subst k.
      assert (1 + nobs_of s (r_id r) rows =? 0 = false) as -> by (apply Z.eqb_neq; lia).
      destruct (nobs_of s (r_id r) rows =? 0) eqn:E0.
      * apply Z.eqb_eq in E0. rewrite E0. destruct (lookup (r_id r) st); f_equal; lia.
      * destruct (lookup (r_id r) st); f_equal; lia.
    + reflexivity.
  - rewrite IH. reflexivity.
Qed.

Lemma count_walk_keys s rows : forall st k,
  In k (map fst (count_walk s st rows)) <-> In k (map fst st) \/ nobs_of s k rows <> 0.
Proof.
  induction rows as [|r rows IH]; intros st k.
  - cbn [count_walk]. unfold nobs_of. cbn. intuition.
  - cbn [count_walk]. rewrite nobs_of_cons. unfold is_obs. assert (H := nobs_of_nonneg s k rows).
    destruct (rec_mdv s r =? 0) eqn:E; cbn [andb].
    + rewrite IH. cbn [map fst In]. destruct (r_id r =? k) eqn:Ek.
      * apply Z.eqb_eq in Ek. split; [intros _; right; lia | intros _; left; left; exact Ek].
      * apply Z.eqb_neq in Ek. tauto.
    + rewrite IH. tauto.
Qed.

Lemma obs_walk_ids s rows k :
  filter (fun o : Z * Z * Z => fst (fst o) =? k) (obs_walk s rows)
  = map (fun r => (r_id r, r_time r, r_dv r)) (filter (fun r => is_obs s r && (r_id r =? k)) rows).
Proof.
  induction rows as [|r rows IH]; [reflexivity|]. cbn [obs_walk filter]. unfold is_obs at 1.
  destruct (rec_mdv s r =? 0); cbn [andb filter fst]; [|exact IH].
  destruct (r_id r =? k); cbn [map]; rewrite IH; reflexivity.
Qed.

Lemma obs_walk_id_in s rows k : In k (map (fun o : Z * Z * Z => fst (fst o)) (obs_walk s rows)) <-> nobs_of s k rows <> 0.
Proof.
  unfold nobs_of. split.
  - intros H. apply in_map_iff in H. destruct H as [o [Ho Hin]].
    assert (In o (filter (fun o : Z * Z * Z => fst (fst o) =? k) (obs_walk s rows))) by (apply filter_In; split; [exact Hin | apply Z.eqb_eq; exact Ho]).
    rewrite obs_walk_ids in H. destruct (filter _ rows); [destruct H | cbn [length]; lia].
  - intros H. destruct (filter (fun r => is_obs s r && (r_id r =? k)) rows) as [|r m] eqn:E; [cbn in H; lia|].
    assert (In r (filter (fun r => is_obs s r && (r_id r =? k)) rows)) by (rewrite E; left; reflexivity).
    assert (In (r_id r, r_time r, r_dv r) (filter (fun o : Z * Z * Z => fst (fst o) =? k) (obs_walk s rows))).
    { rewrite obs_walk_ids. apply (in_map (fun r => (r_id r, r_time r, r_dv r))). exact H0. }
    apply filter_In in H1. destruct H1 as [H1 H2]. apply Z.eqb_eq in H2. cbn [fst] in H2.
    apply in_map_iff. exists (r_id r, r_time r, r_dv r). split; [exact H2 | exact H1].
Qed.

Lemma concat_map_singleton {A B} (f : A -> B) l : map f l = concat (map (fun k => [f k]) l).
Proof. induction l as [|k ks IH]; [reflexivity|]. cbn [map concat app]. f_equal. exact IH. Qed.

Lemma nobs_per_spec_lemma d : nobs_per_impl d = Ok (nobs_per_walk d).
Proof.
  unfold nobs_per_impl. rewrite (obs_spec_lemma d). f_equal. unfold nobs_per_walk.
  set (s := ds_sch d). set (rows := ds_rows d).
  assert (Ek : skeys (map fst (count_walk s [] rows)) = skeys (map (fun o : Z * Z * Z => fst (fst o)) (obs_walk s rows))).
  { apply asc_ext; try apply asc_skeys. intros k. rewrite !In_skeys, count_walk_keys, obs_walk_id_in. cbn. tauto. }
  rewrite Ek. rewrite flat_map_concat_map.
  rewrite (map_ext_in _ (fun k => [(k, Z.of_nat (length (filter (fun o : Z * Z * Z => fst (fst o) =? k) (obs_walk s rows))))])).
  - apply (concat_map_singleton (fun k => (k, Z.of_nat (length (filter (fun o : Z * Z * Z => fst (fst o) =? k) (obs_walk s rows)))))).
  - intros k Hk. rewrite !In_skeys in Hk. apply obs_walk_id_in in Hk.
    rewrite count_walk_lookup. cbn [lookup]. apply Z.eqb_neq in Hk. rewrite Hk.
    rewrite obs_walk_ids, map_length. reflexivity.
Qed.

(* ------------------------------------------------------------------ administration ids *)

(* since fix 1fa817f the loop of get_admid is the reference walk: EVID 1 and 4 are dose events *)
Lemma admid_loop_walk l : forall cs ca, admid_loop cs ca l = admid_walk_from cs ca l.
Proof.
  induction l as [|[[ev a] sub] l IH]; intros cs ca; [reflexivity|]. cbn [admid_loop admid_walk_from].
  destruct (cs =? sub); [destruct ((ev =? 1) || (ev =? 4))|]; rewrite IH; reflexivity.
Qed.

(* get_admid = the admid of the latest dose event (EVID 1 or 4) carried forward, when EVID is what
   NM-TRAN would supply *)
Lemma admid_spec_lemma mi d cmt ref :
  has_admid (ds_sch d) = false ->
  match ds_rows d with r0 :: _ => r_lab r0 = 0 | [] => False end ->
  guard_evid d = true ->
  cmt_impl mi d = Ok cmt -> admid_ref mi d = Ok ref ->
  admid_impl mi d = Ok (combine (map fst cmt) ref).
Proof.
  intros Ha H0 Ge Ec Er. unfold admid_impl, admid_ref in *. rewrite Ha. rewrite Ec in *.
  rewrite (evid_spec_lemma d Ge).
  destruct (ds_rows d) as [|r0 rows] eqn:Erows; [destruct H0|]. rewrite H0.
  destruct (map (fun lv : Z * Z => zreplace _ (snd lv)) cmt) as [|a0 adm] eqn:Eadm.
  - (* cmt is as long as the rows: impossible *)
    exfalso. unfold cmt_impl in Ec. rewrite Ha in Ec.
    assert (length cmt = length (ds_rows d)) as L.
    { destruct (has_cmt (ds_sch d)).
      - injection Ec as <-. rewrite map_length. reflexivity.
      - cbn [negb] in Ec. injection Ec as <-. rewrite map_length. unfold evid_impl, mdv_impl.
        destruct (has_evid (ds_sch d)); [apply map_length|]. destruct (mdv_col (ds_sch d)); [apply map_length|].
        rewrite combine_length, map_length. clear. generalize 0. induction (ds_rows d); intros k; cbn; [reflexivity|]. rewrite IHl. lia. }
    rewrite Erows in L. apply (f_equal (@length Z)) in Eadm. rewrite map_length in Eadm. cbn in *. lia.
  - cbn [Z.eqb negb]. injection Er as <-. rewrite admid_loop_walk. reflexivity.
Qed.
