(* PV.C14.Properties — the property theorems of C14 and nothing else.
   Quantities are integers in units of 1/scale (see Model.v); `set_lab r 0` forgets the index label. *)
From Coq Require Import ZArith List Bool Permutation.
From PV Require Import C14.Model C14.Proofs C14.ProofsDoseid C14.ProofsExpand C14.ProofsTad C14.ProofsMisc C14.ProofsTadWalk C14.ProofsExtend C14.ProofsExtend2 C14.ProofsExtend3.
Import ListNotations.
Local Open Scope Z_scope.

(* get_mdv = the record-by-record rule (MDV item, else EVID item, else AMT item non-zero), for every
   dataset and every combination of typed columns. *)
Theorem mdv_spec : forall d : dataset, map snd (mdv_impl d) = mdv_walk d.
Proof. exact mdv_spec_lemma. Qed.

(* ... and the returned Series carries the labels of the frame whenever one of the columns exists *)
Theorem mdv_labels : forall d : dataset,
  mdv_col (ds_sch d) <> None -> map fst (mdv_impl d) = map r_lab (ds_rows d).
Proof. exact mdv_labels_lemma. Qed.

(* get_evid = the EVID item, or the value NM-TRAN supplies for a missing one (dose 1, other 2,
   observation 0) — when MDV marks exactly the dose records (guard_evid; see evid_refuted). *)
Theorem evid_spec : forall d : dataset, guard_evid d = true -> map snd (evid_impl d) = evid_walk d.
Proof. exact evid_spec_lemma. Qed.

(* get_observations / get_number_of_observations / get_doses = the records the walk classifies as
   observations / doses, in order — for every dataset (since fix 84913ce also with exactly one
   observation / dose; Refuted.obs_single_fixed). *)
Theorem obs_spec : forall d : dataset, obs_impl d = Series (obs_walk (ds_sch d) (ds_rows d)).
Proof. exact obs_spec_lemma. Qed.

Theorem nobs_spec : forall d : dataset,
  nobs_impl d = Ok (Z.of_nat (length (obs_walk (ds_sch d) (ds_rows d)))).
Proof. exact nobs_spec_lemma. Qed.

Theorem doses_spec : forall d : dataset,
  has_dose (ds_sch d) = true -> doses_impl d = Ok (Series (doses_walk (ds_rows d))).
Proof. exact doses_spec_lemma. Qed.

(* get_number_of_observations_per_individual = the table of the counting walk (ascending ids that have
   an observation, with their counts) *)
Theorem nobs_per_spec : forall d : dataset, nobs_per_impl d = Ok (nobs_per_walk d).
Proof. exact nobs_per_spec_lemma. Qed.

(* list_time_varying_covariates (nunique > 1 in some id group) = some record differs from the first
   record of its individual — for any number of covariate columns, none included (fix 81d9761) *)
Theorem tvc_spec : forall (ncov : nat) (d : dataset), tvc_impl ncov d = Ok (tvc_walk ncov d).
Proof. exact tvc_spec_lemma. Qed.

(* get_admid (no admid column) = the admid implied by each record's compartment, carried forward from
   the latest dose event (EVID 1 or 4, fix 1fa817f) of the subject's block — when EVID is what NM-TRAN
   would supply (guard_evid) *)
Theorem admid_spec : forall (mi : minfo) (d : dataset) (cmt : list (Z * Z)) (ref : list Z),
  has_admid (ds_sch d) = false ->
  match ds_rows d with r0 :: _ => r_lab r0 = 0 | [] => False end ->
  guard_evid d = true ->
  cmt_impl mi d = Ok cmt -> admid_ref mi d = Ok ref ->
  admid_impl mi d = Ok (combine (map fst cmt) ref).
Proof. exact admid_spec_lemma. Qed.

(* get_baselines = the first record met for each individual, in order of first appearance *)
Theorem baselines_spec : forall d : dataset, baselines_impl d = baselines_walk [] (ds_rows d).
Proof. exact baselines_spec_lemma. Qed.

(* get_doseid (cumsum of dose flags per individual, reset groups, the loop over the non-unique
   (ID, TIME, reset group) keys with its index-label and `DOSEID <= 1` tests) computes exactly the dose
   periods of the per-individual chronological walk, for every dataset (any number of individuals and
   records, ids contiguous or not, any name of the id column) that meets guard_doseid:
     input domain  — a dose column, AMT >= 0, default index 0..n-1, records chronological within a reset group;
     code defects  — no time value shared by two reset groups of an individual; no observation between
                     two dose records of its own time point (one _refuted theorem each in Refuted.v).
   The conjuncts g_id_named and g_no_tie_after_first_dose of the first version are gone with the fixes
   f3d3785 and 0ec2f84: ties with an individual's first dose are covered by the theorem now. *)
Theorem doseid_refines : forall d : dataset, guard_doseid d = true -> doseid_impl d = Ok (doseid_walk d).
Proof. exact doseid_refines_lemma. Qed.

(* expand_additional_doses only rearranges the exploded records (every record addl+1 times, the
   copies at time + k*ii): nothing is lost or invented, whatever pandas' group order does. *)
Theorem expand_rearranges : forall (s : schema) (rows : list row),
  Permutation (expand_core s rows) (map fst (exploded s rows)).
Proof. exact expand_core_perm. Qed.

(* ... hence the total administered amount: sum of AMT over the expanded frame = sum of (ADDL+1)*AMT *)
Theorem expand_total_amount : forall (d : dataset) (l : list (row * bool)),
  has_addl (ds_sch d) && has_ii (ds_sch d) = true -> g_addl_nonneg (ds_rows d) = true ->
  expand_impl d = Ok l ->
  zsum (map (fun p : row * bool => r_amt (fst p)) l) = zsum (map (fun r => (r_addl r + 1) * r_amt r) (ds_rows d)).
Proof. exact expand_total_amount_lemma. Qed.

Theorem expand_noop : forall d : dataset,
  has_addl (ds_sch d) && has_ii (ds_sch d) = false -> expand_impl d = Ok (map (fun r => (r, false)) (ds_rows d)).
Proof. exact expand_noop_lemma. Qed.

(* the original records are the records not flagged EXPANDED, in their original order and with all
   their fields (up to the new index labels) — for any index of the dataset (fix 96db805), when the
   individuals are in ascending id order and each (individual, reset group) is chronological
   (guard_expand_order; expand_order_refuted shows the reordering for descending ids) *)
Theorem expand_keeps_originals : forall (d : dataset) (l : list (row * bool)),
  guard_expand_order d = true -> expand_impl d = Ok l ->
  map (fun p : row * bool => set_lab (fst p) 0) (filter (fun p => negb (snd p)) l)
  = map (fun r => set_lab r 0) (ds_rows d).
Proof. exact expand_keeps_originals_lemma. Qed.

(* time after dose is zero at every dose record — all datasets on which the function returns *)
Theorem tad_zero_at_dose : forall (d : dataset) (out : list (row * Z)),
  tad_impl d = Ok out -> forall p, In p out -> 0 < r_amt (fst p) -> snd p = 0.
Proof. exact tad_zero_at_dose_lemma. Qed.

(* ... and never negative when, in the frame whose DOSEID is taken (the expanded frame when there is
   an ADDL column), every individual's records are in chronological order (tad_negative_refuted:
   a reset event with restarted time) *)
Theorem tad_nonneg : forall (d : dataset) (out : list (row * Z)),
  guard_tad_chrono d = true -> tad_impl d = Ok out -> forall p, In p out -> 0 <= snd p.
Proof. exact tad_nonneg_lemma. Qed.

(* adding the TAD column keeps the frame: the records of the result are the unexpanded records of the
   working frame, in order, all fields unchanged — for EVERY dataset on which the function returns
   (since fix 8de2b00 the frame is sorted back by the remembered position; guard_tad_frame is gone) ... *)
Theorem tad_frame_kept : forall (d : dataset) (out : list (row * Z)), tad_impl d = Ok out ->
  exists fr, tad_frame d = Ok fr
    /\ map (fun p : row * Z => set_lab (fst p) 0) out
       = map (fun p : row * bool => set_lab (fst p) 0) (filter (fun p => negb (snd p)) fr).
Proof. exact tad_frame_kept_lemma. Qed.

(* ... which are the records of the input dataset (with ADDL: when the expansion keeps them in order) *)
Theorem add_column_frame : forall (d : dataset) (out : list (row * Z)), tad_impl d = Ok out ->
  has_addl (ds_sch d) = false \/ guard_expand_order d = true ->
  map (fun p : row * Z => set_lab (fst p) 0) out = map (fun r => set_lab r 0) (ds_rows d).
Proof. exact add_column_frame_lemma. Qed.

(* add_time_after_dose = the per-individual walk (time since the latest dose record; before the first
   dose, since the individual's first record) for datasets without an ADDL column, when get_doseid
   refines its walk and no DOSEID is out of order (guard_tad_frame: no observation counted towards the
   preceding dose; for those the statement is checked by the oracle only — Refuted.tad_reorder_tie_fixed
   is an instance).  With ADDL the walk would have to generate the implicit doses (oracle only). *)
Theorem tad_refines : forall d : dataset,
  has_addl (ds_sch d) = false -> guard_doseid d = true -> guard_tad_frame d = true ->
  exists out, tad_impl d = Ok out /\ map snd out = tad_walk d.
Proof. exact tad_refines_lemma. Qed.

(* ---------------------------------------------------------------- extensions *)
(* expand_additional_doses, arithmetic: up to the order and the new index labels, the expanded frame
   consists exactly of the implied doses of every record — dose k at TIME + k*II for k = 0..ADDL, every
   other field (AMT, CMT, SS, covariates, ...) as in the record, flagged EXPANDED for k > 0. *)
Theorem expand_times_amounts : forall (d : dataset) (l : list (row * bool)),
  has_addl (ds_sch d) && has_ii (ds_sch d) = true -> g_addl_nonneg (ds_rows d) = true ->
  expand_impl d = Ok l ->
  Permutation (map unlab_e l) (map unlab_e (flat_map implied (ds_rows d))).
Proof. exact expand_times_amounts_lemma. Qed.

(* add_time_after_dose = the per-individual walk over the WORKING FRAME, for datasets with or without
   ADDL: with an ADDL column the frame is the expanded one (its records are the implied doses above), and
   the TAD of every original record is the walk's value at that record — when get_doseid refines its
   walk on the frame and no DOSEID is out of order there (guard_tad_frame). *)
Theorem tad_refines_frame : forall (d : dataset) (fr : list (row * bool)), tad_frame d = Ok fr ->
  guard_doseid (with_rows d (map fst fr) true) = true -> guard_tad_frame d = true ->
  exists out, tad_impl d = Ok out
    /\ map snd out = map snd (filter (fun p : (row * bool) * Z => negb (snd (fst p)))
                                    (combine fr (tad_walk (with_rows d (map fst fr) true)))).
Proof. exact tad_refines_frame_lemma. Qed.

(* get_ids / get_number_of_individuals = the individuals in the order the walk meets them *)
Theorem ids_spec : forall d : dataset, ids_impl d = ids_walk d.
Proof. exact ids_spec_lemma. Qed.

Theorem nind_spec : forall d : dataset, nind_impl d = Z.of_nat (length (ids_walk d)).
Proof. exact nind_spec_lemma. Qed.

(* get_covariate_baselines = the covariates of the first record of every individual *)
Theorem covbase_spec : forall (ncov : nat) (d : dataset), ncov <> O -> covbase_impl ncov d = Ok (covbase_walk d).
Proof. exact covbase_spec_lemma. Qed.

(* add_cmt / add_admid (add_column_frame for these two): every record, every other field and the order
   are kept, the new column is what get_cmt / get_admid return, and nothing happens when the column
   exists — for every dataset on which the function returns *)
Theorem add_cmt_frame : forall (mi : minfo) (d : dataset) (rows' : list row), add_cmt_impl mi d = Ok rows' ->
  map (fun r => set_cmt r 0) rows' = map (fun r => set_cmt r 0) (ds_rows d)
  /\ (has_cmt (ds_sch d) = true -> rows' = ds_rows d)
  /\ (has_cmt (ds_sch d) = false -> exists cmt, cmt_impl mi d = Ok cmt /\ map r_cmt rows' = map snd cmt).
Proof. exact add_cmt_frame_lemma. Qed.

Theorem add_admid_frame : forall (mi : minfo) (d : dataset) (rows' : list row), add_admid_impl mi d = Ok rows' ->
  map (fun r => set_admid r 0) rows' = map (fun r => set_admid r 0) (ds_rows d)
  /\ (has_admid (ds_sch d) = true -> rows' = ds_rows d)
  /\ (has_admid (ds_sch d) = false -> exists adm, admid_impl mi d = Ok adm /\ map r_admid rows' = map snd adm).
Proof. exact add_admid_frame_lemma. Qed.

(* ---------------------------------------------------------------- second extension round *)
(* add_time_after_dose = the per-individual walk over the working frame under ONE guard: get_doseid's
   guard on that frame (guard_tad_walk; the expanded frame when there is an ADDL column).  No hypothesis on
   the order of the DOSEIDs: an observation counted towards the preceding dose — recorded at the time of
   a dose after it, or at the time of an implied ADDL dose — gets the time since that preceding dose,
   exactly as the walk does (tad_refines_frame and tad_refines are instances). *)
Theorem tad_refines_full : forall d : dataset, guard_tad_walk d = true ->
  exists fr out, tad_frame d = Ok fr /\ tad_impl d = Ok out
    /\ map snd out = map snd (filter (fun p : (row * bool) * Z => negb (snd (fst p)))
                                    (combine fr (tad_walk (with_rows d (map fst fr) true)))).
Proof. exact tad_refines_full_lemma. Qed.

(* without an ADDL column the frame is the dataset: the TAD column is the walk's, under guard_doseid alone *)
Theorem tad_refines_noaddl : forall d : dataset, has_addl (ds_sch d) = false -> guard_doseid d = true ->
  exists out, tad_impl d = Ok out /\ map snd out = tad_walk d.
Proof. exact tad_refines_noaddl_lemma. Qed.

(* list_time_varying_covariates is exact: the j-th covariate column is listed if and only if some
   individual has two records with different values of it *)
Theorem tvc_exact : forall (ncov : nat) (d : dataset) (l : list bool), tvc_impl ncov d = Ok l ->
  length l = ncov /\ forall j, (j < ncov)%nat -> (nth j l false = true <-> varies j (ds_rows d)).
Proof. exact tvc_exact_lemma. Qed.

(* get_observations(keep_index=True) = the DV of the observation records under their index labels *)
Theorem obs_keep_spec : forall d : dataset, obs_keep_impl d = obs_keep_walk (ds_sch d) (ds_rows d).
Proof. exact obs_keep_spec_lemma. Qed.

(* ---------------------------------------------------------------- round 4 *)
(* expand_additional_doses with the DEFAULT flag=False (ADDL, II and EXPANDED columns dropped): for every
   dataset with an ADDL/II pair and ADDL >= 0 its records are, up to order and the new index labels, exactly
   the implied doses of every record (dose k at TIME + k*II, k = 0..ADDL) with every remaining field kept;
   it is the flag=True frame with the three columns removed (same records, same order); the total
   administered amount is sum (ADDL+1)*AMT; without an ADDL/II pair the model is returned as it is. *)
Theorem expand_noflag_spec : forall (d : dataset) (l : list row),
  has_addl (ds_sch d) && has_ii (ds_sch d) = true -> g_addl_nonneg (ds_rows d) = true ->
  expand_noflag_impl d = Ok l ->
  Permutation (map (fun r => set_lab r 0) l)
              (map (fun p : row * bool => set_lab (drop_addl_ii (fst p)) 0) (flat_map implied (ds_rows d))).
Proof. exact expand_noflag_spec_lemma. Qed.

Theorem expand_noflag_flag : forall (d : dataset) (l : list row),
  has_addl (ds_sch d) && has_ii (ds_sch d) = true -> expand_noflag_impl d = Ok l ->
  exists lf, expand_impl d = Ok lf /\ l = map (fun p : row * bool => drop_addl_ii (fst p)) lf.
Proof. exact expand_noflag_flag_lemma. Qed.

Theorem expand_noflag_amount : forall (d : dataset) (l : list row),
  has_addl (ds_sch d) && has_ii (ds_sch d) = true -> g_addl_nonneg (ds_rows d) = true ->
  expand_noflag_impl d = Ok l ->
  zsum (map r_amt l) = zsum (map (fun r => (r_addl r + 1) * r_amt r) (ds_rows d)).
Proof. exact expand_noflag_amount_lemma. Qed.

Theorem expand_noflag_noop : forall d : dataset,
  has_addl (ds_sch d) && has_ii (ds_sch d) = false -> expand_noflag_impl d = Ok (ds_rows d).
Proof. exact expand_noflag_noop_lemma. Qed.

