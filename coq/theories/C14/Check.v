(* PV.C14.Check — the comparison run inside Coq by the correspondence check.
   tags 1..9   : the model disagrees with what the implementation returned (correspondence)
   tags 11..40 : the PROPERTY (agreement with the record-by-record walk, frame preservation, ...)
                 fails on the implementation's own output (oracle)
   tags >= 200 : guard facts of the input (which conjunct of which guard is false) *)
From Coq Require Import ZArith List Bool Lia.
From PV Require Import C14.Model.
Import ListNotations.
Local Open Scope Z_scope.

Record case := mkCase {
  c_ds : dataset;
  c_ncov : nat;
  c_mi : minfo;
  c_mdv : list (Z * Z);
  c_evid : list (Z * Z);
  c_obs : series3;
  c_doses : res series3;
  c_nobs : res Z;
  c_nobs_per : res (list (Z * Z));
  c_baselines : list row;                 (* labels exported as 0 *)
  c_tvc : res (list bool);
  c_doseid : res (list (Z * Z));
  c_expand : res (list (row * bool));
  c_expand_idint : bool;
  c_tad : res (list (row * Z));
  c_tad_idint : bool;
  c_cmt : res (list (Z * Z));
  c_admid : res (list (Z * Z));
  c_immutable : bool;
  c_ids : list Z;
  c_nind : Z;
  c_covbase : res (list (Z * list Z));
  c_add_cmt : res (list row);          (* dataset of add_cmt(model) *)
  c_add_cmt_meta : bool;               (* existing columns, their order and dtypes kept; new column last, typed compartment *)
  c_add_admid : res (list row);
  c_add_admid_meta : bool;
  c_obs_keep : list (Z * Z);           (* get_observations(keep_index=True): label, DV *)
  c_expand_noflag : res (list row);    (* expand_additional_doses(model) with the default flag=False *)
  c_expand_noflag_cols : bool          (* its columns: the input's without ADDL / II (all of them when nothing is expanded) *)
}.

Fixpoint list_eqb {A : Type} (eqb : A -> A -> bool) (a b : list A) : bool :=
  match a, b with
  | [], [] => true
  | x :: a', y :: b' => eqb x y && list_eqb eqb a' b'
  | _, _ => false
  end.

Definition zz_eqb (a b : Z * Z) : bool := (fst a =? fst b) && (snd a =? snd b).
Definition zzz_eqb (a b : Z * Z * Z) : bool := zz_eqb (fst a) (fst b) && (snd a =? snd b).

Definition row_eqb (a b : row) : bool :=
  (r_lab a =? r_lab b) && (r_id a =? r_id b) && (r_time a =? r_time b) && (r_amt a =? r_amt b)
  && (r_dv a =? r_dv b) && (r_evid a =? r_evid b) && (r_mdv a =? r_mdv b) && (r_cmt a =? r_cmt b)
  && (r_admid a =? r_admid b) && (r_ss a =? r_ss b) && (r_addl a =? r_addl b) && (r_ii a =? r_ii b)
  && list_eqb Z.eqb (r_covs a) (r_covs b) && list_eqb Z.eqb (r_other a) (r_other b).

Definition err_eqb (a b : err) : bool :=
  match a, b with
  | KeyError, KeyError | ValueError, ValueError | DatasetError, DatasetError | TypeError, TypeError
  | AttributeError, AttributeError | UnboundLocalError, UnboundLocalError | IndexError, IndexError
  | OtherError, OtherError => true
  | _, _ => false
  end.

Definition res_eqb {A : Type} (eqb : A -> A -> bool) (a b : res A) : bool :=
  match a, b with
  | Ok x, Ok y => eqb x y
  | Err x, Err y => err_eqb x y
  | _, _ => false
  end.

Definition series_eqb (a b : series3) : bool :=
  match a, b with
  | Series x, Series y => list_eqb zzz_eqb x y
  | Scalar x, Scalar y => x =? y
  | _, _ => false
  end.

Definition zl_eqb (a b : Z * list Z) : bool := (fst a =? fst b) && list_eqb Z.eqb (snd a) (snd b).

Definition rb_eqb (a b : row * bool) : bool := row_eqb (fst a) (fst b) && Bool.eqb (snd a) (snd b).
Definition rz_eqb (a b : row * Z) : bool := row_eqb (fst a) (fst b) && (snd a =? snd b).

Definition tag (b : bool) (t : nat) : list nat := if b then [] else [t].

(* equality of two lists as multisets *)
Fixpoint remove_first {A : Type} (eqb : A -> A -> bool) (x : A) (l : list A) : option (list A) :=
  match l with
  | [] => None
  | y :: tl => if eqb x y then Some tl
               else match remove_first eqb x tl with Some r => Some (y :: r) | None => None end
  end.
Fixpoint multiset_eqb {A : Type} (eqb : A -> A -> bool) (a b : list A) : bool :=
  match a with
  | [] => match b with [] => true | _ => false end
  | x :: tl => match remove_first eqb x b with Some b' => multiset_eqb eqb tl b' | None => false end
  end.

Definition unlab (r : row) : row := set_lab r 0.

(* ------------------------------------------------------------------ correspondence *)
Definition corr (c : case) : list nat :=
  let d := c_ds c in
  tag (list_eqb zz_eqb (mdv_impl d) (c_mdv c)) 1 ++
  tag (list_eqb zz_eqb (evid_impl d) (c_evid c)) 2 ++
  tag (res_eqb (list_eqb Z.eqb) (doseid_impl d) (match c_doseid c with Ok l => Ok (map snd l) | Err e => Err e end)
       && match c_doseid c with Ok l => list_eqb Z.eqb (map fst l) (map r_lab (ds_rows d)) | Err _ => true end) 3 ++
  tag (res_eqb (list_eqb rb_eqb) (expand_impl d) (c_expand c)
       && match c_expand c with Ok _ => Bool.eqb (expand_id_is_int d) (c_expand_idint c) | Err _ => true end
       && res_eqb (list_eqb row_eqb) (expand_noflag_impl d) (c_expand_noflag c)) 4 ++
  tag (res_eqb (list_eqb rz_eqb) (tad_impl d) (c_tad c)
       && match c_tad c with Ok _ => Bool.eqb (expand_id_is_int d) (c_tad_idint c) | Err _ => true end) 5 ++
  tag (series_eqb (obs_impl d) (c_obs c) && res_eqb series_eqb (doses_impl d) (c_doses c)
       && res_eqb Z.eqb (nobs_impl d) (c_nobs c)
       && res_eqb (list_eqb zz_eqb) (nobs_per_impl d) (c_nobs_per c)
       && list_eqb zz_eqb (obs_keep_impl d) (c_obs_keep c)) 6 ++
  tag (list_eqb row_eqb (map unlab (baselines_impl d)) (c_baselines c)
       && res_eqb (list_eqb Bool.eqb) (tvc_impl (c_ncov c) d) (c_tvc c)
       && list_eqb Z.eqb (ids_impl d) (c_ids c) && (nind_impl d =? c_nind c)
       && res_eqb (list_eqb zl_eqb) (covbase_impl (c_ncov c) d) (c_covbase c)) 7 ++
  tag (res_eqb (list_eqb zz_eqb) (cmt_impl (c_mi c) d) (c_cmt c)
       && res_eqb (list_eqb row_eqb) (add_cmt_impl (c_mi c) d) (c_add_cmt c)) 8 ++
  tag (negb (g_labels_range (ds_rows d)) && negb (has_admid (ds_sch d))
       || res_eqb (list_eqb zz_eqb) (admid_impl (c_mi c) d) (c_admid c)
          && res_eqb (list_eqb row_eqb) (add_admid_impl (c_mi c) d) (c_add_admid c)) 9.

(* ------------------------------------------------------------------ oracle *)
Definition originals (l : list (row * bool)) : list row :=
  map fst (filter (fun p => negb (snd p)) l).

Definition expansion_applies (d : dataset) : bool := has_addl (ds_sch d) && has_ii (ds_sch d).

Definition oracle (c : case) : list nat :=
  let d := c_ds c in
  let s := ds_sch d in
  let rows := ds_rows d in
  tag (list_eqb Z.eqb (map snd (c_mdv c)) (mdv_walk d)) 11 ++
  tag (list_eqb Z.eqb (map snd (c_evid c)) (evid_walk d)) 12 ++
  (if has_dose s then
     tag (match c_doseid c with Ok l => list_eqb Z.eqb (map snd l) (doseid_walk d) | Err _ => false end) 13
   else []) ++
  (* expand_additional_doses: originals kept in order, total amount, number of records *)
  match c_expand c with
  | Ok l =>
      tag (list_eqb row_eqb (map unlab (originals l)) (map unlab rows)) 14 ++
      tag ((zsum (map (fun p => r_amt (fst p)) l) =? zsum (map (fun r => (Z.max (r_addl r) 0 + 1) * r_amt r) rows))
           || negb (expansion_applies d)) 15 ++
      tag ((Z.of_nat (length l) =? zsum (map (fun r => Z.max (r_addl r) 0 + 1) rows)) || negb (expansion_applies d)) 29 ++
      (* the expanded frame is the multiset of the implied doses: dose k at TIME + k*II, other fields kept *)
      tag (negb (expansion_applies d) || negb (g_addl_nonneg rows)
           || multiset_eqb rb_eqb (map unlab_e l) (map unlab_e (flat_map implied rows))) 36
  | Err _ => [14%nat]
  end ++
  (* add_time_after_dose *)
  match c_tad c with
  | Ok l =>
      tag (forallb (fun p => 0 <=? snd p) l) 16 ++
      tag (forallb (fun p => negb (0 <? r_amt (fst p)) || (snd p =? 0)) l) 17 ++
      tag (list_eqb row_eqb (map (fun p => unlab (fst p)) l) (map unlab rows)) 18 ++
      tag (Bool.eqb (c_tad_idint c) (id_is_int s)) 19 ++
      (if has_addl s then
         (* with ADDL: the walk over the implementation's own expanded frame, at the original records *)
         match c_expand c with
         | Ok fr => if expansion_applies d
                    then tag (list_eqb Z.eqb (map snd l)
                                (map snd (filter (fun p : (row * bool) * Z => negb (snd (fst p)))
                                                 (combine fr (tad_walk (with_rows d (map fst fr) true)))))) 28
                    else []
         | Err _ => []
         end
       else tag (list_eqb Z.eqb (map snd l) (tad_walk d)) 28)
  | Err _ => if has_dose s then [18%nat] else []
  end ++
  tag (series_eqb (c_obs c) (Series (obs_walk s rows))) 20 ++
  (if has_dose s then tag (res_eqb series_eqb (c_doses c) (Ok (Series (doses_walk rows)))) 21 else []) ++
  tag (res_eqb Z.eqb (c_nobs c) (Ok (Z.of_nat (length (obs_walk s rows))))) 22 ++
  tag (res_eqb (list_eqb zz_eqb) (c_nobs_per c) (Ok (nobs_per_walk d))) 31 ++
  tag (list_eqb row_eqb (c_baselines c) (map unlab (baselines_walk [] rows))) 23 ++
  tag (res_eqb (list_eqb Bool.eqb) (c_tvc c) (Ok (tvc_walk (c_ncov c) d))) 24 ++
  tag (match c_cmt c with Ok _ => true | Err _ => false end) 25 ++
  (* admid: carry the latest dose event's admid forward (compared when the function applies) *)
  (if has_admid s || negb (g_labels_range rows) then []
   else match c_admid c, admid_ref (c_mi c) d with
        | Ok l, Ok ref => tag (list_eqb Z.eqb (map snd l) ref) 26
        | Err _, _ => [26%nat]
        | _, _ => []
        end) ++
  tag (c_immutable c) 27 ++
  (* add_cmt / add_admid: a column is added, every other column, the rows, their order and dtypes are kept;
     the new column holds what get_cmt / get_admid return; they fail only where those fail *)
  match c_add_cmt c with
  | Ok rows' =>
      tag (list_eqb row_eqb (map (fun r => set_cmt r 0) rows') (map (fun r => set_cmt r 0) rows)
           && c_add_cmt_meta c
           && (has_cmt s || match c_cmt c with Ok l => list_eqb Z.eqb (map r_cmt rows') (map snd l) | Err _ => false end)) 32
  | Err _ => tag (match c_cmt c with Err _ => true | Ok _ => false end) 32
  end ++
  (if negb (g_labels_range rows) && negb (has_admid s) then [] else
   match c_add_admid c with
   | Ok rows' =>
       tag (list_eqb row_eqb (map (fun r => set_admid r 0) rows') (map (fun r => set_admid r 0) rows)
            && c_add_admid_meta c
            && (has_admid s || match c_admid c with Ok l => list_eqb Z.eqb (map r_admid rows') (map snd l) | Err _ => false end)) 33
   | Err _ => tag (match c_admid c with Err _ => true | Ok _ => false end) 33
   end) ++
  tag (list_eqb zz_eqb (c_obs_keep c) (obs_keep_walk s rows)) 37 ++
  (* the default expand_additional_doses: the implied doses without the ADDL / II columns; total amount *)
  match c_expand_noflag c with
  | Ok l =>
      tag (c_expand_noflag_cols c
           && (if expansion_applies d && g_addl_nonneg rows
               then multiset_eqb row_eqb (map unlab l)
                                 (map (fun p : row * bool => unlab (drop_addl_ii (fst p))) (flat_map implied rows))
                    && (zsum (map r_amt l) =? zsum (map (fun r => (r_addl r + 1) * r_amt r) rows))
               else expansion_applies d || list_eqb row_eqb l rows)) 38
  | Err _ => [38%nat]
  end ++
  tag (list_eqb Z.eqb (c_ids c) (ids_walk d) && (c_nind c =? Z.of_nat (length (ids_walk d)))) 34 ++
  (if Nat.eqb (c_ncov c) 0 then [] else tag (res_eqb (list_eqb zl_eqb) (c_covbase c) (Ok (covbase_walk d))) 35).

(* ------------------------------------------------------------------ guard facts *)
Definition guard_tags (c : case) : list nat :=
  let d := c_ds c in
  let s := ds_sch d in
  let rows := ds_rows d in
  let an := ann s rows in
  tag (g_amt_nonneg rows) 202 ++ tag (g_labels_range rows) 203 ++
  tag (g_chrono an) 204 ++ tag (g_tie_one_reset_group an) 205 ++ tag (g_no_obs_between_tied_doses an) 206 ++
  tag (guard_evid d) 208 ++
  (* facts that no longer guard anything (kept for the input distribution): exactly one observation / dose *)
  tag (negb (Nat.eqb (length (obs_rows s rows)) 1)) 209 ++
  tag (negb (Nat.eqb (length (filter (fun r => negb (r_amt r =? 0)) rows)) 1)) 210 ++ tag (g_ids_ascending rows) 211 ++ tag (g_addl_nonneg rows) 212 ++
  (* the frame add_time_after_dose works on: chronological per individual / DOSEIDs in order *)
  match tad_frame d with
  | Ok fr =>
      tag (g_sorted_within r_id r_time (map fst fr)) 213 ++
      match doseid_impl (with_rows d (map fst fr) true) with
      | Ok dids => tag (g_sorted_within (fun x : (row * bool) * Z => r_id (fst (fst x))) snd (combine fr dids)) 214
      | Err _ => []
      end
  | Err _ => []
  end ++
  tag (negb (expansion_applies d)) 215 ++
  tag (range_index s) 216 ++
  tag (negb (has_addl s) || has_ii s) 217 ++
  tag (negb (has_admid s) || has_cmt s || existsb (fun x : Z * Z * bool => snd x) (mi_dosing (c_mi c))) 218 ++
  tag (forallb (fun v => negb (v =? 4)) (evid_walk d)) 219 ++
  tag (id_named_ID s) 220 ++ tag (negb (Nat.eqb (c_ncov c) 0)) 221 ++
  (* expansion with the individuals not in ascending id order (C14-EXPAND-ID-ORDER) *)
  tag (negb (expansion_applies d) || g_ids_ascending rows) 222 ++
  (* the doseid guards on the working frame of add_time_after_dose (the expanded frame with ADDL) *)
  match tad_frame d with
  | Ok fr => let anf := ann s (map fst fr) in
             tag (g_tie_one_reset_group anf) 223 ++ tag (g_no_obs_between_tied_doses anf) 224 ++ tag (g_chrono anf) 225
  | Err _ => []
  end.

Definition verdict (c : case) : list nat := corr c ++ oracle c ++ guard_tags c.
