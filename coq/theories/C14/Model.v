(* PV.C14.Model — executable model of the dataset derivations of pharmpy.modeling.data
   (get_mdv, get_evid, get_observations, get_doses, get_number_of_observations(_per_individual),
   get_baselines, list_time_varying_covariates, get_doseid, expand_additional_doses,
   add_time_after_dose, get_cmt, get_admid) mirroring the vectorised pandas algorithms, and — in the
   second half — the reference semantics: a straightforward record-by-record walk over the event
   records of each individual.  No proofs here.

   A DataFrame is an ordered list of rows; every row carries its index label (r_lab).  All
   quantities are integers: identifiers and event codes as they are, times / amounts / intervals /
   observations / covariates in units of 1/scale (the harness chooses one power-of-two scale per
   dataset and refuses values that are not integral in that unit), so that every derivation — which
   is linear in these fields — is exact.

   pandas contracts used (validated by the correspondence, never axiomatised):
     groupby(k).cumsum()/diff()      = group_cumsum / group_diff  (value sees the earlier rows of its group)
     groupby(k).apply(f)             = group_concat  (groups in ascending key order, each mapped by f)
     sort_values(kind='stable')      = isort_by      (stable insertion sort)
     groupby(k).nth(0)               = rows without an earlier row of the same key, original order
     DataFrame.squeeze(axis=1)       = the one-column frame becomes a Series (any number of rows) *)
From Coq Require Import ZArith List Bool Lia.
Import ListNotations.
Local Open Scope Z_scope.

Inductive err := KeyError | ValueError | DatasetError | TypeError | AttributeError | UnboundLocalError | IndexError | OtherError.
Inductive res (A : Type) := Ok (a : A) | Err (e : err).
Arguments Ok {A} a.
Arguments Err {A} e.

Record row := mkRow {
  r_lab : Z;            (* index label of the row *)
  r_id : Z;
  r_time : Z;           (* idv column, scaled *)
  r_amt : Z;            (* dose column, scaled; 0 when the column is absent *)
  r_dv : Z;
  r_evid : Z;           (* 'event' column *)
  r_mdv : Z;            (* 'mdv' column *)
  r_cmt : Z;            (* 'compartment' column *)
  r_admid : Z;          (* 'admid' column *)
  r_ss : Z;
  r_addl : Z;           (* 'additional' column *)
  r_ii : Z;             (* scaled *)
  r_covs : list Z;      (* 'covariate' columns, scaled *)
  r_other : list Z      (* columns of type unknown (RATE, ...), scaled *)
}.

Record schema := mkSchema {
  has_dose : bool; has_evid : bool; has_mdv : bool; has_cmt : bool; has_admid : bool;
  has_ss : bool; has_addl : bool; has_ii : bool;
  id_named_ID : bool;   (* the id column is literally called 'ID' *)
  range_index : bool;   (* the frame's index is a pandas RangeIndex (not an explicit Index) *)
  id_is_int : bool      (* dtype of the id column is an integer type *)
}.

Record dataset := mkDs { ds_sch : schema; ds_rows : list row }.

Definition set_time (r : row) (t : Z) : row :=
  mkRow (r_lab r) (r_id r) t (r_amt r) (r_dv r) (r_evid r) (r_mdv r) (r_cmt r) (r_admid r) (r_ss r)
        (r_addl r) (r_ii r) (r_covs r) (r_other r).
Definition set_lab (r : row) (l : Z) : row :=
  mkRow l (r_id r) (r_time r) (r_amt r) (r_dv r) (r_evid r) (r_mdv r) (r_cmt r) (r_admid r) (r_ss r)
        (r_addl r) (r_ii r) (r_covs r) (r_other r).

(* ------------------------------------------------------------------ pandas contracts *)
(* every element sees the reversed list of the elements before it *)
Fixpoint scan {A B : Type} (f : list A -> A -> B) (rpre : list A) (l : list A) : list B :=
  match l with
  | [] => []
  | x :: tl => f rpre x :: scan f (x :: rpre) tl
  end.

Definition zsum (l : list Z) : Z := fold_right Z.add 0 l.

Definition group_cumsum {A : Type} (same : A -> A -> bool) (val : A -> Z) (l : list A) : list Z :=
  scan (fun rpre x => zsum (map val (filter (same x) rpre)) + val x) [] l.

(* groupby.diff().fillna(0): difference to the previous row of the group, 0 for the first *)
Definition group_diff {A : Type} (same : A -> A -> bool) (val : A -> Z) (l : list A) : list Z :=
  scan (fun rpre x => match filter (same x) rpre with [] => 0 | y :: _ => val x - val y end) [] l.

Fixpoint insert_by {A : Type} (key : A -> Z) (x : A) (l : list A) : list A :=
  match l with
  | [] => [x]
  | y :: tl => if key x <=? key y then x :: l else y :: insert_by key x tl
  end.
(* stable: an element is placed before the later elements of equal key *)
Definition isort_by {A : Type} (key : A -> Z) (l : list A) : list A := fold_right (insert_by key) [] l.

Fixpoint insz (x : Z) (l : list Z) : list Z :=
  match l with
  | [] => [x]
  | y :: tl => match x ?= y with Lt => x :: l | Eq => l | Gt => y :: insz x tl end
  end.
(* ascending distinct keys *)
Definition skeys (l : list Z) : list Z := fold_right insz [] l.

Definition group_concat {A : Type} (key : A -> Z) (f : list A -> list A) (l : list A) : list A :=
  flat_map (fun k => f (filter (fun x => key x =? k) l)) (skeys (map key l)).

Fixpoint zseq (start : Z) (n : nat) : list Z :=
  match n with O => [] | S m => start :: zseq (start + 1) m end.

(* reset_index(drop=True) *)
Definition relabel {B : Type} (l : list (row * B)) : list (row * B) :=
  map (fun p => (set_lab (fst (snd p)) (fst p), snd (snd p))) (combine (zseq 0 (length l)) l).

Definition nonzero (z : Z) : Z := if z =? 0 then 0 else 1.

(* ------------------------------------------------------------------ get_mdv / get_evid *)
(* for key in ['mdv', 'event', 'dose']: first typed column found *)
Definition mdv_col (s : schema) : option (row -> Z) :=
  if has_mdv s then Some r_mdv else if has_evid s then Some r_evid else if has_dose s then Some r_amt else None.

(* label and value of each entry of the returned Series; without any of the three columns the
   result is pd.Series(np.zeros(n)) which has a fresh RangeIndex *)
Definition mdv_impl (d : dataset) : list (Z * Z) :=
  match mdv_col (ds_sch d) with
  | Some f => map (fun r => (r_lab r, nonzero (f r))) (ds_rows d)
  | None => combine (zseq 0 (length (ds_rows d))) (map (fun _ => 0) (ds_rows d))
  end.

Definition evid_impl (d : dataset) : list (Z * Z) :=
  if has_evid (ds_sch d) then map (fun r => (r_lab r, r_evid r)) (ds_rows d) else mdv_impl d.

(* ------------------------------------------------------------------ get_observations / get_doses *)
Inductive series3 := Series (l : list (Z * Z * Z)) | Scalar (v : Z).

(* df[[id, idv, dv]].set_index([id, idv]).squeeze(axis=1): always a Series (the Scalar constructor only
   serves to export a recurrence of the old squeeze() behaviour) *)
Definition squeeze (l : list (Z * Z * Z)) : series3 := Series l.

Definition obs_rows (s : schema) (rows : list row) : list row :=
  match mdv_col s with
  | Some f => filter (fun r => f r =? 0) rows
  | None => rows
  end.

Definition obs_impl (d : dataset) : series3 :=
  squeeze (map (fun r => (r_id r, r_time r, r_dv r)) (obs_rows (ds_sch d) (ds_rows d))).

Definition doses_impl (d : dataset) : res series3 :=
  if has_dose (ds_sch d)
  then Ok (squeeze (map (fun r => (r_id r, r_time r, r_amt r)) (filter (fun r => negb (r_amt r =? 0)) (ds_rows d))))
  else Err DatasetError.

(* len(get_observations(model)) *)
Definition nobs_impl (d : dataset) : res Z :=
  match obs_impl d with
  | Series l => Ok (Z.of_nat (length l))
  | Scalar _ => Err TypeError
  end.

(* get_observations(model).groupby(idcol).count() : ascending ids that have an observation *)
Definition nobs_per_impl (d : dataset) : res (list (Z * Z)) :=
  match obs_impl d with
  | Series l =>
      Ok (map (fun k => (k, Z.of_nat (length (filter (fun o => fst (fst o) =? k) l))))
              (skeys (map (fun o => fst (fst o)) l)))
  | Scalar _ => Err AttributeError
  end.

(* ------------------------------------------------------------------ get_baselines / time varying *)
Definition same_id (a b : row) : bool := r_id a =? r_id b.

(* dataset.groupby(id).nth(0) *)
Definition baselines_impl (d : dataset) : list row :=
  flat_map (fun x => x)
    (scan (fun rpre r => if existsb (same_id r) rpre then [] else [r]) [] (ds_rows d)).

Definition nth_cov (j : nat) (r : row) : Z := nth j (r_covs r) 0.

Fixpoint distinctz (l : list Z) : list Z :=
  match l with
  | [] => []
  | x :: tl => if existsb (Z.eqb x) tl then distinctz tl else x :: distinctz tl
  end.

(* groupby(id)[covs].nunique().gt(1).any() : positions of the covariate columns that vary *)
Definition tvc_impl (ncov : nat) (d : dataset) : res (list bool) :=
  match ncov with
  | O => Ok []                   (* except IndexError: return [] *)
  | _ =>
    Ok (map (fun j => existsb (fun k => Nat.ltb 1 (length (distinctz (map (nth_cov j)
                                       (filter (fun r => r_id r =? k) (ds_rows d))))))
                          (skeys (map r_id (ds_rows d))))
        (seq 0 ncov))
  end.

(* ------------------------------------------------------------------ get_doseid *)
Definition dose_flag (r : row) : Z := if 0 <? r_amt r then 1 else 0.
Definition reset_flag (r : row) : Z := if 3 <=? r_evid r then 1 else 0.

(* df['_RESETGROUP'] : 1.0 without an event column, else groupby('ID')[evid >= 3].cumsum() *)
Definition resetgroups (s : schema) (rows : list row) : list Z :=
  if has_evid s then group_cumsum same_id reset_flag rows else map (fun _ => 1) rows.

Definition ann (s : schema) (rows : list row) : list (row * Z) := combine rows (resetgroups s rows).

Definition key3 : Type := (Z * Z * Z)%type.
Definition key3_eq_dec : forall a b : key3, {a = b} + {a <> b}.
Proof. repeat decide equality. Defined.
Definition key_of (x : row * Z) : key3 := (r_id (fst x), r_time (fst x), snd x).

(* ser = df.groupby([id, idv, '_RESETGROUP']).size(); nonunique = ser[ser > 1]
   (pandas lists the keys in ascending order; the order is irrelevant for the result) *)
Definition nonunique (keys : list key3) : list key3 :=
  filter (fun k => Nat.ltb 1 (count_occ key3_eq_dec keys k)) (nodup key3_eq_dec keys).

Definition in_tie (i t : Z) (r : row) : bool := (r_id r =? i) && (r_time r =? t).

(* one iteration of `for i, time, _ in nonunique.index`, seen from row r: 1 if r's DOSEID is
   decremented in this iteration provided it has a previous dose period (see doseid_step) *)
Definition dec_of (s : schema) (rows : list row) (k : key3) (r : row) : Z :=
  let '(i, t, _) := k in
  let G := filter (in_tie i t) rows in                        (* groupind — ignores _RESETGROUP *)
  let D := filter (fun x => negb (r_amt x =? 0)) G in         (* doseind = groupind - obsind *)
  match D with
  | [] => 0                                                    (* if not doseind: continue *)
  | d0 :: dtl =>
      let maxind := fold_right Z.max (r_lab d0) (map r_lab dtl) in
      if negb (in_tie i t r && (r_amt r =? 0)) then 0          (* for index in obsind *)
      else if r_lab r <? maxind then 0                          (* if maxind > index: continue *)
      else if has_ss s && existsb (fun x => (r_lab x =? maxind) && (0 <? r_ss x)) rows then 0
      else 1                                                    (* DOSEID -= 1 *)
  end.

(* if df.loc[index, 'DOSEID'] <= 1: continue  -- the CURRENT value, no previous dose period *)
Definition stepv (s : schema) (rows : list row) (r : row) (v : Z) (k : key3) : Z :=
  if 1 <? v then v - dec_of s rows k r else v.

Definition doseid_step (s : schema) (rows : list row) (vals : list Z) (k : key3) : list Z :=
  map (fun rv => stepv s rows (fst rv) (snd rv) k) (combine rows vals).

Definition doseid_core (s : schema) (rows : list row) : list Z :=
  fold_left (doseid_step s rows) (nonunique (map key_of (ann s rows)))
            (group_cumsum same_id dose_flag rows).

Definition doseid_impl (d : dataset) : res (list Z) :=
  let s := ds_sch d in
  if negb (has_dose s) then Err DatasetError
  else Ok (doseid_core s (ds_rows d)).

(* ------------------------------------------------------------------ expand_additional_doses *)
(* fn: times = [ii * x + time for x in range(int(addl) + 1)], expanded = [False] + [True] * addl *)
Definition explode_row (r : row) : list (row * bool) :=
  if r_addl r =? 0 then [(r, false)]
  else map (fun x => (set_time r (r_ii r * Z.of_nat x + r_time r), negb (Nat.eqb x 0)))
           (seq 0 (S (Z.to_nat (r_addl r)))).

Definition erow : Type := ((row * bool) * Z)%type.      (* record, EXPANDED, _RESETGROUP *)
Definition e_id (e : erow) : Z := r_id (fst (fst e)).
Definition e_time (e : erow) : Z := r_time (fst (fst e)).
Definition e_rg (e : erow) : Z := snd e.

Definition exploded (s : schema) (rows : list row) : list erow :=
  flat_map (fun x => map (fun e => (e, snd x)) (explode_row (fst x))) (ann s rows).

Definition e_lab (e : erow) : Z := r_lab (fst (fst e)).

Definition groups_of {A : Type} (key : A -> Z) (l : list A) : list (list A) :=
  map (fun k => filter (fun x => key x =? k) l) (skeys (map key l)).

Fixpoint zlist_eqb (a b : list Z) : bool :=
  match a, b with
  | [], [] => true
  | x :: a', y :: b' => (x =? y) && zlist_eqb a' b'
  | _, _ => false
  end.

(* distinct values in order of first appearance (algorithms.unique1d) *)
Fixpoint uniq_from (seen : list Z) (l : list Z) : list Z :=
  match l with
  | [] => []
  | x :: tl => if existsb (Z.eqb x) seen then uniq_from seen tl else x :: uniq_from (x :: seen) tl
  end.

(* groupby([id, '_RESETGROUP'], group_keys=False).apply(sort_values(by='_TIMES', kind='stable')):
   the groups in ascending (id, reset group) order, each stably sorted by time.  When no group's
   index changed (every group was in time order already) pandas treats the result as a transform and
   restores the original row order: result.take(get_indexer_non_unique(unique(original index))). *)
Definition expand_core (s : schema) (rows : list row) : list (row * bool) :=
  let ex := exploded s rows in
  let groups := flat_map (groups_of e_rg) (groups_of e_id ex) in
  let sorted := map (isort_by e_time) groups in
  let mutated := existsb (fun g => negb (zlist_eqb (map e_lab (isort_by e_time g)) (map e_lab g))) groups in
  let cat := concat sorted in
  map fst (if mutated then cat
           else flat_map (fun l => filter (fun e => e_lab e =? l) cat) (uniq_from [] (map e_lab ex))).

(* df = model.dataset.reset_index(drop=True) *)
Fixpoint relab_from (k : Z) (rows : list row) : list row :=
  match rows with
  | [] => []
  | r :: tl => set_lab r k :: relab_from (k + 1) tl
  end.

(* expand_additional_doses(model, flag=True): records with the EXPANDED flag.  The working copy gets a
   fresh default index first (fix 96db805), so the kind of index of the dataset does not matter. *)
Definition expand_impl (d : dataset) : res (list (row * bool)) :=
  let s := ds_sch d in
  if negb (has_addl s && has_ii s) then Ok (map (fun r => (r, false)) (ds_rows d))   (* model returned as is *)
  else Ok (relabel (expand_core s (relab_from 0 (ds_rows d)))).

(* df.apply(fn, axis=1) turns every column into float64; the original dtypes are restored (fix 64ec1fd) *)
Definition expand_id_is_int (d : dataset) : bool := id_is_int (ds_sch d).

(* ------------------------------------------------------------------ add_time_after_dose *)
Definition with_rows (d : dataset) (rows : list row) (rng : bool) : dataset :=
  let s := ds_sch d in
  mkDs (mkSchema (has_dose s) (has_evid s) (has_mdv s) (has_cmt s) (has_admid s) (has_ss s) (has_addl s)
                 (has_ii s) (id_named_ID s) rng (id_is_int s)) rows.

(* the frame whose DOSEID is taken: the expanded one when there is an ADDL column *)
Definition tad_frame (d : dataset) : res (list (row * bool)) :=
  let s := ds_sch d in
  if has_addl s then
    if negb (has_ii s) then Err KeyError                 (* df['EXPANDED'] *)
    else expand_impl d
  else Ok (map (fun r => (r, false)) (ds_rows d)).

Definition trow : Type := ((row * bool) * Z)%type.      (* record, EXPANDED, _DOSEID *)
Definition t_id (x : trow) : Z := r_id (fst (fst x)).
Definition t_time (x : trow) : Z := r_time (fst (fst x)).
Definition t_did (x : trow) : Z := snd x.
Definition same_period (a b : trow) : bool := (t_id a =? t_id b) && (t_did a =? t_did b).

Definition tad_sorted (fr : list (row * bool)) (dids : list Z) : list trow :=
  group_concat t_id (isort_by t_did) (combine fr dids).

(* diff().fillna(0) within (id, DOSEID) followed by cumsum within (id, DOSEID) *)
Definition tad_values (sorted : list trow) : list Z :=
  group_cumsum (fun a b => same_period (fst a) (fst b)) snd
               (combine sorted (group_diff same_period t_time sorted)).

(* df['_POS'] = np.arange(len(df)) before the sort, sort_values(by='_POS') after the TAD computation
   (fix 8de2b00): the records come back in the order of the working frame *)
Definition prow : Type := (trow * Z)%type.           (* record with _DOSEID, _POS *)
Definition p_pos (x : prow) : Z := snd x.

Definition tad_sorted_pos (fr : list (row * bool)) (dids : list Z) : list prow :=
  let F := combine fr dids in
  group_concat (fun x : prow => t_id (fst x)) (isort_by (fun x : prow => t_did (fst x)))
               (combine F (zseq 0 (length F))).

Definition tad_core (fr : list (row * bool)) (dids : list Z) : list (row * Z) :=
  let sorted := tad_sorted_pos fr dids in
  let back := isort_by (fun x : prow * Z => p_pos (fst x)) (combine sorted (tad_values (map fst sorted))) in
  relabel (map (fun p : prow * Z => (fst (fst (fst (fst p))), snd p))
               (filter (fun p : prow * Z => negb (snd (fst (fst (fst p))))) back)).

Definition tad_impl (d : dataset) : res (list (row * Z)) :=
  let s := ds_sch d in
  if has_addl s && negb (has_ii s) then
    (* expand_additional_doses returns the model as it is, get_doseid runs (and may raise), then df['EXPANDED'] *)
    match doseid_impl d with Err e => Err e | Ok _ => Err KeyError end
  else
  match tad_frame d with
  | Err e => Err e
  | Ok fr =>
      match doseid_impl (with_rows d (map fst fr) true) with
      | Err e => Err e
      | Ok dids => Ok (tad_core fr dids)
      end
  end.

(* ------------------------------------------------------------------ get_cmt / get_admid *)
(* what the functions read from the model's compartmental system *)
Record minfo := mkMinfo {
  mi_dosing : list (Z * Z * bool);     (* dosing_compartments: number, doses[0].admid, is central *)
  mi_central : Z                       (* number of the central compartment *)
}.

Fixpoint zreplace (m : list (Z * Z)) (v : Z) : Z :=
  match m with
  | [] => v
  | (a, b) :: tl => if v =? a then b else zreplace tl v
  end.

(* python dict built by successive assignments: later entries for the same key win *)
Fixpoint dict_of (l : list (Z * Z)) (acc : list (Z * Z)) : list (Z * Z) :=
  match l with
  | [] => acc
  | (a, b) :: tl => dict_of tl ((a, b) :: filter (fun p => negb (fst p =? a)) acc)
  end.

Definition cmt_impl (mi : minfo) (d : dataset) : res (list (Z * Z)) :=
  let s := ds_sch d in
  if has_cmt s then Ok (map (fun r => (r_lab r, r_cmt r)) (ds_rows d))
  else if negb (has_admid s) then
    let dose_cmt := match mi_dosing mi with (n, _, _) :: _ => n | [] => 1 end in
    Ok (map (fun lv => (fst lv, zreplace [(1, dose_cmt); (2, 0); (3, 0); (4, dose_cmt)] (snd lv))) (evid_impl d))
  else
    let remap := dict_of (map (fun c : Z * Z * bool => if snd c then (2, fst (fst c)) else (1, fst (fst c)))
                              (mi_dosing mi)) [] in
    let cn := mi_central mi in                            (* central_number (fix 53e373d) *)
    Ok (map (fun re => let '(r, ev) := re in
                       (r_lab r, if snd ev =? 0 then cn else zreplace remap (r_admid r)))
            (combine (ds_rows d) (evid_impl d))).

(* the loop of get_admid over (evid, adm, ID): state = (current_subject, current_admin) *)
Fixpoint admid_loop (cur_subj cur_adm : Z) (l : list (Z * Z * Z)) : list Z :=
  match l with
  | [] => []
  | (ev, a, subj) :: tl =>
      if cur_subj =? subj then
        if (ev =? 1) || (ev =? 4) then a :: admid_loop cur_subj a tl      (* event in (1, 4): fix 1fa817f *)
        else cur_adm :: admid_loop cur_subj cur_adm tl
      else a :: admid_loop subj a tl
  end.

Definition admid_impl (mi : minfo) (d : dataset) : res (list (Z * Z)) :=
  let s := ds_sch d in
  if has_admid s then Ok (map (fun r => (r_lab r, r_admid r)) (ds_rows d))
  else
    match cmt_impl mi d with
    | Err e => Err e
    | Ok cmt =>
        let remap := dict_of (map (fun c : Z * Z * bool => fst c) (mi_dosing mi)) [] in
        let adm := map (fun lv => zreplace remap (snd lv)) cmt in
          match ds_rows d, adm with
          | r0 :: _, a0 :: _ =>
              if negb (r_lab r0 =? 0) then Err KeyError      (* adm[0] : modelled for label 0 on the first row only *)
              else Ok (combine (map fst cmt)
                               (admid_loop (r_id r0) a0
                                  (combine (combine (map snd (evid_impl d)) adm) (map r_id (ds_rows d)))))
          | _, _ => Err KeyError
          end
    end.

(* ================================================================== reference semantics ===== *)
(* Per-record event semantics (NM-TRAN's rules for missing MDV / EVID items) and one chronological
   walk per individual, carried out in a single pass with one state per individual. *)

(* a record is not an observation when its MDV / EVID / AMT item says so *)
Definition rec_mdv (s : schema) (r : row) : Z :=
  if has_mdv s then nonzero (r_mdv r)
  else if has_evid s then nonzero (r_evid r)
  else if has_dose s then nonzero (r_amt r)
  else 0.

Definition mdv_walk (d : dataset) : list Z := map (rec_mdv (ds_sch d)) (ds_rows d).

(* EVID as supplied by NM-TRAN when the item is missing: dose records 1, other non-observation
   records 2, observations 0 *)
Definition rec_evid (s : schema) (r : row) : Z :=
  if has_evid s then r_evid r
  else if has_dose s && negb (r_amt r =? 0) then 1
  else if has_mdv s && negb (r_mdv r =? 0) then 2
  else 0.

Definition evid_walk (d : dataset) : list Z := map (rec_evid (ds_sch d)) (ds_rows d).

Fixpoint obs_walk (s : schema) (rows : list row) : list (Z * Z * Z) :=
  match rows with
  | [] => []
  | r :: tl => if rec_mdv s r =? 0 then (r_id r, r_time r, r_dv r) :: obs_walk s tl else obs_walk s tl
  end.

Fixpoint doses_walk (rows : list row) : list (Z * Z * Z) :=
  match rows with
  | [] => []
  | r :: tl => if r_amt r =? 0 then doses_walk tl else (r_id r, r_time r, r_amt r) :: doses_walk tl
  end.

(* ---- per-individual states *)
Fixpoint lookup {V : Type} (i : Z) (st : list (Z * V)) : option V :=
  match st with
  | [] => None
  | (k, v) :: tl => if k =? i then Some v else lookup i tl
  end.

(* observation counts *)
Fixpoint count_walk (s : schema) (st : list (Z * Z)) (rows : list row) : list (Z * Z) :=
  match rows with
  | [] => st
  | r :: tl =>
      if rec_mdv s r =? 0
      then count_walk s ((r_id r, match lookup (r_id r) st with Some n => n + 1 | None => 1 end) :: st) tl
      else count_walk s st tl
  end.
(* the final table in ascending id order *)
Definition nobs_per_walk (d : dataset) : list (Z * Z) :=
  let st := count_walk (ds_sch d) [] (ds_rows d) in
  flat_map (fun k => match lookup k st with Some n => [(k, n)] | None => [] end) (skeys (map fst st)).

(* baselines: the first record met for each individual *)
Fixpoint baselines_walk (seen : list Z) (rows : list row) : list row :=
  match rows with
  | [] => []
  | r :: tl => if existsb (Z.eqb (r_id r)) seen then baselines_walk seen tl
               else r :: baselines_walk (r_id r :: seen) tl
  end.

(* covariate j varies: some record differs from the first record of its individual *)
Fixpoint tvc_walk_j (j : nat) (st : list (Z * Z)) (rows : list row) : bool :=
  match rows with
  | [] => false
  | r :: tl =>
      match lookup (r_id r) st with
      | Some v0 => negb (nth_cov j r =? v0) || tvc_walk_j j st tl
      | None => tvc_walk_j j ((r_id r, nth_cov j r) :: st) tl
      end
  end.
Definition tvc_walk (ncov : nat) (d : dataset) : list bool :=
  map (fun j => tvc_walk_j j [] (ds_rows d)) (seq 0 ncov).

(* ---- dose periods.  State of one individual: doses so far, resets so far, and the time /
   reset group / SS item of the latest dose record. *)
Record wst := mkW { w_c : Z; w_rg : Z; w_last : option (Z * Z * Z) }.

Definition w_init (s : schema) : wst := mkW 0 (if has_evid s then 0 else 1) None.

(* an observation recorded at the time of the latest dose (same reset group, not a steady-state
   dose) belongs to the preceding dose interval — unless there is none *)
Definition walk_rec (s : schema) (w : wst) (r : row) : wst * Z :=
  let rg := if has_evid s then w_rg w + reset_flag r else w_rg w in
  if 0 <? r_amt r then
    let c := w_c w + 1 in (mkW c rg (Some (r_time r, rg, r_ss r)), c)
  else
    let tied := match w_last w with
                | Some (t, g, ssv) => (t =? r_time r) && (g =? rg) && negb (has_ss s && (0 <? ssv))
                | None => false
                end in
    (mkW (w_c w) rg (w_last w), if tied && (2 <=? w_c w) then w_c w - 1 else w_c w).

Definition st_get (s : schema) (i : Z) (st : list (Z * wst)) : wst :=
  match lookup i st with Some w => w | None => w_init s end.

Fixpoint doseid_walk_from (s : schema) (st : list (Z * wst)) (rows : list row) : list Z :=
  match rows with
  | [] => []
  | r :: tl =>
      let '(w', v) := walk_rec s (st_get s (r_id r) st) r in
      v :: doseid_walk_from s ((r_id r, w') :: st) tl
  end.

Definition doseid_walk (d : dataset) : list Z := doseid_walk_from (ds_sch d) [] (ds_rows d).

(* ---- time after dose by a walk (datasets without ADDL): start time of the current and of the
   preceding dose period of each individual *)
Record tst := mkT { ts_w : wst; ts_cur : option Z; ts_prev : option Z }.

Definition tad_rec (s : schema) (x : tst) (r : row) : tst * Z :=
  let '(w', v) := walk_rec s (ts_w x) r in
  if 0 <? r_amt r then (mkT w' (Some (r_time r)) (ts_cur x), 0)
  else
    let cur := match ts_cur x with Some t => t | None => r_time r end in
    if v <? w_c w' then                       (* counted towards the preceding dose *)
      (mkT w' (Some cur) (ts_prev x), r_time r - match ts_prev x with Some t => t | None => r_time r end)
    else (mkT w' (Some cur) (ts_prev x), r_time r - cur).

Fixpoint tad_walk_from (s : schema) (st : list (Z * tst)) (rows : list row) : list Z :=
  match rows with
  | [] => []
  | r :: tl =>
      let x := match lookup (r_id r) st with Some x => x | None => mkT (w_init s) None None end in
      let '(x', v) := tad_rec s x r in
      v :: tad_walk_from s ((r_id r, x') :: st) tl
  end.
Definition tad_walk (d : dataset) : list Z := tad_walk_from (ds_sch d) [] (ds_rows d).

(* ---- administration ids: within a block of records of one subject, the admid of the latest
   dose event (EVID 1 or 4); before the first dose the value of the block's first record *)
Fixpoint admid_walk_from (cur_subj cur_adm : Z) (l : list (Z * Z * Z)) : list Z :=
  match l with
  | [] => []
  | (ev, a, subj) :: tl =>
      if cur_subj =? subj then
        if (ev =? 1) || (ev =? 4) then a :: admid_walk_from cur_subj a tl
        else cur_adm :: admid_walk_from cur_subj cur_adm tl
      else a :: admid_walk_from subj a tl
  end.

(* ================================================================== guards =================== *)
Fixpoint forall_ctx_from {A : Type} (P : list A -> A -> list A -> bool) (rpre l : list A) : bool :=
  match l with
  | [] => true
  | x :: tl => P rpre x tl && forall_ctx_from P (x :: rpre) tl
  end.
(* P holds at every element, given the reversed list of the elements before it and the list after it *)
Definition forall_ctx {A : Type} (P : list A -> A -> list A -> bool) (l : list A) : bool :=
  forall_ctx_from P [] l.

Definition a_id (x : row * Z) : Z := r_id (fst x).
Definition a_time (x : row * Z) : Z := r_time (fst x).
Definition a_amt (x : row * Z) : Z := r_amt (fst x).
Definition a_same (x y : row * Z) : bool := a_id x =? a_id y.
Definition a_tie (x y : row * Z) : bool := (a_id x =? a_id y) && (a_time x =? a_time y).

(* input domain: amounts are not negative *)
Definition g_amt_nonneg (rows : list row) : bool := forallb (fun r => 0 <=? r_amt r) rows.
(* input domain: default index 0..n-1 *)
Fixpoint labels_from (k : Z) (l : list row) : bool :=
  match l with [] => true | r :: tl => (r_lab r =? k) && labels_from (k + 1) tl end.
Definition g_labels_range (rows : list row) : bool := labels_from 0 rows.
(* input domain: within a reset group of an individual the records are in chronological order *)
Definition g_chrono (an : list (row * Z)) : bool :=
  forall_ctx (fun rpre x _ => forallb (fun y => negb (a_same x y && (snd x =? snd y)) || (a_time y <=? a_time x)) rpre) an.
(* code: the tie groups ignore _RESETGROUP — no time value may occur in two reset groups of one individual *)
Definition g_tie_one_reset_group (an : list (row * Z)) : bool :=
  forall_ctx (fun rpre x _ => forallb (fun y => negb (a_tie x y) || (snd x =? snd y)) rpre) an.
(* code: an observation between two dose records of its own time point is not moved *)
Definition g_no_obs_between_tied_doses (an : list (row * Z)) : bool :=
  forall_ctx (fun rpre x post =>
     negb ((a_amt x =? 0)
           && existsb (fun y => a_tie x y && negb (a_amt y =? 0)) rpre
           && existsb (fun y => a_tie x y && negb (a_amt y =? 0)) post)) an.
Definition guard_doseid (d : dataset) : bool :=
  let s := ds_sch d in
  let an := ann s (ds_rows d) in
  has_dose s && g_amt_nonneg (ds_rows d) && g_labels_range (ds_rows d)
  && g_chrono an && g_tie_one_reset_group an && g_no_obs_between_tied_doses an.

(* EVID: without an EVID column, MDV (when present) says exactly which records are doses *)
Definition guard_evid (d : dataset) : bool :=
  let s := ds_sch d in
  has_evid s || negb (has_mdv s)
  || forallb (fun r => Bool.eqb (negb (r_mdv r =? 0)) (has_dose s && negb (r_amt r =? 0))) (ds_rows d).

(* nondecreasing keys *)
Fixpoint sortedz (l : list Z) : bool :=
  match l with
  | [] => true
  | x :: tl => match tl with [] => true | y :: _ => (x <=? y) && sortedz tl end
  end.

(* expand / time after dose keep the record order: individuals in ascending id order ... *)
Definition g_ids_ascending (rows : list row) : bool := sortedz (map r_id rows).
(* ... and additional doses are requested with ADDL >= 0 *)
Definition g_addl_nonneg (rows : list row) : bool := forallb (fun r => 0 <=? r_addl r) rows.

Definition guard_expand_order (d : dataset) : bool :=
  let s := ds_sch d in
  g_ids_ascending (ds_rows d) && g_chrono (ann s (ds_rows d)).

(* per individual, the values are nondecreasing along the list *)
Definition g_sorted_within {A : Type} (idf val : A -> Z) (l : list A) : bool :=
  forall_ctx (fun rpre x _ => forallb (fun y => negb (idf x =? idf y) || (val y <=? val x)) rpre) l.

(* add_time_after_dose keeps the frame: in the frame whose DOSEID is taken the individuals are in
   ascending id order and no DOSEID is out of order within an individual (no observation was moved
   to the preceding dose), so that the sort by DOSEID is the identity *)
Definition guard_tad_frame (d : dataset) : bool :=
  match tad_frame d with
  | Ok fr =>
      sortedz (map (fun e : row * bool => r_id (fst e)) fr)
      && match doseid_impl (with_rows d (map fst fr) true) with
         | Ok dids => g_sorted_within t_id t_did (combine fr dids)
         | Err _ => false
         end
  | Err _ => false
  end.

(* the frame is chronological for every individual *)
Definition guard_tad_chrono (d : dataset) : bool :=
  match tad_frame d with
  | Ok fr => g_sorted_within r_id r_time (map fst fr)
  | Err _ => false
  end.

(* get_admid by the reference rule: the admid implied by each record's compartment, carried forward
   from the latest DOSE EVENT (EVID 1 or 4, EVID as NM-TRAN would supply it) of the subject's block *)
Definition admid_ref (mi : minfo) (d : dataset) : res (list Z) :=
  match cmt_impl mi d with
  | Err e => Err e
  | Ok cmt =>
      let remap := dict_of (map (fun c : Z * Z * bool => fst c) (mi_dosing mi)) [] in
      let adm := map (fun lv => zreplace remap (snd lv)) cmt in
      match ds_rows d, adm with
      | r0 :: _, a0 :: _ =>
          Ok (admid_walk_from (r_id r0) a0 (combine (combine (evid_walk d) adm) (map r_id (ds_rows d))))
      | _, _ => Ok []
      end
  end.

(* ================================================================== further derivations ======= *)
(* get_ids: list(dataset[id].unique()) — ids in order of first appearance; get_number_of_individuals *)
Definition ids_impl (d : dataset) : list Z := uniq_from [] (map r_id (ds_rows d)).
Definition nind_impl (d : dataset) : Z := Z.of_nat (length (ids_impl d)).
(* reference: the individuals in the order in which the walk meets their first record *)
Definition ids_walk (d : dataset) : list Z := map r_id (baselines_walk [] (ds_rows d)).

(* get_covariate_baselines: df[covariates + [id]].set_index(id).groupby(id).nth(0) *)
Definition covbase_impl (ncov : nat) (d : dataset) : res (list (Z * list Z)) :=
  match ncov with
  | O => Err IndexError                                  (* typeix['covariate'] *)
  | _ => Ok (map (fun r => (r_id r, r_covs r)) (baselines_impl d))
  end.
Definition covbase_walk (d : dataset) : list (Z * list Z) :=
  map (fun r => (r_id r, r_covs r)) (baselines_walk [] (ds_rows d)).

Definition set_cmt (r : row) (v : Z) : row :=
  mkRow (r_lab r) (r_id r) (r_time r) (r_amt r) (r_dv r) (r_evid r) (r_mdv r) v (r_admid r) (r_ss r)
        (r_addl r) (r_ii r) (r_covs r) (r_other r).
Definition set_admid (r : row) (v : Z) : row :=
  mkRow (r_lab r) (r_id r) (r_time r) (r_amt r) (r_dv r) (r_evid r) (r_mdv r) (r_cmt r) v (r_ss r)
        (r_addl r) (r_ii r) (r_covs r) (r_other r).

(* dataset[name] = series : assignment aligned on the index labels; modelled when the labels of the
   series are the labels of the frame in the same order (otherwise NaN entries appear) *)
Definition assign_col (setf : row -> Z -> row) (rows : list row) (ser : list (Z * Z)) : res (list row) :=
  if zlist_eqb (map fst ser) (map r_lab rows)
  then Ok (map (fun rv => setf (fst rv) (snd (snd rv))) (combine rows ser))
  else Err OtherError.

(* add_cmt: if "compartment" not in di.types: dataset = model.dataset.copy(); dataset['CMT'] = get_cmt(model) *)
Definition add_cmt_impl (mi : minfo) (d : dataset) : res (list row) :=
  if has_cmt (ds_sch d) then Ok (ds_rows d)
  else match cmt_impl mi d with
       | Err e => Err e
       | Ok cmt => assign_col set_cmt (ds_rows d) cmt
       end.

(* add_admid: if "admid" not in di.types: dataset['ADMID'] = get_admid(model) *)
Definition add_admid_impl (mi : minfo) (d : dataset) : res (list row) :=
  if has_admid (ds_sch d) then Ok (ds_rows d)
  else match admid_impl mi d with
       | Err e => Err e
       | Ok adm => assign_col set_admid (ds_rows d) adm
       end.

(* the implied doses of one record (reference for expand_additional_doses): dose k at TIME + k*II for
   k = 0..ADDL, every other field as in the record, flagged EXPANDED for k > 0 *)
Definition implied (r : row) : list (row * bool) :=
  map (fun k => (set_time r (r_time r + Z.of_nat k * r_ii r), negb (Nat.eqb k 0)))
      (seq 0 (S (Z.to_nat (r_addl r)))).
Definition unlab_e (p : row * bool) : row * bool := (set_lab (fst p) 0, snd p).

(* get_observations(model, keep_index=True): df[dvcol] of the observation records, original index kept *)
Definition obs_keep_impl (d : dataset) : list (Z * Z) :=
  map (fun r => (r_lab r, r_dv r)) (obs_rows (ds_sch d) (ds_rows d)).
Fixpoint obs_keep_walk (s : schema) (rows : list row) : list (Z * Z) :=
  match rows with
  | [] => []
  | r :: tl => if rec_mdv s r =? 0 then (r_lab r, r_dv r) :: obs_keep_walk s tl else obs_keep_walk s tl
  end.


(* the single guard of "time after dose = the walk over the working frame": get_doseid's guard on that
   frame (the expanded frame when there is an ADDL column) *)
Definition guard_tad_walk (d : dataset) : bool :=
  match tad_frame d with
  | Ok fr => guard_doseid (with_rows d (map fst fr) true)
  | Err _ => false
  end.

(* expand_additional_doses(model, flag=False) — the default: the ADDL, II and _EXPANDED columns are dropped
   from the expanded frame (df.drop([addl, ii, '_EXPANDED'], axis=1)); without an ADDL/II pair the model is
   returned as it is, columns included *)
Definition drop_addl_ii (r : row) : row :=
  mkRow (r_lab r) (r_id r) (r_time r) (r_amt r) (r_dv r) (r_evid r) (r_mdv r) (r_cmt r) (r_admid r) (r_ss r)
        0 0 (r_covs r) (r_other r).
Definition expand_noflag_impl (d : dataset) : res (list row) :=
  let s := ds_sch d in
  if negb (has_addl s && has_ii s) then Ok (ds_rows d)
  else match expand_impl d with
       | Ok l => Ok (map (fun p : row * bool => drop_addl_ii (fst p)) l)
       | Err e => Err e
       end.

