(* PV.C14.ProofsExtend3 — expand_additional_doses with flag=False (the default): the expanded frame without
   the ADDL / II / EXPANDED columns. *)
From Coq Require Import ZArith List Bool Lia Permutation.
From PV Require Import C14.Model C14.Proofs C14.ProofsDoseid C14.ProofsExpand C14.ProofsExtend.
Import ListNotations.
Local Open Scope Z_scope.

Lemma expand_noflag_noop_lemma d :
  has_addl (ds_sch d) && has_ii (ds_sch d) = false -> expand_noflag_impl d = Ok (ds_rows d).
Proof. intros H. unfold expand_noflag_impl. rewrite H. reflexivity. Qed.

(* flag=False is flag=True with the three columns removed: same records, same order *)
Lemma expand_noflag_flag_lemma d l : has_addl (ds_sch d) && has_ii (ds_sch d) = true ->
  expand_noflag_impl d = Ok l ->
  exists lf, expand_impl d = Ok lf /\ l = map (fun p : row * bool => drop_addl_ii (fst p)) lf.
Proof.
  intros Ha. unfold expand_noflag_impl. rewrite Ha. cbn [negb].
  destruct (expand_impl d) as [lf|e]; [|discriminate]. intros H. injection H as <-. exists lf. auto.
Qed.

(* the records of the default expansion are exactly the implied doses of every record (dose k at
   TIME + k*II, k = 0..ADDL, every remaining field kept), up to order and the new index labels *)
Lemma expand_noflag_spec_lemma d l :
  has_addl (ds_sch d) && has_ii (ds_sch d) = true -> g_addl_nonneg (ds_rows d) = true ->
  expand_noflag_impl d = Ok l ->
  Permutation (map (fun r => set_lab r 0) l)
              (map (fun p : row * bool => set_lab (drop_addl_ii (fst p)) 0) (flat_map implied (ds_rows d))).
Proof.
  intros Ha G H. destruct (expand_noflag_flag_lemma d l Ha H) as [lf [Ef ->]].
  assert (P := expand_times_amounts_lemma d lf Ha G Ef).
  apply (Permutation_map (fun q : row * bool => drop_addl_ii (fst q))) in P.
  rewrite !map_map in P. rewrite map_map. exact P.
Qed.

(* ... hence the total administered amount, also for the default call *)
Lemma expand_noflag_amount_lemma d l :
  has_addl (ds_sch d) && has_ii (ds_sch d) = true -> g_addl_nonneg (ds_rows d) = true ->
  expand_noflag_impl d = Ok l ->
  zsum (map r_amt l) = zsum (map (fun r => (r_addl r + 1) * r_amt r) (ds_rows d)).
Proof.
  intros Ha G H. destruct (expand_noflag_flag_lemma d l Ha H) as [lf [Ef ->]].
  rewrite <- (expand_total_amount_lemma d lf Ha G Ef). rewrite map_map. reflexivity.
Qed.
