(* PV.C14.ProofsExtend — extensions: the arithmetic of the implied doses of expand_additional_doses,
   time after dose = the walk over the working frame (with ADDL: the expanded frame), get_ids /
   get_number_of_individuals / get_covariate_baselines, add_cmt / add_admid keep the frame. *)
From Coq Require Import ZArith List Bool Lia Permutation.
From PV Require Import C14.Model C14.Proofs C14.ProofsDoseid C14.ProofsExpand C14.ProofsTad C14.ProofsTadWalk.
Import ListNotations.
Local Open Scope Z_scope.



Lemma explode_implied r : 0 <= r_addl r -> explode_row r = implied r.
Proof.
  intros H. unfold explode_row, implied. destruct (r_addl r =? 0) eqn:E.
  - apply Z.eqb_eq in E. rewrite E. cbn [Z.to_nat seq map Nat.eqb negb Z.of_nat].
    replace (r_time r + 0 * r_ii r) with (r_time r) by lia. rewrite set_time_same. reflexivity.
  - apply map_ext. intros k. f_equal. f_equal. lia.
Qed.


Lemma relabel_unlab_e (X : list (row * bool)) : map unlab_e (relabel X) = map unlab_e X.
Proof.
  unfold relabel. generalize 0. induction X as [|p X IH]; intros k; [reflexivity|].
  cbn [length zseq combine map]. rewrite IH. reflexivity.
Qed.

Lemma exploded_fst s rows : g_addl_nonneg rows = true ->
  map fst (exploded s rows) = flat_map implied rows.
Proof.
  intros G. unfold g_addl_nonneg in G. rewrite forallb_forall in G.
  rewrite <- (ann_fst s rows) at 2. unfold exploded.
  assert (K : forall an : list (row * Z), (forall a, In a an -> 0 <= r_addl (fst a)) ->
    map fst (flat_map (fun x => map (fun e => (e, snd x)) (explode_row (fst x))) an) = flat_map implied (map fst an)).
  { induction an as [|a an IH]; intros H; [reflexivity|]. cbn [flat_map map]. rewrite map_app, IH.
    - rewrite map_map. cbn [fst]. rewrite map_id, explode_implied; [reflexivity | apply H; left; reflexivity].
    - intros x Hx. apply H. right. exact Hx. }
  apply K. intros a Ha. apply Z.leb_le. apply G. rewrite <- (ann_fst s rows). apply in_map. exact Ha.
Qed.

Lemma implied_relab r k : map unlab_e (implied (set_lab r k)) = map unlab_e (implied r).
Proof. unfold implied. rewrite !map_map. apply map_ext. intros j. reflexivity. Qed.

Lemma flat_implied_relab rows : forall k,
  map unlab_e (flat_map implied (relab_from k rows)) = map unlab_e (flat_map implied rows).
Proof.
  induction rows as [|r l IH]; intros k; [reflexivity|]. cbn [relab_from flat_map].
  rewrite !map_app, implied_relab, IH. reflexivity.
Qed.

(* expand_additional_doses: the expanded frame consists exactly of the implied doses of every record
   (dose k at TIME + k*II, k = 0..ADDL, all other fields unchanged), whatever the order *)
Lemma expand_times_amounts_lemma d l :
  has_addl (ds_sch d) && has_ii (ds_sch d) = true -> g_addl_nonneg (ds_rows d) = true ->
  expand_impl d = Ok l ->
  Permutation (map unlab_e l) (map unlab_e (flat_map implied (ds_rows d))).
Proof.
  intros Ha G. unfold expand_impl. rewrite Ha. cbn [negb]. intros H. injection H as <-.
  rewrite relabel_unlab_e, <- (flat_implied_relab (ds_rows d) 0).
  apply Permutation_map.
  eapply Permutation_trans; [apply expand_core_perm|].
  rewrite exploded_fst; [reflexivity|].
  unfold g_addl_nonneg in *. rewrite forallb_forall in *. intros r Hr.
  assert (E : forall l k, map r_addl (relab_from k l) = map r_addl l).
  { induction l as [|x l IH]; intros k; [reflexivity|]. cbn [relab_from map]. rewrite IH. reflexivity. }
  assert (In (r_addl r) (map r_addl (relab_from 0 (ds_rows d)))) by (apply in_map; exact Hr).
  rewrite E in H. apply in_map_iff in H. destruct H as [r' [<- Hr']]. apply G. exact Hr'.
Qed.


Lemma combine_map_fst2 {A B C} (h : A -> C) (fr : list (A * B)) :
  combine fr (map h (map fst fr)) = map (fun e => (e, h (fst e))) fr.
Proof. induction fr as [|e fr IH]; [reflexivity|]. cbn [map combine]. rewrite IH. reflexivity. Qed.

Lemma filter_combine4 {A B C D} (q : A -> bool) (fr : list A) : forall (ds : list B) (ps : list C) (vs : list D),
  length ds = length fr -> length ps = length fr -> length vs = length fr ->
  map snd (filter (fun p : A * B * C * D => q (fst (fst (fst p)))) (combine (combine (combine fr ds) ps) vs))
  = map snd (filter (fun p : A * D => q (fst p)) (combine fr vs)).
Proof.
  induction fr as [|a fr IH]; intros [|d ds] [|p ps] [|v vs] H1 H2 H3; cbn in *; try reflexivity; try discriminate.
  destruct (q a); cbn [map snd]; rewrite IH by lia; reflexivity.
Qed.

(* the core of add_time_after_dose on a working frame whose DOSEIDs are the walk's and in order:
   the TAD of every unexpanded record is the walk's value over the frame *)
Lemma tad_core_walk s (fr : list (row * bool)) :
  let rows := map fst fr in
  let dids := map (wf s rows) rows in
  g_labels_range rows = true ->
  sortedz (map (fun e : row * bool => r_id (fst e)) fr) = true ->
  g_sorted_within t_id t_did (combine fr dids) = true ->
  map snd (tad_core fr dids)
  = map snd (filter (fun p : (row * bool) * Z => negb (snd (fst p))) (combine fr (tad_walk_from s [] rows))).
Proof.
  intros rows dids Glab Gids Gsort.
  assert (Hlen : length dids = length fr) by (unfold dids, rows; rewrite !map_length; reflexivity).
  set (g := fun e : row * bool => (e, wf s rows (fst e)) : trow).
  assert (ES : combine fr dids = map g fr) by (unfold dids, rows, g; apply combine_map_fst2).
  assert (Hsorted : forall x y, In x rows -> In y rows -> r_id x = r_id y -> r_lab y < r_lab x ->
                                wf s rows y <= wf s rows x).
  { intros x y Hx Hy Hi Hl. apply in_split in Hx. destruct Hx as [pre [post E]].
    unfold rows in E. apply map_eq_app in E. destruct E as [fpre [fxp [Efr [Epre Exp]]]].
    apply map_eq_cons in Exp. destruct Exp as [ex [fpost [-> [Ex Epost]]]].
    assert (E2 : combine fr dids = map g fpre ++ g ex :: map g fpost) by (rewrite ES, Efr, map_app; reflexivity).
    unfold g_sorted_within in Gsort. assert (Q := forall_ctx_spec _ _ Gsort _ _ _ E2). cbn beta in Q.
    rewrite forallb_forall in Q.
    assert (Hyp : In y pre).
    { apply (in_pre rows Glab pre x post y); [unfold rows; rewrite Efr, map_app, Epre; cbn [map]; rewrite Ex, Epost; reflexivity | exact Hy | exact Hl]. }
    rewrite <- Epre in Hyp. apply in_map_iff in Hyp. destruct Hyp as [ey [Ey Hey]].
    specialize (Q (g ey)). assert (In (g ey) (rev (map g fpre))) as Hin by (rewrite <- in_rev; apply in_map; exact Hey).
    specialize (Q Hin). unfold g, t_id, t_did in Q. cbn [fst snd] in Q. rewrite Ex, Ey, Hi, Z.eqb_refl in Q.
    cbn [negb orb] in Q. apply Z.leb_le. exact Q. }
  unfold tad_core. rewrite relabel_snd, map_map. cbn [snd].
  rewrite (tad_sorted_pos_identity fr dids Hlen Gids Gsort).
  set (F' := combine (combine fr dids) (zseq 0 (length (combine fr dids)))).
  assert (EF : @map (trow * Z) trow (@fst trow Z) F' = combine fr dids) by (apply map_fst_combine; apply zseq_length).
  rewrite EF.
  assert (Lc : length (combine fr dids) = length fr) by (rewrite combine_length, Hlen; apply Nat.min_id).
  assert (Lv : length (tad_values (combine fr dids)) = length F').
  { rewrite tad_values_length. unfold F'. rewrite combine_length, zseq_length. symmetry. apply Nat.min_id. }
  rewrite (isort_sorted_id (fun x : prow * Z => p_pos (fst x))).
  2:{ rewrite <- (map_map fst p_pos), map_fst_combine by exact Lv.
      assert (E0 : map p_pos F' = zseq 0 (length (combine fr dids))).
      { exact (map_snd_combine_len (combine fr dids) (zseq 0 (length (combine fr dids))) (zseq_length _ _)). }
      rewrite E0. apply asc_ssorted. apply zseq_asc. }
  (* the values are the walk's *)
  assert (EV : tad_values (combine fr dids) = tad_walk_from s [] rows).
  { rewrite tad_values_closed, ES. rewrite (tad_walk_closed s rows Glab).
    change (@nil trow) with (map g []). rewrite (scan_map g).
    unfold rows at 2. rewrite map_map. rewrite (map_as_scan (fun e => twf s rows (fst e)) fr []). apply scan_ext_ctx.
    intros pre e post E. rewrite app_nil_r.
    assert (Er : rows = map fst pre ++ fst e :: map fst post) by (unfold rows; rewrite E, map_app; reflexivity).
    rewrite <- (period_start_time s rows Glab Hsorted (fst e)) by (rewrite Er; apply in_or_app; right; left; reflexivity).
    unfold oldest. rewrite filter_map. rewrite (last_map g). unfold g at 1 2. unfold t_time. cbn [fst]. f_equal. f_equal.
    unfold period_start. rewrite <- (mine_ctx rows Glab (map fst pre) (fst e) (map fst post) Er).
    rewrite <- map_rev, <- filter_andb.
    rewrite <- (map_fst_filter (fun y => same_id (fst e) y && (wf s rows (fst e) =? wf s rows y)) (rev pre)).
    rewrite (last_map fst). reflexivity. }
  rewrite EV. unfold F'.
  apply (filter_combine4 (fun e : row * bool => negb (snd e)) fr dids (zseq 0 (length (combine fr dids))) (tad_walk_from s [] rows)).
  - exact Hlen.
  - rewrite zseq_length. exact Lc.
  - rewrite <- EV, tad_values_length. exact Lc.
Qed.

(* add_time_after_dose = the per-individual walk over the working frame — the expanded frame when
   there is an ADDL column, whose records are the implied doses of expand_times_amounts *)
Lemma tad_refines_frame_lemma d fr : tad_frame d = Ok fr ->
  guard_doseid (with_rows d (map fst fr) true) = true -> guard_tad_frame d = true ->
  exists out, tad_impl d = Ok out
    /\ map snd out = map snd (filter (fun p : (row * bool) * Z => negb (snd (fst p)))
                                    (combine fr (tad_walk (with_rows d (map fst fr) true)))).
Proof.
  intros Ef Gd Gt. set (dfr := with_rows d (map fst fr) true) in *.
  assert (R := doseid_refines_lemma dfr Gd).
  assert (Glab : g_labels_range (map fst fr) = true).
  { unfold guard_doseid in Gd.
    apply andb_prop in Gd. destruct Gd as [Gd _]. apply andb_prop in Gd. destruct Gd as [Gd _].
    apply andb_prop in Gd. destruct Gd as [Gd _]. apply andb_prop in Gd. destruct Gd as [_ Glab]. exact Glab. }
  set (s' := ds_sch dfr) in *.
  assert (Ew : doseid_walk dfr = map (wf s' (map fst fr)) (map fst fr)).
  { unfold doseid_walk. fold s'. change (ds_rows dfr) with (map fst fr). apply (walk_closed s' (map fst fr) Glab). }
  unfold guard_tad_frame in Gt. rewrite Ef in Gt. fold dfr in Gt. rewrite R, Ew in Gt.
  apply andb_prop in Gt. destruct Gt as [Gids Gsort].
  exists (tad_core fr (map (wf s' (map fst fr)) (map fst fr))). split.
  - unfold tad_impl. rewrite (tad_frame_ok_ii d fr Ef), Ef. fold dfr. rewrite R, Ew. reflexivity.
  - unfold tad_walk. fold s'. change (ds_rows dfr) with (map fst fr).
    apply (tad_core_walk s' fr Glab Gids Gsort).
Qed.


Lemma ids_spec_gen rows : forall seen, uniq_from seen (map r_id rows) = map r_id (baselines_walk seen rows).
Proof.
  induction rows as [|r l IH]; intros seen; [reflexivity|]. cbn [map uniq_from baselines_walk].
  destruct (existsb (Z.eqb (r_id r)) seen); [apply IH|]. cbn [map]. f_equal. apply IH.
Qed.

Lemma ids_spec_lemma d : ids_impl d = ids_walk d.
Proof. apply ids_spec_gen. Qed.

Lemma nind_spec_lemma d : nind_impl d = Z.of_nat (length (ids_walk d)).
Proof. unfold nind_impl. rewrite ids_spec_lemma. reflexivity. Qed.

Lemma covbase_spec_lemma ncov d : ncov <> O -> covbase_impl ncov d = Ok (covbase_walk d).
Proof.
  intros H. unfold covbase_impl, covbase_walk. destruct ncov; [congruence|]. rewrite baselines_spec_lemma. reflexivity.
Qed.

Lemma zlist_eqb_length a : forall b, zlist_eqb a b = true -> length a = length b.
Proof.
  induction a as [|x a IH]; intros [|y b] H; cbn in *; try reflexivity; try discriminate.
  apply andb_prop in H. destruct H as [_ H]. rewrite (IH b H). reflexivity.
Qed.

(* assigning a column touches that field only: with any "clear that field" function that absorbs the setter *)
Lemma assign_col_spec (setf : row -> Z -> row) (getf : row -> Z) (clear : row -> row) rows ser rows' :
  (forall r v, clear (setf r v) = clear r) -> (forall r v, getf (setf r v) = v) ->
  assign_col setf rows ser = Ok rows' ->
  map clear rows' = map clear rows /\ map getf rows' = map snd ser /\ map fst ser = map r_lab rows.
Proof.
  intros Hc Hg. unfold assign_col. destruct (zlist_eqb (map fst ser) (map r_lab rows)) eqn:E; [|discriminate].
  intros H. injection H as <-.
  assert (L : length ser = length rows) by (apply zlist_eqb_length in E; rewrite !map_length in E; exact E).
  assert (EL : map fst ser = map r_lab rows).
  { clear L. revert E. generalize (map r_lab rows) as b. generalize (map fst ser) as a.
    induction a as [|x a IH]; intros [|y b] H; cbn in *; try reflexivity; try discriminate.
    apply andb_prop in H. destruct H as [H1 H2]. apply Z.eqb_eq in H1. subst. f_equal. apply IH. exact H2. }
  split; [|split; [|exact EL]].
  - clear E EL. revert ser L. induction rows as [|r l IH]; intros [|x ser] L; cbn in *; try reflexivity; try discriminate.
    rewrite Hc. f_equal. apply IH. lia.
  - clear E EL. revert ser L. induction rows as [|r l IH]; intros [|x ser] L; cbn in *; try reflexivity; try discriminate.
    rewrite Hg. f_equal. apply IH. lia.
Qed.

(* add_cmt: every record, every other field and the order are kept; the new column is get_cmt *)
Lemma add_cmt_frame_lemma mi d rows' : add_cmt_impl mi d = Ok rows' ->
  map (fun r => set_cmt r 0) rows' = map (fun r => set_cmt r 0) (ds_rows d)
  /\ (has_cmt (ds_sch d) = true -> rows' = ds_rows d)
  /\ (has_cmt (ds_sch d) = false -> exists cmt, cmt_impl mi d = Ok cmt /\ map r_cmt rows' = map snd cmt).
Proof.
  unfold add_cmt_impl. destruct (has_cmt (ds_sch d)).
  - intros H. injection H as <-. split; [reflexivity|]. split; [reflexivity | discriminate].
  - destruct (cmt_impl mi d) as [cmt|e]; [|discriminate]. intros H.
    destruct (assign_col_spec set_cmt r_cmt (fun r => set_cmt r 0) _ _ _ (fun r v => eq_refl) (fun r v => eq_refl) H) as [H1 [H2 _]].
    split; [exact H1|]. split; [discriminate|]. intros _. exists cmt. auto.
Qed.

Lemma add_admid_frame_lemma mi d rows' : add_admid_impl mi d = Ok rows' ->
  map (fun r => set_admid r 0) rows' = map (fun r => set_admid r 0) (ds_rows d)
  /\ (has_admid (ds_sch d) = true -> rows' = ds_rows d)
  /\ (has_admid (ds_sch d) = false -> exists adm, admid_impl mi d = Ok adm /\ map r_admid rows' = map snd adm).
Proof.
  unfold add_admid_impl. destruct (has_admid (ds_sch d)).
  - intros H. injection H as <-. split; [reflexivity|]. split; [reflexivity | discriminate].
  - destruct (admid_impl mi d) as [adm|e]; [|discriminate]. intros H.
    destruct (assign_col_spec set_admid r_admid (fun r => set_admid r 0) _ _ _ (fun r v => eq_refl) (fun r v => eq_refl) H) as [H1 [H2 _]].
    split; [exact H1|]. split; [discriminate|]. intros _. exists adm. auto.
Qed.
