(* PV.C14.Examples — non-vacuity: concrete non-trivial datasets meeting every guard of every theorem,
   with the values the theorems speak about. *)
From Coq Require Import ZArith List Bool.
From PV Require Import C14.Model.
Import ListNotations.
Local Open Scope Z_scope.

(* ex1: two individuals, EVID and SS columns; predose observation at the time of the first dose, an
   observation tied with the second dose AFTER it (moved to period 1), a reset followed by a third
   dose, a steady-state first dose, an observation before a dose of its own time point.
   ex2: ADDL/II (three doses 12 h apart for individual 1, two for individual 2), no ties.
   ex3: MDV column marking exactly the dose records, a time-varying covariate. *)
Definition ex1 : dataset :=
  (mkDs (mkSchema true true false false false true false false true true true) [
    (mkRow (0)%Z (1)%Z (0)%Z (0)%Z (20)%Z (0)%Z (0)%Z (0)%Z (0)%Z (0)%Z (0)%Z (0)%Z [(280)%Z] []); 
    (mkRow (1)%Z (1)%Z (0)%Z (40)%Z (0)%Z (1)%Z (0)%Z (0)%Z (0)%Z (0)%Z (0)%Z (0)%Z [(280)%Z] []); 
    (mkRow (2)%Z (1)%Z (4)%Z (0)%Z (28)%Z (0)%Z (0)%Z (0)%Z (0)%Z (0)%Z (0)%Z (0)%Z [(280)%Z] []); 
    (mkRow (3)%Z (1)%Z (8)%Z (40)%Z (0)%Z (1)%Z (0)%Z (0)%Z (0)%Z (0)%Z (0)%Z (0)%Z [(280)%Z] []); 
    (mkRow (4)%Z (1)%Z (8)%Z (0)%Z (32)%Z (0)%Z (0)%Z (0)%Z (0)%Z (0)%Z (0)%Z (0)%Z [(280)%Z] []); 
    (mkRow (5)%Z (1)%Z (12)%Z (0)%Z (0)%Z (3)%Z (0)%Z (0)%Z (0)%Z (0)%Z (0)%Z (0)%Z [(280)%Z] []); 
    (mkRow (6)%Z (1)%Z (16)%Z (80)%Z (0)%Z (1)%Z (0)%Z (0)%Z (0)%Z (0)%Z (0)%Z (0)%Z [(280)%Z] []); 
    (mkRow (7)%Z (1)%Z (20)%Z (0)%Z (36)%Z (0)%Z (0)%Z (0)%Z (0)%Z (0)%Z (0)%Z (0)%Z [(284)%Z] []); 
    (mkRow (8)%Z (2)%Z (0)%Z (40)%Z (0)%Z (1)%Z (0)%Z (0)%Z (0)%Z (1)%Z (0)%Z (0)%Z [(240)%Z] []); 
    (mkRow (9)%Z (2)%Z (4)%Z (0)%Z (12)%Z (0)%Z (0)%Z (0)%Z (0)%Z (0)%Z (0)%Z (0)%Z [(240)%Z] []); 
    (mkRow (10)%Z (2)%Z (4)%Z (40)%Z (0)%Z (1)%Z (0)%Z (0)%Z (0)%Z (0)%Z (0)%Z (0)%Z [(240)%Z] []); 
    (mkRow (11)%Z (2)%Z (6)%Z (0)%Z (16)%Z (0)%Z (0)%Z (0)%Z (0)%Z (0)%Z (0)%Z (0)%Z [(240)%Z] [])]).

Definition ex2 : dataset :=
  (mkDs (mkSchema true false false false false false true true true true true) [
    (mkRow (0)%Z (1)%Z (0)%Z (40)%Z (0)%Z (0)%Z (0)%Z (0)%Z (0)%Z (0)%Z (2)%Z (48)%Z [(280)%Z] []); 
    (mkRow (1)%Z (1)%Z (20)%Z (0)%Z (12)%Z (0)%Z (0)%Z (0)%Z (0)%Z (0)%Z (0)%Z (0)%Z [(280)%Z] []); 
    (mkRow (2)%Z (1)%Z (52)%Z (0)%Z (16)%Z (0)%Z (0)%Z (0)%Z (0)%Z (0)%Z (0)%Z (0)%Z [(280)%Z] []); 
    (mkRow (3)%Z (1)%Z (120)%Z (0)%Z (20)%Z (0)%Z (0)%Z (0)%Z (0)%Z (0)%Z (0)%Z (0)%Z [(280)%Z] []); 
    (mkRow (4)%Z (2)%Z (0)%Z (80)%Z (0)%Z (0)%Z (0)%Z (0)%Z (0)%Z (0)%Z (0)%Z (0)%Z [(240)%Z] []); 
    (mkRow (5)%Z (2)%Z (4)%Z (0)%Z (24)%Z (0)%Z (0)%Z (0)%Z (0)%Z (0)%Z (0)%Z (0)%Z [(240)%Z] []); 
    (mkRow (6)%Z (2)%Z (8)%Z (20)%Z (0)%Z (0)%Z (0)%Z (0)%Z (0)%Z (0)%Z (1)%Z (16)%Z [(240)%Z] []); 
    (mkRow (7)%Z (2)%Z (28)%Z (0)%Z (8)%Z (0)%Z (0)%Z (0)%Z (0)%Z (0)%Z (0)%Z (0)%Z [(240)%Z] [])]).

Definition ex3 : dataset :=
  (mkDs (mkSchema true false true false false false false false true true true) [
    (mkRow (0)%Z (1)%Z (0)%Z (40)%Z (0)%Z (0)%Z (1)%Z (0)%Z (0)%Z (0)%Z (0)%Z (0)%Z [(280)%Z] []); 
    (mkRow (1)%Z (1)%Z (4)%Z (0)%Z (12)%Z (0)%Z (0)%Z (0)%Z (0)%Z (0)%Z (0)%Z (0)%Z [(280)%Z] []); 
    (mkRow (2)%Z (1)%Z (8)%Z (0)%Z (16)%Z (0)%Z (0)%Z (0)%Z (0)%Z (0)%Z (0)%Z (0)%Z [(280)%Z] []); 
    (mkRow (3)%Z (2)%Z (0)%Z (40)%Z (0)%Z (0)%Z (1)%Z (0)%Z (0)%Z (0)%Z (0)%Z (0)%Z [(240)%Z] []); 
    (mkRow (4)%Z (2)%Z (4)%Z (40)%Z (0)%Z (0)%Z (1)%Z (0)%Z (0)%Z (0)%Z (0)%Z (0)%Z [(240)%Z] []); 
    (mkRow (5)%Z (2)%Z (8)%Z (0)%Z (20)%Z (0)%Z (0)%Z (0)%Z (0)%Z (0)%Z (0)%Z (0)%Z [(244)%Z] [])]).

Example guard_doseid_nonvacuous :
  guard_doseid ex1 = true /\ doseid_walk ex1 = [0; 1; 1; 2; 1; 2; 3; 3; 1; 1; 2; 2]
  /\ doseid_impl ex1 = Ok (doseid_walk ex1).
Proof. repeat split; vm_compute; reflexivity. Qed.

Example guard_doseid_addl_nonvacuous : guard_doseid ex2 = true /\ doseid_walk ex2 = [1; 1; 1; 1; 1; 1; 2; 2].
Proof. split; vm_compute; reflexivity. Qed.

Example guard_evid_nonvacuous :
  guard_evid ex3 = true /\ has_evid (ds_sch ex3) = false /\ evid_walk ex3 = [1; 0; 0; 1; 1; 0].
Proof. repeat split; vm_compute; reflexivity. Qed.

Example guard_counts_nonvacuous :
  has_dose (ds_sch ex3) = true
  /\ nobs_impl ex3 = Ok 3 /\ nobs_per_impl ex3 = Ok [(1, 2); (2, 1)]
  /\ tvc_impl 1 ex3 = Ok [true] /\ tvc_walk 1 ex3 = [true]
  /\ map r_lab (baselines_impl ex3) = [0; 3].
Proof. repeat split; vm_compute; reflexivity. Qed.

Example mdv_labels_nonvacuous : mdv_col (ds_sch ex1) <> None /\ mdv_walk ex1 = [0; 1; 0; 1; 0; 1; 1; 0; 1; 0; 1; 0].
Proof. split; [vm_compute; discriminate | vm_compute; reflexivity]. Qed.

(* expansion: 8 records become 11, in order, amounts 3*10 + 20 + 2*5 *)
Example expand_nonvacuous :
  has_addl (ds_sch ex2) && has_ii (ds_sch ex2) = true /\ g_addl_nonneg (ds_rows ex2) = true
  /\ guard_expand_order ex2 = true
  /\ match expand_impl ex2 with
     | Ok l => map (fun p : row * bool => (r_time (fst p), snd p)) l
               = [(0, false); (20, false); (48, true); (52, false); (96, true); (120, false);
                  (0, false); (4, false); (8, false); (24, true); (28, false)]
               /\ zsum (map (fun p : row * bool => r_amt (fst p)) l) = 240
     | Err _ => False
     end.
Proof. repeat split; vm_compute; reflexivity. Qed.

Example expand_noop_nonvacuous : has_addl (ds_sch ex1) && has_ii (ds_sch ex1) = false /\ length (ds_rows ex1) = 12%nat.
Proof. split; vm_compute; reflexivity. Qed.

(* time after dose on the expanded frame and without ADDL *)
Example tad_nonvacuous :
  guard_tad_frame ex2 = true /\ guard_tad_chrono ex2 = true /\ guard_expand_order ex2 = true
  /\ option_map (map snd) (match tad_impl ex2 with Ok l => Some l | Err _ => None end)
     = Some [0; 20; 4; 24; 0; 4; 0; 4].
Proof. repeat split; vm_compute; reflexivity. Qed.

Example tad_plain_nonvacuous :
  guard_tad_frame ex3 = true /\ guard_tad_chrono ex3 = true /\ has_addl (ds_sch ex3) = false
  /\ option_map (map snd) (match tad_impl ex3 with Ok l => Some l | Err _ => None end) = Some [0; 4; 8; 0; 0; 4]
  /\ tad_walk ex3 = [0; 4; 8; 0; 0; 4].
Proof. repeat split; vm_compute; reflexivity. Qed.

(* ex1 (reset without a restart of time): every dose record has TAD 0 *)
Example tad_zero_nonvacuous :
  guard_tad_chrono ex1 = true
  /\ match tad_impl ex1 with
     | Ok l => existsb (fun p : row * Z => 0 <? r_amt (fst p)) l = true
               /\ forallb (fun p : row * Z => negb (0 <? r_amt (fst p)) || (snd p =? 0)) l = true
     | Err _ => False
     end.
Proof. repeat split; vm_compute; reflexivity. Qed.

(* get_admid on ex1 read with a two-route model (depot = compartment 1 / admid 1, central = 2 / admid 2) *)
Example admid_nonvacuous :
  let mi := mkMinfo [(1, 1, false); (2, 2, true)] 2 in
  has_admid (ds_sch ex3) = false /\ guard_evid ex3 = true /\ forallb (fun v => negb (v =? 4)) (evid_walk ex3) = true
  /\ admid_ref mi ex3 = Ok [1; 1; 1; 1; 1; 1]
  /\ option_map (map snd) (match admid_impl mi ex3 with Ok l => Some l | Err _ => None end) = Some [1; 1; 1; 1; 1; 1].
Proof. repeat split; vm_compute; reflexivity. Qed.

(* extensions: ex2 (ADDL): the working frame has 11 records, get_doseid refines its walk there, no DOSEID
   is out of order; the walk over the frame gives the TAD of the 8 original records *)
Example tad_refines_frame_nonvacuous :
  match tad_frame ex2 with
  | Ok fr => length fr = 11%nat
             /\ guard_doseid (with_rows ex2 (map fst fr) true) = true /\ guard_tad_frame ex2 = true
             /\ map snd (filter (fun p : (row * bool) * Z => negb (snd (fst p)))
                                (combine fr (tad_walk (with_rows ex2 (map fst fr) true))))
                = [0; 20; 4; 24; 0; 4; 0; 4]
  | Err _ => False
  end.
Proof. repeat split; vm_compute; reflexivity. Qed.

Example ids_nonvacuous : ids_impl ex3 = [1; 2] /\ nind_impl ex3 = 2 /\ covbase_impl 1 ex3 = Ok [(1, [280]); (2, [240])].
Proof. repeat split; vm_compute; reflexivity. Qed.

Example add_cmt_nonvacuous :
  let mi := mkMinfo [(1, 1, false); (2, 2, true)] 2 in
  has_cmt (ds_sch ex3) = false
  /\ option_map (map r_cmt) (match add_cmt_impl mi ex3 with Ok l => Some l | Err _ => None end) = Some [1; 0; 0; 1; 1; 0]
  /\ option_map (map r_admid) (match add_admid_impl mi ex3 with Ok l => Some l | Err _ => None end) = Some [1; 1; 1; 1; 1; 1].
Proof. repeat split; vm_compute; reflexivity. Qed.

(* second round: ex1 has an observation counted towards the preceding dose (DOSEIDs out of order) and is
   inside the single guard; its TAD is the walk's *)
Example tad_refines_full_nonvacuous :
  guard_tad_walk ex1 = true /\ guard_tad_frame ex1 = false /\ has_addl (ds_sch ex1) = false
  /\ option_map (map snd) (match tad_impl ex1 with Ok l => Some l | Err _ => None end) = Some (tad_walk ex1)
  /\ tad_walk ex1 = [0; 0; 4; 0; 8; 4; 0; 4; 0; 4; 0; 2].
Proof. repeat split; vm_compute; reflexivity. Qed.

(* with ADDL: a dataset whose observation coincides with an implied dose *)
Definition ex4 : dataset :=
  mkDs (ds_sch ex2)
       [mkRow 0 1 0 40 0 0 0 0 0 0 2 48 [280] []; mkRow 1 1 20 0 12 0 0 0 0 0 0 0 [280] [];
        mkRow 2 1 48 0 16 0 0 0 0 0 0 0 [280] []; mkRow 3 1 100 0 20 0 0 0 0 0 0 0 [280] []].
Example tad_refines_full_addl_nonvacuous :
  guard_tad_walk ex4 = true /\ guard_tad_frame ex4 = false
  /\ option_map (map snd) (match tad_impl ex4 with Ok l => Some l | Err _ => None end) = Some [0; 20; 48; 4].
Proof. repeat split; vm_compute; reflexivity. Qed.

Example obs_keep_nonvacuous : obs_keep_impl ex3 = [(1, 12); (2, 16); (5, 20)].
Proof. vm_compute. reflexivity. Qed.

(* round 4: the default expansion of ex2: 11 records, no ADDL / II values left, amounts 3*10 + 20 + 2*5 *)
Example expand_noflag_nonvacuous :
  has_addl (ds_sch ex2) && has_ii (ds_sch ex2) = true /\ g_addl_nonneg (ds_rows ex2) = true
  /\ match expand_noflag_impl ex2 with
     | Ok l => map r_time l = [0; 20; 48; 52; 96; 120; 0; 4; 8; 24; 28]
               /\ forallb (fun r => (r_addl r =? 0) && (r_ii r =? 0)) l = true /\ zsum (map r_amt l) = 240
     | Err _ => False
     end
  /\ has_addl (ds_sch ex1) && has_ii (ds_sch ex1) = false.
Proof. repeat split; vm_compute; reflexivity. Qed.

