(* PV.C11.JdModel — create_joint_distribution / split_joint_distribution (modeling/parameter_variability.py)
   as operations on (parameter initial estimates, random variables), built on the collection model of
   Model.v instantiated at symbolic entries [option id] (None = the literal 0, Some p = parameter symbol p).
   Engines left as inputs: the parameter names derived from the model statements (param_names, one per
   requested eta, in the order of the ARGUMENT rvs), and the individual-estimates branch of
   _choose_cov_param_init (pandas corr + Higham repair).  No proofs here. *)
From Coq Require Import List Bool PArith Arith.
From PV Require Import Base.PyData Base.Expr C11.Model C11.NumModel.
Import ListNotations.
Local Open Scope nat_scope.

Definition sym := option id.
Definition sym_is_zero (e : sym) : bool := match e with None => true | Some _ => false end.
(* the symbol name_template.format(a, b) = 'IIV_a_IIV_b', as an injective code of the two names *)
Definition pair_code (a b : id) : id := (100000 + a * 64 + b)%positive.
Definition sym_mk_cov (a b : id) : sym := Some (pair_code a b).
Definition sym_name (e : sym) : id := match e with Some p => p | None => 1%positive end.

Notation scoll := (coll sym).
Definition sjoin := join sym None sym_is_zero sym_mk_cov.
Definition sunjoin := unjoin sym None.

(* all parameter symbols a collection mentions: RandomVariables.parameter_names *)
Definition dsyms (d : dist sym) : list id :=
  flat_map (fun e => match e with Some p => [p] | None => [] end)
           (match d with Normal _ _ m v => [m; v] | Joint _ _ mu V => mu ++ concat V end).
Definition syms (r : scoll) : list id := flat_map dsyms r.

Section Jd.
  Variable F : Type.
  Variable f0 : F.
  Variable fmul : F -> F -> F.
  Variable fsqrt : F -> F.
  Variable fround7 : F -> F.                    (* round(x, 7) *)
  Variable ftenth : F.                          (* 0.1 *)
  (* the individual-estimates branch of _choose_cov_param_init: Some v when it is taken *)
  Variable ie_init : id -> id -> option F.

  (* _choose_cov_param_init: sd = sqrt of the two parents' initial estimates,
     init_default = round(0.1 * sd[0] * sd[1], 7) *)
  Definition default_cov_init (p : params F) (parent1 parent2 : id) : F :=
    fround7 (fmul (fmul ftenth (fsqrt (pget F f0 p parent1))) (fsqrt (pget F f0 p parent2))).
  Definition choose_cov_init (p : params F) (parent1 parent2 : id) : F :=
    match ie_init parent1 parent2 with Some v => v | None => default_cov_init p parent1 parent2 end.

  (* create_joint_distribution(model, rvs) with rvs given: IOV etas are refused, fewer than two etas are refused,
     all_rvs.join(rvs, name_template='IIV_{}_IIV_{}', param_names=paramnames) and one new parameter per
     entry of cov_to_params (parents = the variance symbols M[row,row], M[col,col]) *)
  Definition create_joint_distribution (inds pn : list id) (p : params F) (r : scoll)
    : res (scoll * params F) :=
    if existsb (fun x => match level sym r x with Some l => Pos.eqb l L_IOV | None => false end) inds
    then Err ValueError
    else if length inds <? 2 then Err ValueError        (* len(rvs) < 2, since fix 73b8b8c (was == 1) *)
    else match sjoin inds None (Some pn) r with
         | Err e => Err e
         | Ok (r', ps) =>
             let news := map (fun q => let '(pc, pr, vrr, vcc) := q in
                                (pair_code pc pr, choose_cov_init p (sym_name vrr) (sym_name vcc))) ps in
             (* pset_new += param_new : Parameters.create refuses a repeated parameter name *)
             if nodupb (map fst (p ++ news)) then Ok (r', p ++ news) else Err ValueError
         end.

  (* create_joint_distribution(model) with rvs=None: every IIV distribution none of whose parameters
     (mean and variance symbols) is fixed contributes all its names, in collection order *)
  Variable fixed : id -> bool.                  (* model.parameters[name].fix *)
  Definition default_rvs (r : scoll) : list id :=
    flat_map (fun d => if existsb fixed (dsyms d) then [] else dnames d) (iiv sym r).
  Definition create_joint_distribution_default (pn : list id) (p : params F) (r : scoll) :=
    create_joint_distribution (default_rvs r) pn p r.

  (* _choose_cov_param_init, individual-estimates branch, GIVEN the correlation matrix of the two etas'
     individual estimates (pandas DataFrame.corr: input): cov = corr2cov(corr, sd); cov[cov == 0] = 0.0001;
     cov = nearest_positive_semidefinite(cov); init = round(cov[1][0], 7) *)
  Variable fadd : F -> F -> F.
  Variable fis0 : F -> bool.
  Variable fsmall : F.                          (* 0.0001 *)
  Variable is_psd : list (list F) -> bool.
  Variable repair : list (list F) -> list (list F).
  Definition ie_cov_matrix (p : params F) (parent1 parent2 : id) (corr : list (list F)) : list (list F) :=
    let sd := [fsqrt (pget F f0 p parent1); fsqrt (pget F f0 p parent2)] in
    map (map (fun x => if fis0 x then fsmall else x)) (corr2cov F f0 fadd fmul corr sd).
  Definition ie_cov_init (p : params F) (parent1 parent2 : id) (corr : list (list F)) : F :=
    let A := ie_cov_matrix p parent1 parent2 corr in
    let B := match nearest_psd F is_psd repair A with None => A | Some B => B end in
    fround7 (fget F f0 B 1 0).

  (* split_joint_distribution: unjoin, then drop exactly the parameters that the random variables
     mentioned before and do not mention any more *)
  Definition split_joint_distribution (inds : list id) (p : params F) (r : scoll) : scoll * params F :=
    let r' := sunjoin inds r in
    (r', filter (fun kv => negb (memp (fst kv) (syms r) && negb (memp (fst kv) (syms r')))) p).
  (* split_joint_distribution(model, rvs) with rvs given: _get_etas refuses an eta with a fixed parameter and
     an IOV eta (ValueError); an unknown name is a KeyError *)
  Definition split_joint_distribution_checked (inds : list id) (p : params F) (r : scoll)
    : res (scoll * params F) :=
    if existsb (fun x => match lookup sym r x with None => true | Some _ => false end) inds then Err KeyError
    else if existsb (fun x => match lookup sym r x with
                              | Some (_, d) => existsb fixed (dsyms d) || Pos.eqb (dlevel d) L_IOV
                              | None => false end) inds then Err ValueError
    else Ok (split_joint_distribution inds p r).
End Jd.
