(* PV.C11.Refuted — counter-models: for every guard conjunct that exists because the CODE fails,
   a concrete collection on which the unguarded statement is false (each reproduced on the real
   pharmpy classes by the check: open findings C11-JOIN-FILL-INBLOCK-ZERO, C11-UNJOIN-ORDER, C11-CJD-COV-PARAM-MISNAMED), and
   regression examples of the repaired behaviour for the two fixed ones (C11-JOIN-FILL-ZERO-VARIANCE
   a9c876f, C11-UCP-NEGATIVE-COVARIANCE 859061b). *)
From Coq Require Import List Bool PArith Arith Lia Reals Lra.
From PV Require Import Base.PyData Base.Expr C11.Model C11.NumModel C11.NumProofs C11.JdModel.
Import ListNotations.

(* entries: natural numbers, 0 is zero, parameters are numbers >= 20 *)
Definition nz (n : nat) : bool := Nat.eqb n 0.
Definition nmk (a b : id) : nat := 1000 + 64 * Pos.to_nat a + Pos.to_nat b.
Definition va : id := 11%positive. Definition vb : id := 12%positive. Definition vc : id := 13%positive.
Definition vd : id := 14%positive. Definition ve : id := 15%positive. Definition vf : id := 16%positive.

(* a ~ N(0, 0), b ~ N(0, 7); join(['a','b'], fill=5) *)
Definition zv_coll : coll nat := [Normal va L_IIV 0 0; Normal vb L_IIV 0 7].

(* regression (finding C11-JOIN-FILL-ZERO-VARIANCE, fixed in a9c876f): the variance 0 of a joined variable
   used to be overwritten by the fill value ([[5; 5]; [5; 7]]); now only the covariances are filled *)
Example join_variances_fixed :
  join nat 0 nz nmk [va; vb] 5 None zv_coll = Ok ([Joint [va; vb] L_IIV [0; 0] [[0; 5]; [5; 7]]], []) /\
  variance nat 0 zv_coll va = Some 0.
Proof. split; vm_compute; reflexivity. Qed.

(* (a, b) ~ N(0, [[3, 0], [0, 4]]), c ~ N(0, 9); join(['a','b','c'], fill=5) *)
Definition ib_coll : coll nat := [Joint [va; vb] L_IIV [0; 0] [[3; 0]; [0; 4]]; Normal vc L_IIV 0 9].

(* "covariances between variables that stay in one block are preserved" is false without the guard:
   a covariance that is literally 0 inside a block is overwritten by the fill value (documented) *)
Theorem join_inblock_refuted :
  exists (r r' : coll nat) inds fill ps x y,
    wf nat r = true /\ join nat 0 nz nmk inds fill None r = Ok (r', ps) /\
    In x inds /\ In y inds /\ (exists d, In d r /\ In x (dnames d) /\ In y (dnames d)) /\
    cov nat 0 r x y = Some 0 /\ cov nat 0 r' x y <> cov nat 0 r x y.
Proof.
  exists ib_coll, [Joint [va; vb; vc] L_IIV [0; 0; 0] [[3; 5; 5]; [5; 4; 5]; [5; 5; 9]]], [va; vb; vc], 5, [], va, vb.
  repeat split; try (vm_compute; reflexivity); try (vm_compute; auto; fail).
  - exists (Joint [va; vb] L_IIV [0; 0] [[3; 0]; [0; 4]]). vm_compute. auto.
  - vm_compute. intro H. discriminate.
Qed.

(* (a, b, c) joint; unjoin('c'): the kept variables a, b are already adjacent, the order a b c would
   keep every block contiguous, yet the result is c a b *)
Definition uo_coll : coll nat :=
  [Joint [va; vb; vc] L_IIV [0; 0; 0] [[21; 22; 23]; [22; 24; 25]; [23; 25; 26]]; Normal vd L_IIV 0 27].

Theorem unjoin_order_refuted :
  exists (r : coll nat) inds,
    wf nat r = true /\ g_kept_adjacent nat inds r = true /\ g_removed_prefix nat inds r = false /\
    names (unjoin nat 0 inds r) <> names r.
Proof.
  exists uo_coll, [vc]. repeat split; try (vm_compute; reflexivity).
  vm_compute. intro H. discriminate.
Qed.

(* ---- create_joint_distribution(model, ['S1', 'CL', 'VC']) on etas stored as CL, VC, S1 ----------------
   param_names is built in ARGUMENT order but indexed by the position in the joined block: the covariance
   of CL and VC gets the name made of the parameter names of S1 and CL (finding C11-CJD-COV-PARAM-MISNAMED) *)
Definition cjd_coll : scoll :=
  [Normal va L_IIV None (Some 21%positive); Normal vb L_IIV None (Some 22%positive); Normal vc L_IIV None (Some 23%positive)].
(* parameter names: a -> 1, b -> 2, c -> 3; requested order c, a, b *)
Theorem cjd_cov_names_refuted :
  exists (r r' : scoll) inds pn (p p' : list (id * nat)) x y,
    wf sym r = true /\
    create_joint_distribution nat 0 Nat.mul (fun n => n) (fun n => n) 1 (fun _ _ => None) inds pn p r = Ok (r', p') /\
    inds <> filter (fun n => memp n inds) (names r) /\
    index_of x inds = Some 1 /\ index_of y inds = Some 2 /\ nth 1 pn 1%positive = 1%positive /\ nth 2 pn 1%positive = 2%positive /\
    cov sym None r' x y <> Some (sym_mk_cov 1%positive 2%positive) /\ cov sym None r' x y <> Some (sym_mk_cov 2%positive 1%positive).
Proof.
  exists cjd_coll. eexists. exists [vc; va; vb], [3%positive; 1%positive; 2%positive], [(21%positive, 4); (22%positive, 9); (23%positive, 16)].
  eexists. exists va, vb.
  split; [vm_compute; reflexivity|]. split; [vm_compute; reflexivity|].
  repeat split; try (vm_compute; reflexivity); vm_compute; intro H; discriminate.
Qed.

(* regression (finding C11-CJD-EMPTY-SELECTION-INDEXERROR, fixed in 73b8b8c): create_joint_distribution(model)
   with rvs=None when every IIV eta has a fixed parameter — the selection is empty; it used to end in IndexError
   (join([]) indexes joined_rvs[0]), now it is the documented ValueError *)
Example cjd_default_empty_fixed :
  default_rvs (fun _ => true) cjd_coll = [] /\
  create_joint_distribution_default nat 0 Nat.mul (fun n => n) (fun n => n) 1 (fun _ _ => None) (fun _ => true) []
    [(21%positive, 4); (22%positive, 9); (23%positive, 16)] cjd_coll = Err ValueError.
Proof. split; vm_compute; reflexivity. Qed.

(* ---- regression (finding C11-UCP-NEGATIVE-COVARIANCE, fixed in 859061b) -----------------------------
   A = [[1, -1/2], [-1/2, 5/4]] has the Cholesky factor L = [[1, 0], [-1/2, 1]]; with all UCPs equal to 0.1
   the code used to return +1/2 for the covariance; now the round trip gives back -1/2 = (L L^T)_10. *)
Local Open Scope R_scope.
Definition Lneg : list (list R) := [[1; 0]; [- (1 / 2); 1]].
Definition Utenth : list (list R) := [[/ 10; / 10]; [/ 10; / 10]].

Lemma ucp_neg_target : fget R 0 (mmul R 0 Rplus Rmult Lneg (transpose R 0 Lneg)) 1 0 = - (1 / 2).
Proof.
  rewrite rget_mmul by (cbn; lia). cbn [length Lneg seq map]. rewrite !rget_transpose by (cbn; lia).
  unfold fget, Lneg. cbn [nth]. unfold fsum. cbn [fold_left]. lra.
Qed.

Example ucp_negative_covariance_fixed :
  fget R 0 (descale_matrix R 0 Rplus Rmult exp Utenth
              (scale_matrix R 0 Rplus Rminus Rmult Rdiv exp 10 (/ 10) Lneg)) 1 0 = - (1 / 2).
Proof.
  rewrite ucp_inverse_lemma; try (cbn; lia); try reflexivity; [apply ucp_neg_target | | |].
  - intros a b Hab Hb. cbn in Hb. destruct b as [|[|b]]; [lia | | lia]. destruct a as [|a]; [reflexivity | lia].
  - intros k Hk. cbn in Hk. destruct k as [|[|k]]; [reflexivity | reflexivity | lia].
  - intros a b Hab Ha. cbn in Ha. left. destruct a as [|[|a]]; [lia | | lia]. destruct b as [|b]; [reflexivity | lia].
Qed.
