(* PV.C11.Examples — non-vacuity: concrete NON-TRIVIAL inputs meeting the hypotheses / guards of
   every theorem in Properties.v (a 6-variable, 3-block collection with IIV and IOV levels). *)
From Coq Require Import List Bool PArith Arith Lia QArith Reals Lra.
From PV Require Import Base.PyData Base.Expr C11.Model C11.NumModel C11.NumProofs C11.JdModel C11.Ldl C11.VarParams C11.Refuted.
Import ListNotations.
Local Open Scope nat_scope.

Definition r6 : coll nat :=
  [Joint [va; vb; vc] L_IIV [0; 0; 0] [[21; 22; 23]; [22; 24; 25]; [23; 25; 26]];
   Normal vd L_IIV 0 27;
   Joint [ve; vf] L_IOV [0; 0] [[28; 29]; [29; 30]]].

Example wf_example : wf nat r6 = true /\ names r6 = [va; vb; vc; vd; ve; vf].
Proof. split; vm_compute; reflexivity. Qed.

(* unjoin from the middle of a block and from a second block: names permuted, blocks contiguous *)
Example unjoin_example :
  unjoin nat 0 [vb; vf] r6 =
  [Normal vb L_IIV 0 24; Joint [va; vc] L_IIV [0; 0] [[21; 23]; [23; 26]]; Normal vd L_IIV 0 27;
   Normal vf L_IOV 0 30; Normal ve L_IOV 0 28].
Proof. vm_compute. reflexivity. Qed.

(* guard of unjoin_order_kept holds on an affected block (the first variable is unjoined) *)
Example unjoin_order_kept_nonvacuous :
  g_removed_prefix nat [va; ve] r6 = true /\ length (unjoin nat 0 [va; ve] r6) = 5 /\
  names (unjoin nat 0 [va; ve] r6) = names r6.
Proof. repeat split; vm_compute; reflexivity. Qed.

(* hypotheses of unjoin_keeps_inblock_cov / unjoin_removes_cov *)
Example unjoin_cov_example :
  cov nat 0 (unjoin nat 0 [vb] r6) va vc = Some 23 /\ cov nat 0 r6 va vc = Some 23 /\
  cov nat 0 (unjoin nat 0 [vb] r6) vb va = Some 0 /\ cov nat 0 r6 vb va = Some 22 /\
  variance nat 0 (unjoin nat 0 [vb] r6) vb = Some 24.
Proof. repeat split; vm_compute; reflexivity. Qed.

Example getitem_example :
  getitem_list nat 0 [vc; va; vf] r6 = [Joint [va; vc] L_IIV [0; 0] [[21; 23]; [23; 26]]; Normal vf L_IOV 0 30] /\
  cov nat 0 (getitem_list nat 0 [vc; va; vf] r6) vc va = cov nat 0 r6 vc va.
Proof. split; vm_compute; reflexivity. Qed.

Example level_filter_example :
  names (etas nat r6) = names r6 /\ names (iov nat r6) = [ve; vf] /\ names (epsilons nat r6) = [].
Proof. repeat split; vm_compute; reflexivity. Qed.

Example cov_block_diag_example :
  covariance_matrix nat 0 r6 =
  [[21; 22; 23; 0; 0; 0]; [22; 24; 25; 0; 0; 0]; [23; 25; 26; 0; 0; 0];
   [0; 0; 0; 27; 0; 0]; [0; 0; 0; 0; 28; 29]; [0; 0; 0; 0; 29; 30]].
Proof. vm_compute. reflexivity. Qed.

(* join across three blocks: plain, with a fill value, with a name template *)
Example join_plain_example :
  join nat 0 nz nmk [vc; vd; ve] 0 None r6 =
  Ok ([Joint [vc; vd; ve] L_IIV [0; 0; 0] [[26; 0; 0]; [0; 27; 0]; [0; 0; 28]];
       Joint [va; vb] L_IIV [0; 0] [[21; 22]; [22; 24]]; Normal vf L_IOV 0 30], []).
Proof. vm_compute. reflexivity. Qed.

Example join_fill_example :
  join nat 0 nz nmk [vc; vd; ve] 5 None r6 =
  Ok ([Joint [vc; vd; ve] L_IIV [0; 0; 0] [[26; 5; 5]; [5; 27; 5]; [5; 5; 28]];
       Joint [va; vb] L_IIV [0; 0] [[21; 22]; [22; 24]]; Normal vf L_IOV 0 30], []).
Proof. vm_compute. reflexivity. Qed.

Example join_template_example :
  join nat 0 nz nmk [vc; vd; ve] 0 (Some [1; 2; 3]%positive) r6 =
  Ok ([Joint [vc; vd; ve] L_IIV [0; 0; 0] [[26; 1066; 1067]; [1066; 27; 1131]; [1067; 1131; 28]];
       Joint [va; vb] L_IIV [0; 0] [[21; 22]; [22; 24]]; Normal vf L_IOV 0 30],
      [(1%positive, 2%positive, 27, 26); (1%positive, 3%positive, 28, 26); (2%positive, 3%positive, 28, 27)]).
Proof. vm_compute. reflexivity. Qed.

(* the guard of join_keeps_inblock_cov holds with a fill value: joining a, b (one block, covariance
   22 <> 0) with d *)
Example join_guards_nonvacuous :
  nz 5 = false /\
  cov nat 0 r6 va vb = Some 22 /\ cov nat 0 r6 vb va = Some 22 /\ nz 22 = false /\
  exists r' ps, join nat 0 nz nmk [va; vb; vd] 5 None r6 = Ok (r', ps) /\ cov nat 0 r' va vb = Some 22 /\
                cov nat 0 r' va vd = Some 5 /\ cov nat 0 r' va vc = Some 0 /\ variance nat 0 r' va = Some 21.
Proof.
  repeat split; try (vm_compute; reflexivity).
  eexists. eexists. repeat split; vm_compute; reflexivity.
Qed.

(* hypotheses of join_new_cov_is_fill: x and y in different distributions *)
Example join_new_cov_nonvacuous :
  nz 0 = true /\ In (Normal vd L_IIV 0 27) r6 /\ In vd (dnames (Normal (E:=nat) vd L_IIV 0 27)) /\
  ~ In ve (dnames (Normal (E:=nat) vd L_IIV 0 27)).
Proof. repeat split; try (vm_compute; auto; fail). vm_compute. intros [H|[]]. discriminate. Qed.

(* errors: a name that does not exist, an empty index list *)
Example join_errors_example :
  join nat 0 nz nmk [va; 99%positive] 0 None r6 = Err KeyError /\ join nat 0 nz nmk [] 0 None r6 = Err IndexError.
Proof. split; vm_compute; reflexivity. Qed.

Example add_example :
  add_coll nat [Normal va L_IIV 0 1] [Normal vb L_RUV 0 2] = Ok [Normal va L_IIV 0 1; Normal vb L_RUV 0 2] /\
  add_coll nat r6 [Normal vb L_RUV 0 2] = Err ValueError /\           (* a repeated name is refused *)
  radd_dist nat r6 (Normal va L_IIV 0 1) = Err ValueError /\
  add_dist nat [Normal va L_IIV 0 1] (Normal vb 9%positive 0 2) = Err ValueError /\   (* unknown level *)
  wf nat [Normal vb L_RUV 0 2] = true.
Proof. repeat split; vm_compute; reflexivity. Qed.

(* call structure: a valid parameter set (the PSD oracle accepts every block) with a real joint block *)
Example nearest_valid_id_nonvacuous :
  validate Q 0%Q (fun _ => true) [(21%positive, 1%Q); (22%positive, (1#10)%Q); (23%positive, 2%Q)]
           [Joint [va; vb] L_IIV [1%positive; 1%positive] [[21%positive; 22%positive]; [22%positive; 23%positive]]] = true /\
  nearest Q 0%Q (fun _ => false) (fun _ => [[3%Q; 0%Q]; [0%Q; 3%Q]])
          [(21%positive, 1%Q); (22%positive, 5%Q); (23%positive, 2%Q)]
          [Joint [va; vb] L_IIV [1%positive; 1%positive] [[21%positive; 22%positive]; [22%positive; 23%positive]]] =
  [(21%positive, 3%Q); (22%positive, 0%Q); (23%positive, 3%Q)].
Proof. split; vm_compute; reflexivity. Qed.

(* subs: an injective renaming (a swap) plus a substitution on entries (parameter 22 := 99) that fixes
   zero (hypothesis of subs_cov); a renaming that collides is refused *)
Example subs_example :
  subs nat (fun n => if Nat.eqb n 22 then 99 else n) [(va, vb); (vb, va)] r6 =
  Ok [Joint [vb; va; vc] L_IIV [0; 0; 0] [[21; 99; 23]; [99; 24; 25]; [23; 25; 26]];
      Normal vd L_IIV 0 27; Joint [ve; vf] L_IOV [0; 0] [[28; 29]; [29; 30]]] /\
  (if Nat.eqb 0 22 then 99 else 0) = 0 /\
  subs nat (fun n => n) [(va, vb)] r6 = Err ValueError.
Proof. repeat split; vm_compute; reflexivity. Qed.

(* levels: the hypothesis of join_levels (all joined variables on one level) on a real join *)
Example join_levels_nonvacuous :
  (forall z, In z [vc; vd] -> level nat r6 z = Some L_IIV) /\ level nat r6 ve = Some L_IOV /\
  exists r' ps, join nat 0 nz nmk [vc; vd] 0 None r6 = Ok (r', ps) /\ level nat r' vc = Some L_IIV /\ level nat r' ve = Some L_IOV.
Proof.
  split; [|split; [vm_compute; reflexivity|]].
  - intros z [<-|[<-|[]]]; vm_compute; reflexivity.
  - eexists. eexists. repeat split; vm_compute; reflexivity.
Qed.

(* dist[names]: a proper marginal of a 3-variable block, the whole block, and the error cases *)
Example dist_getitem_example :
  let d := Joint [va; vb; vc] L_IIV [0; 0; 0] [[21; 22; 23]; [22; 24; 25]; [23; 25; 26]] in
  wf_dist nat d = true /\
  dget_list nat 0 [vc; va] d = Ok (Joint [va; vc] L_IIV [0; 0] [[21; 23]; [23; 26]]) /\
  dget_list nat 0 [vb] d = Ok (Normal vb L_IIV 0 24) /\
  dget_list nat 0 [vc; va; vb] d = Ok d /\
  dget_list nat 0 [va; va; vb; vc] d = Err KeyError /\ dget_list nat 0 [] d = Err KeyError /\
  dget_list nat 0 [va; vd] d = Err KeyError.
Proof. repeat split; vm_compute; reflexivity. Qed.

(* create_joint_distribution in collection order (guard of cjd_cov_names_follow_template holds) and
   split_joint_distribution removing exactly the split-away covariance parameters *)
Example cjd_split_example :
  let p := [(21%positive, 4); (22%positive, 9); (23%positive, 16)] in
  let c13 := pair_code 1%positive 3%positive in
  let joint := [Joint [va; vc] L_IIV [None; None] [[Some 21%positive; Some c13]; [Some c13; Some 23%positive]];
                Normal vb L_IIV None (Some 22%positive)] in
  [va; vc] = filter (fun n => memp n [va; vc]) (names cjd_coll) /\
  create_joint_distribution nat 0 Nat.mul (fun n => n) (fun n => n) 1 (fun _ _ => None) [va; vc] [1%positive; 3%positive] p cjd_coll =
  Ok (joint, p ++ [(c13, 1 * 16 * 4)]) /\
  split_joint_distribution nat [va] (p ++ [(c13, 64)]) joint =
  ([Normal va L_IIV None (Some 21%positive); Normal vc L_IIV None (Some 23%positive); Normal vb L_IIV None (Some 22%positive)], p) /\
  create_joint_distribution nat 0 Nat.mul (fun n => n) (fun n => n) 1 (fun _ _ => None) [va] [1%positive] p cjd_coll = Err ValueError.
Proof. repeat split; vm_compute; reflexivity. Qed.

(* rvs=None with one fixed parameter (22): the selection is [a; c], in collection order; covariance_matrix of an
   IOV "SAME" structure (two occasions sharing the symbols 31, 32, 33) is the block-diagonal composition *)
Example cjd_default_example :
  default_rvs (fun x => Pos.eqb x 22) cjd_coll = [va; vc] /\
  create_joint_distribution_default nat 0 Nat.mul (fun n => n) (fun n => n) 1 (fun _ _ => None) (fun x => Pos.eqb x 22)
    [1%positive; 3%positive] [(21%positive, 4); (22%positive, 9); (23%positive, 16)] cjd_coll =
  create_joint_distribution nat 0 Nat.mul (fun n => n) (fun n => n) 1 (fun _ _ => None) [va; vc]
    [1%positive; 3%positive] [(21%positive, 4); (22%positive, 9); (23%positive, 16)] cjd_coll /\
  let V := [[Some 31%positive; Some 32%positive]; [Some 32%positive; Some 33%positive]] in
  covariance_matrix sym None [Joint [va; vb] L_IOV [None; None] V; Joint [vc; vd] L_IOV [None; None] V] =
  [[Some 31; Some 32; None; None]; [Some 32; Some 33; None; None];
   [None; None; Some 31; Some 32]; [None; None; Some 32; Some 33]]%positive.
Proof. repeat split; vm_compute; reflexivity. Qed.

(* variance_parameters: two occasions sharing the symbols 31, 33 after an IIV eta -> each name once, in order of
   first appearance; a literal 0 on a diagonal has no name (ValueError) *)
Example variance_parameters_example :
  let V := [[Some 31%positive; Some 32%positive]; [Some 32%positive; Some 33%positive]] in
  variance_parameters [Normal ve L_IIV None (Some 23%positive); Joint [va; vb] L_IOV [None; None] V;
                       Joint [vc; vd] L_IOV [None; None] V] = Ok [23; 31; 33]%positive /\
  wf sym [Normal ve L_IIV None (Some 23%positive); Joint [va; vb] L_IOV [None; None] V; Joint [vc; vd] L_IOV [None; None] V] = true /\
  variance_parameters [Normal ve L_IIV None None] = Err ValueError.
Proof. repeat split; vm_compute; reflexivity. Qed.

(* ---- numeric side: the hypotheses of the real-number theorems are satisfiable ------------------- *)
(* the verified PSD checker accepts a singular PSD matrix and a PD one with a negative covariance, and
   rejects an indefinite and a non-symmetric one *)
Example ldl_check_example :
  ldl_check [[1; 1]; [1; 1]]%Q = true /\ ldl_check [[4; -1; 0]; [-1; 9; 2]; [0; 2; 1]]%Q = true /\
  ldl_check [[0; 0]; [0; 3]]%Q = true /\
  ldl_check [[1; 2]; [2; 1]]%Q = false /\ ldl_check [[1; 2]; [0; 5]]%Q = false /\ ldl_check [[0; 1]; [1; 0]]%Q = false.
Proof. repeat split; vm_compute; reflexivity. Qed.

(* repair_ok (hypothesis of canonicalize_valid / replace_valid) is satisfiable: two occasions sharing one
   symbolic block, an oracle that rejects covariances above 1 and repairs to 3*I *)
Definition Vsh : list (list id) := [[21%positive; 22%positive]; [22%positive; 23%positive]].
Definition rsh : coll id :=
  [Joint [va; vb] L_IOV [1%positive; 1%positive] Vsh; Joint [vc; vd] L_IOV [1%positive; 1%positive] Vsh;
   Normal ve L_IIV 1%positive 23%positive].
Definition toy_psd (A : list (list Q)) : bool := Qle_bool (fget Q 0%Q A 0 1) 1%Q.
Definition toy_repair (A : list (list Q)) : list (list Q) := [[3%Q; 0%Q]; [0%Q; 3%Q]].
Definition toy_w (x : id) : Q := if Pos.eqb x 22 then 0%Q else 3%Q.
Definition psh : params Q := [(21%positive, 1%Q); (22%positive, 5%Q); (23%positive, 2%Q)].

Example repair_ok_nonvacuous :
  repair_ok Q 0%Q toy_psd toy_repair psh rsh toy_w /\ validate Q 0%Q toy_psd psh rsh = false /\
  validate Q 0%Q toy_psd (canonicalize Q 0%Q toy_psd toy_repair psh rsh) rsh = true.
Proof.
  split; [|split; vm_compute; reflexivity].
  assert (HV : forall V, In V (joint_blocks rsh) -> V = Vsh) by (intros V [<-|[<-|[]]]; reflexivity).
  assert (Hij : forall i j, i < 2 -> j < 2 -> (i = 0 \/ i = 1) /\ (j = 0 \/ j = 1)) by (intros; lia).
  unfold repair_ok. split; [|split; [|split; [|split; [|split]]]].
  - intros A _. reflexivity.
  - intros V H row Hr. rewrite (HV V H) in *. destruct Hr as [<-|[<-|[]]]; reflexivity.
  - intros V i j H Hi Hj. rewrite (HV V H) in *. destruct (Hij i j Hi Hj) as [[->| ->] [->| ->]]; reflexivity.
  - intros V H _. rewrite (HV V H). split; [reflexivity|]. intros row Hr. destruct Hr as [<-|[<-|[]]]; reflexivity.
  - intros V i j H _ Hi Hj. rewrite (HV V H) in *. destruct (Hij i j Hi Hj) as [[->| ->] [->| ->]]; reflexivity.
  - intros V i j H Hp. rewrite (HV V H) in Hp. vm_compute in Hp. discriminate.
Qed.

Local Open Scope R_scope.
(* positive diagonal, a negative and a zero covariance *)
Definition S3 : list (list R) := [[4; -1; 0]; [-1; 9; 2]; [0; 2; 1]].
Example sdcorr_inverse_nonvacuous : forall k, (k < length S3)%nat -> 0 < fget R 0 S3 k k.
Proof. intros k Hk. cbn in Hk. destruct k as [|[|[|k]]]; try lia; unfold fget, S3; cbn [nth]; lra. Qed.

Definition C2 : list (list R) := [[1; -(1/2)]; [-(1/2); 1]].
Example corr_inverse_nonvacuous :
  length C2 = length [2; 3] /\ (forall k, (k < 2)%nat -> fget R 0 C2 k k = 1) /\ (forall k, (k < 2)%nat -> 0 < nth k [2; 3] 0).
Proof.
  split; [reflexivity|]. split; intros k Hk; destruct k as [|[|k]]; try lia; unfold fget, C2; cbn [nth]; lra.
Qed.

(* a Cholesky factor with a negative sub-diagonal entry and a structural zero: hypotheses of ucp_inverse *)
Definition Lpos : list (list R) := [[2; 0; 0]; [-(1/2); 1; 0]; [0; 0; 3]].
Definition Upos : list (list R) := [[/10; /10; 0]; [/10; /10; 0]; [0; 0; /10]].
Example ucp_inverse_nonvacuous :
  length Upos = length Lpos /\
  (forall a b, (a < b)%nat -> (b < length Lpos)%nat -> fget R 0 Lpos a b = 0) /\
  (forall k, (k < length Lpos)%nat -> fget R 0 Upos k k = / 10) /\
  (forall a b, (b < a)%nat -> (a < length Lpos)%nat -> fget R 0 Upos a b = / 10 \/ fget R 0 Lpos a b = 0).
Proof.
  split; [reflexivity|]. split; [|split].
  - intros a b Hab Hb. cbn in Hb. destruct b as [|[|[|b]]]; try lia; destruct a as [|[|a]]; try lia; reflexivity.
  - intros k Hk. cbn in Hk. destruct k as [|[|[|k]]]; try lia; reflexivity.
  - intros a b Hab Ha. cbn in Ha. destruct a as [|[|[|a]]]; try lia; destruct b as [|[|b]]; try lia;
      unfold fget, Upos, Lpos; cbn [nth]; try (right; reflexivity); left; reflexivity.
Qed.

Example theta_ucp_nonvacuous : (0 < 1 /\ 1 < 10) /\ (-1000000 < 0 /\ 0 < 1000000).
Proof. lra. Qed.


(* sdcorr_collection_inverse: two occasions sharing one symbolic block and a NormalDistribution sharing a
   variance symbol; input values 4, 0, 9; every symbol is written with one value (2, 0, 3) *)
Definition pshR : params R := [(21%positive, 4); (22%positive, 0); (23%positive, 9)].
Definition wR (x : id) : R := if Pos.eqb x 21 then 2 else if Pos.eqb x 23 then 3 else 0.
Lemma sqrt4 : sqrt 4 = 2. Proof. replace 4 with (2 * 2) by lra. apply sqrt_square. lra. Qed.
Lemma sqrt9 : sqrt 9 = 3. Proof. replace 9 with (3 * 3) by lra. apply sqrt_square. lra. Qed.
Lemma ris0_0 : ris0 0 = true. Proof. unfold ris0. destruct (Req_EM_T 0 0); [reflexivity | contradiction]. Qed.

Example sdcorr_collection_nonvacuous :
  (forall ns l mu V i j, In (Joint ns l mu V) rsh -> (i < length V)%nat -> (j < vcols V)%nat ->
     fget R 0 (sdcorr_block R 0 Rmult Rdiv sqrt ris0 (msubs R 0 pshR V)) i j = wR (nth j (nth i V []) 1%positive)) /\
  (forall n l m v, In (Normal n l m v) rsh -> sqrt (pget R 0 pshR v) = wR v) /\
  (forall k, (k < length Vsh)%nat -> 0 < pget R 0 pshR (nth k (nth k Vsh []) 1%positive)).
Proof.
  split; [|split].
  - intros ns l mu V i j HIn Hi Hj.
    assert (V = Vsh) as -> by (destruct HIn as [H|[H|[H|[]]]]; inversion H; reflexivity).
    cbn in Hi, Hj. unfold sdcorr_block. cbn [length msubs map Vsh].
    rewrite rget_rtab by assumption.
    assert ((i = 0 \/ i = 1) /\ (j = 0 \/ j = 1))%nat as [[->| ->] [->| ->]] by lia; cbn [Nat.eqb].
    + unfold fget, wR. cbn. apply sqrt4.
    + rewrite rget_cov2corr by (cbn; lia). unfold fget at 1. cbn [nth pget pshR Pos.eqb]. rewrite ris0_0. reflexivity.
    + rewrite rget_cov2corr by (cbn; lia). unfold fget at 1. cbn [nth pget pshR Pos.eqb]. rewrite ris0_0. reflexivity.
    + unfold fget, wR. cbn. apply sqrt9.
  - intros n l m v [H|[H|[H|[]]]]; inversion H; subst. unfold wR. cbn. apply sqrt9.
  - intros k Hk. cbn in Hk. assert (k = 0 \/ k = 1)%nat as [->| ->] by lia; cbn; lra.
Qed.
