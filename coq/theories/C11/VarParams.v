(* PV.C11.VarParams — RandomVariables.variance_parameters: the distinct variance parameters of all random
   variables, in order of first appearance (model, lemmas). *)
From Coq Require Import List Bool PArith Arith Lia.
From PV Require Import Base.PyData Base.Expr C11.Model C11.Proofs C11.JdModel.
Import ListNotations.
Local Open Scope nat_scope.

Definition vp_sym_eqb (a b : sym) : bool :=
  match a, b with Some x, Some y => Pos.eqb x y | None, None => true | _, _ => false end.
(* dist.variance for a NormalDistribution, dist.variance.diagonal() for a joint one *)
Definition diag_entries (d : dist sym) : list sym :=
  match d with
  | Normal _ _ _ v => [v]
  | Joint _ _ _ V => map (fun i => mget sym None V i i) (seq 0 (length V))
  end.
(* if p not in parameters: parameters.append(p) *)
Definition add_absent (acc : list sym) (e : sym) : list sym :=
  if existsb (vp_sym_eqb e) acc then acc else acc ++ [e].
Definition variance_syms (r : scoll) : list sym := fold_left add_absent (flat_map diag_entries r) [].
(* return [p.name for p in parameters] : an entry that is not a symbol has no name (ValueError) *)
Definition variance_parameters (r : scoll) : res (list id) :=
  let l := variance_syms r in
  if existsb sym_is_zero l then Err ValueError else Ok (map sym_name l).

Lemma vp_sym_eqb_spec a b : vp_sym_eqb a b = true <-> a = b.
Proof.
  destruct a as [x|], b as [y|]; cbn; split; intros H; try discriminate; try reflexivity.
  - apply Pos.eqb_eq in H. subst. reflexivity.
  - inversion H. apply Pos.eqb_refl.
Qed.

Lemma existsb_sym_In e l : existsb (vp_sym_eqb e) l = true <-> In e l.
Proof.
  rewrite existsb_exists. split.
  - intros [y [Hy E]]. apply vp_sym_eqb_spec in E. subst. exact Hy.
  - intros H. exists e. split; [exact H | apply vp_sym_eqb_spec; reflexivity].
Qed.

Lemma add_absent_fold l : forall acc, NoDup acc ->
  NoDup (fold_left add_absent l acc) /\ forall x, In x (fold_left add_absent l acc) <-> In x acc \/ In x l.
Proof.
  induction l as [|e l IH]; intros acc Hnd; cbn [fold_left].
  - split; [exact Hnd|]. intros x. cbn. tauto.
  - unfold add_absent at 2 4. destruct (existsb (vp_sym_eqb e) acc) eqn:Ex.
    + destruct (IH acc Hnd) as [N M]. split; [exact N|]. intros x. rewrite M. cbn [In].
      apply existsb_sym_In in Ex. split; [tauto|]. intros [H|[H|H]]; subst; tauto.
    + assert (Hn : ~ In e acc) by (intro H; apply existsb_sym_In in H; congruence).
      assert (Hnd' : NoDup (acc ++ [e])).
      { clear IH Ex. induction acc as [|a acc IHa]; cbn [app]; [constructor; [intros []|constructor]|].
        inversion Hnd; subst. constructor.
        - intro H. apply in_app_or in H. destruct H as [H|H]; [contradiction|].
          destruct H as [H|[]]. subst. apply Hn. left. reflexivity.
        - apply IHa; [assumption|]. intro H. apply Hn. right. exact H. }
      destruct (IH _ Hnd') as [N M]. split; [exact N|]. intros x. rewrite M, in_app_iff. cbn [In]. tauto.
Qed.

(* the result has no repetition and lists exactly the symbols on the diagonals of the distributions *)
Lemma variance_parameters_lemma (r : scoll) l : variance_parameters r = Ok l ->
  NoDup l /\ forall p, In p l <-> exists d, In d r /\ In (Some p) (diag_entries d).
Proof.
  unfold variance_parameters. destruct (existsb sym_is_zero (variance_syms r)) eqn:Z; [discriminate|].
  intros H. inversion H; subst. clear H.
  destruct (add_absent_fold (flat_map diag_entries r) [] (NoDup_nil _)) as [N M]. fold (variance_syms r) in N, M.
  assert (AllSome : forall e, In e (variance_syms r) -> exists p, e = Some p).
  { intros e He. destruct e as [p|]; [eauto|]. exfalso.
    assert (T : existsb sym_is_zero (variance_syms r) = true) by (apply existsb_exists; exists None; auto). congruence. }
  split.
  - (* sym_name is injective on symbols *)
    revert N AllSome. generalize (variance_syms r). intros ls. induction ls as [|e ls IH]; intros N A; cbn [map]; [constructor|].
    inversion N; subst. constructor; [|apply IH; [assumption | intros; apply A; right; assumption]].
    intro Hin. apply in_map_iff in Hin. destruct Hin as [e' [E He']].
    destruct (A e (or_introl eq_refl)) as [p ->]. destruct (A e' (or_intror He')) as [p' ->]. cbn in E. subst. contradiction.
  - intros p. rewrite in_map_iff. split.
    + intros [e [E He]]. destruct (AllSome e He) as [q ->]. cbn in E. subst.
      apply M in He. destruct He as [[]|He]. apply in_flat_map in He. exact He.
    + intros [d [Hd Hp]]. exists (Some p). split; [reflexivity|]. apply M. right. apply in_flat_map. eauto.
Qed.

(* for a well-formed collection these are the variances of the named variables *)
Lemma diag_entries_variance (r : scoll) p : wf sym r = true ->
  (exists d, In d r /\ In (Some p) (diag_entries d)) <-> exists x, In x (names r) /\ variance sym None r x = Some (Some p).
Proof.
  intros Hwf. pose proof (wf_NoDup sym r Hwf) as Hnd. split.
  - intros [d [Hd Hp]]. pose proof (wf_In sym r d Hwf Hd) as Hwd.
    destruct d as [n l m v | ns l mu V]; cbn [diag_entries] in Hp.
    + destruct Hp as [Hp|[]]. subst v. exists n. split; [apply In_names; exists (Normal n l m (Some p)); split; [exact Hd | left; reflexivity]|].
      rewrite variance_cov. rewrite (cov_same sym None r _ n n Hnd Hd) by (left; reflexivity).
      cbn. rewrite Pos.eqb_refl. reflexivity.
    + apply in_map_iff in Hp. destruct Hp as [i [Hi Hr]]. apply in_seq in Hr.
      destruct (wf_dist_joint sym _ _ _ _ Hwd) as [_ [_ [HV [_ Hndn]]]].
      exists (nth i ns 1%positive). assert (Hin : In (nth i ns 1%positive) ns) by (apply nth_In; lia).
      split; [apply In_names; exists (Joint ns l mu V); split; assumption|].
      rewrite variance_cov. rewrite (cov_same sym None r _ _ _ Hnd Hd Hin Hin). cbn [dcov].
      rewrite (index_of_nth ns Hndn i 1%positive) by lia. rewrite Hi. reflexivity.
  - intros [x [Hx Hv]]. destruct (dist_of sym r x Hx) as [d [Hd Hxd]]. exists d. split; [exact Hd|].
    rewrite variance_cov in Hv. rewrite (cov_same sym None r d x x Hnd Hd Hxd Hxd) in Hv.
    pose proof (wf_In sym r d Hwf Hd) as Hwd.
    destruct d as [n l m v | ns l mu V]; cbn [dcov diag_entries dnames] in *.
    + destruct Hxd as [<-|[]]. rewrite Pos.eqb_refl in Hv. cbn in Hv. inversion Hv. left. reflexivity.
    + destruct (index_of_In _ _ Hxd) as [i Hi]. rewrite Hi in Hv. injection Hv as Hm.
      destruct (index_of_Some _ _ _ Hi) as [Hil _].
      destruct (wf_dist_joint sym _ _ _ _ Hwd) as [_ [_ [HV _]]].
      apply in_map_iff. exists i. split; [exact Hm | apply in_seq; lia].
Qed.
