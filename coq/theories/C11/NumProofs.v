(* PV.C11.NumProofs — lemmas about the numeric model, over the real numbers (Coq.Reals: the standard
   axioms of the reals appear under Print Assumptions) and, for the call structure of the PSD repair,
   over any number type. *)
From Coq Require Import List Bool PArith Arith Lia Reals Lra.
From PV Require Import Base.PyData Base.Expr C11.Model C11.NumModel.
Import ListNotations.
Local Open Scope nat_scope.

(* ---------------------------------------------------------------------------------------------- *)
(* call structure of validate / nearest / canonicalize: any number type, any oracles              *)
(* ---------------------------------------------------------------------------------------------- *)
Section CallStructure.
  Variable F : Type.
  Variable f0 : F.
  Variable is_psd : list (list F) -> bool.
  Variable repair : list (list F) -> list (list F).

  Lemma nearest_valid_id_lemma (p : params F) (r : coll id) :
    validate F f0 is_psd p r = true -> nearest F f0 is_psd repair p r = p.
  Proof.
    unfold validate, nearest. generalize (joint_blocks r). intros bs.
    assert (G : forall acc, forallb (fun V => is_psd (msubs F f0 p V)) bs = true ->
                fold_left (fun acc V => match nearest_psd F is_psd repair (msubs F f0 p V) with
                                        | None => acc | Some B => update_lower F f0 acc V B end) bs acc = acc).
    { induction bs as [|V tl IH]; intros acc H; [reflexivity|].
      cbn [forallb] in H. apply andb_true_iff in H. destruct H as [H1 H2].
      cbn [fold_left]. unfold nearest_psd at 2. rewrite H1. apply IH. exact H2. }
    apply G.
  Qed.

  Lemma canonicalize_valid_id_lemma (p : params F) (r : coll id) :
    validate F f0 is_psd p r = true -> canonicalize F f0 is_psd repair p r = p.
  Proof. intros H. unfold canonicalize. rewrite H. reflexivity. Qed.

  Lemma canonicalize_is_nearest_lemma (p : params F) (r : coll id) :
    canonicalize F f0 is_psd repair p r = nearest F f0 is_psd repair p r.
  Proof.
    unfold canonicalize. destruct (validate F f0 is_psd p r) eqn:V; [|reflexivity].
    symmetry. apply nearest_valid_id_lemma. exact V.
  Qed.
End CallStructure.

(* ---------------------------------------------------------------------------------------------- *)
(* dictionaries written through pset: every written name ends with its target value               *)
(* ---------------------------------------------------------------------------------------------- *)
Section Dict.
  Variable F : Type.
  Variable f0 : F.
  Variable p0 : params F.          (* the untouched input values *)
  Variable w : id -> F.            (* the value every write of a name carries *)

  Lemma pget_pset (q : params F) x v y : pget F f0 (pset F q x v) y = if Pos.eqb y x then v else pget F f0 q y.
  Proof.
    induction q as [|[k u] tl IH]; cbn [pset pget].
    - rewrite (Pos.eqb_sym x y). reflexivity.
    - destruct (Pos.eqb_spec k x) as [->|Hne]; cbn [pget].
      + rewrite (Pos.eqb_sym x y). destruct (Pos.eqb y x); reflexivity.
      + rewrite IH. destruct (Pos.eqb_spec k y) as [->|Hky]; [|reflexivity].
        destruct (Pos.eqb_spec y x); [congruence | reflexivity].
  Qed.

  (* written names hold their target; every name holds its target or its input value *)
  Definition Inv (P : id -> Prop) (acc : params F) : Prop :=
    forall x, (P x -> pget F f0 acc x = w x) /\ (pget F f0 acc x = w x \/ pget F f0 acc x = pget F f0 p0 x).

  Lemma Inv_ext (P Q : id -> Prop) acc : (forall x, Q x -> P x) -> Inv P acc -> Inv Q acc.
  Proof. intros H I x. destruct (I x) as [I1 I2]. split; [intros Hq; apply I1, H, Hq | exact I2]. Qed.

  Lemma Inv_pset P acc x v : Inv P acc -> v = w x -> Inv (fun y => y = x \/ P y) (pset F acc x v).
  Proof.
    intros I Hv y. rewrite pget_pset. destruct (Pos.eqb_spec y x) as [->|Hne].
    - split; [intros _; exact Hv | left; exact Hv].
    - destruct (I y) as [I1 I2]. split; [intros [H|H]; [contradiction | apply I1, H] | exact I2].
  Qed.

  Lemma Inv_fold {A} (name : A -> id) (val : A -> F) (l : list A) : forall P acc,
    Inv P acc -> (forall a, In a l -> val a = w (name a)) ->
    Inv (fun y => (exists a, In a l /\ y = name a) \/ P y)
        (fold_left (fun acc a => pset F acc (name a) (val a)) l acc).
  Proof.
    induction l as [|a tl IH]; intros P acc I H; cbn [fold_left].
    - eapply Inv_ext; [|exact I]. intros x [[a [[] _]]|Hp]. exact Hp.
    - eapply Inv_ext; [|apply (IH _ _ (Inv_pset P acc (name a) (val a) I (H a (or_introl eq_refl))))].
      + intros x [[b [[<-|Hb] E]]|Hp]; [right; left; exact E | left; exists b; split; assumption | right; right; exact Hp].
      + intros b Hb. apply H. right. exact Hb.
  Qed.

  Lemma Inv_fold2 (name : nat -> nat -> id) (val : nat -> nat -> F) (cols : nat -> list nat) (rows : list nat) :
    forall P acc, Inv P acc -> (forall i j, In i rows -> In j (cols i) -> val i j = w (name i j)) ->
    Inv (fun y => (exists i j, In i rows /\ In j (cols i) /\ y = name i j) \/ P y)
        (fold_left (fun acc i => fold_left (fun acc j => pset F acc (name i j) (val i j)) (cols i) acc) rows acc).
  Proof.
    induction rows as [|i tl IH]; intros P acc I H; cbn [fold_left].
    - eapply Inv_ext; [|exact I]. intros x [[a [c [[] _]]]|Hp]. exact Hp.
    - assert (Hc : forall j, In j (cols i) -> val i j = w (name i j)) by (intros j Hj; apply H; [left; reflexivity | exact Hj]).
      pose proof (Inv_fold (fun j => name i j) (fun j => val i j) (cols i) P acc I Hc) as I2.
      eapply Inv_ext; [|apply (IH _ _ I2)].
      + intros x [[a [c [[<-|Ha] [Hc' E]]]]|Hp].
        * right. left. exists c. split; assumption.
        * left. exists a, c. auto.
        * right. right. exact Hp.
      + intros a c Ha Hc'. apply H; [right; exact Ha | exact Hc'].
  Qed.
End Dict.

(* ---------------------------------------------------------------------------------------------- *)
(* the repaired initial estimates are valid, given what the oracles promise                       *)
(* ---------------------------------------------------------------------------------------------- *)
Section RepairValid.
  Variable F : Type.
  Variable f0 : F.
  Variable is_psd : list (list F) -> bool.
  Variable repair : list (list F) -> list (list F).
  Variable p : params F.
  Variable r : coll id.
  Variable w : id -> F.
  Notation bs := (joint_blocks r).
  Notation nm V i j := (nth j (nth i V []) 1%positive).

  (* the names nearest_valid_parameters writes: lower triangles of the blocks that fail the test *)
  Definition written (x : id) : Prop :=
    exists V row col, In V bs /\ is_psd (msubs F f0 p V) = false /\ row < length V /\ col <= row /\ x = nm V row col.

  (* the oracle's promise, and the shape of symbolic covariance blocks *)
  Hypothesis Hpost : forall A, is_psd A = false -> is_psd (repair A) = true.
  Hypothesis Hsquare : forall V, In V bs -> forall row, In row V -> length row = length V.
  Hypothesis Hsym : forall V i j, In V bs -> i < length V -> j < length V -> nm V i j = nm V j i.
  Hypothesis Hrep_dims : forall V, In V bs -> is_psd (msubs F f0 p V) = false ->
    length (repair (msubs F f0 p V)) = length V /\
    forall row, In row (repair (msubs F f0 p V)) -> length row = length V.
  (* blocks that share parameter names agree on the values they are given (w); a valid block sharing a
     name with a repaired block keeps its value: w extends the input values on the valid blocks *)
  Hypothesis Hw : forall V i j, In V bs -> is_psd (msubs F f0 p V) = false -> i < length V -> j < length V ->
    fget F f0 (repair (msubs F f0 p V)) i j = w (nm V i j).
  Hypothesis Hkeep : forall V i j, In V bs -> is_psd (msubs F f0 p V) = true -> i < length V -> j < length V ->
    w (nm V i j) = pget F f0 p (nm V i j).

  Lemma update_lower_Inv (V : list (list id)) (B : list (list F)) P acc :
    Inv F f0 p w P acc -> (forall row col, row < length V -> col <= row -> fget F f0 B row col = w (nm V row col)) ->
    Inv F f0 p w (fun y => (exists row col, row < length V /\ col <= row /\ y = nm V row col) \/ P y)
        (update_lower F f0 acc V B).
  Proof.
    intros I H. unfold update_lower.
    assert (G : forall rows P acc, Inv F f0 p w P acc -> (forall row, In row rows -> row < length V) ->
              Inv F f0 p w (fun y => (exists row col, In row rows /\ col <= row /\ y = nm V row col) \/ P y)
                  (fold_left (fun acc row => fold_left (fun acc col => pset F acc (nm V row col) (fget F f0 B row col))
                                                       (seq 0 (S row)) acc) rows acc)).
    { induction rows as [|row tl IH]; intros P' acc' I' Hr; cbn [fold_left].
      - eapply Inv_ext; [|exact I']. intros x [[a [c [[] _]]]|Hp]. exact Hp.
      - assert (Hcols : forall col, In col (seq 0 (S row)) -> fget F f0 B row col = w (nm V row col)).
        { intros col Hc. apply in_seq in Hc. apply H; [apply Hr; left; reflexivity | lia]. }
        pose proof (Inv_fold F f0 p w (fun col => nm V row col) (fun col => fget F f0 B row col) (seq 0 (S row)) P' acc' I' Hcols) as I2.
        eapply Inv_ext; [|apply (IH _ _ I2)].
        + intros x [[a [c [[<-|Ha] [Hc E]]]]|Hp].
          * right. left. exists c. split; [apply in_seq; lia | exact E].
          * left. exists a, c. auto.
          * right. right. exact Hp.
        + intros a Ha. apply Hr. right. exact Ha. }
    eapply Inv_ext; [|apply (G (seq 0 (length V)) P acc I)].
    - intros x [[a [c [Ha [Hc E]]]]|Hp]; [left; exists a, c; split; [apply in_seq; lia | auto] | right; exact Hp].
    - intros row Hr. apply in_seq in Hr. lia.
  Qed.

  Lemma nearest_Inv : Inv F f0 p w written (nearest F f0 is_psd repair p r).
  Proof.
    unfold nearest.
    assert (G : forall (l : list (list (list id))) P acc, (forall V, In V l -> In V bs) -> Inv F f0 p w P acc ->
              Inv F f0 p w (fun y => (exists V row col, In V l /\ is_psd (msubs F f0 p V) = false /\ row < length V /\ col <= row /\ y = nm V row col) \/ P y)
                  (fold_left (fun acc V => match nearest_psd F is_psd repair (msubs F f0 p V) with
                                           | None => acc | Some B => update_lower F f0 acc V B end) l acc)).
    { induction l as [|V tl IH]; intros P acc Hl I; cbn [fold_left].
      - eapply Inv_ext; [|exact I]. intros x [[V [a [c [[] _]]]]|Hp]. exact Hp.
      - unfold nearest_psd at 2. destruct (is_psd (msubs F f0 p V)) eqn:EV.
        + eapply Inv_ext; [|apply (IH P acc (fun V' H' => Hl V' (or_intror H')) I)].
          intros x [[V' [a [c [[<-|HV'] [Hi R]]]]]|Hp]; [congruence | left; exists V', a, c; auto | right; exact Hp].
        + assert (HB : forall row col, row < length V -> col <= row ->
                           fget F f0 (repair (msubs F f0 p V)) row col = w (nm V row col)).
          { intros row col Hr Hc. apply Hw; [apply Hl; left; reflexivity | exact EV | exact Hr | lia]. }
          pose proof (update_lower_Inv V (repair (msubs F f0 p V)) P acc I HB) as I2.
          eapply Inv_ext; [|apply (IH _ _ (fun V' H' => Hl V' (or_intror H')) I2)].
          intros x [[V' [a [c [[<-|HV'] [Hi [Ha [Hc E]]]]]]]|Hp].
          -- right. left. exists a, c. auto.
          -- left. exists V', a, c. auto.
          -- right. right. exact Hp. }
    eapply Inv_ext; [|apply (G bs (fun _ => False) p (fun V H => H))].
    - intros x H. left. exact H.
    - intros x. split; [intros [] | right; reflexivity].
  Qed.

  (* every block of the repaired estimates passes the test *)
  Lemma nearest_valid_lemma : validate F f0 is_psd (nearest F f0 is_psd repair p r) r = true.
  Proof.
    unfold validate. apply forallb_forall. intros V HV. pose proof nearest_Inv as I.
    set (p' := nearest F f0 is_psd repair p r) in *.
    destruct (is_psd (msubs F f0 p V)) eqn:EV.
    - (* a block that was valid keeps its values *)
      assert (E : msubs F f0 p' V = msubs F f0 p V); [|rewrite E; exact EV].
      unfold msubs. apply (nth_ext _ _ [] []); [rewrite !map_length; reflexivity|]. intros i Hi. rewrite map_length in Hi.
      rewrite !(nth_indep (map _ V) [] (map (pget F f0 p') [])) by (rewrite map_length; exact Hi).
      rewrite (map_nth (map (pget F f0 p')) V [] i).
      rewrite (nth_indep (map (map (pget F f0 p)) V) (map (pget F f0 p') []) (map (pget F f0 p) [])) by (rewrite map_length; exact Hi).
      rewrite (map_nth (map (pget F f0 p)) V [] i).
      apply map_ext_in. intros x Hx.
      assert (Hrow : length (nth i V []) = length V) by (apply Hsquare; [exact HV | apply nth_In; exact Hi]).
      destruct (In_nth _ _ 1%positive Hx) as [j [Hj0 Ej]]. assert (Hj : j < length V) by (rewrite <- Hrow; exact Hj0). subst x.
      destruct (I (nm V i j)) as [_ [I2|I2]]; [etransitivity; [exact I2 | apply Hkeep; assumption] | exact I2].
    - (* a repaired block holds exactly the repaired matrix *)
      destruct (Hrep_dims V HV EV) as [RL RR].
      assert (E : msubs F f0 p' V = repair (msubs F f0 p V)); [|rewrite E; apply Hpost; exact EV].
      unfold msubs at 1. apply (nth_ext _ _ [] []); [rewrite map_length, RL; reflexivity|]. intros i Hi. rewrite map_length in Hi.
      rewrite (nth_indep (map _ V) [] (map (pget F f0 p') [])) by (rewrite map_length; exact Hi).
      rewrite (map_nth (map (pget F f0 p')) V [] i).
      assert (Hrow : length (nth i V []) = length V) by (apply Hsquare; [exact HV | apply nth_In; exact Hi]).
      apply (nth_ext _ _ f0 f0); [rewrite map_length, Hrow; symmetry; apply RR, nth_In; rewrite RL; exact Hi|].
      intros j Hj. rewrite map_length, Hrow in Hj.
      rewrite (nth_indep (map _ _) f0 (pget F f0 p' 1%positive)) by (rewrite map_length, Hrow; exact Hj).
      rewrite (map_nth (pget F f0 p') (nth i V []) 1%positive j).
      change (nth j (nth i (repair (msubs F f0 p V)) []) f0) with (fget F f0 (repair (msubs F f0 p V)) i j).
      rewrite (Hw V i j HV EV Hi Hj). destruct (I (nm V i j)) as [I1 _]. apply I1.
      destruct (Nat.le_gt_cases j i) as [Hle|Hgt].
      + exists V, i, j. auto.
      + rewrite (Hsym V i j HV Hi Hj). exists V, j, i. repeat split; auto; lia.
  Qed.
End RepairValid.

(* Model.create / Model.replace: every combination of replaced attributes ends canonicalised, hence valid *)
Section Replace.
  Variable F : Type.
  Variable f0 : F.
  Variable is_psd : list (list F) -> bool.
  Variable repair : list (list F) -> list (list F).

  Lemma model_replace_canonicalised_lemma (p_old : params F) (r_old : coll id) p_new r_new :
    model_replace F f0 is_psd repair p_old r_old p_new r_new =
    (canonicalize F f0 is_psd repair (match p_new with Some q => q | None => p_old end)
                                     (match r_new with Some q => q | None => r_old end),
     match r_new with Some q => q | None => r_old end).
  Proof. reflexivity. Qed.

  Notation nm V i j := (nth j (nth i V []) 1%positive).
  (* what the oracles promise and the shape of the blocks, for the pair (p, r) handed to canonicalisation *)
  Definition repair_ok (p : params F) (r : coll id) (w : id -> F) : Prop :=
    (forall A, is_psd A = false -> is_psd (repair A) = true) /\
    (forall V, In V (joint_blocks r) -> forall row, In row V -> length row = length V) /\
    (forall V i j, In V (joint_blocks r) -> i < length V -> j < length V -> nm V i j = nm V j i) /\
    (forall V, In V (joint_blocks r) -> is_psd (msubs F f0 p V) = false ->
       length (repair (msubs F f0 p V)) = length V /\
       forall row, In row (repair (msubs F f0 p V)) -> length row = length V) /\
    (forall V i j, In V (joint_blocks r) -> is_psd (msubs F f0 p V) = false -> i < length V -> j < length V ->
       fget F f0 (repair (msubs F f0 p V)) i j = w (nm V i j)) /\
    (forall V i j, In V (joint_blocks r) -> is_psd (msubs F f0 p V) = true -> i < length V -> j < length V ->
       w (nm V i j) = pget F f0 p (nm V i j)).

  Lemma canonicalize_valid_lemma (p : params F) (r : coll id) (w : id -> F) :
    repair_ok p r w -> validate F f0 is_psd (canonicalize F f0 is_psd repair p r) r = true.
  Proof.
    intros [H1 [H2 [H3 [H4 [H5 H6]]]]]. unfold canonicalize.
    destruct (validate F f0 is_psd p r) eqn:V; [exact V|].
    apply (nearest_valid_lemma F f0 is_psd repair p r w); assumption.
  Qed.

  Lemma model_replace_valid_lemma (p_old : params F) (r_old : coll id) p_new r_new (w : id -> F) :
    repair_ok (match p_new with Some q => q | None => p_old end) (match r_new with Some q => q | None => r_old end) w ->
    validate F f0 is_psd (fst (model_replace F f0 is_psd repair p_old r_old p_new r_new))
                         (snd (model_replace F f0 is_psd repair p_old r_old p_new r_new)) = true.
  Proof. intros H. rewrite model_replace_canonicalised_lemma. cbn [fst snd]. apply (canonicalize_valid_lemma _ _ w H). Qed.
End Replace.

(* ---------------------------------------------------------------------------------------------- *)
(* parameters_sdcorr on a whole collection: reads the input values, writes a copy                  *)
(* ---------------------------------------------------------------------------------------------- *)
Definition vcols (V : list (list id)) : nat := match V with [] => 0 | row :: _ => length row end.

Section SdcorrColl.
  Variable F : Type.
  Variable f0 : F.
  Variables fmul fdiv : F -> F -> F.
  Variable fsqrt : F -> F.
  Variable fis0 : F -> bool.
  Variable values : params F.
  Variable w : id -> F.
  Notation nm V i j := (nth j (nth i V []) 1%positive).
  Notation sdb V := (sdcorr_block F f0 fmul fdiv fsqrt fis0 (msubs F f0 values V)).

  (* the names the joint blocks write *)
  Definition jwritten (r : coll id) (x : id) : Prop :=
    exists ns l mu V i j, In (Joint ns l mu V) r /\ i < length V /\ j < vcols V /\ x = nm V i j.

  Lemma sdcorr_params_Inv (r : coll id) :
    (forall ns l mu V i j, In (Joint ns l mu V) r -> i < length V -> j < vcols V -> fget F f0 (sdb V) i j = w (nm V i j)) ->
    (forall n l m v, In (Normal n l m v) r -> fsqrt (pget F f0 values v) = w v) ->
    Inv F f0 values w (jwritten r) (sdcorr_params F f0 fmul fdiv fsqrt fis0 values r).
  Proof.
    intros HJ HN. unfold sdcorr_params.
    assert (G : forall (l : coll id) P acc, (forall d, In d l -> In d r) -> Inv F f0 values w P acc ->
              Inv F f0 values w (fun y => jwritten l y \/ P y)
                (fold_left (fun acc d =>
                   match d with
                   | Joint _ _ _ V =>
                       fold_left (fun acc i => fold_left (fun acc j => pset F acc (nm V i j) (fget F f0 (sdb V) i j))
                                                         (seq 0 (vcols V)) acc) (seq 0 (length V)) acc
                   | Normal _ _ _ v => if pmem F acc v then pset F acc v (fsqrt (pget F f0 values v)) else acc
                   end) l acc)).
    { induction l as [|d tl IH]; intros P acc Hl I; cbn [fold_left].
      - eapply Inv_ext; [|exact I]. intros x [[ns [l [mu [V [i [j [[] _]]]]]]]|Hp]. exact Hp.
      - destruct d as [n l m v | ns l mu V].
        + assert (I2 : Inv F f0 values w P (if pmem F acc v then pset F acc v (fsqrt (pget F f0 values v)) else acc)).
          { destruct (pmem F acc v); [|exact I].
            eapply Inv_ext; [|apply (Inv_pset F f0 values w P acc v _ I), (HN n l m v), Hl; left; reflexivity].
            intros x Hp. right. exact Hp. }
          eapply Inv_ext; [|apply (IH P _ (fun d Hd => Hl d (or_intror Hd)) I2)].
          intros x [[ns [l' [mu [V [i [j [[Hd|Hd] R]]]]]]]|Hp]; [discriminate | left; exists ns, l', mu, V, i, j; auto | right; exact Hp].
        + assert (Hv : forall i j, In i (seq 0 (length V)) -> In j (seq 0 (vcols V)) -> fget F f0 (sdb V) i j = w (nm V i j)).
          { intros i j Hi Hj. apply in_seq in Hi. apply in_seq in Hj.
            apply (HJ ns l mu V i j); [apply Hl; left; reflexivity | lia | lia]. }
          pose proof (Inv_fold2 F f0 values w (fun i j => nm V i j) (fun i j => fget F f0 (sdb V) i j)
                        (fun _ => seq 0 (vcols V)) (seq 0 (length V)) P acc I Hv) as I2.
          eapply Inv_ext; [|apply (IH _ _ (fun d Hd => Hl d (or_intror Hd)) I2)].
          intros x [[ns' [l' [mu' [V' [i [j [[Hd|Hd] [Hi [Hj E]]]]]]]]]|Hp].
          * inversion Hd; subst. right. left. exists i, j. split; [apply in_seq; lia | split; [apply in_seq; lia | reflexivity]].
          * left. exists ns', l', mu', V', i, j. auto.
          * right. right. exact Hp. }
    eapply Inv_ext; [|apply (G r (fun _ => False) values (fun d H => H))].
    - intros x H. left. exact H.
    - intros x. split; [intros [] | right; reflexivity].
  Qed.
End SdcorrColl.

(* ---------------------------------------------------------------------------------------------- *)
(* the real instance                                                                              *)
(* ---------------------------------------------------------------------------------------------- *)
Local Open Scope R_scope.
Definition ris0 (x : R) : bool := if Req_EM_T x 0 then true else false.
Notation rget := (fget R 0).
Notation rtab := (ftab R).
Notation rsum := (fsum R 0 Rplus).
Notation rdiagv := (diagv R 0).
Notation rdiagm := (diagm R 0).
Notation rmmul := (mmul R 0 Rplus Rmult).
Notation rtranspose := (transpose R 0).
Notation rtril := (tril R 0).
Notation rcov2corr := (cov2corr R 0 Rmult Rdiv sqrt ris0).
Notation rcorr2cov := (corr2cov R 0 Rplus Rmult).
Notation rse_from_cov := (se_from_cov R 0 sqrt).
Notation rscale := (scale_matrix R 0 Rplus Rminus Rmult Rdiv exp 10 (/ 10)).
Notation rdescale := (descale_matrix R 0 Rplus Rmult exp).
Notation rtheta_scale := (theta_scale R 1 Rminus Rdiv ln (/ 10)).
Notation rtheta_descale := (theta_descale R 1 Rplus Rminus Rmult Rdiv exp).

Definition rsq (n : nat) (M : list (list R)) : Prop := length M = n /\ forall row, In row M -> length row = n.

Local Open Scope nat_scope.
Lemma nth_map_seq {A} (g : nat -> A) n i d : i < n -> nth i (map g (seq 0 n)) d = g i.
Proof.
  intros Hi. rewrite (nth_indep _ d (g 0)) by (rewrite map_length, seq_length; exact Hi).
  rewrite (map_nth g (seq 0 n) 0 i). rewrite seq_nth by exact Hi. reflexivity.
Qed.

Lemma rget_rtab n c f i j : i < n -> j < c -> rget (rtab n c f) i j = f i j.
Proof.
  intros Hi Hj. unfold fget, ftab.
  rewrite (nth_map_seq (fun i => map (fun j => f i j) (seq 0 c)) n i []) by exact Hi.
  rewrite (nth_map_seq (fun j => f i j) c j 0%R) by exact Hj. reflexivity.
Qed.

Lemma rtab_length n c f : length (rtab n c f) = n.
Proof. unfold ftab. rewrite map_length, seq_length. reflexivity. Qed.

Lemma fold_Rplus_acc l a : fold_left Rplus l a = (a + fold_left Rplus l 0)%R.
Proof.
  revert a. induction l as [|x tl IH]; intros a; cbn [fold_left]; [lra|].
  rewrite IH, (IH (0 + x)%R). lra.
Qed.

Lemma rsum_cons x l : rsum (x :: l) = (x + rsum l)%R.
Proof. unfold fsum. cbn [fold_left]. rewrite fold_Rplus_acc. lra. Qed.

Lemma rsum_zero (g : nat -> R) l : (forall k, In k l -> g k = 0%R) -> rsum (map g l) = 0%R.
Proof.
  induction l as [|x tl IH]; intros H; [reflexivity|]. cbn [map]. rewrite rsum_cons, IH, (H x); [lra | left; reflexivity|].
  intros k Hk. apply H. right. exact Hk.
Qed.

Lemma rsum_single (g : nat -> R) l i : NoDup l -> In i l -> (forall k, In k l -> k <> i -> g k = 0%R) ->
  rsum (map g l) = g i.
Proof.
  induction l as [|x tl IH]; intros Hnd Hi Hz; [destruct Hi|].
  cbn [map]. rewrite rsum_cons. inversion Hnd; subst. destruct Hi as [->|Hi].
  - rewrite rsum_zero; [lra|]. intros k Hk. apply Hz; [right; exact Hk|]. intro; subst. contradiction.
  - rewrite IH; try assumption.
    + rewrite (Hz x); [lra | left; reflexivity|]. intro; subst. contradiction.
    + intros k Hk Hne. apply Hz; [right; exact Hk | exact Hne].
Qed.

Lemma rsum_ext (g h : nat -> R) l : (forall k, In k l -> g k = h k) -> rsum (map g l) = rsum (map h l).
Proof. intros H. f_equal. apply map_ext_in. exact H. Qed.

Lemma rdiagv_length M : length (rdiagv M) = length M.
Proof. unfold diagv. rewrite map_length, seq_length. reflexivity. Qed.

Lemma rdiagv_nth M i : i < length M -> nth i (rdiagv M) 0%R = rget M i i.
Proof. intros Hi. unfold diagv. apply (nth_map_seq (fun i => rget M i i)). exact Hi. Qed.

Lemma rget_diagm v i j : i < length v -> j < length v -> rget (rdiagm v) i j = if Nat.eqb i j then nth i v 0%R else 0%R.
Proof. intros Hi Hj. unfold diagm. rewrite rget_rtab by assumption. reflexivity. Qed.

(* (diag(d) @ C) and (X @ diag(d)) *)
Lemma rget_mmul A B i j : i < length A -> j < length A ->
  rget (rmmul A B) i j = rsum (map (fun k => (rget A i k * rget B k j)%R) (seq 0 (length A))).
Proof. intros Hi Hj. unfold mmul. rewrite rget_rtab by assumption. reflexivity. Qed.

Lemma rmmul_length A B : length (rmmul A B) = length A.
Proof. unfold mmul. apply rtab_length. Qed.

Lemma diag_left v C i j : i < length v -> j < length v ->
  rget (rmmul (rdiagm v) C) i j = (nth i v 0 * rget C i j)%R.
Proof.
  intros Hi Hj. assert (Hl : length (rdiagm v) = length v) by (unfold diagm; apply rtab_length).
  rewrite rget_mmul by (rewrite Hl; assumption). rewrite Hl.
  rewrite (rsum_single (fun k => (rget (rdiagm v) i k * rget C k j)%R) (seq 0 (length v)) i).
  - rewrite rget_diagm by assumption. rewrite Nat.eqb_refl. reflexivity.
  - apply seq_NoDup.
  - apply in_seq. lia.
  - intros k Hk Hne. apply in_seq in Hk. rewrite rget_diagm by lia.
    destruct (Nat.eqb_spec i k); [subst; contradiction | lra].
Qed.

Lemma diag_right X v i j : length X = length v -> i < length v -> j < length v ->
  rget (rmmul X (rdiagm v)) i j = (rget X i j * nth j v 0)%R.
Proof.
  intros Hl Hi Hj. rewrite rget_mmul by (rewrite Hl; assumption). rewrite Hl.
  rewrite (rsum_single (fun k => (rget X i k * rget (rdiagm v) k j)%R) (seq 0 (length v)) j).
  - rewrite rget_diagm by assumption. rewrite Nat.eqb_refl. reflexivity.
  - apply seq_NoDup.
  - apply in_seq. lia.
  - intros k Hk Hne. apply in_seq in Hk. rewrite rget_diagm by lia.
    destruct (Nat.eqb_spec k j); [subst; contradiction | lra].
Qed.

Lemma rget_corr2cov C sd i j : length C = length sd -> i < length sd -> j < length sd ->
  rget (rcorr2cov C sd) i j = (nth i sd 0 * rget C i j * nth j sd 0)%R.
Proof.
  intros Hl Hi Hj. unfold corr2cov.
  assert (Hd : length (rdiagm sd) = length sd) by (unfold diagm; apply rtab_length).
  rewrite diag_right by (try assumption; rewrite rmmul_length; exact Hd).
  rewrite diag_left by assumption. reflexivity.
Qed.

Lemma rget_cov2corr S i j : i < length S -> j < length S ->
  rget (rcov2corr S) i j =
  if ris0 (rget S i j) then 0%R else (rget S i j / (sqrt (rget S i i) * sqrt (rget S j j)))%R.
Proof.
  intros Hi Hj. unfold cov2corr. rewrite rget_rtab by assumption.
  rewrite !(nth_indep (map sqrt (rdiagv S)) 0%R (sqrt 0)) by (rewrite map_length, rdiagv_length; assumption).
  rewrite !(map_nth sqrt). rewrite !rdiagv_nth by assumption. reflexivity.
Qed.

Lemma ris0_true x : ris0 x = true -> x = 0%R.
Proof. unfold ris0. destruct (Req_EM_T x 0); [auto | discriminate]. Qed.
Lemma ris0_false x : ris0 x = false -> x <> 0%R.
Proof. unfold ris0. destruct (Req_EM_T x 0); [discriminate | auto]. Qed.

(* cov -> (corr, se) -> cov *)
Lemma sdcorr_inverse_lemma (S : list (list R)) (i j : nat) :
  (forall k, k < length S -> (0 < rget S k k)%R) -> i < length S -> j < length S ->
  rget (rcorr2cov (rcov2corr S) (rse_from_cov S)) i j = rget S i j.
Proof.
  intros Hpos Hi Hj.
  assert (Hse : length (rse_from_cov S) = length S) by (unfold se_from_cov; rewrite map_length; apply rdiagv_length).
  assert (Hc : length (rcov2corr S) = length S) by (unfold cov2corr; apply rtab_length).
  rewrite rget_corr2cov by (rewrite ?Hse; try assumption; rewrite Hc; reflexivity).
  assert (Hn : forall k, k < length S -> nth k (rse_from_cov S) 0%R = sqrt (rget S k k)).
  { intros k Hk. unfold se_from_cov. rewrite (nth_indep _ 0%R (sqrt 0)) by (rewrite map_length, rdiagv_length; exact Hk).
    rewrite (map_nth sqrt). rewrite rdiagv_nth by exact Hk. reflexivity. }
  rewrite !Hn by assumption. rewrite rget_cov2corr by assumption.
  pose proof (sqrt_lt_R0 _ (Hpos i Hi)) as Pi. pose proof (sqrt_lt_R0 _ (Hpos j Hj)) as Pj.
  destruct (ris0 (rget S i j)) eqn:Z.
  - apply ris0_true in Z. rewrite Z. lra.
  - field. split; lra.
Qed.

(* (corr, sd) -> cov -> (corr, se) *)
Lemma corr_inverse_lemma (C : list (list R)) (sd : list R) (i j : nat) :
  length C = length sd -> (forall k, k < length sd -> rget C k k = 1%R) ->
  (forall k, k < length sd -> (0 < nth k sd 0)%R) -> i < length sd -> j < length sd ->
  rget (rcov2corr (rcorr2cov C sd)) i j = rget C i j /\
  nth i (rse_from_cov (rcorr2cov C sd)) 0%R = nth i sd 0%R.
Proof.
  intros Hl Hone Hpos Hi Hj.
  assert (Hlc : length (rcorr2cov C sd) = length sd).
  { unfold corr2cov. rewrite !rmmul_length. unfold diagm. apply rtab_length. }
  assert (Hd : forall k, k < length sd -> rget (rcorr2cov C sd) k k = (nth k sd 0 * nth k sd 0)%R).
  { intros k Hk. rewrite rget_corr2cov by assumption. rewrite (Hone k Hk). lra. }
  assert (Hs : forall k, k < length sd -> sqrt (rget (rcorr2cov C sd) k k) = nth k sd 0%R).
  { intros k Hk. rewrite (Hd k Hk). apply sqrt_square. pose proof (Hpos k Hk). lra. }
  split.
  - rewrite rget_cov2corr by (rewrite Hlc; assumption). rewrite !Hs by assumption.
    rewrite rget_corr2cov by assumption.
    pose proof (Hpos i Hi) as Pi. pose proof (Hpos j Hj) as Pj.
    destruct (ris0 (nth i sd 0 * rget C i j * nth j sd 0)%R) eqn:Z.
    + apply ris0_true in Z. symmetry.
      assert (H1 : (nth i sd 0 * nth j sd 0 <> 0)%R) by (apply Rmult_integral_contrapositive; split; lra).
      replace (nth i sd 0 * rget C i j * nth j sd 0)%R with (rget C i j * (nth i sd 0 * nth j sd 0))%R in Z by lra.
      apply Rmult_integral in Z. destruct Z as [Z|Z]; [exact Z | contradiction].
    + field. split; lra.
  - unfold se_from_cov. rewrite (nth_indep _ 0%R (sqrt 0)) by (rewrite map_length, rdiagv_length, Hlc; exact Hi).
    rewrite (map_nth sqrt). rewrite rdiagv_nth by (rewrite Hlc; exact Hi). apply Hs. exact Hi.
Qed.

Local Open Scope R_scope.
(* parameters_sdcorr of a whole collection (blocks may share parameter names: every name is written
   with one value w): sd_i * corr_ij * sd_j read back from the RESULT gives the input covariance *)
Lemma rget_msubs (p : params R) (V : list (list id)) i j : (i < length V)%nat -> (j < length (nth i V []))%nat ->
  rget (msubs R 0 p V) i j = pget R 0 p (nth j (nth i V []) 1%positive).
Proof.
  intros Hi Hj. unfold fget, msubs.
  rewrite (nth_indep (map _ V) [] (map (pget R 0 p) [])) by (rewrite map_length; exact Hi).
  rewrite (map_nth (map (pget R 0 p)) V [] i).
  rewrite (nth_indep (map _ _) 0 (pget R 0 p 1%positive)) by (rewrite map_length; exact Hj).
  rewrite (map_nth (pget R 0 p)). reflexivity.
Qed.

Lemma sdcorr_collection_inverse_lemma (p : params R) (r : coll id) (w : id -> R) ns l mu (V : list (list id)) i j :
  (forall ns l mu V i j, In (Joint ns l mu V) r -> (i < length V)%nat -> (j < vcols V)%nat ->
     rget (sdcorr_block R 0 Rmult Rdiv sqrt ris0 (msubs R 0 p V)) i j = w (nth j (nth i V []) 1%positive)) ->
  (forall n l m v, In (Normal n l m v) r -> sqrt (pget R 0 p v) = w v) ->
  In (Joint ns l mu V) r -> (forall row, In row V -> length row = length V) ->
  (forall k, (k < length V)%nat -> 0 < pget R 0 p (nth k (nth k V []) 1%positive)) ->
  (i < length V)%nat -> (j < length V)%nat ->
  let p' := sdcorr_params R 0 Rmult Rdiv sqrt ris0 p r in
  let sd := fun k => pget R 0 p' (nth k (nth k V []) 1%positive) in
  (if Nat.eqb i j then sd i * sd i else sd i * pget R 0 p' (nth j (nth i V []) 1%positive) * sd j) =
  pget R 0 p (nth j (nth i V []) 1%positive).
Proof.
  intros HJ HN HV Hsq Hpos Hi Hj p' sd.
  pose proof (sdcorr_params_Inv R 0 Rmult Rdiv sqrt ris0 p w r HJ HN) as I.
  assert (Hc : vcols V = length V).
  { unfold vcols. destruct V as [|row V']; [cbn in Hi; lia|]. apply Hsq. left. reflexivity. }
  assert (Hrow : forall a, (a < length V)%nat -> length (nth a V []) = length V) by (intros a Ha; apply Hsq, nth_In; exact Ha).
  assert (Hlen : length (msubs R 0 p V) = length V) by (unfold msubs; apply map_length).
  assert (Val : forall a b, (a < length V)%nat -> (b < length V)%nat ->
            pget R 0 p' (nth b (nth a V []) 1%positive) =
            if Nat.eqb a b then sqrt (pget R 0 p (nth b (nth a V []) 1%positive))
            else rget (rcov2corr (msubs R 0 p V)) a b).
  { intros a b Ha Hb. destruct (I (nth b (nth a V []) 1%positive)) as [I1 _]. unfold p'.
    rewrite I1 by (exists ns, l, mu, V, a, b; rewrite Hc; auto).
    rewrite <- (HJ ns l mu V a b HV Ha) by (rewrite Hc; exact Hb).
    unfold sdcorr_block. rewrite Hlen, rget_rtab by assumption.
    destruct (Nat.eqb a b); [|reflexivity]. rewrite rget_msubs by (rewrite ?Hrow; assumption). reflexivity. }
  assert (A : forall a b, (a < length V)%nat -> (b < length V)%nat ->
            rget (msubs R 0 p V) a b = pget R 0 p (nth b (nth a V []) 1%positive)).
  { intros a b Ha Hb. apply rget_msubs; [exact Ha | rewrite Hrow; assumption]. }
  unfold sd. rewrite !Val by assumption. rewrite !Nat.eqb_refl.
  pose proof (Hpos i Hi) as Pi. pose proof (Hpos j Hj) as Pj.
  destruct (Nat.eqb_spec i j) as [->|Hne].
  - apply sqrt_sqrt. lra.
  - rewrite rget_cov2corr by (rewrite Hlen; assumption). rewrite !A by assumption.
    pose proof (sqrt_lt_R0 _ Pi) as Si. pose proof (sqrt_lt_R0 _ Pj) as Sj.
    destruct (ris0 (pget R 0 p (nth j (nth i V []) 1%positive))) eqn:Z.
    + apply ris0_true in Z. rewrite Z. lra.
    + field. split; lra.
Qed.
Local Open Scope nat_scope.

(* ---- precision-matrix conversions (np.linalg.inv = oracle finv) ------------------------------------ *)
Section Prec.
  Variable finv : list (list R) -> list (list R).
  Notation rcov_from_prec := (cov_from_prec R finv).
  Notation rse_from_prec := (se_from_prec R 0%R sqrt finv).
  Notation rcorr_from_prec := (corr_from_prec R 0%R Rmult Rdiv sqrt ris0 finv).
  Notation rprec_from_cov := (prec_from_cov R finv).
  Notation rcov_from_corrse := (cov_from_corrse R 0%R Rplus Rmult).
  Notation rprec_from_corrse := (prec_from_corrse R 0%R Rplus Rmult finv).

  (* calculate_cov_from_corrse(calculate_corr_from_prec(P), calculate_se_from_prec(P)) = calculate_cov_from_prec(P) *)
  Lemma cov_from_corrse_of_prec_lemma (P : list (list R)) i j :
    (forall k, k < length (finv P) -> (0 < rget (finv P) k k)%R) -> i < length (finv P) -> j < length (finv P) ->
    rget (rcov_from_corrse (rcorr_from_prec P) (rse_from_prec P)) i j = rget (rcov_from_prec P) i j.
  Proof. intros. unfold cov_from_corrse, corr_from_prec, se_from_prec, cov_from_prec. apply sdcorr_inverse_lemma; assumption. Qed.

  Lemma matrix_ext_R n (A B : list (list R)) : rsq n A -> rsq n B ->
    (forall a b, a < n -> b < n -> rget A a b = rget B a b) -> A = B.
  Proof.
    intros [AL AR] [BL BR] H. apply (nth_ext A B [] []); [lia|]. intros a Ha.
    assert (La : length (nth a A []) = n) by (apply AR, nth_In; exact Ha).
    assert (Lb : length (nth a B []) = n) by (apply BR, nth_In; lia).
    apply (nth_ext _ _ 0%R 0%R); [lia|]. intros b Hb. apply H; lia.
  Qed.

  Lemma rtab_rsq n f : rsq n (rtab n n f).
  Proof.
    split; [apply rtab_length|]. intros row Hr. unfold ftab in Hr. apply in_map_iff in Hr.
    destruct Hr as [k [<- _]]. rewrite map_length, seq_length. reflexivity.
  Qed.

  Lemma corr2cov_sq C sd : rsq (length sd) (rcorr2cov C sd).
  Proof.
    assert (Hn : length (rmmul (rdiagm sd) C) = length sd) by (rewrite rmmul_length; unfold diagm; apply rtab_length).
    unfold corr2cov. unfold mmul at 1. rewrite Hn. apply rtab_rsq.
  Qed.

  (* calculate_prec_from_corrse(calculate_corr_from_cov(S), calculate_se_from_cov(S)) = calculate_prec_from_cov(S) *)
  Lemma prec_from_corrse_of_cov_lemma (S : list (list R)) : rsq (length S) S ->
    (forall k, k < length S -> (0 < rget S k k)%R) ->
    rprec_from_corrse (rcov2corr S) (rse_from_cov S) = rprec_from_cov S.
  Proof.
    intros Hsq Hpos. unfold prec_from_corrse, prec_from_cov. f_equal.
    assert (Hse : length (rse_from_cov S) = length S) by (unfold se_from_cov; rewrite map_length; apply rdiagv_length).
    apply (matrix_ext_R (length S)); [rewrite <- Hse; apply corr2cov_sq | exact Hsq|].
    intros a b Ha Hb. apply sdcorr_inverse_lemma; assumption.
  Qed.

  (* with an inverse that is an involution on the matrices at hand, cov <-> prec are mutually inverse *)
  Lemma prec_cov_roundtrip_lemma (P : list (list R)) : finv (finv P) = P ->
    rprec_from_cov (rcov_from_prec P) = P /\ rcov_from_prec (rprec_from_cov P) = P.
  Proof. intros H. unfold prec_from_cov, cov_from_prec. split; exact H. Qed.
End Prec.

(* ---- UCP scaling -------------------------------------------------------------------------------- *)
Lemma rget_tril A i j : i < length A -> j < length A -> rget (rtril A) i j = if j <=? i then rget A i j else 0%R.
Proof. intros Hi Hj. unfold tril. rewrite rget_rtab by assumption. reflexivity. Qed.
Lemma rtril_length A : length (rtril A) = length A.
Proof. unfold tril. apply rtab_length. Qed.
Lemma rget_transpose A i j : i < length A -> j < length A -> rget (rtranspose A) i j = rget A j i.
Proof. intros Hi Hj. unfold transpose. rewrite rget_rtab by assumption. reflexivity. Qed.
Lemma rtranspose_length A : length (rtranspose A) = length A.
Proof. unfold transpose. apply rtab_length. Qed.

Lemma rget_scale L i j : i < length L -> j < length L ->
  rget (rscale L) i j =
  if Nat.eqb i j then (rget L i i / exp (/ 10))%R
  else if j <? i then (10 * rget L i j)%R else (10 * rget L j i)%R.
Proof.
  intros Hi Hj. unfold scale_matrix.
  rewrite rget_rtab by assumption.
  set (M1 := rtril L).
  assert (HM1 : length M1 = length L) by apply rtril_length.
  assert (Hv1 : length (rdiagv M1) = length L) by (rewrite rdiagv_length; exact HM1).
  assert (Entry : forall a b, a < length L -> b < length L -> b <= a ->
     rget (rtab (length L) (length L)
       (fun i j => (10 * (rget M1 i j - rget (rdiagm (rdiagv M1)) i j) +
                    rget (rdiagm (map (fun x => x / exp (/ 10)) (rdiagv M1))) i j))%R) a b =
     if Nat.eqb a b then (rget L a a / exp (/ 10))%R else (10 * rget L a b)%R).
  { intros a b Ha Hb Hab. rewrite rget_rtab by assumption.
    rewrite !rget_diagm by (rewrite ?map_length, Hv1; assumption).
    unfold M1 at 1. rewrite rget_tril by assumption.
    destruct (Nat.leb_spec b a); [|lia].
    destruct (Nat.eqb_spec a b) as [->|Hne].
    - rewrite rdiagv_nth by (rewrite HM1; exact Hb). unfold M1. rewrite rget_tril by assumption. rewrite Nat.leb_refl.
      rewrite (nth_indep _ 0%R (0 / exp (/ 10))%R) by (rewrite map_length, rdiagv_length, rtril_length; exact Hb).
      rewrite (map_nth (fun x => (x / exp (/ 10))%R)). rewrite rdiagv_nth by (rewrite rtril_length; exact Hb).
      rewrite rget_tril by assumption. rewrite Nat.leb_refl. lra.
    - lra. }
  destruct (Nat.ltb_spec i j) as [Hlt|Hge].
  - rewrite Entry by lia. destruct (Nat.eqb_spec j i); [lia|]. destruct (Nat.eqb_spec i j); [lia|].
    destruct (Nat.ltb_spec j i); [lia|]. reflexivity.
  - rewrite Entry by lia. destruct (Nat.eqb_spec i j); [reflexivity|]. destruct (Nat.ltb_spec j i); [reflexivity | lia].
Qed.

Lemma rscale_length L : length (rscale L) = length L.
Proof. unfold scale_matrix. apply rtab_length. Qed.

(* the lower triangle that _descale_matrix multiplies with its transpose: the Cholesky factor itself *)
Lemma descale_lower (U L : list (list R)) i j : length U = length L ->
  (forall a b, a < b -> b < length L -> rget L a b = 0%R) ->
  (forall k, k < length L -> rget U k k = (/ 10)%R) ->
  (forall a b, b < a -> a < length L -> rget U a b = (/ 10)%R \/ rget L a b = 0%R) ->
  i < length L -> j < length L ->
  rget (rtril (rtab (length U) (length U)
     (fun i j => (rget (rtab (length U) (length U) (fun i j => if Nat.eqb i j then exp (rget U i i) else rget U i j)) i j *
                  rget (rscale L) i j)%R))) i j = rget L i j.
Proof.
  intros Hl Hlow Hd Ho Hi Hj. rewrite rget_tril by (rewrite rtab_length, Hl; assumption).
  destruct (Nat.leb_spec j i) as [Hle|Hgt].
  - rewrite !rget_rtab by (rewrite Hl; assumption). rewrite rget_scale by assumption.
    destruct (Nat.eqb_spec i j) as [->|Hne].
    + rewrite (Hd j Hj). field. apply Rgt_not_eq. apply exp_pos.
    + destruct (Nat.ltb_spec j i); [|lia].
      destruct (Ho i j ltac:(lia) Hi) as [HU|HL]; [rewrite HU; lra | rewrite HL; lra].
  - symmetry. apply Hlow; lia.
Qed.

(* the round trip gives back L L^T — no sign condition any more *)
Lemma ucp_inverse_lemma (U L : list (list R)) i j : length U = length L ->
  (forall a b, a < b -> b < length L -> rget L a b = 0%R) ->
  (forall k, k < length L -> rget U k k = (/ 10)%R) ->
  (forall a b, b < a -> a < length L -> rget U a b = (/ 10)%R \/ rget L a b = 0%R) ->
  i < length L -> j < length L ->
  rget (rdescale U (rscale L)) i j = rget (rmmul L (rtranspose L)) i j.
Proof.
  intros Hl Hlow Hd Ho Hi Hj. unfold descale_matrix.
  set (M3 := rtril _).
  assert (HM3 : length M3 = length L) by (unfold M3; rewrite rtril_length, rtab_length; exact Hl).
  rewrite !rget_mmul by (rewrite ?HM3; assumption). rewrite HM3.
  apply rsum_ext. intros k Hk. apply in_seq in Hk.
  rewrite !rget_transpose by (rewrite ?HM3; lia).
  unfold M3. rewrite !(descale_lower U L) by (try assumption; lia). reflexivity.
Qed.

(* ---- theta part --------------------------------------------------------------------------------- *)
Lemma theta_inverse_lemma (init lower upper : R) : (lower < init)%R -> (init < upper)%R ->
  rtheta_descale (/ 10) (rtheta_scale init lower upper) lower upper = init.
Proof.
  intros H1 H2. unfold theta_descale, theta_scale.
  set (rp := ((init - lower) / (upper - lower))%R).
  assert (Hr : (0 < upper - lower)%R) by lra.
  assert (Hrp0 : (0 < rp)%R) by (unfold rp; apply Rdiv_lt_0_compat; lra).
  assert (Hrp1 : (rp < 1)%R).
  { unfold rp. apply (Rmult_lt_reg_r (upper - lower)); [exact Hr|]. unfold Rdiv. rewrite Rmult_assoc, Rinv_l by lra. lra. }
  assert (Hq : (0 < rp / (1 - rp))%R) by (apply Rdiv_lt_0_compat; lra).
  replace (/ 10 - (/ 10 - ln (rp / (1 - rp))))%R with (ln (rp / (1 - rp))) by lra.
  rewrite exp_ln by exact Hq.
  replace (rp / (1 - rp) / (1 + rp / (1 - rp)))%R with rp by (field; lra).
  unfold rp. field. lra.
Qed.
