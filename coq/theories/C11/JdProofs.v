(* PV.C11.JdProofs — lemmas about create_joint_distribution / split_joint_distribution. *)
From Coq Require Import List Bool PArith Arith Lia Permutation Reals Lra.
From PV Require Import Base.PyData Base.Expr C11.Model C11.Proofs C11.NumModel C11.NumProofs C11.JdModel.
Import ListNotations.
Local Open Scope nat_scope.

Lemma mget_Some_In (V : matrix sym) i j p : mget sym None V i j = Some p -> In (Some p) (concat V).
Proof.
  unfold mget. intros H. destruct (Nat.lt_ge_cases i (length V)) as [Hi|Hi].
  - destruct (Nat.lt_ge_cases j (length (nth i V []))) as [Hj|Hj].
    + apply in_concat. exists (nth i V []). split; [apply nth_In; exact Hi|]. rewrite <- H. apply nth_In. exact Hj.
    + rewrite (nth_overflow (nth i V []) None Hj) in H. discriminate.
  - rewrite (nth_overflow V [] Hi) in H. destruct j; discriminate.
Qed.

Lemma lookup_from_In {E} (r : coll E) x k i d : lookup_from E r x k = Some (i, d) -> In d r.
Proof.
  revert k. induction r as [|d0 tl IH]; intros k H; cbn [lookup_from] in H; [discriminate|].
  destruct (memp x (dnames d0)); [inversion H; left; reflexivity | right; eapply IH; eauto].
Qed.

Lemma variance_sym_in_syms (r : scoll) x p : variance sym None r x = Some (Some p) -> In p (syms r).
Proof.
  unfold variance, lookup. destruct (lookup_from sym r x 0) as [[i d]|] eqn:L; [|discriminate].
  intros H. apply lookup_from_In in L. unfold syms. apply in_flat_map. exists d. split; [exact L|].
  unfold dsyms. apply in_flat_map. exists (Some p). split; [|left; reflexivity].
  destruct d as [n l m v | ns l mu V]; cbn [dvariance] in H.
  - destruct (Pos.eqb x n); [|discriminate]. injection H as H1. right. left. exact H1.
  - destruct (index_of x ns) as [k|]; [|discriminate]. injection H as H1. apply in_or_app. right.
    exact (mget_Some_In V k k p H1).
Qed.

(* a selection of whole distributions lists its names in collection order *)
Lemma flat_map_filter {A B} (h : A -> bool) (g : A -> list B) (l : list A) :
  flat_map g (filter h l) = flat_map (fun a => if h a then g a else []) l.
Proof. induction l as [|a l IH]; [reflexivity|]. cbn [filter flat_map]. destruct (h a); cbn [flat_map]; rewrite IH; reflexivity. Qed.

Lemma whole_dists_in_order {E} (keep : dist E -> bool) (r : coll E) : NoDup (names r) ->
  let s := flat_map (fun d => if keep d then dnames d else []) r in
  filter (fun n => memp n s) (names r) = s.
Proof.
  induction r as [|d tl IH]; intros Hnd s; [reflexivity|].
  rewrite names_cons in *. pose proof (NoDup_app_r _ _ Hnd) as Hnd'. specialize (IH Hnd'). cbv zeta in IH.
  set (st := flat_map (fun d => if keep d then dnames d else []) tl) in *.
  assert (Hst : forall n, In n st -> In n (names tl)).
  { intros n Hn. unfold st in Hn. apply in_flat_map in Hn. destruct Hn as [d' [Hd' Hn]].
    destruct (keep d'); [|destruct Hn]. apply In_names. exists d'. split; assumption. }
  unfold s. cbn [flat_map]. fold st. rewrite filter_app. destruct (keep d).
  - f_equal.
    + apply filter_all. intros n Hn. apply memp_In. apply in_or_app. left. exact Hn.
    + transitivity (filter (fun n => memp n st) (names tl)); [|exact IH]. apply filter_ext_in. intros n Hn.
      destruct (memp n (dnames d ++ st)) eqn:M1; destruct (memp n st) eqn:M2; try reflexivity.
      * apply memp_In in M1. apply in_app_or in M1. destruct M1 as [M1|M1].
        -- exfalso. eapply NoDup_app_disj; [exact Hnd | exact M1 | exact Hn].
        -- apply memp_false_iff in M2. contradiction.
      * apply memp_In in M2. apply memp_false_iff in M1. exfalso. apply M1. apply in_or_app. right. exact M2.
  - cbn [app]. transitivity ([] ++ filter (fun n => memp n st) (names tl)); [|exact IH]. f_equal.
    destruct (filter (fun n => memp n st) (dnames d)) as [|z zs] eqn:Ez; [first [reflexivity | exact Ez]|]. exfalso.
    assert (Hz : In z (filter (fun n => memp n st) (dnames d))) by (rewrite Ez; left; reflexivity).
    apply filter_In in Hz. destruct Hz as [Hz1 Hz2]. apply memp_In in Hz2.
    eapply NoDup_app_disj; [exact Hnd | exact Hz1 | apply Hst; exact Hz2].
Qed.

Section JdFacts.
  Variable F : Type.
  Variable f0 : F.
  Variable fmul : F -> F -> F.
  Variable fsqrt : F -> F.
  Variable fround7 : F -> F.
  Variable ftenth : F.
  Variable ie_init : id -> id -> option F.
  Notation cjd := (create_joint_distribution F f0 fmul fsqrt fround7 ftenth ie_init).
  Notation split := (split_joint_distribution F).

  Lemma cjd_inv inds pn p (r r' : scoll) p' : cjd inds pn p r = Ok (r', p') ->
    exists ps, sjoin inds None (Some pn) r = Ok (r', ps) /\
      p' = p ++ map (fun q => let '(pc, pr, vrr, vcc) := q in
                      (pair_code pc pr, choose_cov_init F f0 fmul fsqrt fround7 ftenth ie_init p (sym_name vrr) (sym_name vcc))) ps.
  Proof.
    unfold create_joint_distribution.
    destruct (existsb _ inds); [discriminate|]. destruct (length inds <? 2); [discriminate|].
    destruct (sjoin inds None (Some pn) r) as [[r0 ps]|e]; [|discriminate].
    destruct (nodupb _); [|discriminate].
    intros H. inversion H; subst. exists ps. split; reflexivity.
  Qed.

  Lemma cjd_names_lemma inds pn p (r r' : scoll) p' : wf sym r = true -> cjd inds pn p r = Ok (r', p') ->
    Permutation (names r') (names r).
  Proof. intros Hwf H. destruct (cjd_inv _ _ _ _ _ _ H) as [ps [HJ _]]. eapply join_names_lemma; eauto. Qed.

  Lemma cjd_variances_lemma inds pn p (r r' : scoll) p' x : wf sym r = true -> cjd inds pn p r = Ok (r', p') ->
    In x (names r) -> variance sym None r' x = variance sym None r x.
  Proof. intros Hwf H Hx. destruct (cjd_inv _ _ _ _ _ _ H) as [ps [HJ _]]. eapply join_variances_lemma; eauto. Qed.

  Lemma cjd_outside_cov_lemma inds pn p (r r' : scoll) p' x y : wf sym r = true -> cjd inds pn p r = Ok (r', p') ->
    In x (names r) -> In y (names r) -> ~ In x inds -> ~ In y inds -> cov sym None r' x y = cov sym None r x y.
  Proof. intros Hwf H. destruct (cjd_inv _ _ _ _ _ _ H) as [ps [HJ _]]. eapply join_outside_lemma; eauto. Qed.

  (* fewer than two requested etas (in particular an empty default selection): the documented ValueError *)
  Lemma cjd_too_few_lemma inds pn p (r : scoll) : length inds < 2 -> cjd inds pn p r = Err ValueError.
  Proof.
    intros H. unfold create_joint_distribution. destruct (existsb _ inds); [reflexivity|].
    destruct (Nat.ltb_spec (length inds) 2); [reflexivity | lia].
  Qed.

  (* the old parameters are untouched; every new one carries a template name *)
  Lemma cjd_params_lemma inds pn p (r r' : scoll) p' : cjd inds pn p r = Ok (r', p') ->
    exists news, p' = p ++ news /\ forall kv, In kv news -> exists a b, fst kv = pair_code a b.
  Proof.
    intros H. destruct (cjd_inv _ _ _ _ _ _ H) as [ps [_ ->]]. eexists. split; [reflexivity|].
    intros kv Hkv. apply in_map_iff in Hkv. destruct Hkv as [[[[pc pr] vrr] vcc] [<- _]]. exists pc, pr. reflexivity.
  Qed.

  (* the new covariance symbol of two joined variables from different distributions is the template applied
     to THEIR parameter names — when the argument lists the variables in collection order *)
  Lemma cjd_new_cov_lemma inds pn p (r r' : scoll) p' x y d : wf sym r = true -> cjd inds pn p r = Ok (r', p') ->
    inds = filter (fun n => memp n inds) (names r) ->
    In x inds -> In y inds -> In d r -> In x (dnames d) -> ~ In y (dnames d) ->
    exists i j, index_of x inds = Some i /\ index_of y inds = Some j /\ i <> j /\
      cov sym None r' x y = Some (sym_mk_cov (nth (Nat.min i j) pn 1%positive) (nth (Nat.max i j) pn 1%positive)).
  Proof.
    intros Hwf H Hord Hx Hy Hd Hxd Hyd. destruct (cjd_inv _ _ _ _ _ _ H) as [ps [HJ _]].
    destruct (join_new_cov_lemma sym None sym_is_zero sym_mk_cov eq_refl inds None (Some pn) r r' ps x y d Hwf HJ Hx Hy Hd Hxd Hyd)
      as [i [j [Hi [Hj [Hne Hc]]]]].
    rewrite <- Hord in Hi, Hj. exists i, j. split; [exact Hi|]. split; [exact Hj|]. split; [exact Hne | exact Hc].
  Qed.

  (* rvs=None: the default selection lists the etas in collection order, so the covariance names follow the
     template without any further condition *)
  Variable fixed : id -> bool.
  Lemma default_rvs_in_order (r : scoll) : wf sym r = true ->
    default_rvs fixed r = filter (fun n => memp n (default_rvs fixed r)) (names r).
  Proof.
    intros Hwf. unfold default_rvs, iiv, with_levels. rewrite flat_map_filter. symmetry.
    assert (E : forall l : scoll,
              flat_map (fun a => if memp (dlevel a) [L_IIV] then (if existsb fixed (dsyms a) then [] else dnames a) else []) l =
              flat_map (fun d => if memp (dlevel d) [L_IIV] && negb (existsb fixed (dsyms d)) then dnames d else []) l).
    { intros l. apply flat_map_ext. intros a. destruct (memp (dlevel a) [L_IIV]); destruct (existsb fixed (dsyms a)); reflexivity. }
    rewrite E. apply (whole_dists_in_order (fun d => memp (dlevel d) [L_IIV] && negb (existsb fixed (dsyms d))) r (wf_NoDup sym r Hwf)).
  Qed.

  Lemma cjd_default_new_cov_lemma pn p (r r' : scoll) p' x y d : wf sym r = true ->
    create_joint_distribution_default F f0 fmul fsqrt fround7 ftenth ie_init fixed pn p r = Ok (r', p') ->
    In x (default_rvs fixed r) -> In y (default_rvs fixed r) -> In d r -> In x (dnames d) -> ~ In y (dnames d) ->
    exists i j, index_of x (default_rvs fixed r) = Some i /\ index_of y (default_rvs fixed r) = Some j /\ i <> j /\
      cov sym None r' x y = Some (sym_mk_cov (nth (Nat.min i j) pn 1%positive) (nth (Nat.max i j) pn 1%positive)).
  Proof.
    intros Hwf H. unfold create_joint_distribution_default in H.
    apply (cjd_new_cov_lemma _ pn p r r' p' x y d Hwf H). apply default_rvs_in_order. exact Hwf.
  Qed.

  (* the default selection: IIV etas only, none with a fixed parameter *)
  Lemma default_rvs_spec (r : scoll) x : In x (default_rvs fixed r) <->
    exists d, In d r /\ In x (dnames d) /\ memp (dlevel d) [L_IIV] = true /\ existsb fixed (dsyms d) = false.
  Proof.
    unfold default_rvs, iiv, with_levels. rewrite in_flat_map. split.
    - intros [d [Hd Hx]]. apply filter_In in Hd. destruct Hd as [Hd Hl]. destruct (existsb fixed (dsyms d)) eqn:Ef; [destruct Hx|].
      exists d. auto.
    - intros [d [Hd [Hx [Hl Hf]]]]. exists d. split; [apply filter_In; split; assumption|]. rewrite Hf. exact Hx.
  Qed.

  (* ---- split_joint_distribution ---- *)
  Lemma split_names_lemma inds p (r : scoll) : Permutation (names (fst (split inds p r))) (names r).
  Proof. apply unjoin_names_perm. Qed.

  Lemma split_variances_lemma inds p (r : scoll) x : wf sym r = true -> In x (names r) ->
    variance sym None (fst (split inds p r)) x = variance sym None r x.
  Proof. intros. apply unjoin_variances_lemma; assumption. Qed.

  Lemma split_params_lemma inds p (r : scoll) kv :
    In kv (snd (split inds p r)) <->
    In kv p /\ ~ (In (fst kv) (syms r) /\ ~ In (fst kv) (syms (sunjoin inds r))).
  Proof.
    unfold split_joint_distribution. cbn [snd]. rewrite filter_In. cbv beta. unfold id in *.
    rewrite <- (memp_In (fst kv) (syms r)), <- (memp_In (fst kv) (syms (sunjoin inds r))).
    destruct (memp (fst kv) (syms r)); destruct (memp (fst kv) (syms (sunjoin inds r))); cbn [andb negb];
      (split; intros [H1 H2]; (split; [exact H1|]); try reflexivity; try discriminate;
       try (intros [A B]; discriminate); try (intros [A B]; apply B; reflexivity);
       try (exfalso; apply H2; split; [reflexivity | discriminate])).
  Qed.

  Lemma split_keeps_variance_params_lemma inds p (r : scoll) x q v : wf sym r = true -> In x (names r) ->
    variance sym None r x = Some (Some q) -> In (q, v) p -> In (q, v) (snd (split inds p r)).
  Proof.
    intros Hwf Hx Hv Hp. apply split_params_lemma. split; [exact Hp|]. cbn [fst]. intros [_ Hn]. apply Hn.
    apply (variance_sym_in_syms _ x). unfold sunjoin. rewrite unjoin_variances_lemma by assumption. exact Hv.
  Qed.
End JdFacts.

(* ---- _choose_cov_param_init, individual-estimates branch, over R: when the covariance matrix built from the
   correlation of the individual estimates passes the PSD test, the initial estimate is
   round(sd2 * corr[1][0] * sd1, 7), with 0.0001 in place of an exact zero ---- *)
Lemma rget_map_map (g : R -> R) (M : list (list R)) i j : i < length M -> j < length (nth i M []) ->
  fget R 0%R (map (map g) M) i j = g (fget R 0%R M i j).
Proof.
  intros Hi Hj. unfold fget.
  rewrite (nth_indep (map _ M) [] (map g [])) by (rewrite map_length; exact Hi).
  rewrite (map_nth (map g) M [] i).
  rewrite (nth_indep (map g _) 0%R (g 0%R)) by (rewrite map_length; exact Hj).
  rewrite (map_nth g). reflexivity.
Qed.

Lemma ie_cov_init_formula_lemma (fround7 : R -> R) (small : R) (is_psd : list (list R) -> bool)
  (repair : list (list R) -> list (list R)) (p : params R) (parent1 parent2 : id) (corr : list (list R)) :
  length corr = 2 ->
  is_psd (ie_cov_matrix R 0%R Rmult sqrt Rplus ris0 small p parent1 parent2 corr) = true ->
  ie_cov_init R 0%R Rmult sqrt fround7 Rplus ris0 small is_psd repair p parent1 parent2 corr =
  fround7 (let c := (sqrt (pget R 0%R p parent2) * fget R 0%R corr 1 0 * sqrt (pget R 0%R p parent1))%R in
           if ris0 c then small else c).
Proof.
  intros Hl Hpsd. unfold ie_cov_init, nearest_psd. rewrite Hpsd. f_equal. unfold ie_cov_matrix.
  set (sd := [sqrt (pget R 0%R p parent1); sqrt (pget R 0%R p parent2)]).
  destruct (corr2cov_sq corr sd) as [CL CR].
  rewrite rget_map_map by (rewrite ?CL; try (rewrite (CR (nth 1 _ [])); [|apply nth_In; rewrite CL]); cbn; lia).
  rewrite rget_corr2cov by (cbn; lia). reflexivity.
Qed.
