(* PV.C11.JdProofs — lemmas about create_joint_distribution / split_joint_distribution. *)
From Coq Require Import List Bool PArith Arith Lia Permutation.
From PV Require Import Base.PyData Base.Expr C11.Model C11.Proofs C11.NumModel C11.JdModel.
Import ListNotations.
Local Open Scope nat_scope.

Lemma mget_Some_In (V : matrix sym) i j p : mget sym None V i j = Some p -> In (Some p) (concat V).
Proof.
  unfold mget. intros H. destruct (Nat.lt_ge_cases i (length V)) as [Hi|Hi].
  - destruct (Nat.lt_ge_cases j (length (nth i V []))) as [Hj|Hj].
    + apply in_concat. exists (nth i V []). split; [apply nth_In; exact Hi|]. rewrite <- H. apply nth_In. exact Hj.
    + rewrite (nth_overflow (nth i V []) None Hj) in H. discriminate.
  - rewrite (nth_overflow V [] Hi) in H. destruct j; discriminate.
Qed.

Lemma lookup_from_In {E} (r : coll E) x k i d : lookup_from E r x k = Some (i, d) -> In d r.
Proof.
  revert k. induction r as [|d0 tl IH]; intros k H; cbn [lookup_from] in H; [discriminate|].
  destruct (memp x (dnames d0)); [inversion H; left; reflexivity | right; eapply IH; eauto].
Qed.

Lemma variance_sym_in_syms (r : scoll) x p : variance sym None r x = Some (Some p) -> In p (syms r).
Proof.
  unfold variance, lookup. destruct (lookup_from sym r x 0) as [[i d]|] eqn:L; [|discriminate].
  intros H. apply lookup_from_In in L. unfold syms. apply in_flat_map. exists d. split; [exact L|].
  unfold dsyms. apply in_flat_map. exists (Some p). split; [|left; reflexivity].
  destruct d as [n l m v | ns l mu V]; cbn [dvariance] in H.
  - destruct (Pos.eqb x n); [|discriminate]. injection H as H1. right. left. exact H1.
  - destruct (index_of x ns) as [k|]; [|discriminate]. injection H as H1. apply in_or_app. right.
    exact (mget_Some_In V k k p H1).
Qed.

Section JdFacts.
  Variable F : Type.
  Variable f0 : F.
  Variable fmul : F -> F -> F.
  Variable fsqrt : F -> F.
  Variable fround7 : F -> F.
  Variable ftenth : F.
  Variable ie_init : id -> id -> option F.
  Notation cjd := (create_joint_distribution F f0 fmul fsqrt fround7 ftenth ie_init).
  Notation split := (split_joint_distribution F).

  Lemma cjd_inv inds pn p (r r' : scoll) p' : cjd inds pn p r = Ok (r', p') ->
    exists ps, sjoin inds None (Some pn) r = Ok (r', ps) /\
      p' = p ++ map (fun q => let '(pc, pr, vrr, vcc) := q in
                      (pair_code pc pr, choose_cov_init F f0 fmul fsqrt fround7 ftenth ie_init p (sym_name vrr) (sym_name vcc))) ps.
  Proof.
    unfold create_joint_distribution.
    destruct (existsb _ inds); [discriminate|]. destruct (length inds =? 1); [discriminate|].
    destruct (sjoin inds None (Some pn) r) as [[r0 ps]|e]; [|discriminate].
    destruct (nodupb _); [|discriminate].
    intros H. inversion H; subst. exists ps. split; reflexivity.
  Qed.

  Lemma cjd_names_lemma inds pn p (r r' : scoll) p' : wf sym r = true -> cjd inds pn p r = Ok (r', p') ->
    Permutation (names r') (names r).
  Proof. intros Hwf H. destruct (cjd_inv _ _ _ _ _ _ H) as [ps [HJ _]]. eapply join_names_lemma; eauto. Qed.

  Lemma cjd_variances_lemma inds pn p (r r' : scoll) p' x : wf sym r = true -> cjd inds pn p r = Ok (r', p') ->
    In x (names r) -> variance sym None r' x = variance sym None r x.
  Proof. intros Hwf H Hx. destruct (cjd_inv _ _ _ _ _ _ H) as [ps [HJ _]]. eapply join_variances_lemma; eauto. Qed.

  Lemma cjd_outside_cov_lemma inds pn p (r r' : scoll) p' x y : wf sym r = true -> cjd inds pn p r = Ok (r', p') ->
    In x (names r) -> In y (names r) -> ~ In x inds -> ~ In y inds -> cov sym None r' x y = cov sym None r x y.
  Proof. intros Hwf H. destruct (cjd_inv _ _ _ _ _ _ H) as [ps [HJ _]]. eapply join_outside_lemma; eauto. Qed.

  (* the old parameters are untouched; every new one carries a template name *)
  Lemma cjd_params_lemma inds pn p (r r' : scoll) p' : cjd inds pn p r = Ok (r', p') ->
    exists news, p' = p ++ news /\ forall kv, In kv news -> exists a b, fst kv = pair_code a b.
  Proof.
    intros H. destruct (cjd_inv _ _ _ _ _ _ H) as [ps [_ ->]]. eexists. split; [reflexivity|].
    intros kv Hkv. apply in_map_iff in Hkv. destruct Hkv as [[[[pc pr] vrr] vcc] [<- _]]. exists pc, pr. reflexivity.
  Qed.

  (* the new covariance symbol of two joined variables from different distributions is the template applied
     to THEIR parameter names — when the argument lists the variables in collection order *)
  Lemma cjd_new_cov_lemma inds pn p (r r' : scoll) p' x y d : wf sym r = true -> cjd inds pn p r = Ok (r', p') ->
    inds = filter (fun n => memp n inds) (names r) ->
    In x inds -> In y inds -> In d r -> In x (dnames d) -> ~ In y (dnames d) ->
    exists i j, index_of x inds = Some i /\ index_of y inds = Some j /\ i <> j /\
      cov sym None r' x y = Some (sym_mk_cov (nth (Nat.min i j) pn 1%positive) (nth (Nat.max i j) pn 1%positive)).
  Proof.
    intros Hwf H Hord Hx Hy Hd Hxd Hyd. destruct (cjd_inv _ _ _ _ _ _ H) as [ps [HJ _]].
    destruct (join_new_cov_lemma sym None sym_is_zero sym_mk_cov eq_refl inds None (Some pn) r r' ps x y d Hwf HJ Hx Hy Hd Hxd Hyd)
      as [i [j [Hi [Hj [Hne Hc]]]]].
    rewrite <- Hord in Hi, Hj. exists i, j. split; [exact Hi|]. split; [exact Hj|]. split; [exact Hne | exact Hc].
  Qed.

  (* ---- split_joint_distribution ---- *)
  Lemma split_names_lemma inds p (r : scoll) : Permutation (names (fst (split inds p r))) (names r).
  Proof. apply unjoin_names_perm. Qed.

  Lemma split_variances_lemma inds p (r : scoll) x : wf sym r = true -> In x (names r) ->
    variance sym None (fst (split inds p r)) x = variance sym None r x.
  Proof. intros. apply unjoin_variances_lemma; assumption. Qed.

  Lemma split_params_lemma inds p (r : scoll) kv :
    In kv (snd (split inds p r)) <->
    In kv p /\ ~ (In (fst kv) (syms r) /\ ~ In (fst kv) (syms (sunjoin inds r))).
  Proof.
    unfold split_joint_distribution. cbn [snd]. rewrite filter_In. cbv beta. unfold id in *.
    rewrite <- (memp_In (fst kv) (syms r)), <- (memp_In (fst kv) (syms (sunjoin inds r))).
    destruct (memp (fst kv) (syms r)); destruct (memp (fst kv) (syms (sunjoin inds r))); cbn [andb negb];
      (split; intros [H1 H2]; (split; [exact H1|]); try reflexivity; try discriminate;
       try (intros [A B]; discriminate); try (intros [A B]; apply B; reflexivity);
       try (exfalso; apply H2; split; [reflexivity | discriminate])).
  Qed.

  Lemma split_keeps_variance_params_lemma inds p (r : scoll) x q v : wf sym r = true -> In x (names r) ->
    variance sym None r x = Some (Some q) -> In (q, v) p -> In (q, v) (snd (split inds p r)).
  Proof.
    intros Hwf Hx Hv Hp. apply split_params_lemma. split; [exact Hp|]. cbn [fst]. intros [_ Hn]. apply Hn.
    apply (variance_sym_in_syms _ x). unfold sunjoin. rewrite unjoin_variances_lemma by assumption. exact Hv.
  Qed.
End JdFacts.
