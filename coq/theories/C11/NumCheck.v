(* PV.C11.NumCheck — comparison run inside Coq for the numeric side of C11.
   The numeric model is instantiated at Q; floats of the implementation are exported as exact
   rationals.  LAPACK-dependent values are taken from the implementation as tables (PSD test, Higham
   repair, Cholesky factor, square roots, exp(0.1)); the model then has to reproduce the call
   structure and the arithmetic around them (tags 31..36, tolerance 1e-9 relative for float
   arithmetic).  The property statements are evaluated on the implementation's own outputs with an
   exact rational positive-definiteness test (tags 41..47). *)
From Coq Require Import QArith Qabs List Bool PArith Arith ZArith.
From PV Require Import Base.PyData Base.Expr C11.Model C11.NumModel C11.Ldl.
Import ListNotations.
Local Open Scope nat_scope.

Notation qmatrix := (list (list Q)).

(* one Model.create / Model.replace: which attributes were given, and what the implementation answered *)
Record nstage := mkNStage {
  g_pnew : option (list (id * Q));             (* 'parameters' given: their initial estimates *)
  g_rnew : option (coll id);                   (* 'random_variables' given (entries = parameter ids) *)
  g_validate : bool;                           (* rvs.validate_parameters(inits handed to canonicalisation) *)
  g_nearest : list (id * Q);                   (* rvs.nearest_valid_parameters(the same inits) *)
  g_out : list (id * Q)                        (* the resulting model.parameters.inits *)
}.

Record ncase := mkNCase {
  n_stages : list nstage;                      (* Model.create first, then the replace history *)
  n_psd : list (qmatrix * bool);               (* block value A  ->  is_positive_semidefinite(A) *)
  n_rep : list (qmatrix * qmatrix);            (* block value A  ->  nearest_positive_semidefinite(A) *)
  n_sdcorr : option (list (id * Q));           (* rvs.parameters_sdcorr(final model inits) *)
  n_sqrt : list (Q * Q);                       (* np.sqrt as computed *)
  n_e01 : Q;                                   (* np.exp(0.1) *)
  n_tenth : Q;                                 (* the float 0.1 *)
  (* UCP of the final model: per level group (etas, epsilons): symbolic covariance matrix (None = 0),
     cholesky(A), scale, descaled matrix *)
  n_ucp : option (list (list (list (option id)) * qmatrix * qmatrix * qmatrix));
  n_from_ucp : list (id * Q);                  (* calculate_parameters_from_ucp(model, scale, all 0.1) *)
  n_free : list id                             (* names of the non-fixed parameters *)
}.

Definition qget (M : qmatrix) (i j : nat) : Q := nth j (nth i M []) 0%Q.
Definition qclose (a b : Q) : bool :=
  Qle_bool (Qabs (a - b)) ((1 # 1000000000) * (1 + Qabs b)).
Fixpoint all2 {A B} (f : A -> B -> bool) (a : list A) (b : list B) : bool :=
  match a, b with
  | [], [] => true
  | x :: a', y :: b' => f x y && all2 f a' b'
  | _, _ => false
  end.
Definition mat_eqb (A B : qmatrix) : bool := all2 (all2 Qeq_bool) A B.
Definition mat_close (A B : qmatrix) : bool := all2 (all2 qclose) A B.
Definition params_eqb (a b : list (id * Q)) : bool :=
  all2 (fun x y => Pos.eqb (fst x) (fst y) && Qeq_bool (snd x) (snd y)) a b.
Definition params_close (a b : list (id * Q)) : bool :=
  all2 (fun x y => Pos.eqb (fst x) (fst y) && qclose (snd x) (snd y)) a b.

Fixpoint tlookup {A} (t : list (qmatrix * A)) (M : qmatrix) : option A :=
  match t with
  | [] => None
  | (K, v) :: tl => if mat_eqb K M then Some v else tlookup tl M
  end.
Fixpoint qlookup (t : list (Q * Q)) (x : Q) : option Q :=
  match t with
  | [] => None
  | (k, v) :: tl => if Qeq_bool k x then Some v else qlookup tl x
  end.

(* ---- exact positive semidefiniteness over Q: the VERIFIED checker Ldl.ldl_check
   (ldl_psd_sound: ldl_check A = true -> forall x, 0 <= x^T A x) ----------------------------------- *)
Definition maxabs (M : qmatrix) : Q :=
  fold_left (fun a row => fold_left (fun a x => if Qle_bool a (Qabs x) then Qabs x else a) row a) M 0%Q.
Definition shift (M : qmatrix) (t : Q) : qmatrix :=
  map (fun ir => map (fun jx => if Nat.eqb (fst ir) (fst jx) then Qred (snd jx + t) else snd jx)
                     (combine (seq 0 (length (snd ir))) (snd ir)))
      (combine (seq 0 (length M)) M).
Definition symmetrize (M : qmatrix) : qmatrix :=
  map (fun i => map (fun j => Qred ((qget M i j + qget M j i) / 2)) (seq 0 (length M))) (seq 0 (length M)).
Definition tolQ (M : qmatrix) : Q := (1 # 100000000) * (1 + maxabs M).
(* PSD within tolerance / clearly not PSD *)
Definition psd_tol (M : qmatrix) : bool := ldl_check (shift (symmetrize M) (tolQ M)).
Definition clearly_pd (M : qmatrix) : bool := ldl_check (shift (symmetrize M) (- tolQ M)).
Definition is_symmetric (M : qmatrix) : bool :=
  forallb (fun i => forallb (fun j => qclose (qget M i j) (qget M j i)) (seq 0 (length M))) (seq 0 (length M)).

Definition tag (b : bool) (t : nat) : list nat := if b then [] else [t].

Section WithCase.
  Variable c : ncase.
  Definition q_sqrt_t (x : Q) : Q := match qlookup (n_sqrt c) x with Some v => v | None => 0%Q end.
  Definition q_is_psd (M : qmatrix) : bool := match tlookup (n_psd c) M with Some b => b | None => false end.
  Definition q_repair (M : qmatrix) : qmatrix := match tlookup (n_rep c) M with Some B => B | None => M end.
  Definition q_is0 (x : Q) : bool := Qeq_bool x 0.

  (* the model's history: (current initial estimates, current random variables) *)
  Definition step_model (st : list (id * Q) * coll id) (g : nstage) : list (id * Q) * coll id :=
    model_replace Q 0%Q q_is_psd q_repair (fst st) (snd st) (g_pnew g) (g_rnew g).
  Definition chosen (st : list (id * Q) * coll id) (g : nstage) : list (id * Q) * coll id :=
    (match g_pnew g with Some p => p | None => fst st end, match g_rnew g with Some r => r | None => snd st end).
  (* the final state as the IMPLEMENTATION reports it *)
  Definition impl_final : list (id * Q) * coll id :=
    fold_left (fun st g => (g_out g, snd (chosen st g))) (n_stages c) ([], []).
  Definition n_coll : coll id := snd impl_final.
  Definition n_model_inits : list (id * Q) := fst impl_final.
  Definition m_sdcorr (p : list (id * Q)) :=
    sdcorr_params Q 0%Q Qmult Qdiv q_sqrt_t q_is0 p n_coll.
  Definition m_scale (L : qmatrix) :=
    scale_matrix Q 0%Q Qplus Qminus Qmult Qdiv (fun _ => n_e01 c) 10%Q (n_tenth c) L.
  Definition m_descale (U Sc : qmatrix) := descale_matrix Q 0%Q Qplus Qmult (fun _ => n_e01 c) U Sc.

  Definition blocks_of (p : list (id * Q)) (r : coll id) : list qmatrix :=
    map (msubs Q 0%Q p) (joint_blocks r).

  (* ucp matrix: 0.1 for every (non-fixed) parameter symbol, the fixed value for fixed ones, 0 for a
     structural zero *)
  Definition ucp_matrix (Ms : list (list (option id))) : qmatrix :=
    map (map (fun o => match o with
                       | Some s => if memp s (n_free c) then n_tenth c else pget Q 0%Q n_model_inits s
                       | None => 0%Q end)) Ms.
  (* the value from_ucp assigns to a parameter: the LAST position holding its symbol (row-major zip) *)
  Definition last_pos (Ms : list (list (option id))) (s : id) : option (nat * nat) :=
    fold_left (fun acc ir =>
      fold_left (fun acc jo => match snd jo with
                               | Some s' => if Pos.eqb s s' then Some (fst ir, fst jo) else acc
                               | None => acc end)
                (combine (seq 0 (length (snd ir))) (snd ir)) acc)
      (combine (seq 0 (length Ms)) Ms) None.

  Definition check_ucp : list nat :=
    match n_ucp c with
    | None => []
    | Some groups =>
        flat_map (fun g =>
          let '(Ms, L, Sc, D) := g in
          let U := ucp_matrix Ms in
          tag (mat_close (m_scale L) Sc) 35 ++
          tag (mat_close (m_descale U Sc) D) 36 ++
          (* from_ucp reads the descaled matrix at the position of each symbol *)
          flat_map (fun kv => match last_pos Ms (fst kv) with
                              | Some (i, j) => if memp (fst kv) (n_free c) then tag (qclose (qget D i j) (snd kv)) 36 else []
                              | None => [] end) (n_from_ucp c) ++
          (* fact (no longer a guard): a negative entry below the diagonal of the Cholesky factor *)
          tag (negb (existsb (fun i => existsb (fun j => (j <? i) && negb (Qle_bool 0 (qget L i j)))
                                               (seq 0 (length L))) (seq 0 (length L)))) 241
        ) groups ++
        (* the property: from_ucp(scale(M), 0.1) == inits(M) for every free parameter *)
        flat_map (fun kv => if memp (fst kv) (n_free c)
                            then tag (qclose (snd kv) (pget Q 0%Q n_model_inits (fst kv))) 44 else [])
                 (n_from_ucp c)
    end.

  Definition check_sdcorr : list nat :=
    match n_sdcorr c with
    | None => []
    | Some sd =>
        tag (params_close (m_sdcorr n_model_inits) sd) 34 ++
        (* the property on the implementation's own answer: sd_i * corr_ij * sd_j gives back the block *)
        flat_map (fun V =>
          let A := msubs Q 0%Q n_model_inits V in
          let n := length V in
          tag (forallb (fun i => forallb (fun j =>
                 let name := fun a b => nth b (nth a V []) 1%positive in
                 let sdi := pget Q 0%Q sd (name i i) in let sdj := pget Q 0%Q sd (name j j) in
                 if Nat.eqb i j then qclose (sdi * sdi) (qget A i i)
                 else qclose (sdi * pget Q 0%Q sd (name i j) * sdj) (qget A i j))
               (seq 0 n)) (seq 0 n)) 43) (joint_blocks n_coll)
    end.

  (* every stage: the model (fed with the implementation's previous answer) against the implementation,
     and the property statements on the implementation's own answers *)
  Fixpoint check_stages (st : list (id * Q) * coll id) (first : bool) (gs : list nstage) : list nat :=
    match gs with
    | [] => []
    | g :: tl =>
        let '(p_in, r) := chosen st g in
        tag (Bool.eqb (validate Q 0%Q q_is_psd p_in r) (g_validate g)) 31 ++
        tag (params_eqb (nearest Q 0%Q q_is_psd q_repair p_in r) (g_nearest g)) 32 ++
        (* Model.create / Model.replace end canonicalised, whatever was replaced *)
        tag (params_eqb (fst (step_model st g)) (g_out g)) (if first then 33 else 37) ++
        (* every covariance block of the resulting initial estimates is PSD (within tolerance) *)
        tag (forallb psd_tol (blocks_of (g_out g) r)) 41 ++
        (* valid values are never altered *)
        tag (negb (g_validate g) || params_eqb p_in (g_out g)) 42 ++
        tag (g_validate g) 231 ++
        check_stages (g_out g, r) false tl
    end.

  Definition nverdict : list nat :=
    check_stages ([], []) true (n_stages c) ++
    check_sdcorr ++ check_ucp ++
    (* the implementation's PSD test against the exact test, outside the tolerance band *)
    flat_map (fun Ab => let '(A, b) := Ab in
                if is_symmetric A then
                  tag (negb (b && negb (psd_tol A))) 45 ++ tag (negb (negb b && clearly_pd A)) 45
                else []) (n_psd c) ++
    (* the repaired matrix: PSD within tolerance, symmetric; untouched when the input was PSD *)
    flat_map (fun AB => let '(A, B) := AB in
                tag (psd_tol B) 46 ++ tag (is_symmetric B) 47 ++
                (if q_is_psd A then tag (mat_eqb A B) 42 else [])) (n_rep c).
End WithCase.

(* ---- precision-matrix conversions of modeling/math.py (tags 61..67) ------------------------------------ *)
Record pcase := mkPCase {
  pc_S : qmatrix;                          (* a covariance matrix *)
  pc_inv : list (qmatrix * qmatrix);       (* np.linalg.inv as computed (looked up within 1e-9) *)
  pc_sqrt : list (Q * Q);
  pc_se_cov : list Q; pc_corr_cov : qmatrix; pc_prec_cov : qmatrix;          (* from S *)
  pc_cov_prec : qmatrix; pc_se_prec : list Q; pc_corr_prec : qmatrix;       (* from P = prec_from_cov(S) *)
  pc_cov_corrse : qmatrix; pc_prec_corrse : qmatrix                          (* from (corr_from_cov S, se_from_cov S) *)
}.
Fixpoint clookup (t : list (qmatrix * qmatrix)) (M : qmatrix) : qmatrix :=
  match t with [] => M | (K, v) :: tl => if mat_close K M then v else clookup tl M end.
Definition qclose6 (a b : Q) : bool := Qle_bool (Qabs (a - b)) ((1 # 1000000) * (1 + Qabs b)).
Definition mat_close6 (A B : qmatrix) : bool := all2 (all2 qclose6) A B.

Definition pverdict (c : pcase) : list nat :=
  let sq := fun x => match qlookup (pc_sqrt c) x with Some v => v | None => 0%Q end in
  let is0 := fun x => Qeq_bool x 0 in
  let inv := clookup (pc_inv c) in
  let S := pc_S c in
  let P := pc_prec_cov c in
  tag (all2 qclose (se_from_cov Q 0%Q sq S) (pc_se_cov c)) 61 ++
  tag (mat_close (cov2corr Q 0%Q Qmult Qdiv sq is0 S) (pc_corr_cov c)) 61 ++
  tag (mat_close (prec_from_cov Q inv S) (pc_prec_cov c)) 62 ++
  tag (mat_close (cov_from_prec Q inv P) (pc_cov_prec c)) 62 ++
  tag (all2 qclose6 (se_from_prec Q 0%Q sq inv P) (pc_se_prec c)) 63 ++
  tag (mat_close6 (corr_from_prec Q 0%Q Qmult Qdiv sq is0 inv P) (pc_corr_prec c)) 63 ++
  tag (mat_close (cov_from_corrse Q 0%Q Qplus Qmult (pc_corr_cov c) (pc_se_cov c)) (pc_cov_corrse c)) 64 ++
  tag (mat_close6 (prec_from_corrse Q 0%Q Qplus Qmult inv (pc_corr_cov c) (pc_se_cov c)) (pc_prec_corrse c)) 64 ++
  (* the property: the conversions are mutually inverse, on the implementation's own outputs *)
  tag (mat_close6 (pc_cov_corrse c) S) 65 ++
  tag (mat_close6 (pc_prec_corrse c) (pc_prec_cov c)) 66 ++
  tag (mat_close6 (pc_cov_prec c) S) 67.
