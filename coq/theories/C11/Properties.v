(* PV.C11.Properties — the property theorems of C11 (symbolic algebra part) and nothing else.
   Everything is quantified over the entry type E (any expressions), the collection, the index sets;
   [wf] is the invariant the create() constructors establish (unique names, square matrices of the
   right size, joint distributions with at least one name) and it is proved to be preserved.
   The numeric theorems follow at the end: the call structure of the PSD repair (closed), then the
   theorems over the real numbers (sd/corr, UCP), which depend on the standard axioms of Coq.Reals. *)
From Coq Require Import List Bool PArith Arith Permutation.
From Coq Require Import Reals QArith.
From PV Require Import Base.PyData Base.Expr C11.Model C11.Proofs C11.NumModel C11.NumProofs C11.JdModel C11.JdProofs C11.Ldl C11.VarParams.
Import ListNotations.
Local Open Scope nat_scope.

Section Statements.
  Variable E : Type.
  Variable zero : E.
  Variable is_zero : E -> bool.
  Variable mk_cov : id -> id -> E.

  (* ---------------- unjoin ---------------- *)
  (* the names are preserved as a multiset, for every collection and every index set *)
  Theorem unjoin_names : forall (inds : list id) (r : coll E),
    Permutation (names (unjoin E zero inds r)) (names r).
  Proof. exact (unjoin_names_perm E zero). Qed.

  (* block contiguity and exact order: block by block, an affected joint block lists first its unjoined
     names, then its remaining names (each in their old order); other blocks are untouched *)
  Theorem unjoin_blocks : forall (inds : list id) (r : coll E),
    names (unjoin E zero inds r) = flat_map (unjoin_order E inds) r.
  Proof. exact (names_unjoin E zero). Qed.

  (* the order does not change when, in every affected block, the unjoined names come first *)
  Theorem unjoin_order_kept : forall (inds : list id) (r : coll E),
    g_removed_prefix E inds r = true -> names (unjoin E zero inds r) = names r.
  Proof. exact (unjoin_keeps_order E zero). Qed.

  (* every variance is preserved *)
  Theorem unjoin_variances : forall (inds : list id) (r : coll E) (x : id),
    wf E r = true -> In x (names r) -> variance E zero (unjoin E zero inds r) x = variance E zero r x.
  Proof. exact (unjoin_variances_lemma E zero). Qed.

  (* covariances between variables that stay in their block are preserved *)
  Theorem unjoin_keeps_inblock_cov : forall (inds : list id) (r : coll E) (x y : id),
    wf E r = true -> In x (names r) -> In y (names r) -> ~ In x inds -> ~ In y inds ->
    cov E zero (unjoin E zero inds r) x y = cov E zero r x y.
  Proof. exact (unjoin_cov_kept E zero). Qed.

  (* an unjoined variable is uncorrelated with every other variable *)
  Theorem unjoin_removes_cov : forall (inds : list id) (r : coll E) (x y : id),
    wf E r = true -> In x (names r) -> In y (names r) -> In x inds -> x <> y ->
    cov E zero (unjoin E zero inds r) x y = Some zero /\ cov E zero (unjoin E zero inds r) y x = Some zero.
  Proof. exact (unjoin_cov_removed E zero). Qed.

  Theorem unjoin_preserves_wf : forall (inds : list id) (r : coll E),
    wf E r = true -> wf E (unjoin E zero inds r) = true.
  Proof. exact (unjoin_wf E zero). Qed.

  (* ---------------- rvs[container of names] ---------------- *)
  (* the selected names, in their old order *)
  Theorem getitem_names : forall (ind : list id) (r : coll E),
    wf E r = true -> names (getitem_list E zero ind r) = filter (fun n => memp n ind) (names r).
  Proof. exact (Proofs.getitem_names E zero). Qed.

  (* the selection is the marginal: all variances and covariances of the selected variables *)
  Theorem getitem_marginal : forall (ind : list id) (r : coll E) (x y : id),
    wf E r = true -> In x (names r) -> In y (names r) -> In x ind -> In y ind ->
    cov E zero (getitem_list E zero ind r) x y = cov E zero r x y.
  Proof. exact (Proofs.getitem_marginal E zero). Qed.

  Theorem getitem_preserves_wf : forall (ind : list id) (r : coll E),
    wf E r = true -> wf E (getitem_list E zero ind r) = true.
  Proof. exact (getitem_wf E zero). Qed.

  (* etas / epsilons / iiv / iov keep all covariances of the variables they keep *)
  Theorem level_filter_marginal : forall (ls : list id) (r : coll E) (x y : id),
    wf E r = true -> In x (names (with_levels E ls r)) -> In y (names (with_levels E ls r)) ->
    cov E zero (with_levels E ls r) x y = cov E zero r x y.
  Proof. exact (with_levels_cov E zero). Qed.

  (* ---------------- covariance matrix ---------------- *)
  (* _calc_covariance_matrix (zero matrix + block writes at running offsets) IS the block-diagonal
     composition of the variance matrices of the distributions *)
  Theorem cov_block_diag : forall (r : coll E),
    wf E r = true -> covariance_matrix E zero r = block_diag E zero (map (dvar E) r).
  Proof. exact (cov_block_diag_lemma E zero). Qed.

  (* ... and its (a, b) entry is the covariance of the a-th and b-th variable *)
  Theorem covariance_matrix_entries : forall (r : coll E) (a b : nat),
    wf E r = true -> a < length (names r) -> b < length (names r) ->
    cov E zero r (nth a (names r) 1%positive) (nth b (names r) 1%positive) =
    Some (mget E zero (covariance_matrix E zero r) a b).
  Proof. exact (calc_entry_cov E zero). Qed.

  (* ---------------- join ---------------- *)
  Theorem join_names : forall inds fill tmpl (r r' : coll E) ps,
    wf E r = true -> join E zero is_zero mk_cov inds fill tmpl r = Ok (r', ps) ->
    Permutation (names r') (names r).
  Proof. exact (join_names_lemma E zero is_zero mk_cov). Qed.

  (* the joined variables form one contiguous block, in their old relative order *)
  Theorem join_block : forall inds fill tmpl (r r' : coll E) ps,
    wf E r = true -> join E zero is_zero mk_cov inds fill tmpl r = Ok (r', ps) ->
    exists pre post, names r' = pre ++ filter (fun n => memp n inds) (names r) ++ post.
  Proof. exact (join_block_contiguous E zero is_zero mk_cov). Qed.

  (* every variance is preserved, unconditionally (full strength since fix a9c876f: the fill value is no
     longer written on the diagonal) *)
  Theorem join_variances : forall inds fill tmpl (r r' : coll E) ps (x : id),
    wf E r = true -> join E zero is_zero mk_cov inds fill tmpl r = Ok (r', ps) -> In x (names r) ->
    variance E zero r' x = variance E zero r x.
  Proof. exact (join_variances_lemma E zero is_zero mk_cov). Qed.

  (* covariances between variables that are both outside the join are preserved *)
  Theorem join_keeps_outside_cov : forall inds fill tmpl (r r' : coll E) ps (x y : id),
    wf E r = true -> join E zero is_zero mk_cov inds fill tmpl r = Ok (r', ps) ->
    In x (names r) -> In y (names r) -> ~ In x inds -> ~ In y inds -> cov E zero r' x y = cov E zero r x y.
  Proof. exact (join_outside_lemma E zero is_zero mk_cov). Qed.

  (* covariances between joined variables are preserved — guard: no fill/template, or the covariance
     (both orientations) is not literally 0 (see Refuted.join_inblock_refuted; documented behaviour) *)
  Theorem join_keeps_inblock_cov : forall inds fill tmpl (r r' : coll E) ps (x y : id) (e e' : E),
    wf E r = true -> join E zero is_zero mk_cov inds fill tmpl r = Ok (r', ps) ->
    In x inds -> In y inds -> cov E zero r x y = Some e -> cov E zero r y x = Some e' ->
    ((is_zero fill = true /\ tmpl = None) \/ (is_zero e = false /\ is_zero e' = false)) ->
    cov E zero r' x y = Some e.
  Proof. exact (join_inblock_lemma E zero is_zero mk_cov). Qed.

  (* a joined variable and a variable outside the join are uncorrelated afterwards *)
  Theorem join_cross_zero : forall inds fill tmpl (r r' : coll E) ps (x y : id),
    wf E r = true -> join E zero is_zero mk_cov inds fill tmpl r = Ok (r', ps) ->
    In x inds -> In y (names r) -> ~ In y inds ->
    cov E zero r' x y = Some zero /\ cov E zero r' y x = Some zero.
  Proof. exact (join_cross_lemma E zero is_zero mk_cov). Qed.

  (* two joined variables from different blocks get the fill value / the template symbol / 0 *)
  Theorem join_new_cov_is_fill : is_zero zero = true ->
    forall inds fill tmpl (r r' : coll E) ps (x y : id) (d : dist E),
    wf E r = true -> join E zero is_zero mk_cov inds fill tmpl r = Ok (r', ps) ->
    In x inds -> In y inds -> In d r -> In x (dnames d) -> ~ In y (dnames d) ->
    let nm := filter (fun n => memp n inds) (names r) in
    exists i j, index_of x nm = Some i /\ index_of y nm = Some j /\ i <> j /\
      cov E zero r' x y =
      Some (if negb (is_zero fill) then fill
            else match tmpl with
                 | Some pn => mk_cov (nth (Nat.min i j) pn 1%positive) (nth (Nat.max i j) pn 1%positive)
                 | None => zero
                 end).
  Proof. exact (join_new_cov_lemma E zero is_zero mk_cov). Qed.

  Theorem join_preserves_wf : forall inds fill tmpl (r r' : coll E) ps,
    wf E r = true -> join E zero is_zero mk_cov inds fill tmpl r = Ok (r', ps) -> wf E r' = true.
  Proof. exact (join_wf_lemma E zero is_zero mk_cov). Qed.

  (* join raises KeyError exactly when a name does not exist, and answers on every non-empty set of
     existing names (the name template can still raise IndexError when param_names is too short) *)
  Theorem join_keyerror : forall inds fill tmpl (r : coll E),
    join E zero is_zero mk_cov inds fill tmpl r = Err KeyError <-> exists x, In x inds /\ ~ In x (names r).
  Proof. exact (join_keyerror_lemma E zero is_zero mk_cov). Qed.

  Theorem join_total : forall inds fill tmpl (r : coll E),
    wf E r = true -> inds <> [] -> (forall x, In x inds -> In x (names r)) ->
    (tmpl = None \/ is_zero fill = false) ->
    exists r' ps, join E zero is_zero mk_cov inds fill tmpl r = Ok (r', ps).
  Proof. exact (join_total_lemma E zero is_zero mk_cov). Qed.

  (* ---------------- variability levels ---------------- *)
  Theorem unjoin_levels : forall (inds : list id) (r : coll E) (x : id),
    wf E r = true -> In x (names r) -> level E (unjoin E zero inds r) x = level E r x.
  Proof. exact (unjoin_level_lemma E zero). Qed.

  Theorem getitem_levels : forall (ind : list id) (r : coll E) (x : id),
    wf E r = true -> In x (names r) -> In x ind -> level E (getitem_list E zero ind r) x = level E r x.
  Proof. exact (getitem_level_lemma E zero). Qed.

  (* join gives the whole block the level of its first variable: levels are preserved when the joined
     variables share one level (a mixed-level join silently relabels; not part of the property) *)
  Theorem join_levels : forall inds fill tmpl (r r' : coll E) ps (L x : id),
    wf E r = true -> join E zero is_zero mk_cov inds fill tmpl r = Ok (r', ps) ->
    (forall z, In z inds -> level E r z = Some L) -> In x (names r) -> level E r' x = level E r x.
  Proof. exact (join_level_lemma E zero is_zero mk_cov). Qed.

  (* ---------------- subs ---------------- *)
  (* names go through the name map (order kept); create() refuses a renaming that is not injective *)
  Theorem subs_names : forall (fe : E -> E) nm (r r' : coll E),
    subs E fe nm r = Ok r' -> names r' = map (subs_name nm) (names r) /\ NoDup (names r').
  Proof. exact (subs_names_only E). Qed.

  (* every variance / covariance of the renamed variables is the substituted old one *)
  Theorem subs_cov : forall (fe : E -> E), fe zero = zero -> forall nm (r r' : coll E) (x y : id),
    wf E r = true -> subs E fe nm r = Ok r' -> In x (names r) -> In y (names r) ->
    cov E zero r' (subs_name nm x) (subs_name nm y) = option_map fe (cov E zero r x y).
  Proof. exact (subs_cov_lemma E zero). Qed.

  Theorem subs_variances : forall (fe : E -> E), fe zero = zero -> forall nm (r r' : coll E) (x : id),
    wf E r = true -> subs E fe nm r = Ok r' -> In x (names r) ->
    variance E zero r' (subs_name nm x) = option_map fe (variance E zero r x).
  Proof. exact (subs_variance_lemma E zero). Qed.

  Theorem subs_levels : forall (fe : E -> E) nm (r r' : coll E) (x : id),
    wf E r = true -> subs E fe nm r = Ok r' -> In x (names r) ->
    level E r' (subs_name nm x) = level E r x.
  Proof. exact (subs_level_lemma E). Qed.

  (* ---------------- dist[names] (JointNormalDistribution.__getitem__) ---------------- *)
  (* the marginal distribution: selected names in their order, same level, all their (co)variances *)
  Theorem dist_getitem_marginal : forall ind (d d' : dist E),
    wf_dist E d = true -> dget_list E zero ind d = Ok d' ->
    dnames d' = filter (fun n => memp n ind) (dnames d) /\ dlevel d' = dlevel d /\
    forall a b, In a (dnames d') -> In b (dnames d') -> dcov E zero d' a b = dcov E zero d a b.
  Proof. exact (dget_list_lemma E zero). Qed.

  (* ---------------- + (since fix 1b723c6 through create: unique names or ValueError) ---------------- *)
  Theorem add_names : forall (r r2 r' : coll E), add_coll E r r2 = Ok r' -> names r' = names r ++ names r2.
  Proof. exact (add_names_lemma E). Qed.

  Theorem add_error_iff : forall (r r2 : coll E), add_coll E r r2 = Err ValueError <-> ~ NoDup (names (r ++ r2)).
  Proof. exact (add_coll_error E). Qed.

  Theorem add_keeps_cov : forall (r r2 r' : coll E) (x y : id),
    add_coll E r r2 = Ok r' -> In x (names r) -> In y (names r) -> cov E zero r' x y = cov E zero r x y.
  Proof. exact (add_keeps_cov_lemma E zero). Qed.

  Theorem add_cross_zero : forall (r r2 r' : coll E) (x y : id),
    add_coll E r r2 = Ok r' -> In x (names r) -> In y (names r2) ->
    cov E zero r' x y = Some zero /\ cov E zero r' y x = Some zero.
  Proof. exact (add_cross_zero_lemma E zero). Qed.

  Theorem add_preserves_wf : forall (r r2 r' : coll E),
    wf E r = true -> wf E r2 = true -> add_coll E r r2 = Ok r' -> wf E r' = true.
  Proof. exact (add_coll_wf E). Qed.
End Statements.

(* ================= create_joint_distribution / split_joint_distribution (model level) =================
   For every number type, square root, rounding, individual-estimates oracle, parameter set, collection with
   symbolic entries, requested etas and parameter names. *)
Section JointDistribution.
  Variable F : Type.
  Variable f0 : F.
  Variable fmul : F -> F -> F.
  Variable fsqrt : F -> F.
  Variable fround7 : F -> F.
  Variable ftenth : F.
  Variable ie_init : id -> id -> option F.
  Notation cjd := (create_joint_distribution F f0 fmul fsqrt fround7 ftenth ie_init).

  Theorem cjd_names : forall inds pn p (r r' : scoll) p',
    wf sym r = true -> cjd inds pn p r = Ok (r', p') -> Permutation (names r') (names r).
  Proof. exact (cjd_names_lemma F f0 fmul fsqrt fround7 ftenth ie_init). Qed.

  Theorem cjd_variances : forall inds pn p (r r' : scoll) p' x,
    wf sym r = true -> cjd inds pn p r = Ok (r', p') -> In x (names r) ->
    variance sym None r' x = variance sym None r x.
  Proof. exact (cjd_variances_lemma F f0 fmul fsqrt fround7 ftenth ie_init). Qed.

  Theorem cjd_keeps_outside_cov : forall inds pn p (r r' : scoll) p' x y,
    wf sym r = true -> cjd inds pn p r = Ok (r', p') -> In x (names r) -> In y (names r) ->
    ~ In x inds -> ~ In y inds -> cov sym None r' x y = cov sym None r x y.
  Proof. exact (cjd_outside_cov_lemma F f0 fmul fsqrt fround7 ftenth ie_init). Qed.

  (* the existing parameters are kept as they are (names, values, order); every added parameter carries a
     name of the template 'IIV_{}_IIV_{}' *)
  Theorem cjd_parameters : forall inds pn p (r r' : scoll) p',
    cjd inds pn p r = Ok (r', p') ->
    exists news, p' = p ++ news /\ forall kv, In kv news -> exists a b, fst kv = pair_code a b.
  Proof. exact (cjd_params_lemma F f0 fmul fsqrt fround7 ftenth ie_init). Qed.

  (* the covariance symbol of two joined etas from different distributions is the template applied to the
     parameter names of THESE two etas (pn[k] belongs to inds[k]) — guard: the argument lists the etas in
     collection order (see Refuted.cjd_cov_names_refuted: finding C11-CJD-COV-PARAM-MISNAMED) *)
  Theorem cjd_cov_names_follow_template : forall inds pn p (r r' : scoll) p' x y d,
    wf sym r = true -> cjd inds pn p r = Ok (r', p') ->
    inds = filter (fun n => memp n inds) (names r) ->
    In x inds -> In y inds -> In d r -> In x (dnames d) -> ~ In y (dnames d) ->
    exists i j, index_of x inds = Some i /\ index_of y inds = Some j /\ i <> j /\
      cov sym None r' x y = Some (sym_mk_cov (nth (Nat.min i j) pn 1%positive) (nth (Nat.max i j) pn 1%positive)).
  Proof. exact (cjd_new_cov_lemma F f0 fmul fsqrt fround7 ftenth ie_init). Qed.

  (* rvs=None: the etas of the IIV distributions none of whose parameters is fixed ... *)
  Theorem cjd_default_selection : forall (fixed : id -> bool) (r : scoll) x,
    In x (default_rvs fixed r) <->
    exists d, In d r /\ In x (dnames d) /\ memp (dlevel d) [L_IIV] = true /\ existsb fixed (dsyms d) = false.
  Proof. exact default_rvs_spec. Qed.

  (* ... listed in collection order, so that with rvs=None the covariance names follow the template WITHOUT the
     guard of cjd_cov_names_follow_template (the misnaming needs an explicit argument in another order) *)
  Theorem cjd_default_in_collection_order : forall (fixed : id -> bool) (r : scoll), wf sym r = true ->
    default_rvs fixed r = filter (fun n => memp n (default_rvs fixed r)) (names r).
  Proof. exact default_rvs_in_order. Qed.

  Theorem cjd_default_cov_names_follow_template : forall (fixed : id -> bool) pn p (r r' : scoll) p' x y d,
    wf sym r = true ->
    create_joint_distribution_default F f0 fmul fsqrt fround7 ftenth ie_init fixed pn p r = Ok (r', p') ->
    In x (default_rvs fixed r) -> In y (default_rvs fixed r) -> In d r -> In x (dnames d) -> ~ In y (dnames d) ->
    exists i j, index_of x (default_rvs fixed r) = Some i /\ index_of y (default_rvs fixed r) = Some j /\ i <> j /\
      cov sym None r' x y = Some (sym_mk_cov (nth (Nat.min i j) pn 1%positive) (nth (Nat.max i j) pn 1%positive)).
  Proof. exact (cjd_default_new_cov_lemma F f0 fmul fsqrt fround7 ftenth ie_init). Qed.

  (* fewer than two etas — in particular the empty default selection when every IIV eta has a fixed parameter —
     is refused with the documented ValueError (full strength since fix 73b8b8c; it used to be an IndexError) *)
  Theorem cjd_too_few_is_valueerror : forall inds pn p (r : scoll),
    length inds < 2 -> cjd inds pn p r = Err ValueError.
  Proof. exact (cjd_too_few_lemma F f0 fmul fsqrt fround7 ftenth ie_init). Qed.

  Theorem split_names : forall inds (p : params F) (r : scoll),
    Permutation (names (fst (split_joint_distribution F inds p r))) (names r).
  Proof. exact (split_names_lemma F). Qed.

  Theorem split_variances : forall inds (p : params F) (r : scoll) x, wf sym r = true -> In x (names r) ->
    variance sym None (fst (split_joint_distribution F inds p r)) x = variance sym None r x.
  Proof. exact (split_variances_lemma F). Qed.

  (* exactly the parameters that the random variables mentioned before and do not mention any more are
     removed (i.e. the covariances that were split away), nothing else; in particular no variance parameter *)
  Theorem split_parameters : forall inds (p : params F) (r : scoll) kv,
    In kv (snd (split_joint_distribution F inds p r)) <->
    In kv p /\ ~ (In (fst kv) (syms r) /\ ~ In (fst kv) (syms (sunjoin inds r))).
  Proof. exact (split_params_lemma F). Qed.

  Theorem split_keeps_variance_parameters : forall inds (p : params F) (r : scoll) x q v,
    wf sym r = true -> In x (names r) -> variance sym None r x = Some (Some q) -> In (q, v) p ->
    In (q, v) (snd (split_joint_distribution F inds p r)).
  Proof. exact (split_keeps_variance_params_lemma F). Qed.
End JointDistribution.

(* _choose_cov_param_init, individual-estimates branch, given the correlation matrix of the two etas'
   individual estimates (input): when the covariance matrix built from it passes the PSD test (oracle), the new
   initial estimate is round(sd2 * corr[1][0] * sd1, 7), an exact zero being replaced by 0.0001 — for every
   rounding function, PSD test, repair function, parameter set and 2 x 2 correlation matrix *)
Theorem ie_cov_init_formula :
  forall (fround7 : R -> R) (small : R) (is_psd : list (list R) -> bool) (repair : list (list R) -> list (list R))
         (p : params R) (parent1 parent2 : id) (corr : list (list R)),
    length corr = 2 ->
    is_psd (ie_cov_matrix R 0%R Rmult sqrt Rplus ris0 small p parent1 parent2 corr) = true ->
    ie_cov_init R 0%R Rmult sqrt fround7 Rplus ris0 small is_psd repair p parent1 parent2 corr =
    fround7 (let c := (sqrt (pget R 0%R p parent2) * fget R 0%R corr 1 0 * sqrt (pget R 0%R p parent1))%R in
             if ris0 c then small else c).
Proof. exact ie_cov_init_formula_lemma. Qed.

(* RandomVariables.variance_parameters, for every collection with symbolic entries (shared symbols allowed):
   the answer has no repetition and lists exactly the symbols on the diagonals of the distributions ... *)
Theorem variance_parameters_exact : forall (r : scoll) (l : list id),
  variance_parameters r = Ok l ->
  NoDup l /\ forall p, In p l <-> exists d, In d r /\ In (Some p) (diag_entries d).
Proof. exact variance_parameters_lemma. Qed.

(* ... which, for a well-formed collection, are exactly the variances of its named random variables *)
Theorem variance_parameters_are_variances : forall (r : scoll) (p : id), wf sym r = true ->
  ((exists d, In d r /\ In (Some p) (diag_entries d)) <->
   exists x, In x (names r) /\ variance sym None r x = Some (Some p)).
Proof. exact diag_entries_variance. Qed.

(* ================================ numeric side ==================================================== *)

(* PSD repair, call structure only: when every covariance block passes the (oracle) PSD test,
   nearest_valid_parameters returns the values unchanged — for every number type, every PSD test and
   every repair function.  (PSD(nearest(A)) itself depends on LAPACK and is validated, not proved.) *)
Theorem nearest_valid_id :
  forall (F : Type) (f0 : F) (is_psd : list (list F) -> bool) (repair : list (list F) -> list (list F))
         (p : params F) (r : coll id),
    validate F f0 is_psd p r = true -> nearest F f0 is_psd repair p r = p.
Proof. exact nearest_valid_id_lemma. Qed.

(* Model._canonicalize_parameter_estimates never alters valid initial estimates ... *)
Theorem canonicalize_valid_id :
  forall (F : Type) (f0 : F) (is_psd : list (list F) -> bool) (repair : list (list F) -> list (list F))
         (p : params F) (r : coll id),
    validate F f0 is_psd p r = true -> canonicalize F f0 is_psd repair p r = p.
Proof. exact canonicalize_valid_id_lemma. Qed.

(* ... and is nearest_valid_parameters in every case *)
Theorem canonicalize_is_nearest :
  forall (F : Type) (f0 : F) (is_psd : list (list F) -> bool) (repair : list (list F) -> list (list F))
         (p : params F) (r : coll id),
    canonicalize F f0 is_psd repair p r = nearest F f0 is_psd repair p r.
Proof. exact canonicalize_is_nearest_lemma. Qed.

(* the exact rational PSD checker used by the oracles (fraction-free symmetric elimination, zero pivots allowed
   when their row vanishes) is sound for every size: an accepted matrix has a non-negative quadratic form *)
Theorem ldl_psd_sound :
  forall (A : list (list Q)), ldl_check A = true -> forall x : list Q, length x = length A -> (0 <= qf A x)%Q.
Proof. exact ldl_psd_sound_lemma. Qed.

(* Model.create / Model.replace: whichever of 'parameters' / 'random_variables' is replaced (both, one,
   none), the resulting initial estimates are the canonicalised pair ... *)
Theorem replace_canonicalised :
  forall (F : Type) (f0 : F) (is_psd : list (list F) -> bool) (repair : list (list F) -> list (list F))
         (p_old : params F) (r_old : coll id) (p_new : option (params F)) (r_new : option (coll id)),
    model_replace F f0 is_psd repair p_old r_old p_new r_new =
    (canonicalize F f0 is_psd repair (match p_new with Some q => q | None => p_old end)
                                     (match r_new with Some q => q | None => r_old end),
     match r_new with Some q => q | None => r_old end).
Proof. exact model_replace_canonicalised_lemma. Qed.

(* ... and they pass validate_parameters with the resulting random variables ("every model has initial
   estimates for which each covariance block is positive semidefinite"), GIVEN what the LAPACK-based
   oracles promise ([repair_ok]: the repaired matrix passes the PSD test, is symmetric along the symbol
   symmetry of the block and of the right size; blocks sharing symbols receive one value per symbol) *)
Theorem canonicalize_valid :
  forall (F : Type) (f0 : F) (is_psd : list (list F) -> bool) (repair : list (list F) -> list (list F))
         (p : params F) (r : coll id) (w : id -> F),
    repair_ok F f0 is_psd repair p r w -> validate F f0 is_psd (canonicalize F f0 is_psd repair p r) r = true.
Proof. exact canonicalize_valid_lemma. Qed.

Theorem replace_valid :
  forall (F : Type) (f0 : F) (is_psd : list (list F) -> bool) (repair : list (list F) -> list (list F))
         (p_old : params F) (r_old : coll id) (p_new : option (params F)) (r_new : option (coll id)) (w : id -> F),
    repair_ok F f0 is_psd repair (match p_new with Some q => q | None => p_old end)
                                 (match r_new with Some q => q | None => r_old end) w ->
    validate F f0 is_psd (fst (model_replace F f0 is_psd repair p_old r_old p_new r_new))
                         (snd (model_replace F f0 is_psd repair p_old r_old p_new r_new)) = true.
Proof. exact model_replace_valid_lemma. Qed.

(* covariance -> (correlation, standard deviations) -> covariance is the identity, entry by entry, for
   every real matrix with positive diagonal:
   calculate_cov_from_corrse(calculate_corr_from_cov(S), calculate_se_from_cov(S)) = S *)
Theorem sdcorr_inverse :
  forall (S : list (list R)) (i j : nat),
    (forall k, k < length S -> (0 < fget R 0%R S k k)%R) -> i < length S -> j < length S ->
    fget R 0%R (corr2cov R 0%R Rplus Rmult (cov2corr R 0%R Rmult Rdiv sqrt ris0 S) (se_from_cov R 0%R sqrt S)) i j =
    fget R 0%R S i j.
Proof. exact sdcorr_inverse_lemma. Qed.

(* the same for parameters_sdcorr on a WHOLE collection whose blocks may share parameter symbols (one eta
   block per occasion with the same omegas): the sd/corr numbers are computed from the untouched input
   values, every symbol is written with one value w, and sd_i * corr_ij * sd_j read back from the result
   is the input (co)variance of every joint block *)
Theorem sdcorr_collection_inverse :
  forall (p : params R) (r : coll id) (w : id -> R) ns l mu (V : list (list id)) (i j : nat),
    (forall ns l mu V i j, In (Joint ns l mu V) r -> i < length V -> j < vcols V ->
       fget R 0%R (sdcorr_block R 0%R Rmult Rdiv sqrt ris0 (msubs R 0%R p V)) i j = w (nth j (nth i V []) 1%positive)) ->
    (forall n l m v, In (Normal n l m v) r -> sqrt (pget R 0%R p v) = w v) ->
    In (Joint ns l mu V) r -> (forall row, In row V -> length row = length V) ->
    (forall k, k < length V -> (0 < pget R 0%R p (nth k (nth k V []) 1%positive))%R) ->
    i < length V -> j < length V ->
    let p' := sdcorr_params R 0%R Rmult Rdiv sqrt ris0 p r in
    let sd := fun k => pget R 0%R p' (nth k (nth k V []) 1%positive) in
    (if Nat.eqb i j then (sd i * sd i)%R else (sd i * pget R 0%R p' (nth j (nth i V []) 1%positive) * sd j)%R) =
    pget R 0%R p (nth j (nth i V []) 1%positive).
Proof. exact sdcorr_collection_inverse_lemma. Qed.

(* (correlation with unit diagonal, positive standard deviations) -> covariance -> back *)
Theorem corr_inverse :
  forall (C : list (list R)) (sd : list R) (i j : nat),
    length C = length sd -> (forall k, k < length sd -> fget R 0%R C k k = 1%R) ->
    (forall k, k < length sd -> (0 < nth k sd 0)%R) -> i < length sd -> j < length sd ->
    fget R 0%R (cov2corr R 0%R Rmult Rdiv sqrt ris0 (corr2cov R 0%R Rplus Rmult C sd)) i j = fget R 0%R C i j /\
    nth i (se_from_cov R 0%R sqrt (corr2cov R 0%R Rplus Rmult C sd)) 0%R = nth i sd 0%R.
Proof. exact corr_inverse_lemma. Qed.

(* precision-matrix conversions of modeling/math.py, np.linalg.inv being an arbitrary function [finv]:
   calculate_cov_from_corrse(calculate_corr_from_prec(P), calculate_se_from_prec(P)) = calculate_cov_from_prec(P) *)
Theorem cov_from_corrse_of_prec :
  forall (finv : list (list R) -> list (list R)) (P : list (list R)) (i j : nat),
    (forall k, k < length (finv P) -> (0 < fget R 0%R (finv P) k k)%R) -> i < length (finv P) -> j < length (finv P) ->
    fget R 0%R (cov_from_corrse R 0%R Rplus Rmult (corr_from_prec R 0%R Rmult Rdiv sqrt ris0 finv P)
                                (se_from_prec R 0%R sqrt finv P)) i j =
    fget R 0%R (cov_from_prec R finv P) i j.
Proof. exact cov_from_corrse_of_prec_lemma. Qed.

(* calculate_prec_from_corrse(calculate_corr_from_cov(S), calculate_se_from_cov(S)) = calculate_prec_from_cov(S) *)
Theorem prec_from_corrse_of_cov :
  forall (finv : list (list R) -> list (list R)) (S : list (list R)),
    rsq (length S) S -> (forall k, k < length S -> (0 < fget R 0%R S k k)%R) ->
    prec_from_corrse R 0%R Rplus Rmult finv (cov2corr R 0%R Rmult Rdiv sqrt ris0 S) (se_from_cov R 0%R sqrt S) =
    prec_from_cov R finv S.
Proof. exact prec_from_corrse_of_cov_lemma. Qed.

(* cov <-> prec are mutually inverse wherever the (LAPACK) inverse is an involution *)
Theorem prec_cov_roundtrip :
  forall (finv : list (list R) -> list (list R)) (P : list (list R)), finv (finv P) = P ->
    prec_from_cov R finv (cov_from_prec R finv P) = P /\ cov_from_prec R finv (prec_from_cov R finv P) = P.
Proof. exact prec_cov_roundtrip_lemma. Qed.

(* UCP round trip for a covariance matrix: with L the Cholesky factor (oracle: lower triangular), the
   scale computed by _scale_matrix and all UCPs equal to 0.1, _descale_matrix gives back L L^T — for every
   sign of the entries of L (full strength since fix 859061b: the scale keeps 10 * L_ij signed) *)
Theorem ucp_inverse :
  forall (U L : list (list R)) (i j : nat),
    length U = length L ->
    (forall a b, a < b -> b < length L -> fget R 0%R L a b = 0%R) ->
    (forall k, k < length L -> fget R 0%R U k k = (/ 10)%R) ->
    (forall a b, b < a -> a < length L -> fget R 0%R U a b = (/ 10)%R \/ fget R 0%R L a b = 0%R) ->
    i < length L -> j < length L ->
    fget R 0%R (descale_matrix R 0%R Rplus Rmult exp U
                  (scale_matrix R 0%R Rplus Rminus Rmult Rdiv exp 10%R (/ 10)%R L)) i j =
    fget R 0%R (mmul R 0%R Rplus Rmult L (transpose R 0%R L)) i j.
Proof. exact ucp_inverse_lemma. Qed.

(* UCP round trip for a bounded fixed effect: from_ucp(scale(init), 0.1) = init *)
Theorem theta_ucp_inverse :
  forall (init lower upper : R), (lower < init)%R -> (init < upper)%R ->
    theta_descale R 1%R Rplus Rminus Rmult Rdiv exp (/ 10)%R
      (theta_scale R 1%R Rminus Rdiv ln (/ 10)%R init lower upper) lower upper = init.
Proof. exact theta_inverse_lemma. Qed.
